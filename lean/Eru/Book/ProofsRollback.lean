import Eru.Book.ProofsHist
/-
Rollback lemma for C08: applying the same workload resources with Decr after Incr is accepted
and restores the usage extensionally.
-/
namespace Eru.Book
open Eru

theorem sg_not (incr : Bool) : sg (!incr) = - sg incr := by cases incr <;> rfl

/-- Applying workload resources (Incr or Decr) and then applying the same resources the other
    way: accepted, and the usage is restored on every component (zero entries treated
    extensionally) -/
theorem apply_unapply_restores (incr : Bool) (n n' : NodeInfo) (hw : WFNode n) (hv : Valid n) (ws : List WorkloadRes) (hws : ∀ w ∈ ws, WFW w)
    (h : setNodeResourceUsage n none ws true incr = .ok n') :
    ∃ n'', setNodeResourceUsage n' none ws true (!incr) = .ok n'' ∧ UsageEq n''.usage n.usage ∧ n''.capacity = n.capacity := by
  obtain ⟨hc, hw', hv', a, b, c, d, hkeys'⟩ := set_usage_spec n n' hw ws hws incr h
  obtain ⟨a2, b2, c2, d2, e2, f2, g2, _⟩ := foldl_calc (!incr) ws n'.usage hw'.uc hw'.un hws
  have hvn := (valid_iff n hw).1 hv
  have hvn' := (valid_iff n' hw').1 hv'
  have hvalid : Valid { n' with usage := ws.foldl (fun acc w => if (!incr) then acc.add w.toNodeRes else acc.sub w.toNodeRes) n'.usage } := by
    have hwm : WFNode { n' with usage := ws.foldl (fun acc w => if (!incr) then acc.add w.toNodeRes else acc.sub w.toNodeRes) n'.usage } :=
      ⟨hw'.cc, hw'.cn, e2, f2⟩
    rw [valid_iff _ hwm]
    refine ⟨hvn'.1, hvn'.2.1, ?_, ?_⟩
    · intro k hk
      have hk' : k ∈ n'.usage.cpuMap.keys := by
        rcases (mem_keys_foldl_calc (!incr) ws n'.usage k).1 hk with h1 | h1
        · exact h1
        · exact (hkeys' k).2 (Or.inr h1)
      obtain ⟨p1, p2, p3⟩ := hvn'.2.2.1 k hk'
      refine ⟨p1, p2, ?_⟩
      simp only at c2 ⊢
      rw [c2 k, c k]
      rw [sg_not, Int.neg_mul]
      by_cases hku : k ∈ n.usage.cpuMap.keys
      · have := (hvn.2.2.1 k hku).2.2
        rw [hc] at p2 p3 ⊢; omega
      · rw [get_of_not_mem_keys _ _ hku]; omega
    · intro hn id hid
      simp only at d2 ⊢
      rw [d2 id, d id]
      rw [sg_not, Int.neg_mul]
      have := hvn.2.2.2 (by rw [← hc]; exact hn) id (by rw [← hc]; exact hid)
      rw [hc]; omega
  obtain ⟨n'', h''⟩ := set_usage_ok_of_valid n' hw' ws hws (!incr) hvalid
  obtain ⟨hc'', _, _, a3, b3, c3, d3, _⟩ := set_usage_spec n' n'' hw' ws hws (!incr) h''
  refine ⟨n'', h'', ⟨?_, ?_, ?_, ?_⟩, by rw [hc'', hc]⟩
  · rw [a3, a]; rw [sg_not, Int.neg_mul]; omega
  · rw [b3, b]; rw [sg_not, Int.neg_mul]; omega
  · intro k; rw [c3, c]; rw [sg_not, Int.neg_mul]; omega
  · intro k; rw [d3, d]; rw [sg_not, Int.neg_mul]; omega

theorem incr_decr_restores (n n' : NodeInfo) (hw : WFNode n) (hv : Valid n) (ws : List WorkloadRes) (hws : ∀ w ∈ ws, WFW w)
    (h : setNodeResourceUsage n none ws true true = .ok n') :
    ∃ n'', setNodeResourceUsage n' none ws true false = .ok n'' ∧ UsageEq n''.usage n.usage ∧ n''.capacity = n.capacity :=
  apply_unapply_restores true n n' hw hv ws hws h

theorem decr_incr_restores (n n' : NodeInfo) (hw : WFNode n) (hv : Valid n) (ws : List WorkloadRes) (hws : ∀ w ∈ ws, WFW w)
    (h : setNodeResourceUsage n none ws true false = .ok n') :
    ∃ n'', setNodeResourceUsage n' none ws true true = .ok n'' ∧ UsageEq n''.usage n.usage ∧ n''.capacity = n.capacity :=
  apply_unapply_restores false n n' hw hv ws hws h

end Eru.Book

namespace Eru.Book
open Eru

/-- the usage rewritten by cobalt's per-plugin rollback -/
def rewritten (before : NodeRes) : NodeRes := ({} : NodeRes).deepCopy.add before

theorem rewritten_spec (u : NodeRes) (h1 : WF u.cpuMap) (h2 : WF u.numaMemory) :
    UsageEq (rewritten u) u ∧ WF (rewritten u).cpuMap ∧ WF (rewritten u).numaMemory ∧
    (∀ k, k ∈ (rewritten u).cpuMap.keys ↔ k ∈ u.cpuMap.keys) := by
  have e : ({} : NodeRes).deepCopy = {} := rfl
  unfold rewritten
  rw [e]
  refine ⟨⟨?_, ?_, ?_, ?_⟩, WF_mapAdd _ _ WF_nil, WF_mapAdd _ _ WF_nil, ?_⟩
  · simp [NodeRes.add]
  · simp [NodeRes.add]
  · intro k; simp only [NodeRes.add]; rw [get_mapAdd _ _ _ h1]; simp
  · intro k; simp only [NodeRes.add]; rw [get_mapAdd _ _ _ h2]; simp
  · intro k
    simp only [NodeRes.add, mapAdd]
    have := mem_keys_foldl_add_iff u.cpuMap [] id k
    simp only [id] at this
    rw [this]
    simp [Plan.keys]

/-- cobalt's rollback of the cpumem plugin after another plugin failed: accepted, and the usage
    is the one before the commit (the node afterwards is again a stored, valid node) -/
theorem rollbackUsage_spec (n n' : NodeInfo) (hw : WFNode n) (hv : Valid n) (hw' : WFNode n') (hc : n'.capacity = n.capacity) :
    WFNode (rollbackUsage n.usage n') ∧ Valid (rollbackUsage n.usage n') ∧
    UsageEq (rollbackUsage n.usage n').usage n.usage ∧ (rollbackUsage n.usage n').capacity = n.capacity := by
  obtain ⟨hue, hwc, hwn, hkeys⟩ := rewritten_spec n.usage hw.uc hw.un
  have hm : WFNode { n' with usage := rewritten n.usage } := ⟨hw'.cc, hw'.cn, hwc, hwn⟩
  have hvn := (valid_iff n hw).1 hv
  have hvalid : Valid { n' with usage := rewritten n.usage } := by
    rw [valid_iff _ hm]
    refine ⟨by simp only [hc]; exact hvn.1, ?_, ?_, ?_⟩
    · intro hn
      have := hvn.2.1 (by rw [← hc]; exact hn)
      unfold NodeInfo.numaTopoErr at this ⊢
      simp only [hc]; exact this
    · intro k hk
      simp only at hk ⊢
      have := hvn.2.2.1 k ((hkeys k).1 hk)
      rw [hc, hue.2.2.1 k]; exact this
    · intro hn id hid
      simp only at hn hid ⊢
      have := hvn.2.2.2 (by rw [← hc]; exact hn) id (by rw [← hc]; exact hid)
      rw [hc, hue.2.2.2 id]; exact this
  have hstored : setNodeResourceUsage n' (some n.usage.deepCopy) [] false false = .ok { n' with usage := rewritten n.usage } := by
    unfold setNodeResourceUsage calculateNodeResource
    simp only [Bool.not_false, if_true]
    rw [NodeRes.deepCopy_eq n.usage hw.uc hw.un]
    exact validate_of_valid _ hm hvalid
  unfold rollbackUsage
  rw [hstored]
  exact ⟨hm, hvalid, hue, hc⟩

end Eru.Book
