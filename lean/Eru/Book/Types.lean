import Eru.Basic.AssocMap
import Eru.Basic.Outcome
/-
Model of resource/plugins/cpumem/types/{cpu,node,workload}.go (after the DeepCopy fix).

Conventions (DESIGN §3): Go maps are association lists without duplicate keys (`Plan`,
observed through `get`/`has`; `m[k] += v` is `Plan.add`, which creates the key as Go does);
CPU amounts (float64 passed through `utils.Round`, 9 decimals) are `Int` nano-cores;
memory is `Int` bytes.  Nil maps never occur on the modelled paths (every stored
resource went through `Validate`, which deep-copies into non-nil maps), so nil-map
panics are not modelled.
-/
namespace Eru.Book
open Eru

abbrev IMap := Plan

/-- nano-cores per core -/
def nano : Int := 1000000000

/-- `for k, v := range c1 { c[k] += v }` (CPUMap.Add, NUMAMemory.Add) -/
def mapAdd (c c1 : IMap) : IMap := c1.foldl (fun acc kv => acc.add kv.1 kv.2) c
/-- `for k, v := range c1 { c[k] -= v }` (CPUMap.Sub, NUMAMemory.Sub) -/
def mapSub (c c1 : IMap) : IMap := c1.foldl (fun acc kv => acc.add kv.1 (-kv.2)) c
/-- `res := {}; for k, v := range c { res[k] = v }` -/
def copyMap (c : IMap) : IMap := c.foldl (fun acc kv => acc.set kv.1 kv.2) []

abbrev SMap := List (String × String)
def SMap.find? (m : SMap) (k : String) : Option String :=
  match m with
  | [] => none
  | (k', v) :: rest => if k' = k then some v else SMap.find? rest k

/-- types/node.go NodeResource -/
structure NodeRes where
  cpu : Int := 0
  cpuMap : IMap := []
  memory : Int := 0
  numaMemory : IMap := []
  numa : SMap := []
  deriving Repr, DecidableEq, Inhabited

namespace NodeRes
/-- NodeResource.DeepCopy -/
def deepCopy (r : NodeRes) : NodeRes :=
  { cpu := r.cpu, cpuMap := copyMap r.cpuMap, memory := r.memory,
    numaMemory := copyMap r.numaMemory, numa := r.numa }

/-- NodeResource.Add -/
def add (r r1 : NodeRes) : NodeRes :=
  { cpu := r.cpu + r1.cpu
    cpuMap := mapAdd r.cpuMap r1.cpuMap
    memory := r.memory + r1.memory
    numaMemory := mapAdd r.numaMemory r1.numaMemory
    numa := if r1.numa.length > 0 then r1.numa else r.numa }

/-- NodeResource.Sub -/
def sub (r r1 : NodeRes) : NodeRes :=
  { cpu := r.cpu - r1.cpu
    cpuMap := mapSub r.cpuMap r1.cpuMap
    memory := r.memory - r1.memory
    numaMemory := mapSub r.numaMemory r1.numaMemory
    numa := r.numa }
end NodeRes

/-- types/workload.go WorkloadResource -/
structure WorkloadRes where
  cpuRequest : Int := 0
  cpuLimit : Int := 0
  memoryRequest : Int := 0
  memoryLimit : Int := 0
  cpuMap : IMap := []
  numaMemory : IMap := []
  numaNode : String := ""
  deriving Repr, DecidableEq, Inhabited

namespace WorkloadRes
/-- WorkloadResource.DeepCopy (fixed: ranges over the *source* NUMA memory) -/
def deepCopy (w : WorkloadRes) : WorkloadRes :=
  { w with cpuMap := copyMap w.cpuMap, numaMemory := copyMap w.numaMemory }

/-- the defective DeepCopy before the fix (ranged over the new, empty map): kept for the
    counterexample in Props/C08 -/
def deepCopyOld (w : WorkloadRes) : WorkloadRes :=
  { w with cpuMap := copyMap w.cpuMap, numaMemory := [] }

/-- WorkloadResource.Add (CPULimit/MemoryLimit are not summed, as written) -/
def add (w w1 : WorkloadRes) : WorkloadRes :=
  { w with
    cpuRequest := w.cpuRequest + w1.cpuRequest
    memoryRequest := w.memoryRequest + w1.memoryRequest
    cpuMap := mapAdd w.cpuMap w1.cpuMap
    numaMemory := if w.numaMemory.length = 0 then w1.numaMemory else mapAdd w.numaMemory w1.numaMemory }

/-- WorkloadResource.Sub (MemoryLimit is not subtracted, as written) -/
def sub (w w1 : WorkloadRes) : WorkloadRes :=
  { w with
    cpuRequest := w.cpuRequest - w1.cpuRequest
    cpuLimit := w.cpuLimit - w1.cpuLimit
    memoryRequest := w.memoryRequest - w1.memoryRequest
    cpuMap := mapSub w.cpuMap w1.cpuMap
    numaMemory := mapSub w.numaMemory w1.numaMemory }

/-- the node-resource view used by calculateNodeResource / CalculateRealloc -/
def toNodeRes (w : WorkloadRes) : NodeRes :=
  { cpu := w.cpuRequest, cpuMap := w.cpuMap, memory := w.memoryRequest, numaMemory := w.numaMemory, numa := [] }
end WorkloadRes

/-- types/workload.go WorkloadResourceRequest (CPU in nano-cores) -/
structure Req where
  cpuBind : Bool := false
  keepCPUBind : Bool := false
  cpuRequest : Int := 0
  cpuLimit : Int := 0
  memRequest : Int := 0
  memLimit : Int := 0
  deriving Repr, DecidableEq, Inhabited

def errInvalidMemory := "invalid-memory"
def errInvalidCPU := "invalid-cpu"
def errInvalidCPUMap := "invalid-cpumap"
def errInvalidNUMACPU := "invalid-numa-cpu"
def errInvalidNUMAMemory := "invalid-numa-memory"
def errInsufficientCapacity := "insufficient-capacity"
def errInsufficientResource := "insufficient"

/-- WorkloadResourceRequest.Validate, statement by statement (one definition per
    normalising assignment, composed in `Req.validate`) -/
def Req.v1 (w : Req) : Req := if w.cpuRequest = 0 ∧ w.cpuLimit > 0 then { w with cpuRequest := w.cpuLimit } else w
def Req.v2 (w : Req) : Req := if w.memRequest = 0 ∧ w.memLimit > 0 then { w with memRequest := w.memLimit } else w
def Req.v3 (w : Req) : Req :=
  if w.memLimit > 0 ∧ w.memRequest > 0 ∧ w.memLimit < w.memRequest then { w with memLimit := w.memRequest } else w
def Req.v4 (w : Req) : Req :=
  if w.cpuRequest > 0 ∧ w.cpuLimit > 0 ∧ w.cpuLimit < w.cpuRequest then { w with cpuLimit := w.cpuRequest } else w
def Req.v5 (w : Req) : Req :=
  if w.cpuBind ∧ w.cpuRequest > 0 ∧ w.cpuLimit > 0 ∧ w.cpuLimit > w.cpuRequest then { w with cpuRequest := w.cpuLimit } else w

def Req.validate (w : Req) : Except String Req :=
  if w.v1.memLimit < 0 ∨ w.v1.memRequest < 0 then .error errInvalidMemory else
  if w.v1.cpuRequest < 0 ∨ w.v1.cpuLimit < 0 then .error errInvalidCPU else
  if w.v1.cpuRequest = 0 ∧ w.v1.cpuBind then .error errInvalidCPU else
  .ok w.v1.v2.v3.v4.v5

/-- types/node.go NodeResourceInfo (Usage is never nil on the modelled paths) -/
structure NodeInfo where
  capacity : NodeRes
  usage : NodeRes
  deriving Repr, DecidableEq, Inhabited

namespace NodeInfo
/-- first loop of Validate: every used core exists in the capacity and is not over-used -/
def cpuMapOk (n : NodeInfo) : Bool :=
  n.usage.cpuMap.all fun (cpu, used) =>
    n.capacity.cpuMap.has cpu && !(n.capacity.cpuMap.get cpu < 0) && !(used > n.capacity.cpuMap.get cpu)

/-- NUMA topology loop of Validate; `none` = no error -/
def numaTopoErr (n : NodeInfo) : Option String :=
  n.capacity.cpuMap.keys.findSome? fun cpu =>
    match n.capacity.numa.find? cpu with
    | none => some errInvalidNUMACPU
    | some id => if n.capacity.numaMemory.has id then none else some errInvalidNUMAMemory

def numaMemOk (n : NodeInfo) : Bool :=
  n.capacity.numaMemory.all fun (id, mem) =>
    !(mem < 0) && !(n.usage.numaMemory.get id < 0 || n.usage.numaMemory.get id > mem)

/-- NodeResourceInfo.Validate (returns the deep-copied info that is then stored).
    Note that memory usage is never compared with memory capacity, as written. -/
def validate (n : NodeInfo) : Except String NodeInfo :=
  if n.capacity.cpuMap.length = 0 then .error errInvalidCPUMap else
  if !n.cpuMapOk then .error errInvalidCPUMap else
  if n.capacity.numa.length > 0 then
    match n.numaTopoErr with
    | some e => .error e
    | none =>
      if !n.numaMemOk then .error errInvalidNUMAMemory
      else .ok { capacity := n.capacity.deepCopy, usage := n.usage.deepCopy }
  else .ok { capacity := n.capacity.deepCopy, usage := n.usage.deepCopy }

/-- GetAvailableResource -/
def available (n : NodeInfo) : NodeRes := n.capacity.deepCopy.sub n.usage
end NodeInfo

/-- types/cpu.go CPUPlan -/
structure CPUPlan where
  numaNode : String := ""
  cpuMap : IMap := []
  deriving Repr, DecidableEq, Inhabited

/-- types/engine.go EngineParams -/
structure EngineParams where
  cpu : Int := 0
  cpuMap : IMap := []
  numaNode : String := ""
  memory : Int := 0
  remap : Bool := false
  deriving Repr, DecidableEq, Inhabited

end Eru.Book
