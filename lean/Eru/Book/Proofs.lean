import Eru.Book.Spec
/-
Helper lemmas for the book group: Go maps as duplicate-free association lists
(`WF`), `copyMap` is the identity on them, `mapAdd`/`mapSub` act pointwise on `get` and keep
the key list when no new key is introduced.
-/
namespace Eru.Book
open Eru

/-- representation invariant of a Go map: no duplicate keys -/
def WF (m : IMap) : Prop := m.keys.Nodup

instance (m : IMap) : Decidable (WF m) := by unfold WF; exact inferInstance

theorem WF_nil : WF [] := by simp [WF, Plan.keys]

theorem keys_cons (a : String) (b : Int) (m : IMap) : Plan.keys ((a, b) :: m) = a :: Plan.keys m := rfl

theorem has_iff_mem_keys (m : IMap) (k : String) : m.has k = true ↔ k ∈ m.keys := by
  induction m with
  | nil => simp [Plan.has, Plan.keys]
  | cons p rest ih =>
    obtain ⟨a, b⟩ := p
    simp only [Plan.has, keys_cons, Bool.or_eq_true, decide_eq_true_eq, List.mem_cons, ih]
    constructor
    · rintro (h | h)
      · exact Or.inl h.symm
      · exact Or.inr h
    · rintro (h | h)
      · exact Or.inl h.symm
      · exact Or.inr h

theorem get_of_not_mem_keys (m : IMap) (k : String) (h : k ∉ m.keys) : m.get k = 0 := by
  apply Plan.get_of_not_has
  cases hh : m.has k
  · rfl
  · exact absurd ((has_iff_mem_keys m k).1 hh) h

/-- `set` on a present key keeps the key list; on an absent key appends the key -/
theorem keys_set (m : IMap) (k : String) (v : Int) :
    (m.set k v).keys = if k ∈ m.keys then m.keys else m.keys ++ [k] := by
  induction m with
  | nil => simp [Plan.set, Plan.keys]
  | cons p rest ih =>
    obtain ⟨a, b⟩ := p
    simp only [Plan.set]
    by_cases h : a = k
    · subst h; simp [keys_cons]
    · have hk : ¬ k = a := fun e => h e.symm
      simp only [h, if_false, keys_cons, ih, List.mem_cons, hk, false_or]
      split <;> simp

theorem set_of_not_mem (m : IMap) (k : String) (v : Int) (h : k ∉ m.keys) : m.set k v = m ++ [(k, v)] := by
  induction m with
  | nil => rfl
  | cons p rest ih =>
    obtain ⟨a, b⟩ := p
    simp only [keys_cons, List.mem_cons, not_or] at h
    have : ¬ a = k := fun e => h.1 e.symm
    simp [Plan.set, this, ih h.2]

theorem WF_set (m : IMap) (k : String) (v : Int) (h : WF m) : WF (m.set k v) := by
  unfold WF at *
  rw [keys_set]
  split
  · exact h
  · rename_i hk
    rw [List.nodup_append]
    refine ⟨h, by simp, ?_⟩
    intro a ha b hb
    simp only [List.mem_singleton] at hb
    subst hb
    intro e; subst e; exact hk ha

theorem WF_add (m : IMap) (k : String) (d : Int) (h : WF m) : WF (m.add k d) := WF_set _ _ _ h

theorem keys_add (m : IMap) (k : String) (d : Int) :
    (m.add k d).keys = if k ∈ m.keys then m.keys else m.keys ++ [k] := keys_set _ _ _

/-- copying a Go map entry by entry gives the same map -/
theorem foldl_set_append (m acc : IMap) (h : WF (acc ++ m)) :
    m.foldl (fun acc kv => acc.set kv.1 kv.2) acc = acc ++ m := by
  induction m generalizing acc with
  | nil => simp
  | cons p rest ih =>
    obtain ⟨a, b⟩ := p
    simp only [List.foldl_cons]
    have hna : a ∉ acc.keys := by
      unfold WF Plan.keys at h
      simp only [List.map_append, List.map_cons] at h
      rw [List.nodup_append] at h
      intro ha
      exact h.2.2 a ha a (by simp) rfl
    rw [set_of_not_mem _ _ _ hna]
    have : acc ++ (a, b) :: rest = (acc ++ [(a, b)]) ++ rest := by simp
    rw [this] at h ⊢
    exact ih _ h

theorem copyMap_eq_self (m : IMap) (h : WF m) : copyMap m = m := by
  unfold copyMap
  have := foldl_set_append m [] (by simpa using h)
  simpa using this

/-! ### pointwise behaviour of mapAdd / mapSub -/

theorem get_foldl_add (c1 c : IMap) (s : Int) (k : String) (h : WF c1) :
    (c1.foldl (fun acc kv => acc.add kv.1 (s * kv.2)) c).get k = c.get k + s * c1.get k := by
  induction c1 generalizing c with
  | nil => simp
  | cons p rest ih =>
    obtain ⟨a, b⟩ := p
    have hr : WF rest := by
      unfold WF at *; rw [keys_cons] at h; exact (List.nodup_cons.1 h).2
    have ha : a ∉ Plan.keys rest := by
      unfold WF at h; rw [keys_cons] at h; exact (List.nodup_cons.1 h).1
    simp only [List.foldl_cons, ih _ hr, Plan.get_add, Plan.get]
    by_cases e : a = k
    · subst e
      simp [get_of_not_mem_keys rest a ha]
    · simp [e]

theorem get_mapAdd (c c1 : IMap) (k : String) (h : WF c1) : (mapAdd c c1).get k = c.get k + c1.get k := by
  have := get_foldl_add c1 c 1 k h
  simpa [mapAdd] using this

theorem get_mapSub (c c1 : IMap) (k : String) (h : WF c1) : (mapSub c c1).get k = c.get k - c1.get k := by
  have := get_foldl_add c1 c (-1) k h
  simp only [Int.neg_mul, Int.one_mul] at this
  unfold mapSub
  rw [this]; omega

theorem WF_foldl_add (c1 c : IMap) (f : Int → Int) (h : WF c) :
    WF (c1.foldl (fun acc kv => acc.add kv.1 (f kv.2)) c) := by
  induction c1 generalizing c with
  | nil => simpa
  | cons p rest ih => exact ih _ (WF_add _ _ _ h)

theorem WF_mapAdd (c c1 : IMap) (h : WF c) : WF (mapAdd c c1) := WF_foldl_add c1 c id h
theorem WF_mapSub (c c1 : IMap) (h : WF c) : WF (mapSub c c1) := WF_foldl_add c1 c (fun v => -v) h

/-- adding or subtracting a map whose keys are already present keeps the key list -/
theorem keys_foldl_add (c1 c : IMap) (f : Int → Int) (h : ∀ k ∈ c1.keys, k ∈ c.keys) :
    (c1.foldl (fun acc kv => acc.add kv.1 (f kv.2)) c).keys = c.keys := by
  induction c1 generalizing c with
  | nil => rfl
  | cons p rest ih =>
    obtain ⟨a, b⟩ := p
    have ha : a ∈ c.keys := h a (by simp [keys_cons])
    have hk : (c.add a (f b)).keys = c.keys := by rw [keys_add]; simp [ha]
    simp only [List.foldl_cons]
    rw [ih _ (by intro k hk'; rw [hk]; exact h k (by simp [keys_cons, hk']))]
    exact hk

theorem keys_mapSub (c c1 : IMap) (h : ∀ k ∈ c1.keys, k ∈ c.keys) : (mapSub c c1).keys = c.keys :=
  keys_foldl_add c1 c (fun v => -v) h
theorem keys_mapAdd (c c1 : IMap) (h : ∀ k ∈ c1.keys, k ∈ c.keys) : (mapAdd c c1).keys = c.keys :=
  keys_foldl_add c1 c id h

/-- keys never disappear -/
theorem mem_keys_foldl_add (c1 c : IMap) (f : Int → Int) (k : String) (h : k ∈ c.keys) :
    k ∈ (c1.foldl (fun acc kv => acc.add kv.1 (f kv.2)) c).keys := by
  induction c1 generalizing c with
  | nil => exact h
  | cons p rest ih =>
    apply ih
    rw [keys_add]; split
    · exact h
    · exact List.mem_append_left _ h

theorem mapAdd_nil (c : IMap) : mapAdd c [] = c := rfl
theorem mapSub_nil (c : IMap) : mapSub c [] = c := rfl

/-! ### add/sub cancel (group lemmas, zero entries treated extensionally) -/

theorem mapEq_refl (a : IMap) : MapEq a a := fun _ => rfl

theorem map_add_sub_cancel (c c1 : IMap) (h : WF c1) : MapEq (mapSub (mapAdd c c1) c1) c := by
  intro k; rw [get_mapSub _ _ _ h, get_mapAdd _ _ _ h]; omega

theorem map_sub_add_cancel (c c1 : IMap) (h : WF c1) : MapEq (mapAdd (mapSub c c1) c1) c := by
  intro k; rw [get_mapAdd _ _ _ h, get_mapSub _ _ _ h]; omega

theorem mapEqB_iff (a b : IMap) : mapEqB a b = true ↔ MapEq a b := by
  unfold mapEqB MapEq
  simp only [List.all_eq_true, List.mem_append, beq_iff_eq]
  constructor
  · intro h k
    by_cases hk : k ∈ a.keys ∨ k ∈ b.keys
    · exact h k hk
    · rw [not_or] at hk
      rw [get_of_not_mem_keys a k hk.1, get_of_not_mem_keys b k hk.2]
  · intro h k _; exact h k

theorem usageEqB_iff (a b : NodeRes) : usageEqB a b = true ↔ UsageEq a b := by
  unfold usageEqB UsageEq
  simp only [Bool.and_eq_true, beq_iff_eq, mapEqB_iff]
  constructor
  · rintro ⟨⟨⟨h1, h2⟩, h3⟩, h4⟩; exact ⟨h1, h2, h3, h4⟩
  · rintro ⟨h1, h2, h3, h4⟩; exact ⟨⟨⟨h1, h2⟩, h3⟩, h4⟩

end Eru.Book
