import Eru.Book.ProofsCalc
/-
Lemmas about the sum of workload resources (getNodeResourceInfo / FixNodeResource) and about
folding workloads into a node's usage (calculateNodeResource).
-/
namespace Eru.Book
open Eru

/-- the maps of a workload resource are Go maps -/
def WFW (w : WorkloadRes) : Prop := WF w.cpuMap ∧ WF w.numaMemory

theorem sumBy_cons (w : WorkloadRes) (ws : List WorkloadRes) (f : WorkloadRes → Int) :
    sumBy (w :: ws) f = f w + sumBy ws f := by simp [sumBy]
theorem sumBy_nil (f : WorkloadRes → Int) : sumBy [] f = 0 := rfl
theorem sumBy_append (a b : List WorkloadRes) (f : WorkloadRes → Int) : sumBy (a ++ b) f = sumBy a f + sumBy b f := by
  simp [sumBy]

/-- folding `WorkloadResource.Add` over workloads, component by component -/
theorem foldl_wadd (ws : List WorkloadRes) (acc : WorkloadRes) (hacc : WFW acc) (h : ∀ w ∈ ws, WFW w) :
    let s := ws.foldl WorkloadRes.add acc
    s.cpuRequest = acc.cpuRequest + sumBy ws (·.cpuRequest) ∧
    s.memoryRequest = acc.memoryRequest + sumBy ws (·.memoryRequest) ∧
    (∀ k, s.cpuMap.get k = acc.cpuMap.get k + sumBy ws (·.cpuMap.get k)) ∧
    (∀ k, s.numaMemory.get k = acc.numaMemory.get k + sumBy ws (·.numaMemory.get k)) ∧ WFW s := by
  induction ws generalizing acc with
  | nil => simp [sumBy_nil, hacc]
  | cons w rest ih =>
    have hw : WFW w := h w (by simp)
    have hacc' : WFW (acc.add w) := by
      refine ⟨WF_mapAdd _ _ hacc.1, ?_⟩
      unfold WorkloadRes.add; simp only
      split
      · exact hw.2
      · exact WF_mapAdd _ _ hacc.2
    have := ih (acc.add w) hacc' (fun x hx => h x (by simp [hx]))
    simp only [List.foldl_cons] at this ⊢
    obtain ⟨h1, h2, h3, h4, h5⟩ := this
    refine ⟨?_, ?_, ?_, ?_, h5⟩
    · rw [h1, sumBy_cons]; simp only [WorkloadRes.add]; omega
    · rw [h2, sumBy_cons]; simp only [WorkloadRes.add]; omega
    · intro k; rw [h3, sumBy_cons]; simp only [WorkloadRes.add]; rw [get_mapAdd _ _ _ hw.1]; omega
    · intro k; rw [h4, sumBy_cons]
      have : (acc.add w).numaMemory.get k = acc.numaMemory.get k + w.numaMemory.get k := by
        unfold WorkloadRes.add; simp only
        split
        · rename_i hl
          have : acc.numaMemory = [] := List.eq_nil_of_length_eq_zero hl
          rw [this]; simp
        · exact get_mapAdd _ _ _ hw.2
      rw [this]; omega

theorem sumWorkloads_spec (ws : List WorkloadRes) (h : ∀ w ∈ ws, WFW w) :
    (sumWorkloads ws).cpuRequest = sumBy ws (·.cpuRequest) ∧
    (sumWorkloads ws).memoryRequest = sumBy ws (·.memoryRequest) ∧
    (∀ k, (sumWorkloads ws).cpuMap.get k = sumBy ws (·.cpuMap.get k)) ∧
    (∀ k, (sumWorkloads ws).numaMemory.get k = sumBy ws (·.numaMemory.get k)) ∧ WFW (sumWorkloads ws) := by
  have := foldl_wadd ws {} ⟨WF_nil, WF_nil⟩ h
  simp only at this
  obtain ⟨h1, h2, h3, h4, h5⟩ := this
  unfold sumWorkloads
  refine ⟨by rw [h1]; simp, by rw [h2]; simp, fun k => by rw [h3]; simp, fun k => by rw [h4]; simp, h5⟩

theorem mem_numaIDs (n : NodeInfo) (s : WorkloadRes) (k : String) :
    k ∈ numaIDs n s ↔ (k ∈ n.capacity.numaMemory.keys ∨ k ∈ n.usage.numaMemory.keys ∨ k ∈ s.numaMemory.keys) := by
  unfold numaIDs
  simp only [List.mem_append, List.mem_filter, Bool.and_eq_true, Bool.not_eq_true', List.contains_eq_mem, decide_eq_false_iff_not]
  by_cases h1 : k ∈ n.capacity.numaMemory.keys <;> by_cases h2 : k ∈ n.usage.numaMemory.keys <;> simp [h1, h2]

/-- no diffs reported ⇔ usage equals the workloads' sum on everything the check compares -/
theorem no_diffs_iff (n : NodeInfo) (ws : List WorkloadRes) (h : ∀ w ∈ ws, WFW w) :
    resourceDiffs n ws = [] ↔ ConsistentOn n.capacity n.usage ws := by
  obtain ⟨h1, h2, h3, h4, _⟩ := sumWorkloads_spec ws h
  unfold resourceDiffs ConsistentOn
  simp only [List.append_eq_nil_iff, List.map_eq_nil_iff, List.filter_eq_nil_iff, ite_eq_right_iff,
    reduceCtorEq, imp_false, Decidable.not_not, decide_eq_true_eq, ne_eq, h1, h2, h3]
  constructor
  · rintro ⟨⟨⟨a, b⟩, c⟩, d⟩
    refine ⟨a.symm, d, fun k hk => (b k hk).symm, fun k => ?_⟩
    by_cases hk : k ∈ numaIDs n (sumWorkloads ws)
    · rw [← h4]; exact (c k hk).symm
    · rw [mem_numaIDs] at hk
      simp only [not_or] at hk
      rw [get_of_not_mem_keys _ _ hk.2.1, ← h4, get_of_not_mem_keys _ _ hk.2.2]
  · rintro ⟨a, b, c, d⟩
    exact ⟨⟨⟨a.symm, fun k hk => (c k hk).symm⟩, fun k _ => by rw [h4]; exact (d k).symm⟩, b⟩

theorem repairedUsage_consistent (ws : List WorkloadRes) (h : ∀ w ∈ ws, WFW w) : Consistent (repairedUsage ws) ws := by
  obtain ⟨h1, h2, h3, h4, _⟩ := sumWorkloads_spec ws h
  exact ⟨h1, h2, h3, h4⟩

end Eru.Book

namespace Eru.Book
open Eru

theorem sumBy_zero (ws : List WorkloadRes) (f : WorkloadRes → Int) (h : ∀ w ∈ ws, f w = 0) : sumBy ws f = 0 := by
  induction ws with
  | nil => rfl
  | cons w rest ih =>
    rw [sumBy_cons, h w (by simp), ih (fun x hx => h x (by simp [hx]))]; rfl

theorem keys_all_iff (m : IMap) (ws : List WorkloadRes) (f : WorkloadRes → IMap) :
    ((allKeys m ws f).all fun k => m.get k == sumBy ws (fun w => (f w).get k)) = true ↔
      ∀ k, m.get k = sumBy ws (fun w => (f w).get k) := by
  simp only [List.all_eq_true, beq_iff_eq]
  constructor
  · intro h k
    by_cases hk : k ∈ allKeys m ws f
    · exact h k hk
    · unfold allKeys at hk
      simp only [List.mem_append, List.mem_flatMap, not_or, not_exists, not_and] at hk
      rw [get_of_not_mem_keys m k hk.1, sumBy_zero ws _ (fun w hw => get_of_not_mem_keys (f w) k (hk.2 w hw))]
  · intro h k _; exact h k

/-- the decidable predicate evaluated by the oracle is the `Consistent` of the theorems -/
theorem consistentB_iff (u : NodeRes) (live : List WorkloadRes) : consistentB u live = true ↔ Consistent u live := by
  unfold consistentB Consistent
  simp only [Bool.and_eq_true, beq_iff_eq]
  rw [keys_all_iff u.cpuMap live (·.cpuMap), keys_all_iff u.numaMemory live (·.numaMemory)]
  constructor
  · rintro ⟨⟨⟨a, b⟩, c⟩, d⟩; exact ⟨a, b, c, d⟩
  · rintro ⟨a, b, c, d⟩; exact ⟨⟨⟨a, b⟩, c⟩, d⟩

end Eru.Book
