import Oracle.Cluster2
/- `oracle_cluster2 <mode>`: one JSON case per stdin line, one JSON verdict per stdout line. -/
def main (args : List String) : IO UInt32 := do
  match args with
  | ["lambda"] => Oracle.serve Oracle.Cluster2.handleLambda; return 0
  | ["nodedown"] => Oracle.serve Oracle.Cluster2.NDO.handle; return 0
  | ["refinv"] => Oracle.serve Oracle.Cluster2.RIO.handle; return 0
  | ["status"] => Oracle.serve Oracle.Cluster2.DSO.handle; return 0
  | ["crash"] => Oracle.serve Oracle.Cluster2.handleCrash; return 0
  | _ => IO.eprintln "usage: oracle_cluster2 crash|lambda|nodedown|refinv|status"; return 2
