import Lean.Data.Json
import Eru.Basic.Outcome
import Eru.Basic.AssocMap
/- JSON helpers shared by the oracle drivers (not part of any model or proof). -/
namespace Oracle
open Lean

def jget (j : Json) (k : String) : Json := (j.getObjVal? k).toOption.getD Json.null
def jint (j : Json) : Int := (j.getInt?).toOption.getD 0
def jnat (j : Json) : Nat := (jint j).toNat
def jstr (j : Json) : String := (j.getStr?).toOption.getD ""
def jbool (j : Json) : Bool := (j.getBool?).toOption.getD false
def jarr (j : Json) : List Json := match j.getArr? with | .ok a => a.toList | _ => []
def jhas (j : Json) (k : String) : Bool := (j.getObjVal? k).toOption.isSome
def jobjList (j : Json) : List (String × Json) :=
  match j with
  | .obj kvs => kvs.toList
  | _ => []

def planOfJson (j : Json) : Eru.Plan := (jobjList j).map fun (k, v) => (k, jint v)
def planToJson (p : Eru.Plan) : Json := Json.mkObj (p.map fun (k, v) => (k, Json.num (JsonNumber.fromInt v)))
def ji (i : Int) : Json := Json.num (JsonNumber.fromInt i)

/-- read stdin line by line, answer one JSON line per input line -/
partial def serve (handle : Json → Json) : IO Unit := do
  let stdin ← IO.getStdin
  let stdout ← IO.getStdout
  let rec loop : IO Unit := do
    let line ← stdin.getLine
    if line.isEmpty then return ()
    let t := line.trimAscii.toString
    if t.isEmpty then loop else
    match Json.parse t with
    | .ok j => stdout.putStrLn (handle j).compress
    | .error e => stdout.putStrLn (Json.mkObj [("error", Json.str s!"parse: {e}")]).compress
    loop
  loop
  stdout.flush
end Oracle
