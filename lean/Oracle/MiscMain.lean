import Oracle.Misc
/- `oracle_misc <mode>`: one JSON case per stdin line, one JSON verdict per stdout line. -/
def main (args : List String) : IO UInt32 := do
  match args with
  | ["docker"] => Oracle.serve Oracle.Misc.DockerO.handle; return 0
  | ["names"] => Oracle.serve Oracle.Misc.NamesO.handle; return 0
  | ["sender"] => Oracle.serve Oracle.Misc.SendO.handle; return 0
  | ["helium"] => Oracle.serve Oracle.Misc.HeliumO.handle; return 0
  | _ => IO.eprintln "usage: oracle_misc docker|names|chunks|sender|helium"; return 2
