import Oracle.J
import Eru.Strategy.Spec
/- Oracle for C01–C03: runs the model on the case, compares with the implementation's
   result and evaluates the specification predicates on the implementation's plan. -/
namespace Oracle.Strategy
open Lean Oracle Eru Eru.Strategy

def infoOfJson (j : Json) : Info :=
  { name := jstr (jget j "n"), usage := jint (jget j "u"), rate := jint (jget j "r"),
    cap := jint (jget j "cap"), count := jint (jget j "count") }

def outcomeToJson : Outcome Plan → Json
  | .ok p => Json.mkObj [("ok", planToJson p)]
  | .err e => Json.mkObj [("err", Json.str e)]
  | .panic m => Json.mkObj [("panic", Json.str m)]
  | .diverge => Json.mkObj [("diverge", Json.bool true)]

def planEq (infos : List Info) (a b : Plan) : Bool :=
  infos.all (fun i => a.get i.name == b.get i.name && a.has i.name == b.has i.name) &&
  a.keys.all (fun k => b.has k) && b.keys.all (fun k => a.has k)

def isRefusal (e : String) : Bool := e == errInsufficient || e == errInsufficientCapacity

def handle (j : Json) : Json :=
  let id := jget j "id"
  let sname := jstr (jget j "strategy")
  let need := jint (jget j "need")
  let limit := jint (jget j "limit")
  let total := jint (jget j "total")
  let infos := (jarr (jget j "infos")).map infoOfJson
  let impl := jget j "impl"
  let model := deploy sname need limit infos total
  match Strat.ofString? sname with
  | none =>
    let agree := jstr (jget impl "err") == errInvalidStrategy
    Json.mkObj [("id", id), ("agree", agree), ("model", outcomeToJson model), ("spec", Json.arr #[]), ("class", "invalid-strategy")]
  | some s =>
    let n := infos.length
    let sortBased := s == .drained || s == .each || s == .fill
    let feas := feasible s infos need limit
    let unordered := jbool (jget j "unordered")
    let nozero := jbool (jget impl "nozero")
    let (agree, viol, cls) : Bool × List String × String :=
      if jhas impl "ok" then
        let p := planOfJson (jget impl "ok")
        -- cluster-level FILL cases cannot observe the zero entries of nodes already at the level
        let c01ok :=
          if nozero then
            c01Common infos p &&
            infos.all (fun i => p.get i.name == 0 || (p.get i.name == need - i.count && i.cap ≥ need - i.count)) &&
            decide (((infos.filter (fun i => p.get i.name > 0)).length : Int) ≤ effLimit infos limit)
          else c01 s infos need limit p
        let v1 := if c01ok then [] else ["C01:" ++ sname]
        let v2 := if feas then [] else ["C02:planned-when-infeasible:" ++ sname]
        -- usage/rate of cluster-level cases are rounded floats: GLOBAL's balance is only checked on exact inputs;
        -- FILL's preference needs the zero entries
        let c03ok := if unordered && (s == .global || nozero) then true else c03 s infos need limit p
        let v3 := if c03ok then [] else ["C03:" ++ sname]
        let exact := match model with | .ok m => planEq infos m p | _ => false
        -- beyond insertion-sort range the sort's tie order is unspecified, and cluster-level cases present the
        -- candidates in Go map order: accept any plan satisfying the (order-independent) specification when the
        -- model also produced a plan
        let modTies := ((sortBased && n > 12) || unordered) && model.isOk && v1.isEmpty && v2.isEmpty && v3.isEmpty
        (exact || modTies, v1 ++ v2 ++ v3, if exact then "plan" else if modTies then "plan-mod-ties" else "plan-mismatch")
      else if jhas impl "err" then
        let e := jstr (jget impl "err")
        let v2 := if isRefusal e && feas && need ≥ 1 then ["C02:refused-when-feasible:" ++ sname] else []
        let agree := match model with
          | .err e' => e == e' || (unordered && isRefusal e && isRefusal e')
          | _ => false
        (agree, v2, "err:" ++ e)
      else
        let agree := match model with | .panic _ => jhas impl "panic" | .diverge => jhas impl "timeout" | _ => false
        (agree, if need ≥ 1 then ["C01:crash:" ++ sname, "C02:crash:" ++ sname] else [], "crash")
    Json.mkObj [("id", id), ("agree", agree), ("model", outcomeToJson model),
                ("spec", Json.arr (viol.map Json.str).toArray), ("class", cls), ("feasible", feas)]

end Oracle.Strategy
