import Oracle.Book
/- `oracle_book`: one JSON case per stdin line (field `prop` selects C07/C08/C09/C15/C32),
   one JSON verdict per stdout line. -/
def main (_ : List String) : IO UInt32 := do
  Oracle.serve Oracle.Book.handle
  return 0
