import Oracle.J
import Eru.Store.EphemeralUser
/-
Oracle for the user-level C26 streams (harness/storeuser): the real `Calcium.RegisterService`
loop with injected store failures, and two real selfmon watchers on one key.  Predictions come
from `Eru/Store/EphemeralUser.lean` (`svcAttempts`, `Users.run`); the property's clauses are
evaluated on the implementation's observations.
-/
namespace Oracle.EphUser
open Lean Oracle Eru.Store.Ephemeral

/-- the attempts of one recovery: calls `from+1, from+2, …` fail while listed, then one succeeds -/
partial def attemptsFrom (fails : List Nat) (n : Nat) (fuel : Nat) : List Bool × Nat :=
  if fuel == 0 then ([false], n + 1)
  else if fails.contains (n + 1) then
    let (t, m) := attemptsFrom fails (n + 1) (fuel - 1); (true :: t, m)
  else ([false], n + 1)

/-- model of the service stream: returns (registered, reappeared per round, key gone after unregister) -/
def serviceModel (fails : List Nat) (lapses : Nat) : Bool × List Bool × Bool :=
  let s0 : Etcd := ({} : Etcd).svcAttempts 0 2 [fails.contains 1]
  -- the first registration retries only on "key exists"; an injected failure of call 1 is not generated
  let registered := s0.holdingB 0
  let (s, rounds, _) := (List.range lapses).foldl (fun (acc : Etcd × List Bool × Nat) _ =>
    let (s, rs, calls) := acc
    let s := match s.key with | some l => (s.step (.expire l)).1 | none => s
    let s := (s.step (.heartbeat 0)).1
    let (att, calls') := attemptsFrom fails calls 64
    let s := s.svcAttempts 0 2 att
    (s, rs ++ [s.holdingB 0 && s.key.isSome], calls')) (s0, [], 1)
  let sEnd := (s.step (.deregister 0)).1
  (registered, rounds, sEnd.key.isNone)

/-- model of the selfmon stream: the set of (a active, b active, key) outcomes after each round,
    for both orders in which the two watchers may retry -/
def selfmonRound (u : Users) (first second : Nat) : Users :=
  let u := match u.etcd.key with | some l => u.step (.expire l) | none => u
  let u := u.run [.heartbeat 0, .observe 0, .heartbeat 1, .observe 1]
  -- a watcher that lost its registration unregisters and goes back to the registration loop
  let u := (List.range 2).foldl (fun u p => if !(u.cs p) then u.step (.leave p) else u) u
  u.run [.register first 3, .enter first, .register second 3, .enter second]

def b2n (b : Bool) : Nat := if b then 1 else 0

def handle (j : Json) : Json :=
  let id := jget j "id"
  let kind := jstr (jget j "kind")
  let impl := jget j "impl"
  let lapses := jnat (jget j "lapses")
  if kind == "service" then
    let fails := (jarr (jget j "fails")).map jnat
    let (mReg, mRounds, mGone) := serviceModel fails lapses
    let iReg := jbool (jget impl "registered")
    let iRounds := (jarr (jget impl "reappeared")).map jbool
    let iUnreg := jbool (jget impl "unregistered")
    let iGone := jbool (jget impl "key_gone")
    let agree := iReg == mReg && iRounds == mRounds && iUnreg && iGone == mGone
    let spec :=
      (if !iReg then ["C26:etcd-service-not-registered"] else []) ++
      (if iRounds.any (!·) || iRounds.length < lapses then ["C26:etcd-service-not-reregistered"] else []) ++
      (if !iUnreg then ["C26:etcd-unregister-hangs"] else []) ++
      (if !iGone then ["C26:etcd-service-key-left"] else [])
    Json.mkObj [("id", id), ("agree", agree),
      ("model", Json.mkObj [("registered", mReg), ("reappeared", Json.arr (mRounds.map Json.bool).toArray), ("key_gone", mGone)]),
      ("spec", Json.arr (spec.map Json.str).toArray),
      ("class", Json.str (if fails.isEmpty then "service" else "service+fail")), ("trivial", Json.bool false)]
  else
    let u0 : Users := ({} : Users).run [.register 0 3, .enter 0, .register 1 3, .enter 1]
    let rounds := jarr (jget impl "rounds")
    let obs := rounds.map fun r => (jnat (jget r "a"), jnat (jget r "b"), jbool (jget r "key"))
    -- every round: the model allows exactly the outcomes of the two retry orders
    let allowed := fun (u : Users) =>
      [selfmonRound u 0 1, selfmonRound u 1 0].map fun u' => (b2n (u'.cs 0), b2n (u'.cs 1), u'.etcd.key.isSome)
    let first := (b2n (u0.cs 0), b2n (u0.cs 1), u0.etcd.key.isSome)
    let (agree, _) := (obs.drop 1).foldl (fun (acc : Bool × Users) o =>
      let (ok, u) := acc
      let outs := allowed u
      -- continue from the model state that matches the observation (or the first one)
      let u' := if o.1 == 1 then selfmonRound u 0 1 else selfmonRound u 1 0
      (ok && outs.contains o, u')) (obs.head? == some first, u0)
    let spec :=
      (if !(jbool (jget impl "a_started")) then ["C26:etcd-no-active-user"] else []) ++
      (if obs.any fun o => o.1 + o.2.1 ≥ 2 then ["C26:etcd-two-active-users"] else []) ++
      (if (obs.drop 1).any fun o => o.1 + o.2.1 == 0 || !o.2.2 then ["C26:etcd-no-active-user"] else []) ++
      (if !(jbool (jget impl "stopped")) then ["C26:etcd-watcher-not-stopped"] else [])
    Json.mkObj [("id", id), ("agree", agree && obs.length == lapses + 1 && jbool (jget impl "stopped")),
      ("model", Json.mkObj [("first", Json.str (reprStr first))]),
      ("spec", Json.arr (spec.map Json.str).toArray), ("class", Json.str "selfmon+lapse"), ("trivial", Json.bool false)]

end Oracle.EphUser
