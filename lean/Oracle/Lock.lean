import Oracle.J
import Eru.Lock.Filter
import Eru.Lock.Order
import Eru.Lock.Redis
import Eru.Lock.Etcd
import Eru.Lock.Ctx
import Eru.Lock.Spec
import Eru.Lock.ModelFacts
/- Oracle for the lock group (C18–C21): runs the model on the case, compares with the
   implementation's result and evaluates the specification predicates on the implementation's
   output. Not part of any model or proof. -/
namespace Oracle.Lock
open Lean Oracle Eru Eru.Lock

def strs (j : Json) : List String := (jarr j).map jstr
def labelsOf (j : Json) : List (String × String) := (jobjList j).map fun (k, v) => (k, jstr v)

def nodeOfJson (j : Json) : Node :=
  { name := jstr (jget j "n"), pod := jstr (jget j "pod"), labels := labelsOf (jget j "labels"),
    available := jbool (jget j "up"), bypass := jbool (jget j "bypass") }

def nfOfJson (j : Json) : NodeFilter :=
  { podname := jstr (jget j "pod"), includes := strs (jget j "inc"), excludes := strs (jget j "exc"),
    labels := labelsOf (jget j "labels"), all := jbool (jget j "all") }

def jstrs (l : List String) : Json := Json.arr (l.map Json.str).toArray

def verdict (id : Json) (agree : Bool) (model : Json) (viol : List String) (cls : String) (trivial : Bool := false) : Json :=
  Json.mkObj [("id", id), ("agree", agree), ("model", model), ("spec", jstrs viol), ("class", cls), ("trivial", trivial)]

/-! ### C21 -/
def handleFilter (j : Json) : Json :=
  let id := jget j "id"
  let st := (jarr (jget j "nodes")).map nodeOfJson
  let nf := nfOfJson (jget j "nf")
  let impl := jget j "impl"
  let model := filterNodes st nf
  let shape := (if nf.includes.length ≠ 0 then "inc" else "pod") ++
    (if nf.includes.length ≠ 0 ∧ (sortStrings nf.includes ≠ nf.includes ∨ !strictAsc nf.includes) then "-dup-or-unsorted" else "") ++
    (if nf.includes.length = 0 ∧ nf.excludes.length ≠ 0 then "-exc" else "") ++
    (if nf.includes.length = 0 ∧ nf.labels.length ≠ 0 then "-labels" else "") ++
    (if nf.includes.length = 0 ∧ nf.all then "-all" else "")
  match model with
  | .ok ns =>
    let names := ns.map (·.name)
    if jhas impl "ok" then
      let out := strs (jget impl "ok")
      verdict id (out == names) (Json.mkObj [("ok", jstrs names)]) (filterViolations st nf out) ("sel-" ++ shape) (names.length < 1)
    else
      verdict id false (Json.mkObj [("ok", jstrs names)])
        (if jhas impl "err" then ["C21:refused:" ++ jstr (jget impl "err")] else ["C21:crash"]) "mismatch"
  | .err e =>
    if jhas impl "err" then
      verdict id true (Json.mkObj [("err", Json.str e)]) [] ("err-" ++ shape)
    else if jhas impl "ok" then
      verdict id false (Json.mkObj [("err", Json.str e)]) ["C21:selected-nonexistent-include"] "mismatch"
    else verdict id false (Json.mkObj [("err", Json.str e)]) ["C21:crash"] "mismatch"
  | _ => verdict id false Json.null [] "model-crash"

/-! ### C20 -/
def stripPrefix? (s p : String) : Option String :=
  if s.startsWith p then some (s.drop p.length).toString else none

def parseKey (s : String) : Key :=
  match stripPrefix? s (groupPrefix gPod) with
  | some r => ⟨gPod, r⟩
  | none => match stripPrefix? s (groupPrefix gWorkload) with
    | some r => ⟨gWorkload, r⟩
    | none => match stripPrefix? s (groupPrefix gNodeOp) with
      | some r => ⟨gNodeOp, r⟩
      | none => ⟨3, s⟩

def renderKey (k : Key) : String := k.render

def evOfJson (j : Json) : Ev Key :=
  match jarr j with
  | [a, k] => if jstr a == "acq" then .acq (parseKey (jstr k)) else .rel (parseKey (jstr k))
  | _ => .rel ⟨9, "?"⟩

def evToStr : Ev Key → String
  | .acq k => "+" ++ renderKey k
  | .rel k => "-" ++ renderKey k

def traceToStr (t : Trace) : String := " ".intercalate (t.map evToStr)

def worldOfJson (j : Json) : World :=
  { nodes := (jarr (jget j "nodes")).map nodeOfJson,
    workloads := (jarr (jget j "workloads")).map fun x => (jstr (jget x "id"), jstr (jget x "node")) }

def opOfJson (j : Json) : Option Op :=
  let nf := nfOfJson (jget j "nf")
  let ids := strs (jget j "ids")
  match jstr (jget j "kind") with
  | "create" => some (.create nf (strs (jget j "rollback")) (strs (jget j "deployed")))
  | "capacity" => some (.capacity nf)
  | "removepod" => some (.removePod (jstr (jget j "pod")))
  | "node" => some (.nodeLocked (jstr (jget j "node")))
  | "remove" => some (.remove ids)
  | "realloc" => some (.realloc (jstr (jget j "wid")))
  | "each" => some (.workloadEach ids (jbool (jget j "ignore")))
  | "replace" => some (.replace ids)
  | "remap" => some (.remap (jstr (jget j "node")))
  | "nodespod" => some (.nodesPod nf)
  | "nodesop" => some (.nodesOp nf)
  | "workloads" => some (.workloads ids (jbool (jget j "ignore")))
  | _ => none

def isNodeOpOnly (t : Trace) : Bool :=
  t.all fun e => match e with | .acq k => k.group == gNodeOp | .rel k => k.group == gNodeOp

/-- remove `x` once -/
def eraseOnce (x : String) : List String → Option (List String)
  | [] => none
  | y :: ys => if x == y then some ys else (eraseOnce x ys).map (y :: ·)

/-- impl episodes must be: all required model episodes + a sub-multiset of the optional ones -/
def matchEpisodes (impl required optional : List String) : Bool :=
  match required.foldl (fun acc r => acc.bind (eraseOnce r)) (some impl) with
  | none => false
  | some rest => (rest.foldl (fun acc r => acc.bind (eraseOnce r)) (some optional)).isSome

/-- the order of releases is irrelevant to the property (and `doUnlockAll` falls back to map order
    when an acquisition failed): sort every maximal run of releases before comparing -/
def normRel (t : Trace) : List String :=
  let rec go (acc : List String) (run : List String) : Trace → List String
    | [] => acc ++ sortStrings run
    | .rel k :: rest => go acc (("-" ++ renderKey k) :: run) rest
    | .acq k :: rest => go (acc ++ sortStrings run ++ ["+" ++ renderKey k]) [] rest
  go [] [] t

def normStr (t : Trace) : String := " ".intercalate (normRel t)

def handleNesting (j : Json) : Json :=
  let id := jget j "id"
  let sites := strs (jget (jget j "impl") "sites")
  let expected := nestingTable.map Site.render
  let bad := sites.filter fun s =>
    match (s.splitOn ":").getLast? with
    | some pair => match pair.splitOn ">" with
      | [o, i] => !allowedNesting o i
      | _ => true
    | none => true
  verdict id (sites == expected) (jstrs expected) (bad.map ("C20:nesting:" ++ ·)) "nesting" false

def handleOrder (j : Json) : Json :=
  if jstr (jget j "op") == "nesting" then handleNesting j else
  let id := jget j "id"
  let w := worldOfJson j
  let implEps : List Trace := ((jarr (jget (jget j "impl") "episodes")).map fun e => (jarr e).map evOfJson).filter (· ≠ [])
  let viol := (implEps.flatMap traceViolations).eraseDups
  let failAt : Option Nat := if jhas j "fail" then (let f := jint (jget j "fail"); if f ≥ 0 then some f.toNat else none) else none
  match opOfJson j with
  | none => verdict id false Json.null viol "unknown-kind"
  | some op0 =>
    -- create: which nodes got workloads (hence a remap goroutine) depends on the strategy; take the set
    -- from the recorded remap episodes, insist that it lies within the selected nodes, then compare exactly
    let selected : List String := match op0 with
      | .create nf _ _ => match filterNodes w.nodes nf with | .ok ns => ns.map (·.name) | _ => []
      | _ => []
    let remapped : List String := (w.nodes.filter fun n =>
      implEps.any fun t => isNodeOpOnly t && t == withNodeOperationLocked w n.name []).map (·.name)
    let strayRemap := match op0 with
      | .create .. => !(remapped.all selected.contains)
      | _ => false
    let op := match op0 with
      | .create nf rb _ => Op.create nf rb remapped
      | o => o
    if strayRemap then verdict id false Json.null viol "locks-create-stray-remap" else
    let eps0 := (episodes w op).filter (· ≠ [])
    let eps := match failAt with
      | some k => (eps0.map (failTrunc k)).filter (· ≠ [])
      | none => eps0
    -- remap goroutines (node-operation-only episodes next to others) may or may not have been reached
    let optional := match op with
      | .remove _ => eps.filter isNodeOpOnly
      | .realloc _ => eps.filter isNodeOpOnly
      | .replace _ => eps.filter isNodeOpOnly
      | _ => []
    let required := match op with
      | .remove _ => eps.filter (!isNodeOpOnly ·)
      | .realloc _ => eps.filter (!isNodeOpOnly ·)
      | .replace _ => eps.filter (!isNodeOpOnly ·)
      | _ => eps
    let agree := matchEpisodes (implEps.map normStr) (required.map normStr) (optional.map normStr)
    let nacq (t : Trace) : Nat := (t.filter fun e => match e with | .acq _ => true | _ => false).length
    let nlocks := (implEps.map nacq).foldl (· + ·) 0
    let multi := implEps.any fun t => nacq t ≥ 2
    verdict id agree (jstrs (eps.map traceToStr)) viol
      ("locks-" ++ jstr (jget j "kind") ++ (if failAt.isSome then "-fail" else "") ++
        (if multi then "-multi" else if nlocks == 0 then "-none" else "-single")) (nlocks == 0)

end Oracle.Lock

/-! ### C18 / C19: scripted schedules on real lock objects -/
namespace Oracle.Lock
open Lean Oracle Eru Eru.Lock

structure SCmd where
  op : String
  c : Nat
  dt : Nat

def scmdOfJson (j : Json) : SCmd := { op := jstr (jget j "op"), c := jnat (jget j "c"), dt := jnat (jget j "dt") }

def redisCmd (c : SCmd) : Option Redis.Cmd :=
  match c.op with
  | "lock" => some (.lock c.c) | "trylock" => some (.tryLock c.c) | "unlock" => some (.unlock c.c)
  | "ff" => some (.ff c.dt) | "lockasync" => some (.lockAsync c.c) | "join" => some (.join c.c)
  | "observe" => some (.observe c.c) | "cancelctx" => some (.cancelCtx c.c)
  | _ => none

def etcdCmd (c : SCmd) : Option Etcd.Cmd :=
  match c.op with
  | "lock" => some (.lock c.c) | "trylock" => some (.tryLock c.c) | "unlock" => some (.unlock c.c)
  | "lockasync" => some (.lockAsync c.c) | "join" => some (.join c.c)
  | "revoke" => some (.revoke c.c) | "observe" => some (.observe c.c)
  | "sleep" => some (.sleep c.dt) | "cancelctx" => some (.cancelCtx c.c)
  | "expire" => some (.revoke c.c)   -- keepalive stopped, the lease ran out by itself: same transition
  | _ => none

def opOf (s : String) : Spec.Op :=
  match s with
  | "lock" => .lock | "trylock" => .tryLock | "unlock" => .unlock | "ff" => .ff | "lockasync" => .lockAsync
  | "join" => .join | "revoke" => .revoke | "expire" => .revoke | "observe" => .observe | "sleep" => .sleep | _ => .unknown

def outOf (s : String) : Spec.Out :=
  match s with
  | "acquired" => .acquired
  | "not-obtained" => .refused | "locked" => .refused | "timeout" => .refused | "session-expired" => .refused
  | "blocked" => .blocked | "ctx-live" => .ctxLive | "ctx-session-done" => .ctxDone | "ctx-cancelled" => .ctxPlain
  | _ => .other

def flagOf (s : String) : Spec.Flag :=
  match s with
  | "slow" => .slow | "early" => .early | "late" => .late | _ => .none

def handleMultiKey (j : Json) : Json :=
  let id := jget j "id"
  let n := jnat (jget j "nkeys")
  let lose := jnat (jget j "lose")
  let lost := (List.range n).map (· == lose)
  let model := match Ctx.seen false lost with
    | .live => "ctx-live" | .sessionDone => "ctx-session-done" | .cancelled => "ctx-cancelled"
  let impl := jget j "impl"
  let res := (strs (jget impl "res")).headD "?"
  let flag := (strs (jget impl "flags")).headD ""
  let viol := Spec.multiKeyViol lost (res == "ctx-live") (flag == "slow")
  verdict id (res == model && !jhas impl "err" && !jhas impl "panic" && !jhas impl "timeout") (Json.str model) viol
    ("etcd-loss-multikey-" ++ jstr (jget j "helper")) false

def handleSched (j : Json) : Json :=
  if jstr (jget j "kind") == "multikey" then handleMultiKey j else
  let id := jget j "id"
  let backend := jstr (jget j "backend")
  let redis := backend == "redis"
  let ttl := jnat (jget j "ttl_ms")
  let wait := if jhas j "wait_ms" then jnat (jget j "wait_ms") else ttl
  let n := jnat (jget j "clients")
  let cmds := (jarr (jget j "cmds")).map scmdOfJson
  let impl := jget j "impl"
  let ires := strs (jget impl "res")
  let islow : List String :=
    if jhas impl "flags" then strs (jget impl "flags")
    else (jarr (jget impl "slow")).map fun b => if jbool b then "slow" else ""
  let model : List String :=
    if redis then
      (Redis.replay (Facts.redisParams ttl wait) Redis.init (cmds.filterMap redisCmd)).map Redis.Res.str
    else
      (Etcd.replay ttl Etcd.init (cmds.filterMap etcdCmd)).map Etcd.Res.str
  let wellFormed := if redis then cmds.all (fun c => (redisCmd c).isSome) else cmds.all (fun c => (etcdCmd c).isSome)
  let agree := wellFormed && model == ires && !jhas impl "panic"
  let scmds : List Spec.SCmd := cmds.map fun c => ⟨opOf c.op, c.c, c.dt⟩
  let fin := Spec.specRun redis ttl wait Facts.redisRetryIntervalMs {} scmds (ires.map outOf) (islow.map flagOf)
  let hasAsync := cmds.any (·.op == "lockasync")
  let hasLoss := cmds.any (fun c => c.op == "revoke" || c.op == "observe" || c.op == "expire")
  let contended := ires.any (fun r => r == "not-obtained" || r == "locked" || r == "timeout" || r == "blocked")
  let cls := backend ++ (if hasLoss then "-loss" else if hasAsync then "-overlap" else "-seq") ++
    (if contended then "-contended" else "") ++ (if fin.overlap then "-lease-gone" else "")
  let _ := n
  -- etcd schedules in which a holder's lease expired without the script revoking it (the machine
  -- stalled for a whole TTL, three times in a row) say nothing about the code: not judged
  if jbool (jget impl "perturbed") then verdict id true (jstrs model) [] "perturbed" true else
  -- three runs in a row violated the schedule's real-time assumptions (calls that do not wait by
  -- design took > 300 ms, client-side deadlines hit): mutual exclusion and missing loss signals are still judged on the results,
  -- outcome equality and the timing clauses are not
  if jbool (jget impl "timing_off") then
    let v := ((Spec.specRun redis ttl wait Facts.redisRetryIntervalMs {} scmds (ires.map outOf) (islow.map flagOf)).viol.eraseDups).filter fun x =>
      x == "C18:two-holders-within-lease" || x == "C19:redis-ttl-expiry-not-signalled" || x == "C19:etcd-loss-not-signalled"
    verdict id true (jstrs model) v "timing-off" true else
  verdict id agree (jstrs model) fin.viol.eraseDups cls (!contended && !fin.overlap && !hasLoss)

end Oracle.Lock
