import Oracle.J
import Eru.Lock.Filter
import Eru.Lock.Order
/- Oracle for the lock group (C18–C21): runs the model on the case, compares with the
   implementation's result and evaluates the specification predicates on the implementation's
   output. Not part of any model or proof. -/
namespace Oracle.Lock
open Lean Oracle Eru Eru.Lock

def strs (j : Json) : List String := (jarr j).map jstr
def labelsOf (j : Json) : List (String × String) := (jobjList j).map fun (k, v) => (k, jstr v)

def nodeOfJson (j : Json) : Node :=
  { name := jstr (jget j "n"), pod := jstr (jget j "pod"), labels := labelsOf (jget j "labels"),
    available := jbool (jget j "up"), bypass := jbool (jget j "bypass") }

def nfOfJson (j : Json) : NodeFilter :=
  { podname := jstr (jget j "pod"), includes := strs (jget j "inc"), excludes := strs (jget j "exc"),
    labels := labelsOf (jget j "labels"), all := jbool (jget j "all") }

def jstrs (l : List String) : Json := Json.arr (l.map Json.str).toArray

def verdict (id : Json) (agree : Bool) (model : Json) (viol : List String) (cls : String) (trivial : Bool := false) : Json :=
  Json.mkObj [("id", id), ("agree", agree), ("model", model), ("spec", jstrs viol), ("class", cls), ("trivial", trivial)]

/-! ### C21 -/
def handleFilter (j : Json) : Json :=
  let id := jget j "id"
  let st := (jarr (jget j "nodes")).map nodeOfJson
  let nf := nfOfJson (jget j "nf")
  let impl := jget j "impl"
  let model := filterNodes st nf
  let shape := (if nf.includes.length ≠ 0 then "inc" else "pod") ++
    (if nf.includes.length ≠ 0 ∧ (sortStrings nf.includes ≠ nf.includes ∨ !strictAsc nf.includes) then "-dup-or-unsorted" else "") ++
    (if nf.includes.length = 0 ∧ nf.excludes.length ≠ 0 then "-exc" else "") ++
    (if nf.includes.length = 0 ∧ nf.labels.length ≠ 0 then "-labels" else "") ++
    (if nf.includes.length = 0 ∧ nf.all then "-all" else "")
  match model with
  | .ok ns =>
    let names := ns.map (·.name)
    if jhas impl "ok" then
      let out := strs (jget impl "ok")
      verdict id (out == names) (Json.mkObj [("ok", jstrs names)]) (filterViolations st nf out) ("sel-" ++ shape) (names.length < 1)
    else
      verdict id false (Json.mkObj [("ok", jstrs names)])
        (if jhas impl "err" then ["C21:refused:" ++ jstr (jget impl "err")] else ["C21:crash"]) "mismatch"
  | .err e =>
    if jhas impl "err" then
      verdict id true (Json.mkObj [("err", Json.str e)]) [] ("err-" ++ shape)
    else if jhas impl "ok" then
      verdict id false (Json.mkObj [("err", Json.str e)]) ["C21:selected-nonexistent-include"] "mismatch"
    else verdict id false (Json.mkObj [("err", Json.str e)]) ["C21:crash"] "mismatch"
  | _ => verdict id false Json.null [] "model-crash"

/-! ### C20 -/
def stripPrefix? (s p : String) : Option String :=
  if s.startsWith p then some (s.drop p.length).toString else none

def parseKey (s : String) : Key :=
  match stripPrefix? s "plock_" with
  | some r => ⟨gPod, r⟩
  | none => match stripPrefix? s "clock_" with
    | some r => ⟨gWorkload, r⟩
    | none => match stripPrefix? s "cnode_op_" with
      | some r => ⟨gNodeOp, r⟩
      | none => ⟨3, s⟩

def renderKey (k : Key) : String :=
  (if k.group == gPod then "plock_" else if k.group == gWorkload then "clock_" else if k.group == gNodeOp then "cnode_op_" else "") ++ k.name

def evOfJson (j : Json) : Ev Key :=
  match jarr j with
  | [a, k] => if jstr a == "acq" then .acq (parseKey (jstr k)) else .rel (parseKey (jstr k))
  | _ => .rel ⟨9, "?"⟩

def evToStr : Ev Key → String
  | .acq k => "+" ++ renderKey k
  | .rel k => "-" ++ renderKey k

def traceToStr (t : Trace) : String := " ".intercalate (t.map evToStr)

def worldOfJson (j : Json) : World :=
  { nodes := (jarr (jget j "nodes")).map nodeOfJson,
    workloads := (jarr (jget j "workloads")).map fun x => (jstr (jget x "id"), jstr (jget x "node")) }

def opOfJson (j : Json) : Option Op :=
  let nf := nfOfJson (jget j "nf")
  let ids := strs (jget j "ids")
  match jstr (jget j "kind") with
  | "create" => some (.create nf (strs (jget j "rollback")))
  | "capacity" => some (.capacity nf)
  | "removepod" => some (.removePod (jstr (jget j "pod")))
  | "node" => some (.nodeLocked (jstr (jget j "node")))
  | "remove" => some (.remove ids)
  | "realloc" => some (.realloc (jstr (jget j "wid")))
  | "each" => some (.workloadEach ids (jbool (jget j "ignore")))
  | "remap" => some (.remap (jstr (jget j "node")))
  | "nodespod" => some (.nodesPod nf)
  | "nodesop" => some (.nodesOp nf)
  | "workloads" => some (.workloads ids (jbool (jget j "ignore")))
  | _ => none

def isNodeOpOnly (t : Trace) : Bool :=
  t.all fun e => match e with | .acq k => k.group == gNodeOp | .rel k => k.group == gNodeOp

/-- remove `x` once -/
def eraseOnce (x : String) : List String → Option (List String)
  | [] => none
  | y :: ys => if x == y then some ys else (eraseOnce x ys).map (y :: ·)

/-- impl episodes must be: all required model episodes + a sub-multiset of the optional ones -/
def matchEpisodes (impl required optional : List String) : Bool :=
  match required.foldl (fun acc r => acc.bind (eraseOnce r)) (some impl) with
  | none => false
  | some rest => (rest.foldl (fun acc r => acc.bind (eraseOnce r)) (some optional)).isSome

def handleOrder (j : Json) : Json :=
  let id := jget j "id"
  let w := worldOfJson j
  let implEps : List Trace := ((jarr (jget (jget j "impl") "episodes")).map fun e => (jarr e).map evOfJson).filter (· ≠ [])
  let viol := (implEps.flatMap traceViolations).eraseDups
  match opOfJson j with
  | none => verdict id false Json.null viol "unknown-kind"
  | some op =>
    let eps := (episodes w op).filter (· ≠ [])
    -- remap goroutines (node-operation-only episodes next to others) may or may not have been reached
    let optional := match op with
      | .remove _ => eps.filter isNodeOpOnly
      | .realloc _ => eps.filter isNodeOpOnly
      | _ => []
    let required := match op with
      | .remove _ => eps.filter (!isNodeOpOnly ·)
      | .realloc _ => eps.filter (!isNodeOpOnly ·)
      | _ => eps
    let agree := matchEpisodes (implEps.map traceToStr) (required.map traceToStr) (optional.map traceToStr)
    let nlocks := (implEps.map fun t => (t.filter fun e => match e with | .acq _ => true | _ => false).length).foldl (· + ·) 0
    let multi := implEps.any fun t => (t.filter fun e => match e with | .acq _ => true | _ => false).length ≥ 2
    verdict id agree (jstrs (eps.map traceToStr)) viol
      ("locks-" ++ jstr (jget j "kind") ++ (if multi then "-multi" else if nlocks == 0 then "-none" else "-single")) (nlocks == 0)

end Oracle.Lock
