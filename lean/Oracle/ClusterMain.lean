import Oracle.Cluster
/- `oracle_cluster`: one JSON case per stdin line, one JSON verdict per stdout line (C10–C12). -/
def main (_ : List String) : IO UInt32 := do
  Oracle.serve Oracle.Cluster.handle
  return 0
