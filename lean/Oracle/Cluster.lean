import Oracle.J
import Eru.Cluster.Ops
/- Oracle for C10–C12: runs the cluster model on the implementation's pre-snapshot with the
   same operation, resource-layer answers and fault address, compares the resulting abstract
   state / messages / trace with the implementation's, and evaluates the specification
   predicates of C10–C12 on the implementation's snapshots. -/
namespace Oracle.Cluster
open Lean Oracle Eru.Cluster

def vecOfJson (n : Nat) (j : Json) : Vector Int n :=
  Vector.ofFn (fun (i : Fin n) => jint (jget j (toString i.val)))

def resOfJson (j : Json) : Res4 :=
  { cpu := jint (jget j "cpu"), mem := jint (jget j "mem"),
    cores := vecOfJson nCores (jget j "cores"), numa := vecOfJson nNuma (jget j "numa") }

def lookupD (m : List (String × Res4)) (n : String) : Res4 :=
  match m.find? (fun p => p.1 == n) with
  | some p => p.2
  | none => ResAlg.zero

def stateOfJson (j : Json) : State Res4 :=
  let nodes := jarr (jget j "nodes")
  -- plugin records of nodes the store does not know are listed separately ("pcap")
  let recs := nodes ++ jarr (jget j "pcap")
  let caps := recs.map (fun n => (jstr (jget n "name"), resOfJson (jget n "cap")))
  let usages := recs.map (fun n => (jstr (jget n "name"), resOfJson (jget n "usage")))
  { nodes := nodes.map (fun n => jstr (jget n "name")),
    cap := lookupD caps, usage := lookupD usages,
    wls := (jarr (jget j "wls")).map (fun w => ⟨jnat (jget w "id"), jstr (jget w "node"), resOfJson (jget w "res")⟩),
    cts := (jarr (jget j "cts")).map (fun c => ⟨jnat (jget c "id"), jstr (jget c "node"), jbool (jget c "running")⟩),
    markers := (jarr (jget j "markers")).map (fun m => (jstr (jget m "node"), jnat (jget m "count"))),
    wal := (jarr (jget j "wal")).map (fun e => (jstr (jget e "event"), jstr (jget e "node"), 0)),
    next := jnat (jget j "next"),
    pnodes := (jarr (jget j "pnodes")).map jstr }

def groupsOfJson (j : Json) : List (String × List Nat) :=
  (jarr j).map (fun g => (jstr (jget g "node"), (jarr (jget g "ids")).map jnat))

def opOfJson (op : String) (a : Json) : Option (Op Res4) :=
  match op with
  | "create" =>
    let inc : List String := (jarr (jget a "includes")).map jstr
    let plan : List (String × List Res4) := (jarr (jget a "plan")).map (fun p => (jstr (jget p "node"), (jarr (jget p "res")).map resOfJson))
    some (.create ⟨inc, jbool (jget a "noNodes"), jbool (jget a "planOk"), plan⟩)
  | "remove" => some (.remove (jstr (jget a "first")) (groupsOfJson (jget a "groups")))
  | "dissociate" => some (.dissociate (jstr (jget a "first")) (groupsOfJson (jget a "groups")))
  | "realloc" =>
    let ans := jget a "answer"
    some (.realloc (jstr (jget a "node")) (jnat (jget a "id"))
      (if ans.isNull then none else some (resOfJson (jget ans "delta"), resOfJson (jget ans "res"))))
  | "replace" => some (.replace (jstr (jget a "node")) (jnat (jget a "id")))
  | "setnode" =>
    let c := jget a "newCap"
    some (.setNode (jstr (jget a "node")) (if c.isNull then none else some (resOfJson c)))
  | "addnode" => some (.addNode (jstr (jget a "node")) (resOfJson (jget a "cap")))
  | "removenode" => some (.removeNode (jstr (jget a "node")))
  | "fixnode" => some (.nodeResource (jstr (jget a "node")) (jbool (jget a "fix")))
  | _ => none

def faultOfJson (j : Json) : Option Addr :=
  if j.isNull then none else some ⟨jstr (jget j "kind"), jstr (jget j "node"), jnat (jget j "ord")⟩

def msgsOfJson (j : Json) : List (Msg Res4) :=
  (jarr j).map (fun m => ⟨jstr (jget m "node"), jnat (jget m "id"), jbool (jget m "ok"),
    if (jget m "res").isNull then none else some (resOfJson (jget m "res"))⟩)

/-- insertion sort on strings (canonical multiset comparison) -/
def sortStr (xs : List String) : List String := xs.mergeSort (fun a b => decide (a ≤ b))

def msgKey (m : Msg Res4) : String :=
  let r := match m.res with | none => "-" | some r => s!"{r.cpu}/{r.mem}/{r.cores.toList}/{r.numa.toList}"
  s!"{m.node}/{m.id}/{m.ok}/{r}"
def wlKey (w : Wl Res4) : String := s!"{w.id}/{w.node}/{w.res.cpu}/{w.res.mem}/{w.res.cores.toList}/{w.res.numa.toList}"
def ctKey (c : Ct) : String := s!"{c.id}/{c.node}/{c.running}"

/-- components in which two states differ -/
def stateDiff (names : List String) (a b : State Res4) : List String :=
  (if names.all (fun n => decide (a.usage n = b.usage n)) then [] else ["usage"]) ++
  (if names.all (fun n => decide (a.cap n = b.cap n)) then [] else ["cap"]) ++
  (if sortStr (a.wls.map wlKey) == sortStr (b.wls.map wlKey) then [] else ["workloads"]) ++
  (if sortStr (a.cts.map ctKey) == sortStr (b.cts.map ctKey) then [] else ["containers"]) ++
  (if sortStr (a.markers.map (fun m => s!"{m.1}/{m.2}")) == sortStr (b.markers.map (fun m => s!"{m.1}/{m.2}")) then [] else ["markers"]) ++
  (if sortStr (a.wal.map (fun e => s!"{e.1}/{e.2.1}")) == sortStr (b.wal.map (fun e => s!"{e.1}/{e.2.1}")) then [] else ["wal"]) ++
  (if sortStr a.nodes == sortStr b.nodes then [] else ["nodes"]) ++
  (if sortStr a.pnodes == sortStr b.pnodes then [] else ["pnodes"])

def withinCapB (names : List String) (s : State Res4) : Bool :=
  names.all (fun n => Res4.le (s.usage n) (s.cap n))

/-- the violating call of a lock-discipline report is the repair of NodeResource(fix) -/
def isFixViol (v : String) : Bool := v.startsWith "pluginGetNodeResourceInfo"

def plannedOf : Op Res4 → Nat
  | .create a => (a.plan.map (fun p => p.2.length)).foldl (· + ·) 0
  | _ => 0

/-- two operations on different workloads started together: the implementation's post-state must be
consistent and equal (usage, capacity, records, containers) to one of the two sequential orders -/
def handleConcurrent (j : Json) : Json :=
  let id := jget j "id"
  let pre := stateOfJson (jget j "pre")
  let post := stateOfJson (jget j "post")
  let ja := jget (jget j "args") "a"
  let jb := jget (jget j "args") "b"
  let na := jstr (jget ja "op")
  let nb := jstr (jget jb "op")
  match opOfJson na (jget ja "args"), opOfJson nb (jget jb "args") with
  | some a, some b =>
    let names := (namesOf pre ++ namesOf post).eraseDups
    let core (x y : State Res4) : List String := (stateDiff names x y).filter (fun d => d != "markers" && d != "wal")
    let ab := after b none (after a none pre)
    let ba := after a none (after b none pre)
    let agree := (core ab post).isEmpty || (core ba post).isEmpty
    let dir := if (namesOf post).any (fun n => decide ((load post n).mem > (post.usage n).mem)) then "records-exceed-usage" else "usage-exceeds-records"
    let spec := (if consistentB pre && !consistentB post then [s!"C10:inconsistent:concurrent:{na}+{nb}:{dir}"] else []) ++
      (match jarr (jget j "lock_viol") with
       | [] => []
       | v :: _ => [s!"C10:usage-write-without-pod-lock:concurrent:{jstr v}"] ++
                   (if isFixViol (jstr v) then ["C15:fix-without-pod-lock:concurrent"] else []))
    Json.mkObj [("id", id), ("agree", agree), ("model", Json.mkObj [("diff", Json.arr ((core ab post).map Json.str).toArray)]),
      ("spec", Json.arr (spec.map Json.str).toArray), ("class", s!"concurrent:{na}+{nb}")]
  | _, _ => Json.mkObj [("id", id), ("agree", false), ("error", "unknown op"), ("spec", Json.arr #[]), ("class", "bad")]

def handle (j : Json) : Json :=
  if jstr (jget j "op") == "concurrent" then handleConcurrent j else
  let id := jget j "id"
  let opName := jstr (jget j "op")
  let pre := stateOfJson (jget j "pre")
  let post := stateOfJson (jget j "post")
  let flt := faultOfJson (jget j "fault")
  let jc := jget j "cancel"
  let cancelled := !jc.isNull
  let fkind := if cancelled then s!"{jstr (jget jc "how")}-{if jbool (jget jc "after") then "after" else "before"}@{jstr (jget jc "kind")}"
    else match flt with | some a => a.kind | none => "nofault"
  let fired := jbool (jget j "fired")
  let imsgs := msgsOfJson (jget j "msgs")
  let iret := jstr (jget j "ret")
  let itrace := sortStr ((jarr (jget j "trace")).map (fun e => s!"{jstr (jget e "kind")}@{jstr (jget e "node")}:{!(jbool (jget e "injected"))}"))
  match opOfJson opName (jget j "args") with
  | none => Json.mkObj [("id", id), ("agree", false), ("error", "unknown op"), ("spec", Json.arr #[]), ("class", "bad")]
  | some op =>
    -- set-node whose capacity request the plugin itself rejects (natural refusal)
    let prog : M Res4 Unit := match op with
      | .setNode n c => if jbool (jget (jget j "args") "refused") then setNode n c true true else runOp op
      | _ => runOp op
    -- cancelled caller: the model runs under the cancellation plan (context ends before / after the addressed step)
    let cplan : Option (Addr × Bool) :=
      if cancelled then some (⟨jstr (jget jc "kind"), jstr (jget jc "node"), jnat (jget jc "ord")⟩, jbool (jget jc "after")) else none
    let (out, ms) := run prog flt pre cplan
    let names := (namesOf pre ++ namesOf post ++ pre.pnodes ++ post.pnodes ++
      (match op with | .addNode n _ => [n] | .removeNode n => [n] | _ => [])).eraseDups
    -- under cancellation a step fails with a context error that nobody injected: compare (kind, node) only
    let itrace := if cancelled then sortStr ((jarr (jget j "trace")).map (fun e => s!"{jstr (jget e "kind")}@{jstr (jget e "node")}")) else itrace
    let mtrace := if cancelled then sortStr (ms.tr.map (fun e => s!"{e.1}@{e.2.1}"))
                  else sortStr (ms.tr.map (fun e => s!"{e.1}@{e.2.1}:{e.2.2}"))
    let mret := match out with | .ok _ => "ok" | .fail => "fail"
    let diffs := stateDiff names ms.st post ++
      (if sortStr (ms.msgs.map msgKey) == sortStr (imsgs.map msgKey) then [] else ["msgs"]) ++
      (if mtrace == itrace then [] else ["trace"]) ++
      (if mret == iret then [] else ["ret"]) ++
      (if ms.fired == fired || cancelled then [] else ["fired"])
    -- specification on the implementation's snapshots
    let preOk := consistentB pre
    let failedAll := iret == "fail" || (!imsgs.isEmpty && imsgs.all (fun m => !m.ok))
    -- direction of an inconsistency: do the records claim more than the usage, or the other way round
    let incDir := if (namesOf post).any (fun n => decide ((load post n).mem > (post.usage n).mem) ||
                        decide ((load post n).cpu > (post.usage n).cpu)) then "records-exceed-usage" else "usage-exceeds-records"
    let c10 := (if preOk && !consistentB post then [s!"C10:inconsistent:{opName}:{fkind}:{incDir}"] else []) ++
               (if withinCapB names pre && !withinCapB names post && opName != "setnode" then [s!"C10:over-capacity:{opName}:{fkind}"] else []) ++
               (match jarr (jget j "lock_viol") with
                | [] => []
                | v :: _ => [s!"C10:usage-write-without-pod-lock:{opName}:{jstr v}"] ++
                            (if isFixViol (jstr v) then [s!"C15:fix-without-pod-lock:{opName}"] else []))
    -- the plugin's COMPLETE capacity record (cpu map, cpu→NUMA map, NUMA memory incl. zero entries, memory)
    let sigs (k : String) : List (String × String) :=
      (jarr (jget (jget j k) "nodes")).map (fun n => (jstr (jget n "name"), jstr (jget n "capsig")))
    let capSigSame := (sigs "pre").all (fun p => (sigs "post").all (fun q => p.1 != q.1 || p.2 == q.2))
    -- what differs between pre and post (for the parts of an operation that report failure)
    let whatDiffers : List String :=
      (if post.wls.all (fun w => pre.wls.any (fun w' => w'.id == w.id)) then [] else ["new-record-stays"]) ++
      (if pre.wls.all (fun w => post.wls.contains w) then [] else ["record-lost-or-changed"]) ++
      (if post.cts.all (fun c => pre.cts.any (fun c' => c'.id == c.id)) then [] else ["new-container-stays"]) ++
      (if pre.cts.all (fun c => post.cts.any (fun c' => c'.id == c.id)) then [] else ["container-lost"]) ++
      (if pre.cts.all (fun c => !c.running || post.cts.all (fun c' => c'.id != c.id || c'.running)) then [] else ["container-not-running"]) ++
      (if names.all (fun n => decide (pre.usage n = post.usage n)) then [] else ["usage"]) ++
      (if names.all (fun n => decide (pre.cap n = post.cap n)) && capSigSame then [] else ["capacity"]) ++
      (if sortStr pre.nodes == sortStr post.nodes then [] else ["nodes"]) ++
      (if sortStr pre.pnodes == sortStr post.pnodes then [] else ["plugin-records"])
    let effectTags (pfx : String) : List String := whatDiffers.map (fun d => s!"{pfx}:{d}")
    -- partial remove / dissociate / create: usage moved by exactly the successful parts
    let succIds := (imsgs.filter (·.ok)).map (·.id)
    let usageBySuccess (sign : Bool) : Bool :=
      names.all (fun n =>
        let moved := if sign then loadL (post.wls.filter (fun w => succIds.contains w.id)) n
                     else loadL (pre.wls.filter (fun w => succIds.contains w.id)) n
        if sign then decide (post.usage n = pre.usage n + moved) else decide (post.usage n + moved = pre.usage n))
    let c11 :=
      match op with
      | .create _ =>
        if failedAll then effectTags s!"C11:effect-after-failure:{opName}:{fkind}"
        else if imsgs.any (fun m => !m.ok) && !cleanB imsgs pre post then [s!"C11:failed-part-changed:{opName}:{fkind}"] else []
      | .remove _ _ | .dissociate _ _ =>
        -- every workload whose message reports failure is still recorded, unchanged; usage moved by the successes only
        let bad := imsgs.filter (fun m => !m.ok && m.id != 0 && !(pre.wls.all (fun w => w.id != m.id || post.wls.contains w)))
        (if bad.isEmpty && (failedAll || iret == "fail" || usageBySuccess false) then [] else [s!"C11:failed-part-changed:{opName}:{fkind}"]) ++
        (if failedAll then effectTags s!"C11:effect-after-failure:{opName}:{fkind}" else [])
      | _ => if failedAll then effectTags s!"C11:effect-after-failure:{opName}:{fkind}" else []
    let c12 :=
      match op with
      | .create _ =>
        let created := (post.wls.filter (fun w => !pre.wls.contains w)).length
        let planned := if cancelled then jnat (jget (jget j "args") "planned") else plannedOf op
        -- under cancellation the plan of the run may be cut short: accept the run's own plan or the fault-free twin's
        (if streamShapeB planned imsgs created || (cancelled && streamShapeB (plannedOf op) imsgs created) then []
         else [s!"C12:stream-shape:{fkind}"]) ++
        (if iret.startsWith "timeout" then [s!"C12:stream-not-closed:{fkind}"] else []) ++
        (if truthfulB imsgs post then [] else [s!"C12:success-untruthful:{fkind}"]) ++
        (if cleanB imsgs pre post then [] else [s!"C12:failure-left-behind:{fkind}"])
      | _ => []
    let outcome := if iret == "fail" then "fail" else if imsgs.isEmpty then "ok" else
      if imsgs.all (·.ok) then "ok" else if imsgs.all (fun m => !m.ok) then "fail" else "partial"
    -- a pre-state that already violates C10 (reached through a known finding) is outside the
    -- model's domain (the plugin may then refuse decrements): no correspondence claim, spec still evaluated
    let cls := if preOk then s!"{opName}:{outcome}:{fkind}" else s!"skip-pre-inconsistent:{opName}"
    -- cancellation runs: the model runs the same cancellation plan. Parts of ONE operation that the real code runs
    -- concurrently (instances / nodes of a create's deployment phase, the node groups of a remove) see the ended
    -- context at unrelated points of their own progress; for those runs only the specification is evaluated.
    let ckind := jstr (jget jc "kind")
    let condKinds := ["pluginAlloc", "walLog:create-processing", "storeCreateProcessing"]
    let sequentialRun : Bool := match op with
      | .create _ => condKinds.contains ckind || jnat (jget (jget j "args") "planned") ≤ 1
      | .remove _ g => g.length ≤ 1
      | _ => true
    let cls := if cancelled then (if sequentialRun then s!"{opName}:cancelled:{outcome}" else s!"{opName}:cancelled-concurrent:{outcome}") else cls
    Json.mkObj [("id", id), ("agree", diffs.isEmpty || !preOk || (cancelled && !sequentialRun)),
      ("model", Json.mkObj [("diff", Json.arr (diffs.map Json.str).toArray), ("ret", mret),
                            ("msgs", Json.arr ((sortStr (ms.msgs.map msgKey)).map Json.str).toArray),
                            ("trace", if mtrace == itrace then Json.null else Json.arr (mtrace.map Json.str).toArray)]),
      ("spec", Json.arr ((c10 ++ c11 ++ c12).map Json.str).toArray), ("class", cls),
      ("trivial", Json.bool ((flt.isSome && !fired) || !preOk))]

end Oracle.Cluster
