import Oracle.J
namespace Oracle.Ephemeral
open Lean Oracle
def handle (j : Json) : Json := Json.mkObj [("id", jget j "id"), ("agree", false), ("spec", Json.arr #[]), ("class", "todo")]
end Oracle.Ephemeral
