import Oracle.J
import Eru.Store.Ephemeral
/-
Oracle for C26: replays a schedule (register / deregister / lapse / wait-one-heartbeat-interval)
on the etcd and Redis ephemeral-key protocol models, compares with what the real
`StartEphemeral` implementations did, and evaluates the property's clauses (exclusive,
lapse notified, owner-safe) on the implementations' observations.
-/
namespace Oracle.Ephemeral
open Lean Oracle Eru.Store.Ephemeral

def nRegs : Nat := 3
def fast : Nat := 1
def slow : Nat := 2
def clsOf (s : String) : Nat := if s == "slow" then slow else fast
def clsName (c : Nat) : String := if c == slow then "long" else if c == fast then "short" else "-"

structure Obs where
  res : String          -- "ok" | "exists" | "-"
  key : Bool
  ttl : String          -- "short" | "long" | "-"   (meaningful after a wait)
  notified : List Bool  -- (meaningful after a wait)
  deriving BEq, Repr

def obsOf (j : Json) : Obs :=
  { res := jstr (jget j "r"), key := jbool (jget j "key"), ttl := jstr (jget j "ttl"),
    notified := (jarr (jget j "notified")).map jbool }

def regsList (f : Nat → Reg) : List Reg := (List.range nRegs).map f

/-! #### protocol models driven by schedule events -/
/-- a race of two registrations: the model serialises them, in the order the observation names
    the winner (either order is a legal outcome of the protocol) -/
def raceOrder (p q : Nat) (implRes : String) : Nat × Nat :=
  if implRes == s!"win:{q}" then (q, p) else (p, q)

def etcdEvent (s : Etcd) (ev : String) (p q cls : Nat) (implRes : String) : Etcd × String :=
  match ev with
  | "race" =>
    let (a, b) := raceOrder p q implRes
    let (s1, ok1) := s.step (.register a cls)
    let (s2, ok2) := s1.step (.register b cls)
    (s2, if ok1 && ok2 then "win:both" else if ok1 then s!"win:{a}" else if ok2 then s!"win:{b}" else "win:none")
  | "reg" => let (s', ok) := s.step (.register p cls); (s', if ok then "ok" else "exists")
  | "dereg" => ((s.step (.deregister p)).1, "-")
  | "lapse" => (match s.key with | some l => (s.step (.expire l)).1 | none => s, "-")
  | "wait" =>
    ((List.range nRegs).foldl (fun s q =>
      match s.regs q with
      | .holding l => if s.ttl l == fast then (s.step (.heartbeat q)).1 else s
      | _ => s) s, "-")
  | _ => (s, "-")

def etcdObs (s : Etcd) (res : String) : Obs :=
  { res := res, key := s.key.isSome,
    ttl := match s.key with | some l => clsName (s.ttl l) | none => "-",
    notified := (regsList s.regs).map fun r => r == .notified }

def redisEvent (s : Redis) (ev : String) (p q cls : Nat) (implRes : String) : Redis × String :=
  match ev with
  | "race" =>
    let (a, b) := raceOrder p q implRes
    let (s1, ok1) := s.step (.register a cls)
    let (s2, ok2) := s1.step (.register b cls)
    (s2, if ok1 && ok2 then "win:both" else if ok1 then s!"win:{a}" else if ok2 then s!"win:{b}" else "win:none")
  | "reg" => let (s', ok) := s.step (.register p cls); (s', if ok then "ok" else "exists")
  | "dereg" => ((s.step (.deregister p)).1, "-")
  | "lapse" => ((s.step .expire).1, "-")
  | "wait" =>
    ((List.range nRegs).foldl (fun s q =>
      match s.regs q with
      | .holding t => if t == fast then (s.step (.heartbeat q)).1 else s
      | _ => s) s, "-")
  | _ => (s, "-")

def redisObs (s : Redis) (res : String) : Obs :=
  { res := res, key := s.key.isSome,
    ttl := match s.key with | some (_, t) => clsName t | none => "-",
    notified := (regsList s.regs).map fun r => r == .notified }

/-- compare: results and key presence always; ttl class and notifications after a wait -/
def obsAgree (ev : String) (m i : Obs) : Bool :=
  m.res == i.res && m.key == i.key && (ev != "wait" || (m.ttl == i.ttl && m.notified == i.notified))

/-! #### the property's clauses on the implementation's observations -/
structure Ghost where
  creator : Option Nat := none         -- who created the key that is there now
  regd : List Bool := [false, false, false]
  cls : List Nat := [0, 0, 0]
  lapsed : List Bool := [false, false, false]   -- its registration lapsed since it registered
  keyBefore : Bool := false

def setAt {α} (l : List α) (i : Nat) (v : α) : List α := l.set i v

def ghostStep (b : String) (g : Ghost) (ev : String) (p q cls : Nat) (o : Obs) : Ghost × List String :=
  let g0 := g
  let (g, tags) : Ghost × List String :=
    match ev with
    | "reg" =>
      if o.res == "ok" then
        ({ g with creator := some p, regd := setAt g.regd p true, cls := setAt g.cls p cls,
                  lapsed := setAt g.lapsed p false },
         if g0.keyBefore then [s!"C26:{b}-register-over-existing"] else [])
      else (g, [])
    | "race" =>
      let win := fun (w : Nat) (g : Ghost) =>
        { g with creator := some w, regd := setAt g.regd w true, cls := setAt g.cls w cls, lapsed := setAt g.lapsed w false }
      if o.res == "win:both" then (win q (win p g), [s!"C26:{b}-double-register"])
      else if o.res == s!"win:{p}" then (win p g, if g0.keyBefore then [s!"C26:{b}-register-over-existing"] else [])
      else if o.res == s!"win:{q}" then (win q g, if g0.keyBefore then [s!"C26:{b}-register-over-existing"] else [])
      else (g, [])
    | "dereg" =>
      let g' := { g with regd := setAt g.regd p false }
      if g.creator == some p then ({ g' with creator := none }, [])
      else if g0.keyBefore && !o.key then ({ g' with creator := none }, [s!"C26:{b}-foreign-delete"])
      else (g', [])
    | "lapse" =>
      match g.creator with
      | some c => ({ g with creator := none, lapsed := setAt g.lapsed c true }, [])
      | none => (g, [])
    | "wait" =>
      let idx := List.range nRegs
      let unnoticed := idx.any fun q =>
        g.regd.getD q false && g.cls.getD q 0 == fast && g.lapsed.getD q false && !(o.notified.getD q false)
      let believers := idx.filter fun q =>
        g.regd.getD q false && !(o.notified.getD q false) && !(g.cls.getD q 0 == slow && g.lapsed.getD q false)
      let foreign := match g.creator with
        | some c => o.key && o.ttl != clsName (g.cls.getD c 0)
        | none => false
      (g, (if unnoticed then [s!"C26:{b}-lapse-unnoticed"] else []) ++
          (if believers.length > 1 then [s!"C26:{b}-not-exclusive"] else []) ++
          (if foreign then [s!"C26:{b}-foreign-refresh"] else []))
    | _ => (g, [])
  -- a key whose creator is still registered may only disappear by a lapse or its creator's exit
  let lost := (ev == "wait" || ev == "reg" || ev == "race") && g0.keyBefore && g0.creator.isSome && !o.key
  ({ g with keyBefore := o.key, creator := if o.key then g.creator else none },
   tags ++ (if lost then [s!"C26:{b}-foreign-delete"] else []))

def dedupS : List String → List String
  | [] => []
  | x :: t => x :: (dedupS t).filter (· != x)

def handle (j : Json) : Json :=
  let id := jget j "id"
  let evs := jarr (jget j "events")
  let ie := jarr (jget (jget j "impl") "etcd")
  let ir := jarr (jget (jget j "impl") "redis")
  let init : Etcd × Redis × Ghost × Ghost × Bool × List String × Nat × Option Json := ({}, {}, {}, {}, true, [], 0, none)
  let (_, _, _, _, agree, tags, _, bad) := evs.foldl (fun acc ej =>
    let (se, sr, ge, gr, ok, tags, i, bad) := acc
    let ev := jstr (jget ej "ev")
    let p := jnat (jget ej "p")
    let q := jnat (jget ej "q")
    let cls := clsOf (jstr (jget ej "cls"))
    let oe := obsOf (ie.getD i Json.null)
    let or_ := obsOf (ir.getD i Json.null)
    let (se', re) := etcdEvent se ev p q cls oe.res
    let (sr', rr) := redisEvent sr ev p q cls or_.res
    let me := etcdObs se' re
    let mr := redisObs sr' rr
    let okE := obsAgree ev me oe
    let okR := obsAgree ev mr or_
    let (ge', te) := ghostStep "etcd" ge ev p q cls oe
    let (gr', tr) := ghostStep "redis" gr ev p q cls or_
    let bad' := if (okE && okR) || bad.isSome then bad else
      some (Json.mkObj [("step", ji i), ("event", ej), ("backend", Json.str (if okE then "redis" else "etcd")),
        ("model", Json.str (reprStr (if okE then mr else me))), ("impl", Json.str (reprStr (if okE then or_ else oe)))])
    (se', sr', ge', gr', ok && okE && okR, tags ++ te ++ tr, i + 1, bad')) init
  let specs := dedupS tags
  let lapses := (evs.filter fun e => jstr (jget e "ev") == "lapse").length
  Json.mkObj [("id", id), ("agree", agree && ie.length == evs.length && ir.length == evs.length),
              ("model", bad.getD (Json.mkObj [("events", ji evs.length)])),
              ("spec", Json.arr (specs.map Json.str).toArray),
              ("class", Json.str (if lapses > 0 then "eph+lapse" else "eph")),
              ("trivial", Json.bool (evs.length < 3))]

end Oracle.Ephemeral
