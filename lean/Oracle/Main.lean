import Oracle.Strategy
/- `oracle <mode>`: one JSON case per stdin line, one JSON verdict per stdout line. -/
def main (args : List String) : IO UInt32 := do
  match args with
  | ["strategy"] => Oracle.serve Oracle.Strategy.handle; return 0
  | _ => IO.eprintln "usage: oracle <mode>"; return 2
