import Oracle.Txw
/- `oracle_txw <C16|C17|C35|C36>`: one JSON case per stdin line, one JSON verdict per stdout line. -/
def main (args : List String) : IO UInt32 := do
  match args with
  | ["C16"] => Oracle.serve Oracle.Txw.handleC16; return 0
  | ["C17"] => Oracle.serve Oracle.Txw.handleC17; return 0
  | ["C35"] => Oracle.serve Oracle.Txw.handleC35; return 0
  | ["C36"] => Oracle.serve Oracle.Txw.handleC36; return 0
  | _ => IO.eprintln "usage: oracle_txw <C16|C17|C35|C36>"; return 2
