import Oracle.Store
import Oracle.Ephemeral
import Oracle.EphUser
/- `oracle_store <mode>`: one JSON case per stdin line, one JSON verdict per stdout line. -/
def main (args : List String) : IO UInt32 := do
  match args with
  | ["store"] => Oracle.serve Oracle.Store.handle; return 0
  | ["ephemeral"] => Oracle.serve Oracle.Ephemeral.handle; return 0
  | ["user"] => Oracle.serve Oracle.EphUser.handle; return 0
  | _ => IO.eprintln "usage: oracle_store store|ephemeral|user"; return 2
