import Oracle.J
import Eru.Book.Spec
/- Oracle for C07, C08, C09, C15, C32: runs the book model on the case, compares with the
   implementation's result and evaluates the specification predicates of Eru/Book/Spec.lean
   on the implementation's output. -/
namespace Oracle.Book
open Lean Oracle Eru Eru.Book

def mapOfJson (j : Json) : IMap := (jobjList j).map fun (k, v) => (k, jint v)
def smapOfJson (j : Json) : SMap := (jobjList j).map fun (k, v) => (k, jstr v)
def isNull (j : Json) (k : String) : Bool := !(jhas j k) || (jget j k).isNull

def nodeResOfJson (j : Json) : NodeRes :=
  { cpu := jint (jget j "cpu"), cpuMap := mapOfJson (jget j "cm"), memory := jint (jget j "mem"),
    numaMemory := mapOfJson (jget j "nm"), numa := smapOfJson (jget j "numa") }
def wOfJson (j : Json) : WorkloadRes :=
  { cpuRequest := jint (jget j "cr"), cpuLimit := jint (jget j "cl"), memoryRequest := jint (jget j "mr"),
    memoryLimit := jint (jget j "ml"), cpuMap := mapOfJson (jget j "cm"), numaMemory := mapOfJson (jget j "nm"),
    numaNode := jstr (jget j "nn") }
def reqOfJson (j : Json) : Req :=
  { cpuBind := jbool (jget j "bind"), keepCPUBind := jbool (jget j "keep"), cpuRequest := jint (jget j "cr"),
    cpuLimit := jint (jget j "cl"), memRequest := jint (jget j "mr"), memLimit := jint (jget j "ml") }

def mapToJson (m : IMap) : Json := Json.mkObj (m.map fun (k, v) => (k, ji v))
def nodeResToJson (r : NodeRes) : Json :=
  Json.mkObj [("cpu", ji r.cpu), ("cm", mapToJson r.cpuMap), ("mem", ji r.memory), ("nm", mapToJson r.numaMemory)]
def wToJson (w : WorkloadRes) : Json :=
  Json.mkObj [("cr", ji w.cpuRequest), ("cl", ji w.cpuLimit), ("mr", ji w.memoryRequest), ("ml", ji w.memoryLimit),
              ("cm", mapToJson w.cpuMap), ("nm", mapToJson w.numaMemory), ("nn", Json.str w.numaNode)]

/-- exact (key-for-key) equality of Go maps: same key set, same values -/
def mapSame (a b : IMap) : Bool :=
  a.keys.all (fun k => b.has k && a.get k == b.get k) && b.keys.all (fun k => a.has k)
def wSame (a b : WorkloadRes) : Bool :=
  a.cpuRequest == b.cpuRequest && a.cpuLimit == b.cpuLimit && a.memoryRequest == b.memoryRequest &&
  a.memoryLimit == b.memoryLimit && mapSame a.cpuMap b.cpuMap && mapSame a.numaMemory b.numaMemory && a.numaNode == b.numaNode
def wsSame (a b : List WorkloadRes) : Bool := a.length == b.length && (a.zip b).all fun (x, y) => wSame x y
def usageSame (a b : NodeRes) : Bool :=
  a.cpu == b.cpu && a.memory == b.memory && mapSame a.cpuMap b.cpuMap && mapSame a.numaMemory b.numaMemory

def verdict (id : Json) (agree : Bool) (model : Json) (spec : List String) (cls : String) (trivial : Bool := false) : Json :=
  Json.mkObj [("id", id), ("agree", agree), ("model", model), ("spec", Json.arr (spec.map Json.str).toArray),
              ("class", cls), ("trivial", trivial)]

def errOf {α} : Outcome α → String
  | .ok _ => "" | .err e => e | .panic _ => "panic" | .diverge => "timeout"

/-- the scheduler seen through the implementation's own output: the plans it returned for this
    operation, padded with fillers up to the number of plans it reported -/
def schedFrom (got : List CPUPlan) (nplans : Nat) : Sched :=
  fun _ _ _ => got ++ List.replicate (nplans - got.length) ({ } : CPUPlan)
def plansOf (ws : List WorkloadRes) : List CPUPlan := ws.map fun w => { numaNode := w.numaNode, cpuMap := w.cpuMap }

/-! ### C07 -/
def handleC07 (j : Json) : Json :=
  let id := jget j "id"
  let impl := jget j "impl"
  let req0 := reqOfJson (jget j "req")
  let nodes := (jarr (jget j "nodes")).map fun n =>
    (jstr (jget n "name"), ({ capacity := nodeResOfJson (jget n "cap"), usage := nodeResOfJson (jget n "usage") } : NodeInfo),
     ((jarr (jget n "extra")).map fun e => if e.isNull then (none : Option Int) else some (jint e)))
  match req0.validate with
  | .error e => verdict id (jstr (jget impl "err") == e) (Json.str e) [] "invalid-req" true
  | .ok req =>
    let implCaps := mapOfJson (jget impl "caps")
    let implPCaps := mapOfJson (jget impl "pcaps")
    -- plugin capacities (bound: the number of plans the implementation reports)
    let pcap (name : String) (n : NodeInfo) : Int :=
      if req.cpuBind then implPCaps.get name else deployCapacity (fun _ _ _ => []) n req
    let mPCaps : IMap := (nodes.map fun (name, n, _) => (name, pcap name n)).filter fun (_, c) => c > 0
    let mPTotal := mPCaps.foldl (fun t (_, c) => pluginTotalStep t c) 0
    let mCaps : IMap := nodes.filterMap fun (name, n, ex) =>
      let c := pcap name n
      if c > 0 && ex.all (·.isSome) then some (name, ex.foldl (fun a e => min a (e.getD 0)) c) else none
    let mTotal := mCaps.foldl (fun t (_, c) => satAdd t c) 0
    let capsAgree := mapSame mCaps implCaps && mTotal == jint (jget impl "total") &&
      mapSame mPCaps implPCaps && mPTotal == jint (jget impl "ptotal") && jstr (jget impl "err") == ""
    -- allocation attempts on the first node
    let (name0, n0, ex0) := nodes.head!
    let cap0 := implCaps.get name0
    let tries := jarr (jget impl "tries")
    let res := tries.map fun t =>
      let k := jint (jget t "k")
      let ok := jbool (jget t "ok")
      let ws := (jarr (jget t "ws")).map wOfJson
      let sched := schedFrom (if ok then plansOf ws else []) (implPCaps.get name0).toNat
      let direct := jbool (jget t "direct")
      let m := if direct then (calculateDeploy sched n0 k req0).map' (fun ws => (ws, n0)) else alloc sched ex0 n0 k req
      let (agree, drop) : Bool × Bool := match m with
        | .ok (mws, n') =>
          if direct then (ok, false) else
          (ok && wsSame mws ws && usageSame n'.usage (nodeResOfJson (jget t "u1")) &&
            (req.cpuBind || deployCapacity sched n' req == jint (jget t "pcap2")), true)
        | .err e => (!ok && (req.cpuBind || ex0.length > 0 || jstr (jget t "err") == e), false)
        | .panic _ => (jstr (jget t "err") == "panic", false)
        | .diverge => (false, false)
      let v1 := if k ≥ 1 && !acceptOkB cap0 k ok then [s!"C07:accept:k={k}:cap={cap0}"] else []
      let v2 := if drop && ok && k ≥ 1 && !req.cpuBind && req.memRequest > 0 &&
                   jint (jget t "pcap2") != implPCaps.get name0 - k then ["C07:drop"] else []
      let v3 := if ok && !direct && !jbool (jget t "restored") then ["C08:rollback-alloc"] else []
      (agree, v1 ++ v2 ++ v3, ok)
    let v0 := (if implCaps.any (fun (_, c) => c ≤ 0) || implPCaps.any (fun (_, c) => c ≤ 0) then ["C07:zero-offered"] else []) ++
              (if jint (jget impl "total") != satSum (implCaps.map (·.2)) then ["C07:total"] else []) ++
              (if (implPCaps.map (·.2)).sum < maxInt && jint (jget impl "ptotal") != satSum (implPCaps.map (·.2)) then ["C07:plugin-total"] else [])
    let agree := capsAgree && res.all (·.1)
    let spec := v0 ++ (res.map (·.2.1)).flatten
    let kind := if req.cpuBind then "bound" else if req.memRequest = 0 then "mem-unlimited" else "mem"
    let cls := kind ++ (if nodes.any (fun (_, _, ex) => ex.length > 0) then "-multi" else "") ++
      (if res.any (·.2.2) then (if res.any (fun r => !r.2.2) then ":both" else ":accepted") else ":refused")
    verdict id agree (Json.mkObj [("caps", mapToJson mCaps), ("total", ji mTotal), ("pcaps", mapToJson mPCaps), ("ptotal", ji mPTotal)]) spec cls

/-! ### C08 -/
structure St08 where
  s : State
  implLive : List WorkloadRes
  implUndo : Option Undo := none
  usages : List NodeRes          -- implementation usage before op 0, after op 0, after op 1, …
  agree : Bool := true
  spec : List String := []
  okOps : Nat := 0
  kinds : List String := []

def baseOpOfJson (o : Json) : Op :=
  match jstr (jget o "op") with
  | "alloc" => .alloc (jint (jget o "k")) (reqOfJson (jget o "req"))
  | "drop" => .drop ((jarr (jget o "idx")).map jnat)
  | "readd" => .readd (wOfJson (jget o "w"))
  | "realloc" => .realloc (jnat (jget o "i")) (reqOfJson (jget o "req"))
  | _ => .rollbackRealloc

def opOfJson (o : Json) : Op := if jbool (jget o "fail") then .failing (baseOpOfJson o) else baseOpOfJson o

def stepC08 (st : St08) (oi : Json × Json) : St08 :=
  let (o, im) := oi
  let fail := jbool (jget o "fail")
  let op := baseOpOfJson o
  let ok := jbool (jget im "ok")
  let ws := (jarr (jget im "ws")).map wOfJson
  let newW := wOfJson (jget im "new")
  let delta := wOfJson (jget im "delta")
  let usage := nodeResOfJson (jget im "usage")
  let sched : Sched := match op with
    | .alloc _ _ => schedFrom (if ok then plansOf ws else []) (jnat (jget im "nplans"))
    | .realloc _ _ => schedFrom (if ok && newW.cpuMap.length > 0 then plansOf [newW] else []) 0
    | _ => fun _ _ _ => []
  let (s', mok) := step sched st.s (opOfJson o)
  let outSame : Bool := match op with
    | .alloc _ _ => !ok || wsSame (s'.live.drop st.s.live.length) ws
    | .realloc i _ => !ok || (wSame (s'.live.getD i {}) newW && (s'.undo.map fun u => wSame u.delta delta).getD false)
    | _ => true
  -- after a rolled-back commit the implementation's maps keep the keys the commit created
  let usageAgree := if fail then usageEqB s'.node.usage usage else usageSame s'.node.usage usage
  let agree := mok == ok && usageAgree && outSame
  -- the implementation's own live set
  let (live', undo') : List WorkloadRes × Option Undo :=
    if !ok then (st.implLive, none) else
    match op with
    | .alloc _ _ => (st.implLive ++ ws, none)
    | .drop idxs => (removeIdxs st.implLive idxs, none)
    | .readd w => (st.implLive ++ [w], none)
    | .realloc i _ => (st.implLive.set i newW, some ⟨i, st.implLive.getD i {}, delta⟩)
    | .rollbackRealloc => match st.implUndo with
      | some u => (st.implLive.set u.idx u.origin, none)
      | none => (st.implLive, none)
    | .failing _ => (st.implLive, none)
  let opname := jstr (jget o "op")
  let v1 := if consistentB usage live' then [] else [s!"C08:usage-sum:{opname}"]
  let v2 := if isNull o "restores" || !ok then [] else
    if usageEqB usage (st.usages.getD (jnat (jget o "restores")) {}) then [] else [s!"C08:rollback:{opname}"]
  let v3 := if jint (jget im "diffs") != 0 && v1.isEmpty then [s!"C08:impl-diffs:{opname}"] else []
  let prev := st.usages.getLastD {}
  -- a failed operation (refused, invalid, or another plugin failing in the commit) changes nothing
  let v4 := if !ok && !usageEqB usage prev then [s!"C08:failed-op-changed-usage:{opname}"] else []
  -- Before/After reported by the cpumem plugin, where the harness could observe them
  let picks := match op with | .drop idxs => pickIdxs st.implLive idxs | _ => []
  let v5 := if isNull im "before" then [] else
    (if usageEqB (nodeResOfJson (jget im "before")) prev then [] else [s!"C08:reported-before:{opname}"]) ++
    (if usageEqB (nodeResOfJson (jget im "after")) (picks.foldl (fun acc w => acc.sub w.toNodeRes) prev) then [] else [s!"C08:reported-after:{opname}"])
  -- the other (counting) plugin's usage follows the same live set: a failed commit must leave it unchanged too
  let v6 := if isNull im "ycount" || jnat (jget im "ycount") == live'.length then [] else [s!"C08:other-plugin-usage:{opname}"]
  let kind := (if fail then "otherfail-" else "") ++ opname ++ (if ok then "" else "-refused") ++
    (match op with | .realloc _ _ => (if ok then (if newW.cpuMap.length > 0 then "-bound" else "-unbound") ++ (if newW.numaMemory.length > 0 then "-numa" else "") else "")
                   | .alloc _ r => (if r.cpuBind then "-bound" else "") | _ => "")
  { s := s', implLive := live', implUndo := undo', usages := st.usages ++ [usage], agree := st.agree && agree,
    spec := st.spec ++ v1 ++ v2 ++ v3 ++ v4 ++ v5 ++ v6, okOps := st.okOps + (if ok then 1 else 0), kinds := st.kinds ++ [kind] }

def handleC08 (j : Json) : Json :=
  let id := jget j "id"
  let capacity := nodeResOfJson (jget j "cap")
  match setNodeResourceInfo capacity {} with
  | .error e => verdict id (jstr (jget j "seterr") == e) (Json.str e) [] "invalid-node" true
  | .ok n0 =>
    let st0 : St08 := { s := { node := n0, live := [] }, implLive := [], usages := [n0.usage] }
    let st := ((jarr (jget j "ops")).zip (jarr (jget j "impl"))).foldl stepC08 st0
    let agree := st.agree && jstr (jget j "seterr") == "" && (jarr (jget j "ops")).length == (jarr (jget j "impl")).length
    let numa := if capacity.numa.length > 0 then "numa" else "flat"
    let has (p : String) : Bool := st.kinds.any (·.startsWith p)
    let feats := (if has "realloc-bound" || has "realloc-unbound" then ":realloc" else "") ++
      (if st.kinds.any (· == "rbrealloc") then ":rb" else "") ++ (if st.kinds.any (· == "readd") then ":readd" else "") ++ (if has "otherfail-" then ":otherfail" else "") ++ (if st.kinds.any (·.endsWith "-numa") then ":numamem" else "")
    verdict id agree (Json.mkObj [("usage", nodeResToJson st.s.node.usage), ("live", Json.arr (st.s.live.map wToJson).toArray)])
      st.spec (s!"hist-{numa}" ++ feats) (st.okOps == 0)

/-! ### C09 -/
def ratOf (j : Json) (den : Int) : Rat := ((jint j : Int) : Rat) / (den : Rat)
def answerOfJson (a : Json) : Answer :=
  (jobjList (jget a "nodes")).map fun (n, c) =>
    (n, { cap := jint (jget c "cap"), usage := ratOf (jget c "u") 1024, rate := ratOf (jget c "r") 1024, weight := ratOf (jget c "w") 4 })
def scale12 : Rat := 1000000000000
def near (x : Rat) (y : Int) : Bool :=
  let d := x * scale12 - (y : Rat)
  (if d < 0 then -d else d) ≤ 2000
def capNear (m : Cap) (c : Json) (withW : Bool) : Bool :=
  m.cap == jint (jget c "cap") && near m.usage (jint (jget c "u")) && near m.rate (jint (jget c "r")) &&
  (!withW || near m.weight (jint (jget c "w")))
def answerNear (m : Answer) (out : Json) (withW : Bool) : Bool :=
  let o := jobjList out
  m.all (fun (n, c) => match o.find? (·.1 == n) with | some (_, x) => capNear c x withW | none => false) &&
  o.all (fun (n, _) => (m.find? n).isSome)

def handleC09 (j : Json) : Json :=
  let id := jget j "id"
  let answers := (jarr (jget j "answers")).map answerOfJson
  let impl := jget j "impl"
  let (mNodes, mTotal) := managerDeployCapacity answers
  let runs := jarr (jget impl "runs")
  let runsAgree := runs.all fun r => answerNear mNodes (jget r "nodes") false && jint (jget r "total") == mTotal
  -- explicit-order folds through the hook (raw sums before the division)
  let folds := jarr (jget impl "folds")
  let foldsAgree := folds.all fun f =>
    let order := (jarr (jget f "order")).map jnat
    let m := (mergeFold (order.map fun i => answers.getD i [])).getD []
    answerNear m (jget f "nodes") true
  -- specification on every implementation output
  let allNodes := (answers.flatMap fun a => a.map (·.1)).eraseDups
  let specRun (r : Json) : List String :=
    let o := jobjList (jget r "nodes")
    let v1 := if allNodes.all (fun n => (o.any (·.1 == n)) == (offeredByAll answers n && !answers.isEmpty)) && o.all (fun (n, _) => allNodes.contains n)
              then [] else ["C09:offered"]
    let v2 := if o.all (fun (n, c) => jint (jget c "cap") == minCap answers n) then [] else ["C09:cap-min"]
    let v3 := if o.all (fun (n, c) => !offeredByAll answers n ||
                 (near (weightedSum answers n (·.usage) / weightSum answers n) (jint (jget c "u")) &&
                  near (weightedSum answers n (·.rate) / weightSum answers n) (jint (jget c "r"))))
              then [] else ["C09:weighted-avg"]
    let v4 := if jint (jget r "total") == satSum (o.map fun (_, c) => jint (jget c "cap")) then [] else ["C09:total"]
    v1 ++ v2 ++ v3 ++ v4
  -- the order-independent clauses on every explicit-order fold (raw sums before the division)
  let specFold (f : Json) : List String :=
    let o := jobjList (jget f "nodes")
    let v1 := if allNodes.all (fun n => (o.any (·.1 == n)) == (offeredByAll answers n && !answers.isEmpty)) && o.all (fun (n, _) => allNodes.contains n)
              then [] else ["C09:offered"]
    let v2 := if o.all (fun (n, c) => jint (jget c "cap") == minCap answers n) then [] else ["C09:cap-min"]
    let v3 := if o.all (fun (n, c) => !offeredByAll answers n ||
                 (near (weightedSum answers n (·.usage)) (jint (jget c "u")) && near (weightedSum answers n (·.rate)) (jint (jget c "r")) &&
                  near (weightSum answers n) (jint (jget c "w"))))
              then [] else ["C09:weighted-avg"]
    v1 ++ v2 ++ v3
  let vOrder := match runs with
    | [] => []
    | r0 :: rest => if rest.all (fun r =>
        let a := jobjList (jget r0 "nodes")
        let b := jobjList (jget r "nodes")
        a.length == b.length && a.all (fun (n, c) => match b.find? (·.1 == n) with
          | some (_, x) => jint (jget c "cap") == jint (jget x "cap") && (jint (jget c "u") - jint (jget x "u")).natAbs ≤ 2000 &&
                           (jint (jget c "r") - jint (jget x "r")).natAbs ≤ 2000
          | none => false) && jint (jget r0 "total") == jint (jget r "total")) then [] else ["C09:order"]
  -- schedules with a caller that gave up between two answers: an error, or the full merge over ALL plugins
  let cancels := jarr (jget impl "cancel")
  let vCancel := if cancels.all (fun r => jstr (jget r "err") != "" ||
      ((specRun r).isEmpty && answerNear mNodes (jget r "nodes") false && jint (jget r "total") == mTotal))
    then [] else ["C09:partial-merge-after-cancel"]
  let spec := ((runs.map specRun).flatten ++ (folds.map specFold).flatten ++ vOrder ++ vCancel).eraseDups
  let zeroW := answers.any fun a => a.any fun (_, c) => c.weight == 0
  let cls := s!"merge{answers.length}" ++ (if mNodes.isEmpty then ":none" else if mNodes.length > 1 then ":many" else ":one") ++
    (if zeroW then ":zero-weight" else "") ++ (if cancels.isEmpty then "" else ":cancelled")
  verdict id (runsAgree && foldsAgree)
    (Json.mkObj [("total", ji mTotal), ("nodes", Json.mkObj (mNodes.map fun (n, c) =>
      (n, Json.mkObj [("cap", ji c.cap), ("u", ji (c.usage * scale12).floor), ("r", ji (c.rate * scale12).floor)])))])
    spec cls (answers.length < 2)

/-! ### C15 -/
def handleC15 (j : Json) : Json :=
  let id := jget j "id"
  let impl := jget j "impl"
  let capacity := nodeResOfJson (jget j "cap")
  let ws := (jarr (jget j "ws")).map wOfJson
  match setNodeResourceInfo capacity (nodeResOfJson (jget j "usage")) with
  | .error e => verdict id (jstr (jget impl "seterr") == e) (Json.str e) [] "invalid-node" true
  | .ok n0 =>
    let d0 := resourceDiffs n0 ws
    let (n1, u1, d1) := fixNodeResource n0 ws
    let d2 := resourceDiffs n1 ws
    let fix := jget impl "fix"
    let after := jget impl "after"
    let iu1 := nodeResOfJson (jget fix "usage")
    let iu2 := nodeResOfJson (jget after "usage")
    let agree := jstr (jget impl "seterr") == "" && usageSame u1 iu1 && d1.length == jnat (jget fix "diffs") &&
      usageSame n1.usage iu2 && d2.length == jnat (jget after "diffs")
    let fits := decide (Fits n0 ws)
    let v1 := if fits && (jnat (jget after "diffs") != 0 || !consistentB iu2 ws) then ["C15:not-consistent"] else []
    let v2 := if fits && d0.isEmpty && !usageEqB iu2 n0.usage then ["C15:noop-changed"] else []
    let v3 := if fits && jnat (jget fix "diffs") != d0.length then ["C15:fix-diffs"] else []
    let cls := (if fits then "fits" else "overcommitted") ++ (if d0.isEmpty then ":clean" else ":drift") ++
      (if capacity.numa.length > 0 then ":numa" else "")
    verdict id agree (Json.mkObj [("usage", nodeResToJson n1.usage), ("diffs0", ji d0.length), ("diffs2", ji d2.length)]) (v1 ++ v2 ++ v3) cls

/-! ### C32 -/
def engineOfJson (e : Json) : EngineParams :=
  { cpu := jint (jget e "cpu"), cpuMap := mapOfJson (jget e "cm"), numaNode := jstr (jget e "nn"),
    memory := jint (jget e "mem"), remap := jbool (jget e "remap") }
def engineSame (a b : EngineParams) : Bool :=
  a.cpu == b.cpu && mapSame a.cpuMap b.cpuMap && a.numaNode == b.numaNode && a.memory == b.memory && a.remap == b.remap

def handleC32 (j : Json) : Json :=
  let id := jget j "id"
  let impl := jget j "impl"
  let shareBase := jint (jget j "share")
  -- cluster stream: workloads whose container vanished cannot be updated; all the others must be
  let gone := (jarr (jget j "gone")).map jstr
  let ws := ((jobjList (jget j "ws")).map fun (k, w) => (k, wOfJson w)).filter fun (k, _) => !gone.contains k
  match setNodeResourceInfo (nodeResOfJson (jget j "cap")) (nodeResOfJson (jget j "usage")) with
  | .error e => verdict id (jstr (jget impl "seterr") == e) (Json.str e) [] "invalid-node" true
  | .ok n =>
    let m := calculateRemap n shareBase ws
    let out := (jobjList (jget impl "out")).map fun (k, e) => (k, engineOfJson e)
    let agree := jstr (jget impl "seterr") == "" && jstr (jget impl "err") == "" && m.length == out.length &&
      m.all fun (k, e) => match out.find? (·.1 == k) with | some (_, x) => engineSame e x | none => false
    -- cluster stream: the engine parameters held by bound workloads are their own cores (untouched by remap)
    let bound := (jobjList (jget impl "bound")).map fun (k, e) => (k, engineOfJson e)
    let vBound := if bound.all (fun (k, e) => match ws.find? (·.1 == k) with
        | some (_, w) => mapSame e.cpuMap w.cpuMap && !e.remap
        | none => false) then [] else ["C32:bound-touched"]
    -- each remapped workload keeps ITS OWN cpu / memory limits (also a C31 matter: engine settings)
    let limitsOk := out.all fun (k, e) => match ws.find? (·.1 == k) with
      | some (_, w) => e.cpu == w.cpuLimit && e.memory == w.memoryLimit
      | none => true
    let vLimits := if limitsOk then [] else ["C32:remap:limits", "C31:remap-limits"]
    let tried := (jarr (jget impl "tried")).map jstr
    let vTried := if gone.all (fun g => tried.contains g) then [] else ["C32:engine-error-not-attempted"]
    let spec := (if remapOkB n shareBase ws out then [] else [if gone.isEmpty then "C32:remap" else "C32:remap:after-engine-error"]) ++ vBound ++ vTried ++ vLimits
    let lims := ((ws.filter fun (_, w) => w.cpuMap.length = 0).map fun (_, w) => (w.cpuLimit, w.memoryLimit)).eraseDups
    let nfree := (freeCores n shareBase).length
    let pre := (if jstr (jget j "cluster") != "" then "cluster-" ++ jstr (jget j "cluster") ++ ":" else "") ++ (if jbool (jget j "multi") then "multi:" else "")
    let cls := pre ++ (if ws.isEmpty then "empty" else if m.isEmpty then "all-bound" else if m.length == ws.length then "all-unbound" else "mixed") ++
      (if nfree == 0 then ":no-free-core" else if nfree == n.capacity.cpuMap.length then ":all-free" else ":some-free") ++
      (if lims.length ≥ 2 then ":difflimits" else "")
    verdict id agree (Json.mkObj (m.map fun (k, e) => (k, mapToJson e.cpuMap))) spec cls (ws.isEmpty)

def handle (j : Json) : Json :=
  match jstr (jget j "prop") with
  | "C07" => handleC07 j
  | "C08" => handleC08 j
  | "C09" => handleC09 j
  | "C15" => handleC15 j
  | "C32" => handleC32 j
  | p => Json.mkObj [("id", jget j "id"), ("error", Json.str s!"unknown prop {p}")]

end Oracle.Book
