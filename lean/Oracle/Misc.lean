import Oracle.J
import Eru.Misc.Docker
import Eru.Misc.Keys
import Eru.Misc.Chunks
import Eru.Misc.Sender
import Eru.Misc.Helium
/- Oracle for the "misc" group (C24, C27, C29, C31): runs the model on each case, compares
   with the implementation's output and evaluates the specification on that output. -/
namespace Oracle.Misc
open Lean Oracle Eru Eru.Misc

def jstrs (j : Json) : List String := (jarr j).map jstr
def sortStrs (l : List String) : List String := l.mergeSort (fun a b => a ≤ b)
def verdict (id : Json) (agree : Bool) (model : Json) (spec : List String) (cls : String) (trivial : Bool := false) : Json :=
  Json.mkObj [("id", id), ("agree", agree), ("model", model), ("spec", Json.arr (spec.map Json.str).toArray),
              ("class", cls), ("trivial", trivial)]
def sint (j : Json) : Int := match j with
  | .str s => s.toInt?.getD 0
  | _ => jint j

/-! ### C31 -/
namespace DockerO
open Eru.Misc.Docker

def resToJson (r : Res) : Json :=
  Json.mkObj [("quota", ji r.quota), ("period", ji r.period), ("shares", ji r.shares),
    ("cpuset", Json.arr ((sortStrs r.cpuset).map Json.str).toArray), ("mems", r.mems),
    ("memory", toString r.memory), ("swap", toString r.swap), ("reservation", toString r.reservation)]

def resOfJson (j : Json) : Res :=
  { quota := jint (jget j "quota"), period := jint (jget j "period"), shares := jint (jget j "shares"),
    cpuset := jstrs (jget j "cpuset"), mems := jstr (jget j "mems"), memory := sint (jget j "memory"),
    swap := sint (jget j "swap"), reservation := sint (jget j "reservation") }

def resEq (a b : Res) : Bool :=
  a.quota == b.quota && a.period == b.period && a.shares == b.shares && sortStrs a.cpuset == sortStrs b.cpuset &&
  a.mems == b.mems && a.memory == b.memory && a.swap == b.swap && a.reservation == b.reservation

def handle (j : Json) : Json :=
  let id := jget j "id"
  let op := jstr (jget j "op")
  let impl := jget j "impl"
  match F64.ofBits (jstr (jget j "cpu_bits")).toNat! with
  | none => verdict id true Json.null [] "nan-inf" true
  | some cpu =>
    let cores := sortStrs ((jobjList (jget j "cpu_map")).map (·.1))
    let p : Params := { cpu := cpu, memory := jint (jget j "memory"), cores := cores, numa := jstr (jget j "numa"), remap := jbool (jget j "remap") }
    let ncpu := jnat (jget j "ncpu")
    let model : Result := match op with
      | "setting" => .ok (makeResourceSetting p.cpu p.memory p.cores p.numa p.remap)
      | "create" => create p
      | _ => update p ncpu
    let mj := match model with | .ok r => resToJson r | .errInvalidMemory => Json.mkObj [("err", "invalid-memory")]
    let kind := if p.cores.isEmpty then "unbound" else if p.remap then "remap" else "bound"
    if jhas impl "quota" then
      let r := resOfJson impl
      let agree := match model with | .ok m => resEq m r | _ => false
      let valid := decide (Valid p) && cpu < 10000000
      let spec := if !valid then [] else match op with
        | "setting" => if p.remap then [] else (violations .create p ncpu r)
        | "create" => violations .create p ncpu r
        | _ => violations .update p ncpu r
      verdict id agree mj (spec.map ("C31:" ++ op ++ ":" ++ ·)) (if valid then s!"{op}:{kind}" else s!"invalid:{op}:{kind}")
    else if jhas impl "err" then
      let agree := match model with | .errInvalidMemory => jstr (jget impl "err") == "invalid-memory" | _ => false
      -- a valid allocation must be applied: memory limits in (0, 4MiB) are refused by design (docker minimum)
      verdict id agree mj [] ("err:" ++ jstr (jget impl "err"))
    else
      verdict id false mj ["C31:crash"] "crash"
end DockerO

/-! ### C24 -/
namespace NamesO
open Eru.Misc.Names Eru.Misc.Keys

structure W where
  app : Str
  entry : Str
  node : Str
  id : Str
  sfx : Str

def wOfJson (j : Json) : W :=
  { app := (jstr (jget j "app")).toList, entry := (jstr (jget j "entry")).toList, node := (jstr (jget j "node")).toList,
    id := (jstr (jget j "id")).toList, sfx := (jstr (jget j "sfx")).toList }

def S (l : Str) : String := String.ofList l

def insertCount (m : List (String × Int)) (k : String) : List (String × Int) :=
  match m with
  | [] => [(k, 1)]
  | (k', v) :: r => if k' = k then (k', v + 1) :: r else (k', v) :: insertCount r k

def sortCounts (m : List (String × Int)) : List (String × Int) := m.mergeSort (fun a b => a.1 ≤ b.1)

def countsToJson (m : List (String × Int)) : Json := Json.mkObj ((sortCounts m).map fun (k, v) => (k, ji v))

structure P where
  app : Str
  entry : Str
  node : Str
  ident : Str
  count : Int

def pOfJson (j : Json) : P :=
  { app := (jstr (jget j "app")).toList, entry := (jstr (jget j "entry")).toList, node := (jstr (jget j "node")).toList,
    ident := (jstr (jget j "ident")).toList, count := jint (jget j "count") }

def addCount (m : List (String × Int)) (k : String) (n : Int) : List (String × Int) :=
  match m with
  | [] => [(k, n)]
  | (k', v) :: r => if k' = k then (k', v + n) :: r else (k', v) :: addCount r k n

def colorOf (j : Json) : List (String × String) :=
  let c := jstr (jget j "color")
  if c == "" then [] else [("color", c)]

def handleWorld (j : Json) : Json :=
  let id := jget j "id"
  let redis := jstr (jget j "backend") == "redis"
  let wsj := jarr (jget j "world")
  let ws := wsj.map fun w => (wOfJson w, colorOf w)
  let ps := (jarr (jget j "procs")).map pOfJson
  let impl := jget j "impl"
  -- keys the store writes: the (app, entry) of the deploy and status keys are parsed back from the name
  let stored : List (W × List (String × String) × Str × Str) := ws.filterMap fun (w, col) =>
    let wl : WL := { app := w.app, entry := w.entry, node := w.node, id := w.id, ident := w.sfx, labels := col }
    match storedKey deployRoot wl, storedKey statusRoot wl with
    | some d, some s => some (w, col, d, s)
    | _, _ => none
  let pkeys : List (P × Str) := ps.map fun p => (p, workloadKey processingRoot p.app p.entry p.node p.ident)
  let sel (pre : Str) (k : Str) : Bool := if redis then globMatch (pre ++ ['*']) k else hasPrefix pre k
  let qs := jarr (jget j "queries")
  let rs := jarr (jget impl "results")
  let names : List Str := (ws.flatMap fun (w, _) => [w.app, w.entry, w.node]) ++ (ps.flatMap fun p => [p.app, p.entry, p.node]) ++
    (qs.flatMap fun q => [(jstr (jget q "app")).toList, (jstr (jget q "entry")).toList, (jstr (jget q "node")).toList]).filter (· ≠ [])
  let unclean := names.any fun n => !decide (CleanName n)
  let globby := redis && names.any fun n => !decide (GlobFree n)
  let sfx := if unclean then ":unclean" else if globby then ":glob" else ""
  let step (acc : Bool × List Json × List String) (qr : Json × Json) : Bool × List Json × List String :=
    let (q, r) := qr
    let fa := (jstr (jget q "app")).toList
    let fe := (jstr (jget q "entry")).toList
    let fn := (jstr (jget q "node")).toList
    let kind := jstr (jget q "kind")
    let lab : List (String × String) := if jstr (jget q "label") == "" then [] else [("color", jstr (jget q "label"))]
    let limit := jnat (jget q "limit")
    if kind == "list" || kind == "stream" then
      let isStream := kind == "stream"
      let pre := listPrefix (if isStream then statusRoot else deployRoot) fa fe fn
      -- etcd returns the range in key order; the limit cuts it before the label filter is applied
      let hit := (stored.filter fun x => sel pre (if isStream then x.2.2.2 else x.2.2.1)).mergeSort
        (fun x y => String.ofList x.2.2.1 ≤ String.ofList y.2.2.1)
      let modelIds := sortStrs (((applyLimit limit hit).filter fun x => labelsFilter x.2.1 lab).map fun x => S x.1.id)
      let want := sortStrs ((ws.filter fun (w, col) => filterMatches fa fe fn w.app w.entry w.node && labelsFilter col lab).map fun (w, _) => S w.id)
      let got := jstrs (jget r (if isStream then "stream" else "ids"))
      let isErr := jhas r "err"
      let tag := if isStream then "C24:stream:" else "C24:list:"
      let viol :=
        if isErr then [tag ++ "error" ++ sfx]
        else if limit > 0 then
          -- with a limit the result must be `min limit |want|` of the wanted workloads (no labels in these queries)
          (if got.all (fun i => want.contains i) then [] else [tag ++ "extra" ++ sfx]) ++
          (if got.length == min limit want.length then [] else [tag ++ "limit" ++ sfx])
        else
          (if got.any (fun i => !want.contains i) then [tag ++ "extra" ++ sfx] else []) ++
          (if want.any (fun i => !got.contains i) then [tag ++ "missing" ++ sfx] else [])
      let agreeQ := !isErr && (if limit > 0 && redis then got.length == modelIds.length && got.all (fun i => (hit.map fun x => S x.1.id).contains i) else got == modelIds)
      (acc.1 && agreeQ, acc.2.1 ++ [Json.arr (modelIds.map Json.str).toArray], acc.2.2 ++ viol)
    else
      let pre := countPrefix deployRoot fa fe
      let ppre := countPrefix processingRoot fa fe
      let modelC0 := (stored.filter fun x => sel pre x.2.2.1).foldl (fun m x => insertCount m (S (nodeOfKey x.2.2.1))) []
      let modelC := (pkeys.filter fun pk => sel ppre pk.2).foldl (fun m pk => addCount m (S (nodeOfKey pk.2)) pk.1.count) modelC0
      let wantC0 := (ws.filter fun (w, _) => fa == w.app && fe == w.entry).foldl (fun m (w, _) => insertCount m (S w.node)) []
      let wantC := (ps.filter fun p => fa == p.app && fe == p.entry).foldl (fun m p => addCount m (S p.node) p.count) wantC0
      let gotC := sortCounts ((jobjList (jget r "counts")).map fun (k, v) => (k, jint v))
      let isErr := jhas r "err"
      let viol := if isErr then ["C24:count:error" ++ sfx] else if gotC == sortCounts wantC then [] else ["C24:count:wrong" ++ sfx]
      (acc.1 && !isErr && gotC == sortCounts modelC, acc.2.1 ++ [countsToJson modelC], acc.2.2 ++ viol)
  let (agree, model, viols) := (qs.zip rs).foldl step (true, [], [])
  let agree := agree && qs.length == rs.length && (jarr (jget impl "add_errs")).isEmpty
  let hasStream := qs.any fun q => jstr (jget q "kind") == "stream"
  verdict id agree (Json.arr model.toArray) viols.eraseDups
    ("world:" ++ (if redis then "redis" else "etcd") ++ (if sfx == "" then ":clean" else sfx) ++ (if hasStream then "+stream" else "") ++ (if ps.isEmpty then "" else "+proc")) (ws.length < 2)

def handle (j : Json) : Json :=
  let id := jget j "id"
  let impl := jget j "impl"
  let tripleJson (o : Option (Str × Str × Str)) : Json := match o with
    | some (a, e, i) => Json.mkObj [("app", S a), ("entry", S e), ("ident", S i)]
    | none => Json.mkObj [("err", "invalid-name")]
  let sameTriple (o : Option (Str × Str × Str)) : Bool := match o with
    | some (a, e, i) => jhas impl "app" && jstr (jget impl "app") == S a && jstr (jget impl "entry") == S e && jstr (jget impl "ident") == S i
    | none => jhas impl "err"
  match jstr (jget j "op") with
  | "parse" =>
    let m := parseName (jstr (jget j "name")).toList
    verdict id (sameTriple m) (tripleJson m) [] "parse"
  | "roundtrip" =>
    let w := wOfJson ((jarr (jget j "world")).headD Json.null)
    let m := parseName (makeName w.app w.entry w.sfx)
    let ok := sameTriple (some (w.app, w.entry, w.sfx))
    let sfx := if decide (CleanName w.app) then "" else ":unclean"
    verdict id (sameTriple m) (tripleJson m) (if ok then [] else ["C24:parse-back" ++ sfx]) ("roundtrip" ++ sfx)
  | "join" =>
    let m := pathJoin ((jstrs (jget j "elems")).map String.toList)
    verdict id (jstr (jget impl "path") == S m) (Json.str (S m)) [] "join"
  | "suffix" =>
    -- names generated as create.go does, with the real utils.RandomString(6)
    let w := wOfJson ((jarr (jget j "world")).headD Json.null)
    let src := (jstr (jget impl "alphabet_src")).toList
    let seen := (jstr (jget impl "alphabet_seen")).toList
    let samples := jarr (jget impl "samples")
    -- model = implementation on every reported sample
    let sampleAgree := samples.all fun sm =>
      match parseName (makeName w.app w.entry (jstr (jget sm "sfx")).toList) with
      | some (a, e, i) => !jbool (jget sm "err") && jstr (jget sm "app") == S a && jstr (jget sm "entry") == S e && jstr (jget sm "ident") == S i
      | none => jbool (jget sm "err")
    let alphaAgree := src == suffixLetters && seen.all (fun c => suffixLetters.contains c)
    let okAlpha := decide (SuffixAlphabetOK src) && decide (SuffixAlphabetOK seen) && !src.isEmpty
    let failed := jnat (jget impl "failed")
    let spec := (if okAlpha then [] else ["C24:suffix-alphabet"]) ++ (if failed == 0 then [] else ["C24:parse-back:generated-suffix"])
    verdict id (sampleAgree && alphaAgree && (failed == 0 || !okAlpha)) (Json.mkObj [("alphabet", S suffixLetters)]) spec "suffix"
  | "world" => handleWorld j
  | _ => verdict id false Json.null [] "unknown-op"
end NamesO

/-! ### C29 -/
namespace SendO
open Eru.Misc.Chunks Eru.Misc.Sender

def contentOf (len a b : Nat) : List Nat := (List.range len).map fun i => (a * i + b) % 256

def hexVal (c : Char) : Nat :=
  if c.isDigit then c.toNat - '0'.toNat else if 'a' ≤ c ∧ c ≤ 'f' then c.toNat - 'a'.toNat + 10 else c.toNat - 'A'.toNat + 10

def unhex : List Char → List Nat
  | a :: b :: r => (hexVal a * 16 + hexVal b) :: unhex r
  | _ => []

def dedup (l : List String) : List String := l.foldl (fun acc x => if acc.contains x then acc else acc ++ [x]) []

def handleChunks (j : Json) : Json :=
  let id := jget j "id"
  let content := contentOf (jnat (jget j "len")) (jnat (jget j "a")) (jnat (jget j "b"))
  let size := jnat (jget j "chunk")
  let ids := jstrs (jget j "ids")
  let impl := (jarr (jget (jget j "impl") "chunks"))
  let implChunks := impl.map fun c => unhex (jstr (jget c "hex")).toList
  match toChunksO size content with
  | .ok model =>
    let agree := implChunks == model
    let metaOk := impl.all fun c => jstrs (jget c "ids") == ids && jstr (jget c "dst") == jstr (jget j "dst") &&
      jnat (jget c "size") == content.length && jint (jget c "mode") == jint (jget j "mode") &&
      jint (jget c "uid") == jint (jget j "uid") && jint (jget c "gid") == jint (jget j "gid")
    let want := if content.length = 0 then 1 else (content.length + size - 1) / size
    let spec := (if implChunks.flatten == content then [] else ["C29:chunks-concat"]) ++
      (if implChunks.all (fun c => c.length ≤ size) then [] else ["C29:chunk-bound"]) ++
      (if implChunks.length == want then [] else [if implChunks.isEmpty then "C29:chunk-count:empty-file-no-chunk" else "C29:chunk-count"]) ++
      (if metaOk then [] else ["C29:chunk-meta"])
    verdict id agree (Json.arr (model.map (fun c => ji c.length)).toArray) spec
      ("chunks:" ++ (if content.length = 0 then "empty" else if content.length % size = 0 then "exact" else "ragged"))
  | _ => verdict id false Json.null [] "chunks:diverge"

def behOfJson (j : Json) : Beh :=
  let l := jint (jget j "limit")
  { missing := jbool (jget j "missing"), limit := if l < 0 then none else some l.toNat, fail := jbool (jget j "fail") }

def errName (b : Beh) : String := if b.missing then "target" else if b.fail then "engine" else ""

def handleSend (j : Json) : Json :=
  let id := jget j "id"
  let len := jnat (jget j "len")
  let content := contentOf len (jnat (jget j "a")) (jnat (jget j "b"))
  let size := jnat (jget j "chunk")
  let ids := dedup (jstrs (jget j "ids"))
  let behs := ids.map fun i => behOfJson (jget (jget j "behs") i)
  let dst := jstr (jget j "dst")
  let impl := jget j "impl"
  match toChunksO size content with
  | .ok chunks =>
    let M : CopyArgs := { dst := dst, size := len, mode := jint (jget j "mode"), uid := jint (jget j "uid"), gid := jint (jget j "gid") }
    let msgs : List Msg := chunks.map fun ch => { md := M, chunk := ch }
    -- the raw target list (duplicates included) as indices into the distinct targets: the model de-duplicates
    let rawIdx : List Nat := (jstrs (jget j "ids")).map fun i => (ids.findIdx? (· == i)).getD 0
    let s0 := initState ids.length rawIdx msgs
    let fuel := 20 * (s0.todo.length + ids.length + 2) + 4 * (len + 1) * ids.length + 100
    let s1 := run behs fuel s0
    let s2 := runRev behs fuel s0
    let outcome (s : State) : List (String × List Bool × Nat) :=
      (ids.zip s.ts).map fun (i, t) => (i, t.results, t.got.length)
    let modelFinished := final s1 && final s2 && quiescent s1
    let schedOk := outcome s1 == outcome s2
    let mj := Json.mkObj [("finished", modelFinished), ("schedule_independent", schedOk),
      ("targets", Json.arr ((outcome s1).map fun (i, r, g) => Json.mkObj [("id", i), ("results", Json.arr (r.map Json.bool).toArray), ("got_len", ji g)]).toArray)]
    if !jbool (jget impl "finished") then
      verdict id (!modelFinished) mj ["C29:not-finished"] "send:hang"
    else
      let results := (jarr (jget impl "results")).map fun r => (jstr (jget r "id"), jstr (jget r "path"), jstr (jget r "err"))
      let ib := ids.zip behs
      let wantResults := (ib.map fun (i, b) => (i, (if b.missing then "" else dst), errName b)).mergeSort (fun a b => a.1 ≤ b.1)
      let resultsOk := results.mergeSort (fun a b => a.1 ≤ b.1) == wantResults
      let tg := jget impl "targets"
      let contentOk := ib.all fun (i, b) =>
        if b.missing then !jhas tg i
        else jhas tg i && jnat (jget (jget tg i) "got_len") == (expectedGot b content).length && jbool (jget (jget tg i) "prefix_ok")
          && jnat (jget (jget tg i) "calls") == 1
      let wantArgs := Json.arr #[Json.str dst, ji len, jget j "uid", jget j "gid", jget j "mode"]
      let metaOk := ib.all fun (i, b) => b.missing || (jget (jget tg i) "args").compress == wantArgs.compress
      let spec := (if resultsOk then [] else ["C29:results"]) ++ (if contentOk then [] else ["C29:content"]) ++
        (if metaOk then [] else ["C29:owner-mode-size"])
      -- correspondence: the model's final state (any schedule) predicts the same results and byte counts
      let modelResultsOk := (ids.zip s1.ts).all fun (i, t) =>
        let b := behOfJson (jget (jget j "behs") i)
        t.results == [expectedErr b] && t.got == expectedGot b content && t.args == some M &&
        (b.missing || jnat (jget (jget tg i) "got_len") == t.got.length)
      let agree := modelFinished && schedOk && modelResultsOk && resultsOk
      let cls := "send:" ++ (if len = 0 then "empty" else if chunks.length > 11 then "big" else "small") ++
        (if behs.any (fun b => b.missing) then "+missing" else "") ++
        (if behs.any (fun b => !b.missing && b.limit.isSome) then "+abort" else "") ++
        (if (jstrs (jget j "ids")).length != ids.length then "+dup" else "")
      verdict id agree mj spec cls
  | _ => verdict id false Json.null [] "send:diverge"

/-- several files on one SendLargeFile stream, each with its own target list -/
def handleStream (j : Json) : Json :=
  let id := jget j "id"
  let size := jnat (jget j "chunk")
  let files := jarr (jget j "files")
  let ids := dedup (files.flatMap fun f => jstrs (jget f "ids"))
  let behs := ids.map fun i => behOfJson (jget (jget j "behs") i)
  let impl := jget j "impl"
  let fileInfo := files.map fun f =>
    let content := contentOf (jnat (jget f "len")) (jnat (jget f "a")) (jnat (jget f "b"))
    let M : CopyArgs := { dst := jstr (jget f "dst"), size := content.length, mode := jint (jget f "mode"), uid := jint (jget f "uid"), gid := jint (jget f "gid") }
    let idx : List Nat := (jstrs (jget f "ids")).map fun i => (ids.findIdx? (· == i)).getD 0
    (M, content, idx, dedup (jstrs (jget f "ids")))
  let stream : List (List Nat × Msg) := fileInfo.flatMap fun (M, content, idx, _) =>
    match toChunksO size content with
    | .ok chunks => chunks.map fun ch => (idx, ({ md := M, chunk := ch } : Msg))
    | _ => []
  let s0 := initStateM ids.length stream
  let total := (fileInfo.map fun (_, c, _, _) => c.length + 1).foldl (· + ·) 0
  let fuel := 20 * (s0.todo.length + ids.length + 2) + 4 * total * ids.length + 100
  let s1 := run behs fuel s0
  let s2 := runRev behs fuel s0
  let outcome (s : State) := s.ts.map fun t => (t.results, t.got.length, t.args.map (·.dst))
  let modelFinished := final s1 && final s2 && quiescent s1
  let schedOk := outcome s1 == outcome s2
  let mj := Json.mkObj [("finished", modelFinished), ("schedule_independent", schedOk),
    ("targets", Json.arr ((ids.zip s1.ts).map fun (i, t) => Json.mkObj [("id", i), ("results", Json.arr (t.results.map Json.bool).toArray),
      ("got_len", ji t.got.length), ("dst", (t.args.map (·.dst)).getD "")]).toArray)]
  if !jbool (jget impl "finished") then
    verdict id (!modelFinished) mj ["C29:not-finished"] "stream:hang"
  else
    let results := (jarr (jget impl "results")).map fun r => (jstr (jget r "id"), jstr (jget r "path"), jstr (jget r "err"))
    let tg := jget impl "targets"
    -- the (target, file) pairs; `first` = this is the first file addressed to that target on the stream
    let pairs : List (String × Beh × CopyArgs × List Nat × Bool) := (fileInfo.zipIdx.flatMap fun ((M, content, _, tids), k) =>
      tids.map fun i =>
        let b := behOfJson (jget (jget j "behs") i)
        let first := !((fileInfo.take k).any fun (_, _, _, t') => t'.contains i)
        (i, b, M, content, first))
    let judge (first : Bool) : List String :=
      let ps := pairs.filter fun p => p.2.2.2.2 == first
      let sfx := if first then "" else ":second-file-same-target"
      let resOk := ps.all fun (i, b, M, _, _) =>
        (results.filter fun r => r.1 == i && (r.2.1 == M.dst || (b.missing && r.2.1 == ""))).length ≥ 1 &&
        results.any fun r => r.1 == i && r.2.2 == errName b
      let contOk := ps.all fun (i, b, M, content, _) =>
        let key := i ++ "|" ++ M.dst
        if b.missing then !jhas tg key
        else jhas tg key && jnat (jget (jget tg key) "got_len") == (expectedGot b content).length &&
          jbool (jget (jget tg key) "prefix_ok") && jnat (jget (jget tg key) "calls") == 1 &&
          (jget (jget tg key) "args").compress == (Json.arr #[Json.str M.dst, ji content.length, ji M.uid, ji M.gid, ji M.mode]).compress
      (if resOk then [] else ["C29:results" ++ sfx]) ++ (if contOk then [] else ["C29:content" ++ sfx])
    -- a missing target listed for several files reports once (one sender, lookup fails once): only its first file is judged
    let extra := results.filter fun r => !(pairs.any fun (i, b, M, _, _) => r.1 == i && (r.2.1 == M.dst || (b.missing && r.2.1 == "")))
    let spec := judge true ++ judge false ++ (if extra.isEmpty && results.length ≤ pairs.length then [] else ["C29:results:unexpected"])
    -- correspondence: per target the model predicts the result list, the bytes and the file (dst) its engine saw
    let agree := modelFinished && schedOk && (ids.zip (behs.zip s1.ts)).all fun (i, b, t) =>
      let rs := results.filter fun r => r.1 == i
      rs.length == t.results.length && rs.all (fun r => t.results.contains (r.2.2 != "")) &&
      (if b.missing then true else
        match t.args with
        | some a => let key := i ++ "|" ++ a.dst
                    jhas tg key && jnat (jget (jget tg key) "got_len") == t.got.length && rs.all (fun r => r.2.1 == a.dst)
        | none => rs.isEmpty)
    let multi := pairs.any fun p => !p.2.2.2.2
    verdict id agree mj spec.eraseDups ("stream:" ++ toString files.length ++ "files" ++ (if multi then "+same-target" else "+disjoint"))

def handle (j : Json) : Json :=
  -- not judged: an existing workload was answered with a lock/lookup error (environment) and the re-run passed
  if jhas (jget j "impl") "timing_off" then verdict (jget j "id") true Json.null [] "timing-off" true else
  match jstr (jget j "op") with
  | "chunks" => handleChunks j
  | "send" => handleSend j
  | "stream" => handleStream j
  | _ => verdict (jget j "id") false Json.null [] "unknown-op"
end SendO

/-! ### C27 -/
namespace HeliumO
open Eru.Misc.Helium

structure Sim where
  reg : List String          -- registered addresses (sorted)
  st : St
  pending : List Nat         -- Unsubscribe calls that have not returned yet
  asked : List Nat           -- every sid for which Unsubscribe was called
  prev : List (Nat × List String)  -- last observation of the readers
  race : Bool := false       -- registrations were committed while the stream was starting
  hist : List (List String) := []  -- every registered set so far (a stuck loop may deliver any stale one)

def insertSorted (l : List String) (a : String) : List String := sortStrs (if l.contains a then l else a :: l)

def lastOf (st : St) (sid : Nat) : Option (List String) :=
  match st.subs.find? (·.id == sid) with
  | some s => s.inbox.getLast?
  | none => none

def stepSim (acc : Sim × Bool × List String × List Json) (so : Json × Json) : Sim × Bool × List String × List Json :=
  let (sim, agree, viols, models) := acc
  let (stp, ob) := so
  -- 1. global registration change
  let raceAddrs := jstrs (jget stp "race")
  let regR := raceAddrs.foldl insertSorted sim.reg
  let reg0 := if jhas stp "reg" then insertSorted regR (jstr (jget stp "reg"))
             else if jhas stp "dereg" then regR.filter (· != jstr (jget stp "dereg")) else regR
  let race := sim.race || !raceAddrs.isEmpty
  -- a multi-key transaction = one watch response with several events (a delete of an absent key yields no event)
  let resp : List WEv := (jarr (jget stp "txn")).filterMap fun o =>
    if jhas o "put" then some (WEv.put (jstr (jget o "put")))
    else if reg0.contains (jstr (jget o "del")) then some (WEv.del (jstr (jget o "del"))) else none
  let reg := if resp.isEmpty then reg0 else sortStrs (applyResp reg0 resp).1
  -- 2. the instance's own operation
  let sid := jnat (jget stp "sid")
  let op := jstr (jget stp "op")
  let st0 := sim.st
  let st1 : St := match op with
    | "sub" =>
      let n := if jnat (jget stp "n") < 1 then 1 else jnat (jget stp "n")
      (List.range n).foldl (fun st k => subscribe st { id := sid + k, reading := jstr (jget stp "mode") == "reader", cancelled := false, inbox := [] } st.subs.length) st0
    | "cancel" => { st0 with subs := st0.subs.map fun s => if s.id == sid then { s with cancelled := true, reading := false } else s }
    | _ => st0
  let pending0 := if op == "unsub" then sim.pending ++ [sid] else sim.pending
  let asked := if op == "unsub" then sim.asked ++ [sid] else sim.asked
  -- A loop that was stuck and is released in this step (its stuck subscriber was cancelled) returns to its
  -- `select`, where Go picks at random between a pending Unsubscribe and a tick/update; if another stuck
  -- subscriber exists, the first choice lets that Unsubscribe complete and the second blocks again. The
  -- oracle resolves this choice from the observation: an Unsubscribe that was pending while the loop was
  -- stuck and is observed completed has been selected first.
  let obsDone (i : Nat) : Bool := let u := jget (jget ob "unsubs") (toString i); jbool (jget u "done") && jbool (jget u "closed")
  let early := if st1.blocked then pending0.filter obsDone else []
  let st1 : St := if early.isEmpty then st1 else
    { st1 with subs := st1.subs.filter (fun s => !early.contains s.id), closedIds := early ++ st1.closedIds }
  let pending := pending0.filter fun i => !early.contains i
  -- 3. the loop during the waiting window (longer than one push interval)
  let stuckNow := st1.subs.any (·.stuck)
  let st2a : St := if st1.blocked && !stuckNow then { st1 with blocked := false } else st1
  -- the watch fails (the stream closes its channel): within this step it races with the step's own update
  let st2 : St := if op == "closewatch" then turn st2a Ev.closed else st2a
  let evs : List Ev := pending.map Ev.unsub ++ (if st2.latest == reg then [] else [Ev.update reg]) ++ [Ev.tick]
  let st3 := run st2 evs
  let pending' := pending.filter fun i => !st3.closedIds.contains i
  -- 4. compare with the observation
  let liveReaders := st3.subs.filter fun s => s.live && !asked.contains s.id
  let obsLast (i : Nat) : Option (List String) :=
    let r := jget ob "readers"
    if jhas r (toString i) then some (jstrs (jget r (toString i))) else none
  let sfx := if st3.exited then ":stream-closed" else if stuckNow then ":slow-reader" else if race then ":start-race" else ""
  let v1 := liveReaders.filterMap fun s => if obsLast s.id == some reg then none else some ("C27:not-converged" ++ sfx)
  -- hold steps: the loop takes at least hold/interval turns, each of which reaches every live subscriber
  -- (`dispatch_ready`: one more status in every live inbox per turn); one turn may be lost at the edges
  let holdMs := jnat (jget stp "hold_ms")
  let v3 := if holdMs == 0 || stuckNow || st3.exited then [] else liveReaders.filterMap fun s =>
    if jnat (jget (jget ob "pushes") (toString s.id)) + 1 ≥ holdMs / 1000 then none else some "C27:missed-push"
  let unsubDone (i : Nat) : Bool := let u := jget (jget ob "unsubs") (toString i); jbool (jget u "done") && jbool (jget u "closed")
  let v2 := asked.filterMap fun i => if unsubDone i then none else some ("C27:unsubscribe-blocked" ++ sfx)
  let agreeReaders := liveReaders.all fun s =>
    if st3.blocked || st3.exited || sim.st.blocked then
      obsLast s.id == some reg || obsLast s.id == (sim.prev.lookup s.id) || obsLast s.id == lastOf st3 s.id ||
      (match obsLast s.id with | some l => sim.hist.contains l | none => false)
    else obsLast s.id == lastOf st3 s.id && lastOf st3 s.id == some reg
  let agreeUnsubs := asked.all fun i => unsubDone i == st3.closedIds.contains i
  let prev := liveReaders.filterMap fun s => (obsLast s.id).map fun l => (s.id, l)
  let mj := Json.mkObj [("blocked", st3.blocked), ("exited", st3.exited), ("registered", Json.arr (reg.map Json.str).toArray),
    ("closed", Json.arr (st3.closedIds.map (fun i => ji (Int.ofNat i))).toArray)]
  ({ reg := reg, st := st3, pending := pending', asked := asked, prev := prev, race := race, hist := reg :: sim.hist }, agree && agreeReaders && agreeUnsubs && v3.isEmpty, viols ++ v1 ++ v2 ++ v3, models ++ [mj])

def handle (j : Json) : Json :=
  let id := jget j "id"
  let steps := jarr (jget j "steps")
  -- not judged: the first run of this timeline did not converge before the deadline but a re-run with
  -- fresh instances did (`timing-off`), or the case was not re-run at all (`unconfirmed`)
  if jhas (jget j "impl") "timing_off" then verdict id true Json.null [] "timing-off" true else
  if jhas (jget j "impl") "unconfirmed" then verdict id true Json.null [] "unconfirmed" true else
  let obs := jarr (jget (jget j "impl") "obs")
  let init : Sim := { reg := [], st := { latest := [], subs := [], closedIds := [], blocked := false }, pending := [], asked := [], prev := [] }
  let (_, agree, viols, models) := (steps.zip obs).foldl stepSim (init, true, [], [])
  let hasSlow := steps.any fun s => jstr (jget s "mode") == "slow"
  let hasUnsub := steps.any fun s => jstr (jget s "op") == "unsub"
  let hasClose := steps.any fun s => jstr (jget s "op") == "closewatch"
  let hasTxn := steps.any fun s => jhas s "txn"
  let hasRace := steps.any fun s => jhas s "race"
  verdict id (agree && steps.length == obs.length) (Json.arr models.toArray) viols.eraseDups
    ("helium:" ++ (if hasSlow then "slow" else "ready") ++ (if hasUnsub then "+unsub" else "") ++ (if hasClose then "+watchclosed" else "") ++ (if hasTxn then "+txn" else "") ++ (if hasRace then "+startrace" else ""))
end HeliumO

end Oracle.Misc
