import Oracle.J
import Eru.Misc.Docker
/- Oracle for the "misc" group (C24, C27, C29, C31): runs the model on each case, compares
   with the implementation's output and evaluates the specification on that output. -/
namespace Oracle.Misc
open Lean Oracle Eru Eru.Misc

def jstrs (j : Json) : List String := (jarr j).map jstr
def sortStrs (l : List String) : List String := l.mergeSort (fun a b => a ≤ b)
def verdict (id : Json) (agree : Bool) (model : Json) (spec : List String) (cls : String) (trivial : Bool := false) : Json :=
  Json.mkObj [("id", id), ("agree", agree), ("model", model), ("spec", Json.arr (spec.map Json.str).toArray),
              ("class", cls), ("trivial", trivial)]
def sint (j : Json) : Int := match j with
  | .str s => s.toInt?.getD 0
  | _ => jint j

/-! ### C31 -/
namespace DockerO
open Eru.Misc.Docker

def resToJson (r : Res) : Json :=
  Json.mkObj [("quota", ji r.quota), ("period", ji r.period), ("shares", ji r.shares),
    ("cpuset", Json.arr ((sortStrs r.cpuset).map Json.str).toArray), ("mems", r.mems),
    ("memory", toString r.memory), ("swap", toString r.swap), ("reservation", toString r.reservation)]

def resOfJson (j : Json) : Res :=
  { quota := jint (jget j "quota"), period := jint (jget j "period"), shares := jint (jget j "shares"),
    cpuset := jstrs (jget j "cpuset"), mems := jstr (jget j "mems"), memory := sint (jget j "memory"),
    swap := sint (jget j "swap"), reservation := sint (jget j "reservation") }

def resEq (a b : Res) : Bool :=
  a.quota == b.quota && a.period == b.period && a.shares == b.shares && sortStrs a.cpuset == sortStrs b.cpuset &&
  a.mems == b.mems && a.memory == b.memory && a.swap == b.swap && a.reservation == b.reservation

def handle (j : Json) : Json :=
  let id := jget j "id"
  let op := jstr (jget j "op")
  let impl := jget j "impl"
  match F64.ofBits (jstr (jget j "cpu_bits")).toNat! with
  | none => verdict id true Json.null [] "nan-inf" true
  | some cpu =>
    let cores := sortStrs ((jobjList (jget j "cpu_map")).map (·.1))
    let p : Params := { cpu := cpu, memory := jint (jget j "memory"), cores := cores, numa := jstr (jget j "numa"), remap := jbool (jget j "remap") }
    let ncpu := jnat (jget j "ncpu")
    let model : Result := match op with
      | "setting" => .ok (makeResourceSetting p.cpu p.memory p.cores p.numa p.remap)
      | "create" => create p
      | _ => update p ncpu
    let mj := match model with | .ok r => resToJson r | .errInvalidMemory => Json.mkObj [("err", "invalid-memory")]
    let kind := if p.cores.isEmpty then "unbound" else if p.remap then "remap" else "bound"
    if jhas impl "quota" then
      let r := resOfJson impl
      let agree := match model with | .ok m => resEq m r | _ => false
      let valid := decide (Valid p) && cpu < 10000000
      let spec := if !valid then [] else match op with
        | "setting" => if p.remap then [] else (violations .create p ncpu r)
        | "create" => violations .create p ncpu r
        | _ => violations .update p ncpu r
      verdict id agree mj (spec.map ("C31:" ++ op ++ ":" ++ ·)) (if valid then s!"{op}:{kind}" else s!"invalid:{op}:{kind}")
    else if jhas impl "err" then
      let agree := match model with | .errInvalidMemory => jstr (jget impl "err") == "invalid-memory" | _ => false
      -- a valid allocation must be applied: memory limits in (0, 4MiB) are refused by design (docker minimum)
      verdict id agree mj [] ("err:" ++ jstr (jget impl "err"))
    else
      verdict id false mj ["C31:crash"] "crash"
end DockerO

end Oracle.Misc
