import Oracle.J
import Eru.Cluster2.Spec
import Eru.Cluster2.Lambda
import Eru.Cluster2.NodeDown
import Eru.Cluster2.Interleave
import Eru.Cluster2.StatusSpec
/- Oracle for the cluster2 group (C14, C30, C28, C22 and the cluster-level stream of C13): runs
   the model on the case, compares with the implementation's snapshots and evaluates the
   specification predicates on the implementation's output. Not part of any model or proof. -/
namespace Oracle.Cluster2
open Lean Oracle Eru.Cluster2
open Eru.Cluster (Res4 ResAlg nCores nNuma)

def jstrs (l : List String) : Json := Json.arr (l.map Json.str).toArray
def strs (j : Json) : List String := (jarr j).map jstr

def verdict (id : Json) (agree : Bool) (model : Json) (viol : List String) (cls : String) (trivial : Bool := false) : Json :=
  Json.mkObj [("id", id), ("agree", agree), ("model", model), ("spec", jstrs viol), ("class", cls), ("trivial", trivial)]

/-! ### resource vectors: [cpu, mem, core0..core15, numa0..numa3] -/
def resOfJson (j : Json) : Res4 :=
  let l := (jarr j).map jint
  { cpu := l.getD 0 0, mem := l.getD 1 0,
    cores := Vector.ofFn (fun i : Fin nCores => l.getD (2 + i.val) 0),
    numa := Vector.ofFn (fun i : Fin nNuma => l.getD (2 + nCores + i.val) 0) }
def resToJson (r : Res4) : Json :=
  Json.arr ((([r.cpu, r.mem] ++ r.cores.toList ++ r.numa.toList).map ji).toArray)

/-! ### states -/
def evToStr : Ev → String
  | .alloc ns => "alloc:" ++ ",".intercalate ns
  | .processing n => "processing:" ++ n
  | .created id n => s!"created:{id}:{n}"

def evOfJson (j : Json) : Ev :=
  match jstr (jget j "e") with
  | "allocate-workload" => .alloc (strs (jget j "nodes"))
  | "create-processing" => .processing (jstr (jget j "node"))
  | _ => .created (jnat (jget j "id")) (jstr (jget j "node"))

def lookupD (m : List (String × Res4)) (k : String) : Res4 :=
  match m.find? (fun p => p.1 == k) with
  | some p => p.2
  | none => ResAlg.zero

def stOfJson (j : Json) : St Res4 :=
  let us := (jobjList (jget j "usage")).map fun (k, v) => (k, resOfJson v)
  { usage := lookupD us,
    wls := (jarr (jget j "wls")).map fun w => ⟨jnat (jget w "id"), jstr (jget w "node"), resOfJson (jget w "res")⟩,
    cts := (jarr (jget j "cts")).map fun c => ⟨jnat (jget c "id"), jstr (jget c "node"), jbool (jget c "running")⟩,
    markers := (jarr (jget j "markers")).map fun m => (jstr (jget m "node"), jnat (jget m "count")),
    wal := (jarr (jget j "wal")).map evOfJson }

def sortStr (l : List String) : List String := l.mergeSort (fun a b => a ≤ b)

def stToJson (nodes : List String) (s : St Res4) : Json :=
  Json.mkObj [
    ("usage", Json.mkObj ((sortStr nodes).map fun n => (n, resToJson (s.usage n)))),
    ("wls", Json.arr ((s.wls.mergeSort (fun a b => a.id ≤ b.id)).map fun w =>
        Json.mkObj [("id", w.id), ("node", w.node), ("res", resToJson w.res)]).toArray),
    ("cts", Json.arr ((s.cts.mergeSort (fun a b => a.id ≤ b.id)).map fun c =>
        Json.mkObj [("id", c.id), ("node", c.node), ("running", c.running)]).toArray),
    ("markers", Json.arr ((s.markers.mergeSort (fun a b => a.1 < b.1 || (a.1 == b.1 && a.2 ≤ b.2))).map fun m =>
        Json.mkObj [("node", m.1), ("count", m.2)]).toArray),
    ("wal", jstrs (sortStr (s.wal.map evToStr)))]

def stepOfJson (j : Json) : Step Res4 :=
  let n := jstr (jget j "node")
  let id := jnat (jget j "id")
  match jstr (jget j "k") with
  | "logAlloc" => .logAlloc (strs (jget j "nodes"))
  | "pluginAlloc" => .pluginAlloc n ((jarr (jget j "rs")).map resOfJson)
  | "logProcessing" => .logProcessing n
  | "createProcessing" => .createProcessing n (jnat (jget j "count"))
  | "engineCreate" => .engineCreate id n
  | "logCreated" => .logCreated id n
  | "addWorkload" => .addWorkload id n (resOfJson (jget j "res"))
  | "engineStart" => .engineStart id
  | "commitCreated" => .commitCreated id n
  | "deleteProcessing" => .deleteProcessing n
  | "commitProcessing" => .commitProcessing n
  | "commitAlloc" => .commitAlloc (strs (jget j "nodes"))
  | k => .read k

def stepKind : Step Res4 → String
  | .logAlloc _ => "logAlloc" | .pluginAlloc _ _ => "pluginAlloc" | .logProcessing _ => "logProcessing"
  | .createProcessing _ _ => "createProcessing" | .engineCreate _ _ => "engineCreate"
  | .logCreated _ _ => "logCreated" | .addWorkload _ _ _ => "addWorkload" | .engineStart _ => "engineStart"
  | .commitCreated _ _ => "commitCreated" | .deleteProcessing _ => "deleteProcessing"
  | .commitProcessing _ => "commitProcessing" | .commitAlloc _ => "commitAlloc" | .read k => "read:" ++ k

/-- violations of `Good` on a state (the decidable form of the predicate of the C14 theorems) -/
def goodViolations (nodes : List String) (ids : List Nat) (s : St Res4) : List String :=
  (consistentOn s nodes).map (fun n => "C14:usage-differs-from-recorded:" ++ n) ++
  (s.markers.map fun m => "C14:marker-left:" ++ m.1) ++
  (s.wal.map fun e => "C14:event-left:" ++ evToStr e) ++
  ((unsettledOn s ids).map fun i => s!"C14:instance-recorded-not-running:{i}")

/-- C14: {nodes, ids, pre, trace (steps executed before the crash), crashed, impl (after recovery)} -/
def handleCrash (j : Json) : Json :=
  let id := jget j "id"
  let nodes := strs (jget j "nodes")
  let ids := (jarr (jget j "ids")).map jnat
  let pre := stOfJson (jget j "pre")
  let tr := (jarr (jget j "trace")).map stepOfJson
  let implCrash := stOfJson (jget j "crashed")
  let implFinal := stOfJson (jget j "impl")
  let mCrash := exec pre tr
  let mFinal := recover mCrash
  let agree1 := (stToJson nodes mCrash).compress == (stToJson nodes implCrash).compress
  let agree2 := (stToJson nodes mFinal).compress == (stToJson nodes implFinal).compress
  let proto := match firstInvalid pre tr 0 with
    | some i => [s!"C14:protocol:{stepKind (tr.getD i (.read "?"))}"]
    | none => []
  -- the exception: a container surviving recovery must have been unlogged at the crash
  let leakedLogged := ids.filter fun i => leaked implFinal i && pendingCreated implCrash.wal i
  let viol := proto ++ goodViolations nodes ids implFinal ++
    (leakedLogged.map fun i => s!"C14:logged-container-left:{i}")
  let last := match tr.reverse.filter (fun s => match s with | .read _ => false | _ => true) with
    | [] => "start"
    | s :: _ => stepKind s
  let nleak := (ids.filter fun i => leaked implFinal i).length
  let cls := s!"crash@{last}/n{(tr.filter fun s => match s with | .pluginAlloc _ _ => true | _ => false).length}" ++
    (if nleak > 0 then "/leak" else "")
  verdict id (agree1 && agree2)
    (Json.mkObj [("crashed", stToJson nodes mCrash), ("final", stToJson nodes mFinal),
                 ("agree_crashed", agree1), ("agree_final", agree2)])
    viol cls

/-! ### C30 -/
def scriptOfJson (j : Json) : Script :=
  { walLog := true,
    logs := if jbool (jget j "logs_fail") then none else some (jnat (jget j "lines")),
    attach := !jbool (jget j "attach_fail"),
    wait := if jbool (jget j "wait_fail") then none else some (jint (jget j "code")) }

def msgOfJson (j : Json) : Msg :=
  { wid := jnat (jget j "id"),
    kind := match jstr (jget j "kind") with
      | "data" => .data
      | "exit" => .exit (jint (jget j "code"))
      | _ => .error }

def msgToJson (m : Msg) : Json :=
  match m.kind with
  | .data => Json.mkObj [("id", m.wid), ("kind", "data")]
  | .error => Json.mkObj [("id", m.wid), ("kind", "error")]
  | .exit c => Json.mkObj [("id", m.wid), ("kind", "exit"), ("code", ji c)]

def addCreated (s : St Res4) (id : Nat) (node : String) (r : Res4) : St Res4 :=
  { s with usage := fun m => if m = node then s.usage m + r else s.usage m,
           wls := ⟨id, node, r⟩ :: s.wls, cts := ⟨id, node, true⟩ :: s.cts }

/-- C30: {nodes, ids, pre, shape.stdin, creates:[{id,node,res,script}], msgs, closed, impl} -/
def handleLambda (j : Json) : Json :=
  let id := jget j "id"
  if jstr (jget j "err") != "" then verdict id true Json.null [] "refused" true else
  let nodes := strs (jget j "nodes")
  let stdin := jbool (jget (jget j "shape") "stdin")
  let pre := stOfJson (jget j "pre")
  let creates := jarr (jget j "creates")
  let mid := creates.foldl (fun s c =>
    let i := jnat (jget c "id")
    if i == 0 then s else addCreated s i (jstr (jget c "node")) (resOfJson (jget c "res"))) pre
  let cms : List (CreateMsg × Script) := creates.map fun c =>
    let i := jnat (jget c "id")
    (if i == 0 then CreateMsg.failed else CreateMsg.ok i, scriptOfJson (jget c "script"))
  let r := runAll stdin cms ({ base := mid } : LSt Res4)
  let impl := stOfJson (jget j "impl")
  let implMsgs := (jarr (jget j "msgs")).map msgOfJson
  let closed := jbool (jget j "closed")
  let lamLeft := ((jarr (jget (jget j "impl") "wal")).filter fun e => jstr (jget e "e") == "create-lambda").length
  let okIds := cms.filterMap fun p => match p.1 with | .ok i => some i | .failed => none
  -- correspondence: final state, per-workload message sequences, pending events, closing
  let agreeSt := (stToJson nodes { r.1.base with wal := [] }).compress == (stToJson nodes { impl with wal := [] }).compress
  let noMsgs := jbool (jget j "no_msgs")   -- async rpc mode: messages are only logged by the handler
  let agreeMsgs := noMsgs || (0 :: okIds).all fun i => msgsOf i r.2 == msgsOf i implMsgs
  let agree := agreeSt && agreeMsgs && (lamLeft == r.1.lam.length) && (closed == streamCloses stdin cms ({ base := mid } : LSt Res4))
  -- specification on the implementation's output
  let vRemoved := okIds.flatMap fun i =>
    (if recorded impl i then [s!"C30:record-left:{i}"] else []) ++ (if hasCt impl i then [s!"C30:container-left:{i}"] else [])
  let vUsage := (consistentOn impl nodes).map (fun n => "C30:usage-differs-from-recorded:" ++ n) ++
    (nodes.filter fun n => !(okIds.any fun i => recorded impl i) && decide (impl.usage n ≠ pre.usage n)).map (fun n => "C30:usage-left:" ++ n)
  let vExit := if noMsgs then [] else cms.flatMap fun p =>
    match p.1 with
    | .failed => []
    | .ok i =>
      let ms := msgsOf i implMsgs
      let exits := ms.filter fun m => match m.kind with | .exit _ => true | _ => false
      let lastOk := match ms.getLast? with
        | none => false
        | some m => (match m.kind with | .data => false | _ => true)
      let expectExit := p.2.logs.isSome && (!stdin || p.2.attach) && p.2.wait.isSome
      (if !lastOk then [s!"C30:final-message-not-last:{i}"] else []) ++
      (if exits.length > 1 then [s!"C30:several-exit-codes:{i}"] else []) ++
      (if expectExit && ms.getLast? != some ⟨i, .exit (p.2.wait.getD 0)⟩ then [s!"C30:exit-code-not-last:{i}"] else [])
  let vWal := if lamLeft > 0 then ["C30:lambda-event-left"] else []
  let vClose := if closed then [] else ["C30:stream-not-closed"]
  let tags := cms.map fun p => match p.1 with
    | .failed => "createfail"
    | .ok _ => if p.2.logs.isNone then "logsfail" else if stdin && !p.2.attach then "attachfail"
               else if p.2.wait.isNone then "waitfail" else if p.2.wait == some 0 then "ok" else "exit"
  let rpcMode := jstr (jget (jget j "shape") "rpc")
  let cls := s!"run:c{cms.length}:" ++ (if stdin then "stdin:" else "") ++ (if rpcMode != "" then "rpc-" ++ rpcMode ++ ":" else "") ++
    (if jint (jget (jget j "shape") "send_fail") > 0 then "clientgone:" else "") ++ "+".intercalate (sortStr tags).eraseDups
  verdict id agree
    (Json.mkObj [("final", stToJson nodes r.1.base), ("msgs", Json.arr (r.2.map msgToJson).toArray),
                 ("agree_state", agreeSt), ("agree_msgs", agreeMsgs)])
    (vRemoved ++ vUsage ++ vExit ++ vWal ++ vClose) cls (okIds.isEmpty)

/-! ### C28 -/
namespace NDO
open Eru.Cluster2.ND

def evtOfJson (j : Json) : Evt :=
  match jstr (jget j "e") with
  | "heartbeat" => .heartbeat (jstr (jget j "n"))
  | "lapse" => .lapse (jstr (jget j "n"))
  | "create" => .create (jnat (jget j "id")) (jstr (jget j "n"))
  | "report" => .report (jnat (jget j "id")) ⟨jbool (jget j "running"), jbool (jget j "healthy")⟩
  | "stopWatcher" => .stopWatcher
  | "standby" => .standby
  | "bypass" => .bypass (jstr (jget j "n"))
  | _ => .startWatcher

def statusStr : Option WStatus → String
  | none => "none"
  | some ⟨r, h⟩ => (if r then "1" else "0") ++ (if h then "1" else "0")

def handle (j : Json) : Json :=
  let id := jget j "id"
  let nodes : List NodeRec := (jarr (jget j "nodes")).map fun n => { name := jstr (jget n "name"), test := jbool (jget n "test") }
  -- a lapse by TTL first writes the status key with a short lease (a heartbeat), then it expires
  let evs := (jarr (jget j "script")).flatMap fun e =>
    if jstr (jget e "e") == "lapse" && jstr (jget e "how") == "ttl" then [.heartbeat (jstr (jget e "n")), evtOfJson e]
    else if jstr (jget e "e") == "failUpdate" then []         -- a failing store.UpdateNodes of SetNode: no effect on the reports
    else if jstr (jget e "e") == "breakStream" then [.stopWatcher]  -- the stream ends: the watcher gives the key up
    else [evtOfJson e]
  let s0 : St := { nodes := nodes }
  let fin := run s0 evs
  let implSt := jget (jget j "impl") "status"
  let ids := fin.wls.map (·.id)
  let modelSt := ids.map fun i => (toString i, statusStr (getStatus fin i))
  let agree := ids.all fun i => jstr (jget implSt (toString i)) == statusStr (getStatus fin i)
  let ob := (obligations evs s0 []).eraseDups
  let viol := (ob.filter fun i => jstr (jget implSt (toString i)) != "00").map fun i => s!"C28:workload-still-up:{i}"
  let nlapse := (evs.filter fun e => match e with | .lapse _ => true | _ => false).length
  let hasStandby := evs.any (· == .standby)
  let hasBypass := evs.any fun e => match e with | .bypass _ => true | _ => false
  let startIdx := evs.findIdx (· == .startWatcher)
  let lapseBefore := (evs.take startIdx).any fun e => match e with | .lapse _ => true | _ => false
  let lapseAfter := (evs.drop startIdx).any fun e => match e with | .lapse _ => true | _ => false
  let cls := "down:" ++ (if ob.isEmpty then "none" else "marked") ++ (if lapseBefore then "+before" else "") ++
    (if lapseAfter then "+after" else "") ++ (if nodes.any (·.test) then "+test" else "") ++
    (if hasStandby then "+failover" else "") ++ (if hasBypass then "+bypass" else "") ++
    (if evs.any (· == .stopWatcher) then "+streambreak" else "") ++
    (if (jarr (jget j "script")).any (fun e => jstr (jget e "e") == "failUpdate") then "+updatefails" else "")
  verdict id agree (Json.mkObj (modelSt.map fun p => (p.1, Json.str p.2))) viol cls (ob.isEmpty || nlapse == 0 && !lapseBefore && ob.isEmpty)

end NDO

/-! ### C22 -/
namespace RIO
open Eru.Cluster2.RI

def rstOfJson (j : Json) : RState :=
  { pods := strs (jget j "pods"),
    nodes := (jarr (jget j "nodes")).map fun x => match jarr x with
      | [a, b] => (jstr a, jstr b)
      | _ => ("", ""),
    res := strs (jget j "res"),
    wls := (jarr (jget j "wls")).map fun x => (jnat (jget x "w"), jstr (jget x "n")) }

def canon (s : RState) : Json :=
  Json.mkObj [("pods", jstrs (sortStr s.pods)),
    ("nodes", jstrs (sortStr (s.nodes.map fun x => x.1 ++ "@" ++ x.2))),
    ("res", jstrs (sortStr s.res)),
    ("wls", jstrs (sortStr (s.wls.map fun x => s!"{x.1}@{x.2}")))]

def opOfJson (j : Json) : Op :=
  match jstr (jget j "op") with
  | "addPod" => .addPod (jstr (jget j "pod"))
  | "removePod" => .removePod (jstr (jget j "pod"))
  | "addNode" => .addNode (jstr (jget j "n")) (jstr (jget j "pod"))
  | "removeNode" => .removeNode (jstr (jget j "n"))
  | "create" => .create (jnat (jget j "w")) (jstr (jget j "n"))
  | _ => .remove (jnat (jget j "w"))

def pcOfInt : Int → Option PC
  | 0 => some .p0 | 1 => some .p1 | 2 => some .p2 | 3 => some .p3 | 4 => some .p4 | 5 => some .p5
  | 8 => some .p8 | 9 => some .p9 | _ => none

/-- run thread `i` until it is finished or blocked (at most `fuel` steps) -/
def runTo (fuel : Nat) (y : Sys) (i : Nat) : Sys :=
  match fuel with
  | 0 => y
  | f + 1 =>
    match y.ts[i]? with
    | none => y
    | some t => if t.done then y else
      match step y.s t with
      | none => y
      | some _ => runTo f (sysStep y i) i

/-- run thread 0 until it has made `k` labelled calls and its next call is labelled; returns the labels made -/
def runToPark (fuel : Nat) (y : Sys) (k : Nat) (acc : List String) : Sys × List String :=
  match fuel with
  | 0 => (y, acc)
  | f + 1 =>
    match y.ts[0]? with
    | none => (y, acc)
    | some t => if t.done then (y, acc) else
      let l := label t
      if l != "" && acc.length == k then (y, acc)
      else match step y.s t with
        | none => (y, acc)
        | some _ => runToPark f (sysStep y 0) k (if l != "" then acc ++ [l] else acc)

/-- all quiescent (or deadlocked) states reachable by letting the threads race -/
def outcomes : Nat → Sys → List Sys
  | 0, y => [y]
  | f + 1, y =>
    let en := (List.range y.ts.length).filter fun i =>
      match y.ts[i]? with
      | some t => !t.done && (step y.s t).isSome
      | none => false
    if en.isEmpty then [y] else en.flatMap fun i => outcomes f (sysStep y i)

def opName : Op → String
  | .addPod _ => "addPod" | .removePod _ => "removePod" | .addNode _ _ => "addNode"
  | .removeNode _ => "removeNode" | .create _ _ => "create" | .remove _ => "remove"

def handle (j : Json) : Json :=
  let id := jget j "id"
  let kind := jstr (jget j "kind")
  let pre := rstOfJson (jget j "pre")
  let impl := rstOfJson (jget j "impl")
  let a := opOfJson (jget j "a")
  let fault := pcOfInt (jint (jget j "fault_pc"))
  let listOk := jbool (jget j "list_ok")
  if kind == "three" then
    -- the fixed three-thread schedule of Eru.Props.C22.counterexample_two_removenode_vs_addnode
    let y := runSched ⟨pre, [{ op := a }, { op := .removeNode "n1" }, { op := .removeNode "n1" }]⟩
      [2, 1, 1, 1, 1, 1, 1, 0, 0, 2, 2, 2, 2, 2, 0]
    let oks := (jarr (jget j "oks")).map jbool
    let agree := (canon y.s).compress == (canon impl).compress && y.ts.map (·.ok) == oks && quiescent y
    let viol := (refViolations impl).map (fun v => "C22:two-removenode-vs-addnode:" ++ v) ++
      (if listOk then [] else ["C22:two-removenode-vs-addnode:list-workloads-fails"])
    verdict id agree (Json.mkObj [("state", canon y.s)]) viol "three:addNode|removeNode|removeNode" false
  else if kind == "hist" then
    -- sequential history: the model runs every operation alone; state, result and RefInv after EVERY operation
    let ops := (jarr (jget j "ops")).map opOfJson
    let states := (jarr (jget j "states")).map rstOfJson
    let oks := (jarr (jget j "oks")).map jbool
    let listOks := (jarr (jget j "list_oks")).map jbool
    let rec go (s : RState) (ops : List Op) (acc : List (RState × Bool)) : List (RState × Bool) :=
      match ops with
      | [] => acc.reverse
      | o :: rest =>
        let y := runTo 40 ⟨s, [{ op := o }]⟩ 0
        go y.s rest ((y.s, (y.ts.map (·.ok)).getD 0 false) :: acc)
    let ms := go pre ops []
    let agree := ms.length == states.length &&
      (List.zip ms (List.zip states oks)).all fun (m, st, ok) => (canon m.1).compress == (canon st).compress && m.2 == ok
    let viol := ((List.zip states (List.range states.length)).flatMap fun (st, i) =>
        (refViolations st).map fun v => s!"C22:after-{opName (ops.getD i (.remove 0))}:" ++ v).eraseDups ++
      (if listOks.all (fun b => b) then [] else ["C22:list-workloads-fails"])
    verdict id agree (Json.arr (ms.map fun m => canon m.1).toArray) viol s!"hist:{ops.length}" (ops.length < 2)
  else if kind == "fault" then
    let y := runTo 40 ⟨pre, [{ op := a, fault := fault }]⟩ 0
    let okA := (y.ts.map (·.ok)).getD 0 false
    let agree := (canon y.s).compress == (canon impl).compress && okA == jbool (jget j "ok_a") && quiescent y
    let pat := if opName a == "removeNode" && fault == some .p4 then "removenode-plugin-fault:" else ""
    let pat := if pat == "" && fault.isNone then s!"after-{opName a}:" else pat
    let viol := (refViolations impl).map (fun v => "C22:" ++ pat ++ v) ++
      (if listOk then [] else ["C22:" ++ pat ++ "list-workloads-fails"])
    verdict id agree (Json.mkObj [("state", canon y.s), ("ok_a", okA)]) viol
      (s!"fault:{opName a}@{jint (jget j "fault_pc")}") false
  else
    let b := opOfJson (jget j "b")
    let k := jnat (jget j "k")
    let y0 : Sys := ⟨pre, [{ op := a }, { op := b }]⟩
    let (y1, labs) := runToPark 40 y0 k []
    -- B to completion (or until it blocks on a lock held by the parked A), then A, then B
    let y2 := runTo 40 y1 1
    let y3 := runTo 40 y2 0
    let y4 := runTo 40 y3 1
    let okA := (y4.ts.map (·.ok)).getD 0 false
    let okB := (y4.ts.map (·.ok)).getD 1 false
    let bBlocked := !((y2.ts.map Th.done).getD 1 true) && !((y1.ts.map Th.done).getD 0 true)
    let agreeLabels := labs == strs (jget j "labels_a")
    let same (y : Sys) : Bool := (canon y.s).compress == (canon impl).compress &&
      (y.ts.map (·.ok)).getD 0 false == jbool (jget j "ok_a") && (y.ts.map (·.ok)).getD 1 false == jbool (jget j "ok_b") && quiescent y
    -- B ran to completion while A was parked: one deterministic schedule. B blocked on A's lock:
    -- A was released and both raced — the implementation must match SOME interleaving from the park.
    let agree := agreeLabels && (if jbool (jget j "b_blocked") then (outcomes 30 y1).any same else same y4)
    let ops := [opName a, opName b]
    let pat := if ops.contains "addNode" && ops.contains "removePod" then "addnode-vs-removepod:"
      else if ops.contains "create" && ops.contains "removeNode" then "create-vs-removenode:" else ""
    let viol := (refViolations impl).map (fun v => "C22:" ++ pat ++ v) ++
      (if listOk then [] else ["C22:" ++ pat ++ "list-workloads-fails"])
    verdict id agree
      (Json.mkObj [("state", canon y4.s), ("ok_a", okA), ("ok_b", okB), ("labels_a", jstrs labs), ("b_blocked", bBlocked)])
      viol (s!"sched:{opName a}|{opName b}" ++ (if bBlocked then ":blocked" else "")) (labs.isEmpty)

end RIO

/-! ### C13, cluster-level stream -/
namespace DSO
open Eru.Cluster2.DS

def countsOfJson (j : Json) : Counts := (jobjList j).map fun (k, v) => (k, jnat v)
def obsOfJson (j : Json) : Obs :=
  { status := countsOfJson (jget j "status"), recorded := countsOfJson (jget j "recorded"), markers := countsOfJson (jget j "markers"),
    markerKeys := countsOfJson (jget j "marker_keys") }

def handle (j : Json) : Json :=
  let id := jget j "id"
  let nodes := strs (jget j "nodes")
  let prior := countsOfJson (jget j "prior")
  let planned := countsOfJson (jget j "planned")
  let obs := (jarr (jget j "obs")).map obsOfJson
  let after := obsOfJson (jget j "after")
  let agree := (obs ++ [after]).all (sumOK nodes)
  let viol := (obs.flatMap (duringViolations nodes prior planned)).eraseDups ++ afterViolations nodes after
  let errs := jint (jget j "errors")
  let shape := jget j "shape"
  let cls := "status:" ++ (if errs == 0 then "ok" else if errs < 0 then "refused" else "partial") ++
    (if jstr (jget shape "fault") != "" then "+fault" else "") ++
    (if (jarr (jget shape "start_fail")).length > 0 then "+startfail" else "") ++
    (if jstr (jget shape "cancel_at") != "" then "+cancel" else "") ++
    (if jint (jget shape "timeout_ms") > 0 then "+timeout" else "") ++
    (if jint (jget shape "deadline_ms") > 0 then "+deadline" else "") ++
    (if jint (jget shape "prior_on") > 0 then "+fullnode" else "")
  verdict id agree (Json.mkObj [("observations", obs.length)]) viol cls (obs.length < 2)

end DSO

end Oracle.Cluster2
