import Oracle.J
import Eru.Store.Render
import Eru.Store.Spec
import Eru.Store.Status
/-
Oracle for C13 / C23 / C25: replays an operation sequence on the reference store model, one
state per backend, and compares — after every operation — the implementation's result and raw
key-space read-back with (a) the backend's model as it is today (`agree`) and (b) the reference
(`spec` tags `C23:…`).  The C25 and C13 specification predicates (Eru/Store/Spec.lean) are
evaluated on the implementation's outputs only.
-/
namespace Oracle.Store
open Lean Oracle Eru.Store

abbrev Dump := List (String × String × Int)

def labelsOf (j : Json) : Labels := (jobjList j).map fun (k, v) => (k, jstr v)
def strs (j : Json) : List String := (jarr j).map jstr

def nodeArgOf (j : Json) : NodeRec × String × String × String :=
  ({ name := jstr (jget j "name"), pod := jstr (jget j "pod"), endpoint := jstr (jget j "endpoint"),
     labels := labelsOf (jget j "labels"), test := jbool (jget j "test"), bypass := jbool (jget j "bypass") },
   jstr (jget j "ca"), jstr (jget j "cert"), jstr (jget j "key"))

def wlOf (j : Json) : WlRec :=
  { id := jstr (jget j "id"), name := jstr (jget j "name"), node := jstr (jget j "node"),
    labels := labelsOf (jget j "labels"), image := jstr (jget j "image") }

def procOf (j : Json) : Option (String × String × String × String) :=
  if j.isNull then none
  else some (jstr (jget j "app"), jstr (jget j "entry"), jstr (jget j "node"), jstr (jget j "ident"))

def opOf (j : Json) : Option Op :=
  let s := fun k => jstr (jget j k)
  match s "op" with
  | "addPod" => some (.addPod (s "name") (s "desc"))
  | "removePod" => some (.removePod (s "name"))
  | "getPod" => some (.getPod (s "name"))
  | "getAllPods" => some .getAllPods
  | "addNode" =>
    let (r, ca, ce, k) := nodeArgOf (jget j "node")
    some (.addNode r.name r.endpoint r.pod ca ce k r.labels r.test)
  | "removeNode" => let (r, _) := nodeArgOf (jget j "node"); some (.removeNode r.pod r.name)
  | "getNodes" => some (.getNodes (strs (jget j "names")))
  | "getNodesByPod" => some (.getNodesByPod (s "pod") (labelsOf (jget j "labels")) (jbool (jget j "all")))
  | "updateNodes" => some (.updateNodes ((jarr (jget j "nodes")).map nodeArgOf))
  | "setNodeStatus" => let (r, _) := nodeArgOf (jget j "node"); some (.setNodeStatus r.name r.pod (jint (jget j "ttl")))
  | "getNodeStatus" => some (.getNodeStatus (s "name"))
  | "loadNodeCert" => some (.loadNodeCert (s "name"))
  | "addWorkload" => some (.addWorkload (wlOf (jget j "wl")) (procOf (jget j "proc")))
  | "updateWorkload" => some (.updateWorkload (wlOf (jget j "wl")))
  | "removeWorkload" => some (.removeWorkload (wlOf (jget j "wl")))
  | "getWorkloads" => some (.getWorkloads (strs (jget j "names")))
  | "setWorkloadStatus" =>
    some (.setWorkloadStatus { id := s "name", app := s "app", entry := s "entry", node := s "nodename",
                               running := jbool (jget j "running"), healthy := jbool (jget j "healthy") }
                             (jnat (jget j "ttl")))
  | "listWorkloads" => some (.listWorkloads (s "app") (s "entry") (s "nodename") (jnat (jget j "limit")) (labelsOf (jget j "labels")))
  | "listNodeWorkloads" => some (.listNodeWorkloads (s "nodename") (labelsOf (jget j "labels")))
  | "getDeployStatus" => some (.getDeployStatus (s "app") (s "entry"))
  | "createProcessing" =>
    match procOf (jget j "proc") with
    | some (a, e, n, i) => some (.createProcessing a e n i (jint (jget j "count")))
    | none => none
  | "deleteProcessing" =>
    match procOf (jget j "proc") with
    | some (a, e, n, i) => some (.deleteProcessing a e n i)
    | none => none
  | "tick" => some (.tick (jnat (jget j "d")))
  | _ => none

def jstrs (xs : List String) : Json := Json.arr (xs.map Json.str).toArray

def okJ (j : Json) : Json := Json.mkObj [("ok", j)]

def renderCounts (m : List (String × Int)) : List String :=
  dedupSort (m.map fun kv => kv.1 ++ "=" ++ toString kv.2)

def resJson : Res → Json
  | .err e => Json.mkObj [("err", Json.str e.render)]
  | .unit => okJ Json.null
  | .pod n d => okJ (Json.str (n ++ "|" ++ d))
  | .pods ps => okJ (jstrs (dedupSort (ps.map fun p => p.1 ++ "|" ++ p.2)))
  | .nodes ns => okJ (jstrs (dedupSort (ns.map (·.render))))
  | .nstatus n p => okJ (Json.str (bar [n, p, "1"]))
  | .cert a b c => okJ (Json.str (bar [a, b, c]))
  | .wls ws => okJ (jstrs (dedupSort (ws.map (·.render))))
  | .counts m => okJ (jstrs (renderCounts m))

def dumpOf (j : Json) : Dump :=
  (jarr j).map fun e => match jarr e with
    | [k, v, t] => (jstr k, jstr v, jint t)
    | _ => ("!bad", "", 0)

def dumpEq (model : List (String × String × Nat)) (impl : Dump) : Bool :=
  model.length == impl.length && model.all fun (k, v, t) => impl.contains (k, v, (t : Int))

def dumpJson (d : List (String × String × Nat)) : Json :=
  Json.arr ((d.map fun (k, v, t) => Json.arr #[Json.str k, Json.str v, ji t]).toArray)

def hasKey (d : Dump) (k : String) : Bool := d.any (·.1 == k)

/-- status text of the record `w` as `bindWorkloadsAdditions` would look it up for `w` itself -/
def statusText (s : St) (w : WlRec) : String :=
  match parseWorkloadName w.name with
  | .ok (a, e, _) =>
    match s.kv.get (.wst a e w.node w.id) with
    | some { val := .wst r, .. } => r.render
    | _ => "-"
  | .error _ => "-"

/-- does the implementation's result match the model's?
    * `ListWorkloads` with a limit returns an arbitrary `limit`-sized part of the key range: any such
      part is accepted.
    * `bindWorkloadsAdditions` keeps the status keys in a map indexed by workload ID: when one list
      contains two records with the same ID (the same id recorded under another app/node), both get
      the status of whichever of them comes last in the backend's iteration order (Go map order on
      Redis).  For such lists any same-ID record's status is accepted. -/
def resMatch (s : St) (op : Op) (model : Res) (impl : Json) : Bool :=
  match op with
  | .listWorkloads a e n lim ls =>
    let cands := listCandidates s a e n
    let ids := cands.map (·.id)
    let dupIds := ids.length != (dedup ids).length
    if lim == 0 && !dupIds then resJson model == impl else
    let okW := fun (w : WlRec) => match bindAdditions s [w] with | .ok _ => true | .error _ => false
    let allowed := (cands.filter fun w => okW w && labelsFilter w.labels ls).flatMap fun w =>
      (cands.filter (·.id == w.id)).map fun w' => w.render ++ "|" ++ statusText s w'
    let broken := cands.any fun w => !okW w
    -- without a limit the label filter runs before bindWorkloadsAdditions: only records that pass
    -- the filter can make the call fail
    let passing := cands.filter fun w => labelsFilter w.labels ls
    let brokenP := passing.any fun w => !okW w
    let errOk := jstr (jget impl "err") == "notfound" || jstr (jget impl "err") == "bad-name"
    if jhas impl "ok" then
      let got := strs (jget impl "ok")
      got.all (allowed.contains ·) &&
        (if lim == 0 then !brokenP && got.length == passing.length
         else got.length ≤ lim && (!ls.isEmpty || broken || got.length == min lim cands.length))
    else (if lim == 0 then brokenP else broken) && errOk
  | _ => resJson model == impl

/-- one status key: specification, etcd protocol model, Redis protocol model (Eru/Store/Status.lean) -/
structure KeyTrack where
  spec : Status.Spec
  etcd : Status.Etcd
  redis : Status.Redis

structure BState where
  name : String
  fl : Flavour
  st : St := St.empty
  dump : Dump := []
  agree : Bool := true
  specs : List String := []
  firstBad : Option Json := none
  -- C25: per status key the specification state and the backend's protocol model
  track : List (String × KeyTrack) := []
  tnow : Nat := 0
  -- C13
  caps : List (String × Cap) := []

def opName (j : Json) : String := jstr (jget j "op")

/-! #### C25 on the implementation's outputs -/
def statusKeyOf (op : Op) : Option (String × String × Int) :=   -- (status key, entity key, ttl)
  match op with
  | .setWorkloadStatus r ttl =>
    if r.app = "" || r.entry = "" || r.node = "" then none
    else some ((Key.wst r.app r.entry r.node r.id).render, (Key.wl r.id).render, ttl)
  | .setNodeStatus n _ ttl => some ((Key.nst n).render, (Key.node n).render, ttl)
  | _ => none

def trackGet (b : BState) (k : String) : KeyTrack :=
  match b.track.find? (·.1 == k) with
  | some (_, t) => t
  | none => { spec := { now := b.tnow }, etcd := { now := b.tnow }, redis := {} }

def trackSet (b : BState) (k : String) (t : KeyTrack) : BState :=
  { b with track := (k, t) :: b.track.filter (·.1 != k) }

/-- apply one history event to one status key; returns the protocol model's accept decision -/
def KeyTrack.step (t : KeyTrack) (isEtcd checkEntity : Bool) (ev : Status.Ev) : KeyTrack × Bool :=
  let (e', okE) := t.etcd.step ev
  let (r', okR) := t.redis.step checkEntity ev
  ({ spec := t.spec.step ev, etcd := e', redis := r' }, if isEtcd then okE else okR)

def KeyTrack.protoVisible (t : KeyTrack) (isEtcd : Bool) : Bool :=
  if isEtcd then t.etcd.visible.isSome else t.redis.visible.isSome

def specRemainingOf (s : Status.Spec) : Nat :=
  match s.last with
  | some (t, ttl, _) => if ttl == 0 then 0 else t + ttl - s.now
  | none => 0

def hashStr (s : String) : Nat := s.foldl (fun h c => (h * 131 + c.toNat) % 1000003) 7

def c25Step (b : BState) (op : Op) (implOk : Bool) (prev new : Dump) : BState :=
  let isEtcd := b.name == "etcd"
  let b : BState := match op with
    | .tick d => { b with tnow := b.tnow + d,
                          track := b.track.map fun (k, t) => (k, (t.step isEtcd true (.tick d)).1) }
    | _ => b
  let (b, tags, protoBad) : BState × List String × Bool :=
    match statusKeyOf op with
    | some (sk, ek, ttl) =>
      let isNode := match op with | .setNodeStatus .. => true | _ => false
      let val := match op with
        | .setWorkloadStatus r _ => (if r.running then 2 else 0) + (if r.healthy then 1 else 0)
        | .setNodeStatus _ p _ => hashStr p
        | _ => 0
      if isNode && ttl == 0 then
        (b, if implOk then [s!"C25:node-ttl0-accepted:{b.name}"] else [], false)
      else if ttl < 0 then
        if isNode then
          (trackSet b sk ((trackGet b sk).step isEtcd true .remove).1,
           if implOk then [] else [s!"C25:negative-ttl-delete-failed:{b.name}"], false)
        else (b, [], false)
      else
        let ex := hasKey prev ek
        let ev := Status.Ev.report val ttl.toNat ex
        let t := trackGet b sk
        let want := t.spec.accepts ev
        let (t', proto) := t.step isEtcd (!isNode) ev
        -- the history follows what the implementation actually did
        let t' := if implOk == want then t'
                  else { t' with spec := if implOk then { t.spec with last := some (t.spec.now, ttl.toNat, val) } else t.spec }
        let tags :=
          if implOk && !want then
            [if b.name == "redis" && isNode then "C25:redis-nodestatus-no-entity" else s!"C25:accepted-without-entity:{b.name}"]
          else if !implOk && want then [s!"C25:rejected-live-entity:{b.name}"] else []
        (trackSet b sk t', tags, proto != implOk)
    | none =>
      match op with
      | .removeWorkload w =>
        match parseWorkloadName w.name with
        | .ok (a, e, _) =>
          let sk := (Key.wst a e w.node w.id).render
          (if implOk then trackSet b sk ((trackGet b sk).step isEtcd true .remove).1 else b, [], false)
        | .error _ => (b, [], false)
      | _ => (b, [], false)
  -- visibility of every status key known to the history or present in the store
  let keys := dedup (b.track.map (·.1) ++ (new.filter fun e => e.1.startsWith "/status").map (·.1))
  let res := keys.map fun k =>
    let t := trackGet b k
    let spec := t.spec.visible.isSome
    let here := new.find? (·.1 == k)
    let tags := match here with
      | some (_, _, r) =>
        if !spec then [s!"C25:visible-after-end:{b.name}"]
        else if r != (specRemainingOf t.spec : Int) then [s!"C25:remaining-ttl:{b.name}"] else []
      | none => if spec then [s!"C25:vanished-early:{b.name}"] else []
    (tags, t.protoVisible isEtcd != here.isSome)
  let bad := protoBad || res.any (·.2)
  let fb := if bad && b.firstBad.isNone then
      some (Json.mkObj [("backend", Json.str b.name), ("what", Json.str "status protocol model (Eru.Store.Status) disagrees with the implementation"),
                        ("now", ji b.tnow)])
    else b.firstBad
  { b with specs := b.specs ++ tags ++ res.flatMap (·.1), agree := b.agree && !bad, firstBad := fb }

/-! #### C13 on the implementation's outputs -/
def parts (k : String) : List String := k.splitOn "/"

def recordedOf (d : Dump) (a e n : String) : Int :=
  (d.filter fun x => match parts x.1 with | ["", "deploy", a', e', n', _] => a' == a && e' == e && n' == n | _ => false).length

def markersOf (d : Dump) (a e n : String) : List Int :=
  d.filterMap fun x => match parts x.1 with
    | ["", "processing", a', e', n', _] => if a' == a && e' == e && n' == n then some (x.2.1.toInt?.getD 0) else none
    | _ => none

def triplesOf (d : Dump) : List String :=
  d.filterMap fun x => match parts x.1 with
    | ["", "deploy", a, e, n, _] => some (a ++ "/" ++ e ++ "/" ++ n)
    | ["", "processing", a, e, n, _] => some (a ++ "/" ++ e ++ "/" ++ n)
    | _ => none

def capGet (caps : List (String × Cap)) (k : String) : Cap := (caps.lookup k).getD {}
def capSet (caps : List (String × Cap)) (k : String) (c : Cap) := (k, c) :: caps.filter (·.1 != k)
def capUpd (b : BState) (k : String) (f : Cap → Cap) : BState := { b with caps := capSet b.caps k (f (capGet b.caps k)) }

def sumI (xs : List Int) : Int := xs.foldl (· + ·) 0

def c13Step (b : BState) (op : Op) (implOk : Bool) (impl : Json) (prev new : Dump) (revs : List Dump) : BState :=
  let tk := fun (a e n : String) => a ++ "/" ++ e ++ "/" ++ n
  let (b, tags) : BState × List String :=
    if !implOk then (b, []) else
    match op with
    | .addWorkload w none =>
      match parseWorkloadName w.name with
      | .ok (a, e, _) => (capUpd b (tk a e w.node) Cap.plainAdd, [])
      | _ => (b, [])
    | .addWorkload _ (some (a, e, n, i)) => (capUpd b (tk a e n) (·.added i), [])
    | .createProcessing a e n i c => (capUpd b (tk a e n) (·.start i c), [])
    | .removeWorkload w =>
      match parseWorkloadName w.name with
      | .ok (a, e, _) => if hasKey prev (Key.wl w.id).render then (capUpd b (tk a e w.node) Cap.removed, []) else (b, [])
      | _ => (b, [])
    | .deleteProcessing a e n i =>
      (capUpd b (tk a e n) (·.finish i),
       if hasKey new (Key.proc a e n i).render then [s!"C13:marker-remains:{b.name}"] else [])
    | .getDeployStatus a e =>
      let nodes := dedup ((triplesOf new).filterMap fun t => match t.splitOn "/" with
        | [a', e', n] => if a' == a && e' == e then some n else none
        | _ => none)
      let want := dedupSort (nodes.map fun n => n ++ "=" ++ toString (recordedOf new a e n + sumI (markersOf new a e n)))
      let got := strs (jget impl "ok")
      -- statusExact, node by node
      (b, if got == want then [] else [s!"C13:status-sum:{b.name}"])
    | _ => (b, [])
  let keys := dedup (b.caps.map (·.1) ++ triplesOf new)
  let chk := keys.flatMap fun k =>
    match k.splitOn "/" with
    | [a, e, n] =>
      let c := capGet b.caps k
      let rec_ := recordedOf new a e n
      let ms := markersOf new a e n
      let status := rec_ + sumI ms
      (if ms.any (· < 0) then [s!"C13:marker-negative:{b.name}"] else []) ++
      (if withinBounds rec_ status c.prior c.planned then []
       else [if status < rec_ then s!"C13:below-recorded:{b.name}" else s!"C13:above-planned:{b.name}"]) ++
      (if c.active.isEmpty && status != rec_ then [s!"C13:after-return:{b.name}"] else [])
    | _ => []
  -- the same bounds at every intermediate revision the operation produced (etcd): the
  -- add-workload-and-decrement step must be ONE transaction (`DOp.add` is one transition)
  let atRev := revs.flatMap fun d =>
    (dedup (b.caps.map (·.1) ++ triplesOf d)).flatMap fun k =>
      match k.splitOn "/" with
      | [a, e, n] =>
        let c := capGet b.caps k
        let rec_ := recordedOf d a e n
        let status := rec_ + sumI (markersOf d a e n)
        if withinBounds rec_ status c.prior c.planned then []
        else [if status < rec_ then s!"C13:below-recorded:at-revision:{b.name}" else s!"C13:above-planned:at-revision:{b.name}"]
      | _ => []
  { b with specs := b.specs ++ tags ++ chk ++ atRev }

/-- is this divergence from the reference the recorded one (redis node status without entity)? -/
def knownDivergence (b : BState) (op : Op) (implOk : Bool) (prev : Dump) : Option String :=
  match op with
  | .setNodeStatus n _ ttl =>
    if b.name == "redis" && ttl > 0 && implOk && !hasKey prev (Key.node n).render then
      some "C23:redis-nodestatus-no-entity" else none
  | _ => none

def stepBackend (deploy : Bool) (idx : Nat) (oj : Json) (op : Op) (b : BState) : BState :=
  let entry := jget (jget oj "impl") b.name
  let impl := jget entry "r"
  let implOk := jhas impl "ok"
  let prev := b.dump
  let new := if jhas entry "kv" && !(jget entry "kv").isNull then dumpOf (jget entry "kv") else prev
  let (sF, rF) := step b.fl b.st op
  let (sR, rR) := step Flavour.ref b.st op
  let okRes := resMatch b.st op rF impl
  let okKv := dumpEq sF.dump new
  let refRes := resMatch b.st op rR impl
  let refKv := dumpEq sR.dump new
  let nm := opName oj
  let tags :=
    (if op.isCreate && !createAtomicOK (!implOk) prev new then [s!"C23:create-not-atomic:{b.name}:{nm}"] else []) ++
    (if refRes && refKv then []
     else match knownDivergence b op implOk prev with
       | some t => [t]
       | none => [s!"C23:diverge:{b.name}:{nm}:{if refRes then "kv" else "result"}"])
  let bad := !(okRes && okKv)
  let fb := if bad && b.firstBad.isNone then
      some (Json.mkObj [("step", ji idx), ("backend", Json.str b.name), ("op", Json.str nm),
        ("model_r", resJson rF), ("impl_r", impl), ("model_kv", dumpJson sF.dump), ("kv_ok", Json.bool okKv)])
    else b.firstBad
  let b := { b with st := sF, dump := new, agree := b.agree && !bad, specs := b.specs ++ tags, firstBad := fb }
  let b := c25Step b op implOk prev new
  if deploy then c13Step b op implOk impl prev new ((jarr (jget entry "revs")).map dumpOf) else b

def handle (j : Json) : Json :=
  let id := jget j "id"
  let ops := jarr (jget j "ops")
  let deploy := jstr (jget j "kind") == "deploy"
  let init : BState × BState × Nat × Bool × Nat × Nat :=
    ({ name := "etcd", fl := Flavour.etcd }, { name := "redis", fl := Flavour.redis }, 0, true, 0, 0)
  let (be, br, _, parsed, nFail, nTick) := ops.foldl (fun (acc : BState × BState × Nat × Bool × Nat × Nat) oj =>
    let (be, br, i, ok, nf, nt) := acc
    match opOf oj with
    | none => (be, br, i + 1, false, nf, nt)
    | some op =>
      let be' := stepBackend deploy i oj op be
      let br' := stepBackend deploy i oj op br
      let failed := !(jhas (jget (jget (jget oj "impl") "etcd") "r") "ok")
      let isTick := match op with | .tick _ => true | _ => false
      (be', br', i + 1, ok, if failed then nf + 1 else nf, if isTick then nt + 1 else nt)) init
  let agree := parsed && be.agree && br.agree
  let specs := dedup (be.specs ++ br.specs)
  let cls := (if deploy then "deploy" else "seq") ++ (if nFail > 0 then "+fail" else "") ++ (if nTick > 0 then "+time" else "")
  let model := match be.firstBad, br.firstBad with
    | some x, _ => x
    | _, some x => x
    | _, _ => Json.mkObj [("keys", ji be.st.kv.length), ("now", ji be.st.now)]
  Json.mkObj [("id", id), ("agree", agree), ("model", model),
              ("spec", Json.arr (specs.map Json.str).toArray), ("class", cls),
              ("trivial", Json.bool (ops.length < 4))]

end Oracle.Store
