import Oracle.J
import Eru.CpuMem.Spec
/- Oracle for C04/C05/C06/C33 (group "sched"): runs the cpumem model on the case, compares with
   the implementation's result (NUMA visiting order: inferred from the implementation's output,
   then every permutation) and evaluates the specification predicates on the implementation's
   output. -/
namespace Oracle.Sched
open Lean Oracle Eru Eru.CpuMem

def strMapOfJson (j : Json) : List (String × String) := (jobjList j).map fun (k, v) => (k, jstr v)

def nodeOfJson (j : Json) : NodeInfo :=
  let numa := strMapOfJson (jget j "numa")
  { cap := { cpuMap := planOfJson (jget j "cap"), mem := jint (jget j "mem"), numaMem := planOfJson (jget j "numaMem"), numa := numa },
    use := { cpuMap := planOfJson (jget j "use"), mem := jint (jget j "memUse"), numaMem := planOfJson (jget j "numaMemUse"), numa := numa } }

def rawOfJson (j : Json) : RawReq :=
  { bind := jbool (jget j "bind"), keepBind := jbool (jget j "keep"), cpuReq := jint (jget j "cpu"), cpuLim := jint (jget j "cpuLim"),
    memReq := jint (jget j "mem"), memLim := jint (jget j "memLim") }

def workloadOfJson (j : Json) : Workload :=
  { cpuReq := jint (jget j "cpu"), cpuLim := jint (jget j "cpuLim"), memReq := jint (jget j "mem"), memLim := jint (jget j "memLim"),
    cpuMap := planOfJson (jget j "map"), numaMem := planOfJson (jget j "numaMem"), numa := jstr (jget j "numa") }

def cpuPlanOfJson (j : Json) : CpuPlan := { numa := jstr (jget j "numa"), cpuMap := planOfJson (jget j "map") }

def engineOfJson (j : Json) : EngineParams :=
  { cpu := jint (jget j "cpu"), mem := jint (jget j "mem"), cpuMap := planOfJson (jget j "map"), numa := jstr (jget j "numa"),
    remap := jbool (jget j "remap") }

def epEq (a b : EngineParams) : Bool :=
  a.cpu == b.cpu && a.mem == b.mem && mapEq a.cpuMap b.cpuMap && a.numa == b.numa && a.remap == b.remap

def planJ (p : CpuPlan) : Json := Json.mkObj [("numa", p.numa), ("map", planToJson p.cpuMap)]
def wlJ (w : Workload) : Json :=
  Json.mkObj [("cpu", ji w.cpuReq), ("mem", ji w.memReq), ("map", planToJson w.cpuMap), ("numa", w.numa), ("numaMem", planToJson w.numaMem)]

def outJ {α} (f : α → Json) : Outcome α → Json
  | .ok v => Json.mkObj [("ok", f v)]
  | .err e => Json.mkObj [("err", Json.str e)]
  | .panic m => Json.mkObj [("panic", Json.str m)]
  | .diverge => Json.mkObj [("diverge", Json.bool true)]

def dedup (l : List String) : List String := l.foldl (fun acc x => if acc.contains x then acc else acc ++ [x]) []

def insertAll (x : String) : List String → List (List String)
  | [] => [[x]]
  | y :: ys => (x :: y :: ys) :: (insertAll x ys).map (y :: ·)
def perms : List String → List (List String)
  | [] => [[]]
  | x :: xs => (perms xs).flatMap (insertAll x)

/-- candidate NUMA visiting orders: the one visible in the implementation's output first -/
def orders (numa : List (String × String)) (seen : List String) : List (List String) :=
  let nodes := numaNodes numa
  let first := dedup (seen.filter fun s => !s.isEmpty && nodes.contains s)
  let o1 := first ++ nodes.filter fun n => !first.contains n
  o1 :: (if nodes.length ≤ 4 then (perms nodes).filter (· != o1) else [])

def plansEq (a b : List CpuPlan) : Bool :=
  a.length == b.length && (a.zip b).all fun (x, y) => x.numa == y.numa && mapEq x.cpuMap y.cpuMap

def wlEq (a b : Workload) : Bool :=
  a.cpuReq == b.cpuReq && a.cpuLim == b.cpuLim && a.memReq == b.memReq && a.memLim == b.memLim &&
  mapEq a.cpuMap b.cpuMap && a.numa == b.numa && mapEq a.numaMem b.numaMem

def crashAgree {α} (impl : Json) : Outcome α → Bool
  | .panic _ => jhas impl "panic"
  | .diverge => jhas impl "timeout"
  | _ => false

/-- first candidate order whose model outcome satisfies `good`, else the first order's outcome -/
def firstGood {α} (cands : List (List String)) (run : List String → Outcome α) (good : Outcome α → Bool) : Outcome α × Bool :=
  match cands.find? (fun o => good (run o)) with
  | some o => (run o, true)
  | none => (run (cands.headD []), false)

/-- upper bound on the number of full-core plans any `getFullCPUPlans` call can produce -/
def fullPlanBound (B : Int) (i : NodeInfo) : Int :=
  (i.available.cpuMap.map fun kv => if 0 < kv.2 then kv.2 / B else 0).sum

/-- C04/C05 clauses violated by a set of chosen plans (`chosen` ⊆ what GetCPUPlans returned) -/
def planViolations (info : NodeInfo) (B : Int) (num den : Nat) (mem : Int) (plans : List CpuPlan) : List String :=
  let av := info.available
  let maps := plans.map (·.cpuMap)
  (if fitCores av.cpuMap maps then [] else ["C04:cores"]) ++
  (if numaLocal info.cap.numa av.numaMem mem plans then [] else ["C04:numa"]) ++
  (if fitMemory av.mem mem plans.length then [] else ["C04:memory"]) ++
  (if maps.all fun p => nearestPieces num den B (planTotal p) then [] else ["C05:amount"]) ++
  (if maps.all fun p => planShape B (planTotal p) p then [] else ["C05:shape"])

/-- the workload's recorded CPU request agrees with the pieces it holds (C05); a workload recorded
    under the old truncating conversion is outside C33's scope -/
def recordedOk (B : Int) (w : Workload) : Bool :=
  piecesRequest { bind := true, cpuNum := w.cpuReq.toNat, cpuDen := 1000, mem := 0 } B == planTotal w.cpuMap

/-- the number of plans must not depend on the order in which the NUMA nodes are visited (capacity and
    admission are separate Go calls with separate map iterations): evaluated for every permutation -/
def orderIndependent (numa : List (String × String)) (run : List String → Option Nat) : Bool :=
  let nodes := numaNodes numa
  if nodes.length < 2 || 4 < nodes.length then true
  else match (perms nodes).map run with
    | [] => true
    | x :: xs => xs.all (· == x)

def c33Class (B : Int) (info : NodeInfo) (m : CpuMap) : String :=
  if !(m.all fun kv => kv.2 == B) then "fractional" else if !info.cap.numa.isEmpty then "numa" else "whole"

def handle (j : Json) : Json :=
  let id := jget j "id"
  let op := jstr (jget j "op")
  let B := jint (jget j "base")
  let maxShare := jint (jget j "maxShare")
  let info := nodeOfJson (jget j "node")
  let raw := rawOfJson (jget j "req")
  let count := jint (jget j "count")
  let impl := jget j "impl"
  let hasOrigin := jhas j "origin" && (jget j "origin") != Json.null
  let origin := workloadOfJson (jget j "origin")
  -- valid in the plugin's sense (`Validate`), which does not look at node memory: memory usage above
  -- capacity is in scope for C04 (then: no plans) and C06 (no crash)
  let nodeOk := info.validate && info.use.cpuMap.all (fun kv => decide (0 ≤ kv.2))
  let memOk := memValid info
  let cfgOk := decide (1 ≤ B) && (maxShare == -1 || decide (1 ≤ maxShare))
  let crashed := jhas impl "panic" || jhas impl "timeout"
  let crashTag := if jhas impl "panic" then "C06:panic" else "C06:timeout"
  let mk (agree : Bool) (model : Json) (spec : List String) (cls : String) (trivial : Bool) : Json :=
    Json.mkObj [("id", id), ("agree", agree), ("model", model), ("spec", Json.arr (spec.map Json.str).toArray),
                ("class", cls), ("trivial", trivial)]
  if jhas impl "enverr" then
    mk true Json.null [] "env-error" true
  else if op == "plans" then
    let req : Req := { bind := true, cpuNum := raw.cpuReq.toNat, cpuDen := 1000, mem := raw.memReq }
    let org := if hasOrigin then origin.cpuMap else []
    let implPlans := (jarr (jget impl "plans")).map cpuPlanOfJson
    let run := fun o => getCPUPlans info org B maxShare req o
    let cands := orders info.cap.numa (implPlans.map (·.numa))
    if crashed then
      let (m, ok) := firstGood cands run (crashAgree impl)
      mk ok (outJ (fun ps => Json.arr (ps.map planJ).toArray) m)
        (if nodeOk && cfgOk && decide (0 < raw.cpuReq) then [crashTag] else []) "crash" false
    else
      let (m, exact) := firstGood cands run (fun o => match o with | .ok ps => plansEq ps implPlans | _ => false)
      let viol0 := if nodeOk && cfgOk then planViolations info B req.cpuNum req.cpuDen req.mem implPlans else []
      let viol := viol0 ++ (if cfgOk && !orderIndependent info.cap.numa (fun o => match getCPUPlans info org B maxShare req o with
          | .ok ps => some ps.length | _ => none) then ["C04:order-dependent-count"] else [])
      let c33 : List String :=
        if hasOrigin && nodeOk && cfgOk && wholeCoreNode B info && decide (0 < origin.cpuReq) && recordedOk B origin then
          match implPlans with
          | p :: _ => if mapEq p.cpuMap origin.cpuMap then [] else ["C33:moved:" ++ c33Class B info origin.cpuMap]
          | [] => []
        else []
      let modTies := !exact && decide (12 < fullPlanBound B info) && viol.isEmpty &&
        (match m with | .ok ps => ps.length == implPlans.length | _ => false)
      mk (exact || modTies) (outJ (fun ps => Json.arr (ps.map planJ).toArray) m) (viol ++ c33)
        (if !nodeOk then "invalid-node" else if implPlans.isEmpty then "plans-empty" else if exact then "plans" else if modTies then "plans-mod-ties" else "plans-mismatch")
        implPlans.isEmpty
  else if op == "deploy" then
    if jhas impl "seterr" then
      mk (!info.validate) (Json.mkObj [("validate", info.validate)]) [] "invalid-node" true
    else
      let implWs := (jarr (jget impl "ws")).map workloadOfJson
      let run := fun o => calculateDeploy info B maxShare count raw o
      let cands := orders info.cap.numa (implWs.map (·.numa))
      let reqOk := match raw.validate with | .ok w => w.bind && decide (0 < w.cpuReq) | _ => false
      if crashed then
        let (m, ok) := firstGood cands run (crashAgree impl)
        mk ok (outJ (fun ws => Json.arr (ws.map wlJ).toArray) m) (if nodeOk && cfgOk && reqOk then [crashTag] else []) "crash" false
      else if jhas impl "err" then
        let e := jstr (jget impl "err")
        let (m, ok) := firstGood cands run (fun o => match o with | .err e' => e == e' | _ => false)
        mk ok (outJ (fun ws => Json.arr (ws.map wlJ).toArray) m) [] ("deploy-err:" ++ e) true
      else
        let (m, exact) := firstGood cands run (fun o => match o with
          | .ok ws => ws.length == implWs.length && (ws.zip implWs).all (fun (a, b) => wlEq a b) | _ => false)
        let implCommit := jstr (jget impl "commit")
        let modelCommit := match commit info implWs with | .ok _ => "ok" | .err e => e | _ => "crash"
        let w := match raw.validate with | .ok w => w | _ => raw
        let bound := implWs.filter fun x => !x.cpuMap.isEmpty
        let plans := bound.map fun x => (⟨x.numa, x.cpuMap⟩ : CpuPlan)
        let viol := if nodeOk && cfgOk then
            (if w.bind then planViolations info B w.cpuReq.toNat 1000 w.memReq plans
             else (if fitMemory info.available.mem w.memReq implWs.length then [] else ["C04:memory"])) ++
            (if bound.all fun x => nearestPieces x.cpuReq.toNat 1000 B (planTotal x.cpuMap) then [] else ["C05:recorded"]) ++
            (if implCommit == "ok" && (match commit info implWs with | .ok i' => memValid i' || !memOk | _ => false) then [] else ["C04:commit"])
          else []
        -- C31: the engine gets exactly the recorded limits, CPU map and NUMA node
        let implEps := (jarr (jget impl "eps")).map engineOfJson
        let epOk := implEps.length == implWs.length && (implEps.zip implWs).all (fun (e, x) => epEq e (engineOf x))
        let viol := viol ++ (if epOk then [] else ["C31:engine-params-vs-recorded:deploy"])
        let modTies := !exact && decide (12 < fullPlanBound B info) && viol.isEmpty &&
          (match m with | .ok ws => ws.length == implWs.length | _ => false)
        mk ((exact || modTies) && implCommit == modelCommit && epOk) (outJ (fun ws => Json.arr (ws.map wlJ).toArray) m) viol
          (if !nodeOk then "invalid-node" else if exact then "deploy" else if modTies then "deploy-mod-ties" else "deploy-mismatch") false
  else if op == "remap" then
    if jhas impl "seterr" then
      mk (!info.validate) (Json.mkObj [("validate", info.validate)]) [] "invalid-node" true
    else if crashed || jhas impl "err" then
      mk false Json.null (if crashed && nodeOk then [crashTag] else []) "remap-crash" false
    else
      let wls := (jobjList (jget j "wls")).map fun (id, w) => (id, workloadOfJson w)
      let implEpm := (jobjList (jget impl "epm")).map fun (id, e) => (id, engineOfJson e)
      let model := calculateRemap info B wls
      let agree := model.length == implEpm.length && model.all fun (id, e) =>
        match implEpm.find? (fun x => x.1 == id) with | some x => epEq x.2 e | none => false
      -- C31: each remapped (unbound) workload keeps ITS recorded limits and NUMA node
      let recOk := implEpm.all fun (id, e) =>
        match wls.find? (fun x => x.1 == id) with
        | some x => e.cpu == x.2.cpuLim && e.mem == x.2.memLim && e.numa == x.2.numa && e.remap && x.2.cpuMap.isEmpty
        | none => false
      mk agree (Json.mkObj [("n", ji model.length)]) (if recOk then [] else ["C31:engine-params-vs-recorded:remap"]) "remap" implEpm.isEmpty
  else if op == "capacity" then
    if jhas impl "seterr" then
      mk (!info.validate) (Json.mkObj [("validate", info.validate)]) [] "invalid-node" true
    else
      let run := fun o => nodeDeployCapacity info B maxShare raw o
      let cands := orders info.cap.numa []
      let reqOk := match raw.validate with | .ok _ => true | _ => false
      let canon := fun (c : Int) => if 0 < c then c else 0    -- capacity ≤ 0: node left out of the answer
      if crashed then
        let (m, ok) := firstGood cands run (crashAgree impl)
        mk ok (outJ ji m) (if nodeOk && cfgOk && reqOk then [crashTag] else []) "crash" false
      else if jhas impl "err" then
        let e := jstr (jget impl "err")
        let (m, ok) := firstGood cands run (fun o => match o with | .err e' => e == e' | _ => false)
        mk ok (outJ ji m) [] ("capacity-err:" ++ e) true
      else
        let c := jint (jget impl "cap")
        let (m, ok) := firstGood cands run (fun o => match o with | .ok c' => canon c' == c | _ => false)
        mk (ok && jint (jget impl "total") == c) (outJ ji m) [] (if !nodeOk then "invalid-node" else "capacity") (decide (c ≤ 0))
  else if op == "realloc" then
    if jhas impl "seterr" then
      mk (!info.validate) (Json.mkObj [("validate", info.validate)]) [] "invalid-node" true
    else
      let implW := workloadOfJson (jget impl "w")
      let run := fun o => calculateRealloc info B maxShare origin raw o
      let cands := orders info.cap.numa [implW.numa]
      if crashed then
        let (m, ok) := firstGood cands run (crashAgree impl)
        mk ok (outJ wlJ m) (if nodeOk && cfgOk && decide (0 < origin.cpuReq) then [crashTag] else []) "crash" false
      else if jhas impl "err" then
        let e := jstr (jget impl "err")
        let (m, ok) := firstGood cands run (fun o => match o with | .err e' => e == e' | _ => false)
        mk ok (outJ wlJ m) [] ("realloc-err:" ++ e) true
      else
        let (m, exact) := firstGood cands run (fun o => match o with | .ok w => wlEq w implW | _ => false)
        let inScope := nodeOk && cfgOk && wholeCoreNode B info && raw.keepBind && !origin.cpuMap.isEmpty &&
                       decide (raw.cpuReq = 0) && decide (raw.cpuLim = 0) && recordedOk B origin
        let kept := mapEq implW.cpuMap origin.cpuMap && implW.numa == origin.numa
        let c33 := if inScope && !kept then ["C33:moved:" ++ c33Class B info origin.cpuMap] else []
        let info' : NodeInfo := { info with use := info.use.sub { cpuMap := origin.cpuMap, mem := origin.memReq, numaMem := origin.numaMem } }
        let implD := workloadOfJson (jget impl "d")
        -- C05, second sentence, on the realloc result: recorded cpu_request × base = Σ pieces of the map,
        -- for the new workload resource and (when the old record was consistent) for the delta
        let rec1 := if nodeOk && cfgOk && !implW.cpuMap.isEmpty &&
            !(nearestPieces implW.cpuReq.toNat 1000 B (planTotal implW.cpuMap) && decide (0 ≤ implW.cpuReq))
          then ["C05:recorded:realloc"] else []
        let rec2 := if nodeOk && cfgOk && !implW.cpuMap.isEmpty && !origin.cpuMap.isEmpty && recordedOk B origin && jhas impl "d" &&
            !(decide (2 * (implD.cpuReq * B - 1000 * planTotal implD.cpuMap).natAbs ≤ 1000) &&
              decide (implD.cpuReq = implW.cpuReq - origin.cpuReq))
          then ["C05:recorded:realloc-delta"] else []
        let pv := if nodeOk && cfgOk && !implW.cpuMap.isEmpty then
            planViolations info' B implW.cpuReq.toNat 1000 implW.memReq [⟨implW.numa, implW.cpuMap⟩] else []
        -- C04 on the re-allocation: clauses of the new placement (tagged :realloc) and the commit of the delta
        let pv := pv.map fun t => if t.startsWith "C04:" then t ++ ":realloc" else t
        let implCommit := jstr (jget impl "commit")
        let modelCommit := match commitRealloc info origin implW with | .ok _ => "ok" | .err e => e | _ => "crash"
        let originLives := origin.cpuMap.all (fun kv => decide (kv.2 ≤ info.use.cpuMap.get kv.1)) &&
          origin.numaMem.all (fun kv => decide (kv.2 ≤ info.use.numaMem.get kv.1)) && decide (origin.memReq ≤ info.use.mem)
        let commitViol := if nodeOk && cfgOk && originLives && jhas impl "commit" &&
            !(implCommit == "ok" && (match commitRealloc info origin implW with | .ok i' => memValid i' || !memOk | _ => false))
          then ["C04:commit:realloc"] else []
        let implEp := engineOfJson (jget impl "ep")
        let epOk := !jhas impl "ep" || epEq implEp (engineOf implW)
        let viol := pv ++ commitViol ++ rec1 ++ rec2 ++ (if epOk then [] else ["C31:engine-params-vs-recorded:realloc"])
        let exact := exact && (!jhas impl "commit" || implCommit == modelCommit) && epOk
        mk exact (outJ wlJ m) (viol ++ c33)
          (if !nodeOk then "invalid-node" else if exact then (if inScope then "realloc" else "realloc-out-of-scope") else "realloc-mismatch") false
  else
    mk false Json.null [] "unknown-op" true

end Oracle.Sched
