import Oracle.J
import Eru.Wal.Interleave
import Eru.TxnSpec
import Eru.Rpc.Spec
/- Oracles for group txw: C16 (WAL), C17 (Txn/PCR), C35 (auth), C36 (retry).  Each runs the Lean
   model on the case, compares it with the implementation's output and evaluates the decidable
   specification on the implementation's output. -/
namespace Oracle.Txw
open Lean Oracle

def verdict (id : Json) (agree : Bool) (model : Json) (spec : List String) (cls : String) (trivial : Bool := false) : Json :=
  Json.mkObj [("id", id), ("agree", agree), ("model", model), ("spec", Json.arr (spec.map Json.str).toArray),
              ("class", cls), ("trivial", trivial)]

def jstrs (j : Json) : List String := (jarr j).map jstr

/-! ## C17 -/
section C17
open Eru.Txn

def outOf (s : String) : Out := if s == "fail" then .fail else .ok
def optOf (s : String) : Opt := if s == "absent" then .absent else .present (outOf s)
def cancelOf (s : String) : Cancel :=
  match s with
  | "beforeCond" => .beforeCond | "duringCond" => .duringCond | "beforeThen" => .beforeThen
  | "duringThen" => .duringThen | "beforeRollback" => .beforeRollback | "duringRollback" => .duringRollback
  | "afterAll" => .afterAll | _ => .never
def slowOf (s : String) : Slow :=
  match s with | "cond" => .cond | "then" => .thn | "rollback" => .rollback | _ => .none
def stepName : Step → String | .cond => "cond" | .thn => "then" | .rollback => "rollback"
def retName : Ret → String | .nil => "nil" | .condErr => "condErr" | .thenErr => "thenErr"

def callToJson (c : Call) : Json :=
  Json.mkObj ([("step", Json.str (stepName c.step)), ("entry", Json.bool c.cancelledAtEntry), ("exit", Json.bool c.cancelledAtExit)] ++
    (match c.byCond with | some b => [("by_cond", Json.bool b)] | none => []))

def callOfJson (j : Json) : Call :=
  let s := jstr (jget j "step")
  { step := if s == "then" then .thn else if s == "rollback" then .rollback else .cond,
    ctx := .txn, cancelledAtEntry := jbool (jget j "entry"), cancelledAtExit := jbool (jget j "exit"),
    byCond := if jhas j "by_cond" then some (jbool (jget j "by_cond")) else none }

def sameCall (a b : Call) : Bool :=
  a.step == b.step && a.cancelledAtEntry == b.cancelledAtEntry && a.cancelledAtExit == b.cancelledAtExit && a.byCond == b.byCond

def sameCalls : List Call → List Call → Bool
  | [], [] => true
  | a :: as, b :: bs => sameCall a b && sameCalls as bs
  | _, _ => false

def handleC17 (j : Json) : Json :=
  let isPcr := jstr (jget j "fn") == "pcr"
  let cond := outOf (jstr (jget j "cond"))
  let thn := optOf (jstr (jget j "then"))
  let rb := optOf (jstr (jget j "rb"))
  let c := cancelOf (jstr (jget j "cancel"))
  let sl := slowOf (jstr (jget j "slow"))
  let traced := jbool (jget j "traced")
  let m := if isPcr then pcr cond thn rb c sl else txn cond thn rb c sl
  let impl := jget j "impl"
  let icalls := (jarr (jget impl "calls")).map callOfJson
  let crashed := jhas impl "crash"
  let iret : Ret := match jstr (jget impl "ret") with | "condErr" => .condErr | "thenErr" => .thenErr | _ => .nil
  let retKnown := crashed || ["nil", "condErr", "thenErr"].contains (jstr (jget impl "ret"))
  let ir : Result := { calls := icalls, ret := if crashed then m.ret else iret, panicked := crashed }
  let agree := sameCalls m.calls icalls && m.panicked == crashed && (crashed || m.ret == iret) && retKnown
  let viol := (if isPcr then specPcr cond thn rb ir sl else specTxn cond thn rb ir sl) ++ (if retKnown then [] else ["returns-first-failure"]) ++
    specTrace traced ((jarr (jget impl "calls")).map fun cj => jbool (jget cj "traced"))
  let failed := anyFailed cond thn
  verdict (jget j "id") agree
    (Json.mkObj [("calls", Json.arr (m.calls.map callToJson).toArray), ("ret", retName m.ret), ("panic", m.panicked)])
    (viol.map ("C17:" ++ ·))
    ((if isPcr then "pcr" else "txn") ++ (if failed then "-failed" else "-ok") ++ (if c == .never then "" else "-cancel") ++
      (if sl == .none then "" else "-slow") ++ (if traced then "-traced" else ""))
end C17

/-! ## C35 -/
section C35
open Eru.Rpc.Auth

def strOfBytes (j : Json) : Str := (jarr j).map fun b => Char.ofNat (jnat b)

def verdictName : Verdict → String
  | .served => "served" | .badUsername => "bad-username" | .badPassword => "bad-password" | .rejected => "rpc:Internal"

/-- a history of calls on one connection: every call is judged on its own by `call` / `specAuth` -/
def handleC35History (j : Json) : Json :=
  let cfg : Cred := { user := strOfBytes (jget j "su"), pass := strOfBytes (jget j "sp") }
  let calls := jarr (jget j "calls")
  let impl := jarr (jget (jget j "impl") "calls")
  let creds : List (Option Cred × List (Str × Str)) := calls.map fun c =>
    (if jbool (jget c "cred") then some { user := strOfBytes (jget c "cu"), pass := strOfBytes (jget c "cp") } else none, [])
  let model := Eru.Rpc.Auth.serve cfg creds
  let rec go (i : Nat) (cs : List Json) (cr : List (Option Cred × List (Str × Str))) (ms : List Verdict) (is : List Json)
      (agree : Bool) (viol : List String) : Bool × List String :=
    match cs, cr, ms, is with
    | c :: cs', (cred, extra) :: cr', m :: ms', r :: is' =>
      let cls := jstr (jget r "class")
      let served := cls == "served"
      let dom := inDomain (wire cred extra)
      let ok := !dom || (cls == verdictName m && jbool (jget r "handler_ran") == served)
      let v := (specAuth cfg cred extra served).map (fun s => s!"C35:{s}:{jstr (jget c "kind")}:call{i}") ++
               (if jbool (jget r "handler_ran") == served then [] else [s!"C35:handler-ran-iff-served:call{i}"])
      go (i + 1) cs' cr' ms' is' (agree && ok) (viol ++ v)
    | [], _, _, [] => (agree, viol)
    | _, _, _, _ => (false, viol)
  let (agree, viol) := go 0 calls creds model impl (!jhas (jget j "impl") "crash") []
  let anyGood := model.contains .served
  let anyBadAfterGood := (model.dropWhile (· != .served)).any (· != .served)
  verdict (jget j "id") agree (Json.arr (model.map (fun m => Json.str (verdictName m))).toArray) viol
    ("history" ++ (if anyBadAfterGood then "-bad-after-good" else if anyGood then "-good" else "-allbad"))
    (!inDomain (wire (some cfg) []))

def handleC35 (j : Json) : Json :=
  if jhas j "calls" then handleC35History j else
  let cfg : Cred := { user := strOfBytes (jget j "su"), pass := strOfBytes (jget j "sp") }
  let cred : Option Cred := if jbool (jget j "cred") then some { user := strOfBytes (jget j "cu"), pass := strOfBytes (jget j "cp") } else none
  let extra : List (Str × Str) := (jarr (jget j "extra")).map fun p =>
    match jarr p with | [k, v] => (strOfBytes k, strOfBytes v) | _ => ([], [])
  let m := call cfg cred extra
  let impl := jget j "impl"
  let iu := jstr (jget impl "unary")
  let is := jstr (jget impl "stream")
  let w := wire cred extra
  let dom := inDomain w
  let handlerOk := jbool (jget impl "unary_handler_ran") == (iu == "served") && jbool (jget impl "stream_handler_ran") == (is == "served")
  let agree := !dom || (iu == verdictName m && is == verdictName m && handlerOk && !jhas impl "crash")
  let viol := (specAuth cfg cred extra (iu == "served")).map (fun s => "C35:" ++ s ++ ":unary") ++
              (specAuth cfg cred extra (is == "served")).map (fun s => "C35:" ++ s ++ ":stream") ++
              (if handlerOk then [] else ["C35:handler-ran-iff-served"])
  let same := cred == some cfg
  verdict (jget j "id") agree (Json.str (verdictName m)) viol
    (if !dom then "out-of-domain" else
      (if same then "same-" else if cred.isNone then "anon-" else "other-") ++ verdictName m ++
      (if cfg.user != lower cfg.user then "-mixedcase" else ""))
    (!dom)
end C35

/-! ## C36 -/
section C36
open Eru.Rpc.Retry

def errName : ErrClass → String
  | .eof => "eof" | .unavailable => "rpc:Unavailable" | .ctxCanceled => "ctx-canceled"
  | .rpcCanceled => "rpc:Canceled" | .blocked => "blocked"

/-- `i` = ordinal among the streams the server plays (message ids are `i.n`); an element with a
`fault` is an open attempt that fails on the client side -/
def streamOfJson (i : Nat) (j : Json) : Stream String :=
  if jstr (jget j "fault") != "" then .failed else
  .served { msgs := (List.range (jnat (jget j "k"))).map fun n => s!"{i}.{n}",
            fin := match jstr (jget j "end") with | "eof" => .eof | "hang" => .hang | _ => .err }

def scriptOfJson : Nat → List Json → List (Stream String)
  | _, [] => []
  | i, j :: r => streamOfJson i j :: scriptOfJson (if jstr (jget j "fault") != "" then i else i + 1) r

def enumFrom {α} : Nat → List α → List (Nat × α)
  | _, [] => []
  | n, x :: xs => (n, x) :: enumFrom (n + 1) xs

def handleC36 (j : Json) : Json :=
  let id := jget j "id"
  let max := jnat (jget j "max")
  let impl := jget j "impl"
  let req := jstr (jget j "req")
  let method := jstr (jget j "method")
  let seen := jstrs (jget impl "seen")
  let delivered := jstrs (jget impl "delivered")
  let ierr := jstr (jget impl "err")
  let crash := jhas impl "crash"
  if jstr (jget j "mode") == "unary" then
    let outs := (jarr (jget j "unary")).map jbool
    let (n, ok) := runUnary max outs
    let prod := jnat (jget (jget j "prod_max") "client.unary")
    let prodKnown := jhas (jget j "prod_max") "client.unary"
    let iok := ierr == "ok"
    let agree := !crash && seen.length == n && iok == ok && seen.all (· == req) && (if ok then delivered == [req] else delivered.isEmpty && ierr == "rpc:Unavailable")
    let viol := specUnary max prod outs seen.length iok ++ (if prodKnown then [] else ["unary-budget-unknown"]) ++ (if seen.all (· == req) then [] else ["request-not-resent"])
    verdict id agree (Json.mkObj [("attempts", n), ("ok", ok)]) (viol.map ("C36:" ++ ·))
      ("unary" ++ (if n > 1 then "-retried" else "")) (outs.head? == some true)
  else
    let watch := (jstrs (jget j "allow")).contains ("/pb.CoreRPC/" ++ method)
    -- WatchServiceStatus / NodeStatusStream take an Empty request: the server logs ""
    let req := if method == "WatchServiceStatus" || method == "NodeStatusStream" then "" else req
    let script := scriptOfJson 0 (jarr (jget j "script"))
    let ca : Option Nat := if jint (jget j "cancel_after") < 0 then none else some (jnat (jget j "cancel_after"))
    let cb := jbool (jget j "cancel_blocked")
    let cbFired := cb && jhas impl "seen_at_cancel"
    -- transport parameter `reach = false`: the assumption under which the cancellation theorems are stated
    -- `wrap`: the harness put a decorator below the interceptor that reports the cancellation as a wrapped
    -- context.Canceled (cancelIs) on a transport where a stream opened after the cancellation would reach the server (reach)
    let wrap := jbool (jget j "wrap")
    let r := runStream wrap wrap watch max ca cb script req
    let agree := !crash && r.delivered == delivered && r.final.reqs == seen && errName r.err == ierr
    -- the specification decides "watch stream" by the property's own list, not by the code's allow-list
    let specWatch := watchMethods.contains ("/pb.CoreRPC/" ++ method)
    let viol := specStream specWatch max ca cbFired script req delivered (jnat (jget impl "opens")) seen (jnat (jget impl "seen_at_cancel")) ++
                specAllow (jstrs (jget j "allow"))
    let reopened := seen.length > 1
    verdict id agree
      (Json.mkObj [("delivered", Json.arr (r.delivered.map Json.str).toArray), ("seen", r.final.reqs.length), ("err", errName r.err)])
      (viol.map ("C36:" ++ ·))
      ((if watch then "watch" else "plain") ++ (if ca.isSome then "-cancel" else "") ++ (if cbFired then "-cancelblocked" else "") ++ (if wrap then "-wrapped" else "") ++ (if reopened then "-reopened" else ""))
      (watch && !reopened && ca.isNone && !cb)
end C36

/-! ## C16 -/
section C16
open Eru.Wal

structure W where
  st : St := {}
  abs : Abs := {}
  reg : List String := []
  mid : List (String × Nat) := []      -- item -> id in the model
  iid : List (String × Nat) := []      -- item -> id in the implementation
  agree : Bool := true
  viol : List String := []
  injected : Bool := false
  recovered : Nat := 0                 -- handler calls seen
  notes : List String := []

def lookupNat (m : List (String × Nat)) (k : String) : Option Nat := (m.find? (·.1 == k)).map (·.2)

def houtOf (s : String) : HOut :=
  match s with
  | "handleErr" => .handleErr | "notNeeded" => .notNeeded | "checkErr" => .checkErr | "decodeErr" => .decodeErr
  | "okDelErr" => .okDelErr | "notNeededDelErr" => .notNeededDelErr | _ => .ok

def kindName : CallKind → String | .decode => "decode" | .check => "check" | .handle => "handle"

def callTriple (c : HCall) : List String := [kindName c.kind, c.typ, c.item]

def W.fail (w : W) (note : String) : W := { w with agree := false, notes := w.notes ++ [note] }
def W.flag (w : W) (tag : String) : W := if w.viol.contains tag then w else { w with viol := w.viol ++ [tag] }

/-- `begin` on both the concrete model and (with the implementation's id) the abstract log -/
def doBegin (w : W) (typ item : String) (implId : Option Nat) : W :=
  let (o, st') := step (.begin typ item) w.st
  let mid := match o with | .id n => n | _ => 0
  let w := { w with st := st', mid := (item, mid) :: w.mid }
  let w := match implId with
    | some n => if n == mid then w else w.fail s!"id of {item}: model {mid} impl {n}"
    | none => w
  let aid := implId.getD (w.abs.next + 1)
  let w := if aid ≤ w.abs.next then w.flag "C16:id-reused" else w
  let (_, abs') := absStep (.begin typ item) { w.abs with next := aid - 1 }
  { w with abs := { abs' with next := Nat.max abs'.next w.abs.next }, iid := (item, aid) :: w.iid }

def doFinish (w : W) (item : String) : W :=
  let w := match lookupNat w.mid item with
    | some n => { w with st := (step (.finish n) w.st).2 }
    | none => w.fail s!"finish of unknown item {item}"
  match lookupNat w.iid item with
  | some n => { w with abs := (absStep (.finish n) w.abs).2 }
  | none => w

def dumpOfModel (st : St) : List (List String) :=
  st.kv.map fun (k, v) => match v with
    | some (t, i) => [String.ofList k, t, i]
    | none => [String.ofList k, "", "!garbage"]

/-- compare a dump of the real store with the model's store and with the abstract pending set -/
def checkDump (w : W) (dump : Json) : W :=
  let impl := (jarr dump).map jstrs
  let w := if impl == dumpOfModel w.st then w else w.fail "store content differs"
  if w.injected then w else
  let implEvents := impl.filterMap fun e => match e with
    | [k, t, i] => (parseId k.toList).map fun id => [toString id, t, i]
    | _ => none
  let want := w.abs.pending.map fun e => [toString e.id, e.typ, e.item]
  if implEvents == want && implEvents.length == impl.length then w else w.flag "C16:removed-iff"

def doCommitItem (w : W) (item : String) : W :=
  let w := match lookupNat w.mid item with
    | some n => { w with st := (step (.commit n) w.st).2 }
    | none => w.fail "commit of unknown item"
  match lookupNat w.iid item with
  | some n => { w with abs := (absStep (.commit n) w.abs).2 }
  | none => w

/-- an action another goroutine performed between the scan and the handling of an event -/
def applyFired (w : W) (f : Json) : W :=
  match jstr (jget f "do") with
  | "commit" => doCommitItem w (jstr (jget f "item"))
  | "log" => doFinish (doBegin w (jstr (jget f "typ")) (jstr (jget f "item")) (some (jnat (jget f "id")))) (jstr (jget f "item"))
  | _ => w.fail "unknown concurrent action"

def obsCalls : Obs → List HCall
  | .calls cs => cs
  | _ => []

/-- `Recover` through the interleaved model: scan (possibly failing after n entries), then per scanned
event the concurrent actions the harness fired at that event, then one `handleNext` -/
def doRecover (w : W) (o : Json) : W :=
  let outs := (jobjList (jget o "outs")).map fun (k, v) => (k, houtOf (jstr v))
  let out : Event → HOut := fun e => ((outs.find? (·.1 == e.item)).map (·.2)).getD .ok
  let impl := jget o "impl"
  let lim : Option Nat := if jhas o "scan_fail_after" then some (jnat (jget o "scan_fail_after")) else none
  let fired := jarr (jget impl "fired")
  let msc := (rstep (.scan lim) { st := w.st, scanned := [] }).2.scanned
  -- with foreign entries in the bucket the abstract log is not judged: let it follow the model's scan
  let asc := if w.injected then msc else (rabsStep (.scan lim) (w.abs, [])).2.2
  let reg := w.reg
  let rec go : List Event → List Event → W → List HCall → List HCall → W × List HCall × List HCall
    | ev :: mr, aev :: ar, w, mc, ac =>
      let w := fired.foldl (fun w f => if jstr (jget f "at") == ev.item then applyFired w f else w) w
      let (om, sm) := rstep (.handleNext reg out) { st := w.st, scanned := [ev] }
      let (oa, sa) := rabsStep (.handleNext reg out) (w.abs, [aev])
      go mr ar { w with st := sm.st, abs := sa.1 } (mc ++ obsCalls om) (ac ++ obsCalls oa)
    | [], [], w, mc, ac => (w, mc, ac)
    | _, _, w, mc, ac => (w.fail "scanned lists of model and abstract log differ", mc, ac)
  let pendAtScan := asc.map fun e => (e.typ, e.item)
  let (w, mcalls, acalls) := go msc asc w [] []
  let icalls := (jarr (jget impl "calls")).map jstrs
  let w := { w with recovered := w.recovered + icalls.length }
  let w := if mcalls.map callTriple == icalls then w else w.fail "handler calls differ"
  -- specification on the implementation's calls: the handler chains of the events stored at scan time
  let want := acalls.map callTriple
  if w.injected || icalls == want then w else
  let decoded := icalls.filterMap fun c => match c with | ["decode", t, i] => some (t, i) | _ => none
  if !decoded.all pendAtScan.contains then w.flag "C16:handler-called-for-non-pending-event"
  else if decoded.eraseDups.length != decoded.length then w.flag "C16:handler-called-twice"
  else if decoded != (want.filterMap fun c => match c with | ["decode", t, i] => some (t, i) | _ => none) then
    (if decoded.length == (want.filter (·.head? == some "decode")).length then w.flag "C16:not-in-logging-order" else w.flag "C16:pending-event-not-replayed")
  else w.flag "C16:recover-calls"

def doOp (w : W) (o : Json) : W :=
  let impl := jget o "impl"
  let typ := jstr (jget o "typ")
  let item := jstr (jget o "item")
  let implId : Option Nat := if jhas impl "id" then some (jnat (jget impl "id")) else none
  let accepted := w.reg.contains typ && !item.startsWith "!enc"
  match jstr (jget o "op") with
  | "log" | "reject" =>
    if accepted then
      let w := if jstr (jget impl "err") == "ok" then w else w.fail s!"log {item}: impl {jstr (jget impl "err")}"
      doFinish (doBegin w typ item implId) item
    else
      let want := if w.reg.contains typ then "encode" else "invalid-type"
      let w := { w with st := (step .rejected w.st).2 }
      if jstr (jget impl "err") == want then w else w.fail s!"rejected log {item}: impl {jstr (jget impl "err")} want {want}"
  | "begin" =>
    if accepted then (if jhas impl "err" then w.fail "begin failed" else doBegin w typ item implId)
    else w.fail "begin of a rejected log"
  | "finish" =>
    let w := if jstr (jget impl "err") == "ok" then w else w.fail "finish failed"
    doFinish w item
  | "burst" =>
    let trace := (jarr (jget impl "trace")).map jarr
    let w := if (jstrs (jget impl "errs")).all (· == "ok") then w else w.fail "burst: a Log failed"
    trace.foldl (fun w ev =>
      match ev with
      | [k, idj] =>
        if jstr k == "seq" then
          -- the type/item of this id is revealed by its Put later in the trace
          match trace.find? (fun e => match e with | [k', id', _, _] => jstr k' == "put" && jnat id' == jnat idj | _ => false) with
          | some [_, _, t, i] => doBegin w (jstr t) (jstr i) (some (jnat idj))
          | _ => w.fail "burst: id without Put"
        else w
      | [k, _, _, i] => if jstr k == "put" then doFinish w (jstr i) else w
      | _ => w) w
  | "commit" =>
    if jstr (jget impl "err") == "no-closure" then w else
    let w := if jstr (jget impl "err") == "ok" then w else w.fail "commit failed"
    doCommitItem w item
  | "register" => if w.reg.contains typ then w else { w with reg := w.reg ++ [typ] }
  | "reopen" =>
    let w := { w with st := (step .reopen w.st).2, abs := (absStep .reopen w.abs).2, reg := jstrs (jget o "reg") }
    let w := if jhas impl "err" then w.fail "reopen failed" else w
    if jhas impl "dump" then checkDump w (jget impl "dump") else w
  | "recover" => doRecover w o
  | "dump" => if jhas impl "err" then w.fail "dump failed" else checkDump w (jget impl "dump")
  | "failput" =>
    -- the Put of an in-flight Log fails: the id is consumed, nothing is stored (the model keeps the logger in flight for ever)
    if jstr (jget impl "err") == "aborted" then w else w.fail "failput: Log did not fail"
  | "inject" =>
    let v : Val := if jstr (jget o "val") == "event" then some (typ, item) else none
    { w with st := (step (.inject (jstr (jget o "key")).toList v) w.st).2, injected := true }
  | other => w.fail s!"unknown op {other}"

def handleC16 (j : Json) : Json :=
  let w0 : W := { reg := jstrs (jget j "reg") }
  let w := (jarr (jget j "ops")).foldl doOp w0
  let w := if jhas j "crash" && jstr (jget j "crash") != "" then (w.fail "harness crash").flag "C16:crash" else w
  let plain := jbool (jget j "plain")
  verdict (jget j "id") w.agree
    (Json.mkObj [("seq", w.st.seq), ("pending", w.abs.pending.length), ("notes", Json.arr (w.notes.map Json.str).toArray)])
    w.viol
    ((if plain then "plain" else "gated") ++ (if w.injected then "-injected" else "") ++ (if w.recovered > 0 then "-replayed" else ""))
    (w.recovered == 0)
end C16

end Oracle.Txw
