import Oracle.Sched
/- `oracle_sched`: one JSON case per stdin line, one JSON verdict per stdout line (C04/C05/C06/C33). -/
def main (_args : List String) : IO UInt32 := do
  Oracle.serve Oracle.Sched.handle; return 0
