import Oracle.Lock
/- `oracle_lock <mode>`: one JSON case per stdin line, one JSON verdict per stdout line. -/
def main (args : List String) : IO UInt32 := do
  match args with
  | ["filter"] => Oracle.serve Oracle.Lock.handleFilter; return 0
  | ["order"] => Oracle.serve Oracle.Lock.handleOrder; return 0
  | ["mutex"] => Oracle.serve Oracle.Lock.handleSched; return 0
  | ["loss"] => Oracle.serve Oracle.Lock.handleSched; return 0
  | _ => IO.eprintln "usage: oracle_lock filter|order|mutex|loss"; return 2
