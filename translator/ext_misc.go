package main

// Item kinds of the "misc" group (C24, C27, C29, C31):
//
//   intconst  an integer constant whose value is a constant *expression* (`2 << 10`, `units.MiB * 4`,
//             `15 * time.Second`, `math.MaxInt64`): `var` names the constant, looked up in the item's file and then
//             in the other files of its package; the generated definition is the evaluated integer.
//   strarg    the string literal passed to a call inside `func`: `var` is a comma separated list of callees
//             ("strings.Split,strings.LastIndex"); every such call in the function must pass the same literal, which
//             becomes the generated String (so rewriting Split into LastIndex keeps the tie, changing the separator
//             breaks it).
//   ifcondfn  like `ifcond`, but only occurrences inside the named function count (no file-wide fallback) and there
//             is no negated form: for a guard that appears once per function in several functions.

import (
	"fmt"
	"go/ast"
	"go/token"
	"math/big"
	"strconv"
	"strings"
)

var knownInts = map[string]string{
	"units.KiB": "1024", "units.MiB": "1048576", "units.GiB": "1073741824",
	"time.Nanosecond": "1", "time.Microsecond": "1000", "time.Millisecond": "1000000", "time.Second": "1000000000",
	"time.Minute": "60000000000", "math.MaxInt64": "9223372036854775807", "math.MaxInt32": "2147483647",
}

func findConstValue(files []*ast.File, name string) ast.Expr {
	for _, f := range files {
		for _, d := range f.Decls {
			gd, ok := d.(*ast.GenDecl)
			if !ok || (gd.Tok != token.CONST && gd.Tok != token.VAR) {
				continue
			}
			for _, sp := range gd.Specs {
				vs := sp.(*ast.ValueSpec)
				for i, nm := range vs.Names {
					if nm.Name == name && i < len(vs.Values) {
						return vs.Values[i]
					}
				}
			}
		}
	}
	return nil
}

func evalInt(files []*ast.File, e ast.Expr, depth int) (*big.Int, error) {
	if depth > 8 {
		return nil, fmt.Errorf("constant expression too deep")
	}
	switch x := e.(type) {
	case *ast.BasicLit:
		if x.Kind != token.INT {
			return nil, fmt.Errorf("not an integer literal: %s", x.Value)
		}
		v, ok := new(big.Int).SetString(x.Value, 0)
		if !ok {
			return nil, fmt.Errorf("bad integer literal %s", x.Value)
		}
		return v, nil
	case *ast.ParenExpr:
		return evalInt(files, x.X, depth+1)
	case *ast.UnaryExpr:
		v, err := evalInt(files, x.X, depth+1)
		if err != nil {
			return nil, err
		}
		if x.Op == token.SUB {
			return v.Neg(v), nil
		}
		if x.Op == token.ADD {
			return v, nil
		}
		return nil, fmt.Errorf("unsupported unary %s", x.Op)
	case *ast.BinaryExpr:
		l, err := evalInt(files, x.X, depth+1)
		if err != nil {
			return nil, err
		}
		r, err := evalInt(files, x.Y, depth+1)
		if err != nil {
			return nil, err
		}
		switch x.Op {
		case token.ADD:
			return l.Add(l, r), nil
		case token.SUB:
			return l.Sub(l, r), nil
		case token.MUL:
			return l.Mul(l, r), nil
		case token.SHL:
			return l.Lsh(l, uint(r.Int64())), nil
		}
		return nil, fmt.Errorf("unsupported operator %s in constant expression", x.Op)
	case *ast.SelectorExpr:
		if s, ok := knownInts[src(x)]; ok {
			v, _ := new(big.Int).SetString(s, 10)
			return v, nil
		}
		return nil, fmt.Errorf("unknown external constant %s", src(x))
	case *ast.CallExpr:
		if id, ok := x.Fun.(*ast.Ident); ok && len(x.Args) == 1 && (id.Name == "int64" || id.Name == "int" || id.Name == "uint64") {
			return evalInt(files, x.Args[0], depth+1)
		}
		if se, ok := x.Fun.(*ast.SelectorExpr); ok && len(x.Args) == 1 && src(se) == "time.Duration" {
			return evalInt(files, x.Args[0], depth+1)
		}
		return nil, fmt.Errorf("unsupported call %s in constant expression", src(x))
	case *ast.Ident:
		v := findConstValue(files, x.Name)
		if v == nil {
			return nil, fmt.Errorf("constant %s not found", x.Name)
		}
		return evalInt(files, v, depth+1)
	}
	return nil, fmt.Errorf("unsupported constant expression %s", src(e))
}

func init() {
	extraKinds["intconst"] = func(t *tr, f *ast.File) ([]cand, error) {
		files := append([]*ast.File{f}, t.pkg...)
		v := findConstValue(files, t.it.Var)
		if v == nil {
			return nil, fmt.Errorf("constant %s not found", t.it.Var)
		}
		n, err := evalInt(files, v, 0)
		if err != nil {
			return nil, fmt.Errorf("constant %s: %v", t.it.Var, err)
		}
		rhs := n.String()
		if n.Sign() < 0 {
			rhs = "(" + rhs + ")"
		}
		return []cand{{rhs, "constant " + t.it.Var + " = " + src(v)}}, nil
	}

	extraKinds["strarg"] = func(t *tr, f *ast.File) ([]cand, error) {
		fd := findFunc(f, t.it.Func)
		if fd == nil || fd.Body == nil {
			return nil, fmt.Errorf("function %s not found", t.it.Func)
		}
		callees := map[string]bool{}
		for _, c := range strings.Split(t.it.Var, ",") {
			callees[strings.TrimSpace(c)] = true
		}
		var lits, where []string
		ast.Inspect(fd.Body, func(n ast.Node) bool {
			ce, ok := n.(*ast.CallExpr)
			if !ok || !callees[src(ce.Fun)] {
				return true
			}
			for _, a := range ce.Args {
				if bl, ok := a.(*ast.BasicLit); ok && bl.Kind == token.STRING {
					if s, err := strconv.Unquote(bl.Value); err == nil {
						lits = append(lits, s)
						where = append(where, src(ce))
					}
				}
			}
			return true
		})
		if len(lits) == 0 {
			return nil, fmt.Errorf("no call of %s with a string literal in %s", t.it.Var, t.it.Func)
		}
		// every call must pass the same literal; if they differ all of them are emitted, so that the tie breaks
		rhs := lits[0]
		for _, l := range lits {
			if l != lits[0] {
				rhs = strings.Join(lits, "|")
				break
			}
		}
		return []cand{{strconv.Quote(rhs), "string argument of " + strings.Join(where, " / ")}}, nil
	}

	extraKinds["ifcondfn"] = func(t *tr, f *ast.File) ([]cand, error) {
		fd := findFunc(f, t.it.Func)
		if fd == nil || fd.Body == nil {
			return nil, fmt.Errorf("function %s not found", t.it.Func)
		}
		var cs []cand
		seen := map[string]bool{}
		n := 0
		ast.Inspect(fd.Body, func(nd ast.Node) bool {
			if is, ok := nd.(*ast.IfStmt); ok {
				if rhs, err := t.expr(is.Cond); err == nil && !seen[rhs] {
					seen[rhs] = true
					cs = append(cs, cand{rhs, fmt.Sprintf("condition of if #%d in %s: %s", n, t.it.Func, src(is.Cond))})
				}
				n++
			}
			return true
		})
		if len(cs) == 0 {
			return nil, fmt.Errorf("no if condition in %s translates with binders %s", t.it.Func, t.it.Params)
		}
		if len(cs) > 1 {
			// several different conditions over the same binders: all of them must be the model's piece
			return cs[len(cs)-1:], nil
		}
		return cs, nil
	}
}
