package main

// Item kinds of the "store" group (C13, C23, C25, C26).
//
//   fromend  — every index expression of the shape X[len(X)-K] (K an integer literal) in the package of the
//              item's file: the sorted list of distinct K.  store/etcdv3 and store/redis read the nodename out of
//              deploy/processing keys as parts[len(parts)-2] and out of node status keys as ps[len(ps)-1]; extracting
//              that into a helper or moving it to another file of the package keeps the list, another offset changes it.
//   divisors — every quotient `V / K` (V the identifier named by the item's "var", K an integer literal) in the
//              package of the item's file: the sorted list of distinct K (StartEphemeral ticks every heartbeat/3).
//
//   guard    — like ifcond without an index: every boolean guard of the named function (then of the rest of the
//              file) that translates with the item's binders — `if` conditions, the case expressions of a tagless
//              `switch { case c: … }`, and boolean expressions bound to a local (`need := ttl != 0; if need {…}`).
//              The tie is "one of them, or its negation, is the model's piece", so turning an if-chain into a
//              switch or naming a condition keeps it.
//
// fromend and divisors produce ONE candidate (a `List Int` literal), so the tie is an equality, not a disjunction.

import (
	"fmt"
	"go/ast"
	"go/token"
	"sort"
	"strconv"
	"strings"
)

func intLit(e ast.Expr) (int, bool) {
	bl, ok := e.(*ast.BasicLit)
	if !ok || bl.Kind != token.INT {
		return 0, false
	}
	n, err := strconv.Atoi(bl.Value)
	return n, err == nil
}

func listLit(set map[int]bool) string {
	var ks []int
	for k := range set {
		ks = append(ks, k)
	}
	sort.Ints(ks)
	var ss []string
	for _, k := range ks {
		ss = append(ss, strconv.Itoa(k))
	}
	return "[" + strings.Join(ss, ", ") + "]"
}

func boolShaped(e ast.Expr) bool {
	switch x := e.(type) {
	case *ast.ParenExpr:
		return boolShaped(x.X)
	case *ast.UnaryExpr:
		return x.Op == token.NOT
	case *ast.BinaryExpr:
		switch x.Op {
		case token.LOR, token.LAND, token.LSS, token.GTR, token.LEQ, token.GEQ, token.EQL, token.NEQ:
			return true
		}
	}
	return false
}

func init() {
	extraKinds["guard"] = func(t *tr, f *ast.File) ([]cand, error) {
		var all []cand
		seen := map[string]bool{}
		add := func(e ast.Expr, where string) {
			if !boolShaped(e) {
				return
			}
			rhs, err := t.expr(e)
			if err != nil || seen[rhs] {
				return
			}
			seen[rhs] = true
			all = append(all, cand{rhs, "guard in " + where + ": " + src(e)})
		}
		scan := func(d *ast.FuncDecl) {
			if d == nil || d.Body == nil {
				return
			}
			ast.Inspect(d.Body, func(n ast.Node) bool {
				switch x := n.(type) {
				case *ast.IfStmt:
					add(x.Cond, d.Name.Name)
				case *ast.SwitchStmt:
					if x.Tag == nil {
						for _, c := range x.Body.List {
							for _, e := range c.(*ast.CaseClause).List {
								add(e, d.Name.Name)
							}
						}
					}
				case *ast.AssignStmt:
					if x.Tok == token.DEFINE && len(x.Lhs) == 1 && len(x.Rhs) == 1 {
						add(x.Rhs[0], d.Name.Name)
					}
				}
				return true
			})
		}
		fd := findFunc(f, t.it.Func)
		scan(fd)
		for _, d := range f.Decls {
			if od, ok := d.(*ast.FuncDecl); ok && od != fd {
				scan(od)
			}
		}
		if len(all) == 0 {
			return nil, fmt.Errorf("no guard in %s translates with binders %s", t.it.File, t.it.Params)
		}
		if len(all) > 6 {
			all = all[:6]
		}
		// a guard may be written in either polarity (`if skip {return}` / `if keep {...}`)
		n := len(all)
		for i := 0; i < n; i++ {
			all = append(all, cand{"!(" + all[i].rhs + ")", "negation of the " + all[i].origin})
		}
		return all, nil
	}
	extraKinds["fromend"] = func(t *tr, f *ast.File) ([]cand, error) {
		set := map[int]bool{}
		for _, pf := range append([]*ast.File{f}, t.pkg...) {
			ast.Inspect(pf, func(n ast.Node) bool {
				ix, ok := n.(*ast.IndexExpr)
				if !ok {
					return true
				}
				be, ok := ix.Index.(*ast.BinaryExpr)
				if !ok || be.Op != token.SUB {
					return true
				}
				call, ok := be.X.(*ast.CallExpr)
				if !ok || src(call.Fun) != "len" || len(call.Args) != 1 || src(call.Args[0]) != src(ix.X) {
					return true
				}
				if k, ok := intLit(be.Y); ok {
					set[k] = true
				}
				return true
			})
		}
		if len(set) == 0 {
			return nil, fmt.Errorf("no X[len(X)-K] expression in the package of %s", t.it.File)
		}
		return []cand{{listLit(set), "offsets K of the X[len(X)-K] expressions of the package"}}, nil
	}
	extraKinds["divisors"] = func(t *tr, f *ast.File) ([]cand, error) {
		set := map[int]bool{}
		for _, pf := range append([]*ast.File{f}, t.pkg...) {
			ast.Inspect(pf, func(n ast.Node) bool {
				be, ok := n.(*ast.BinaryExpr)
				if !ok || be.Op != token.QUO || src(be.X) != t.it.Var {
					return true
				}
				if k, ok := intLit(be.Y); ok {
					set[k] = true
				}
				return true
			})
		}
		if len(set) == 0 {
			return nil, fmt.Errorf("no quotient %s / K in the package of %s", t.it.Var, t.it.File)
		}
		return []cand{{listLit(set), "divisors K of the quotients " + t.it.Var + " / K of the package"}}, nil
	}
}
