package main

// Item kinds of the lock group (C18–C21).
//
//   lockguard      — a boolean guard: the condition of an `if` or a case expression of a tag-less `switch`, looked for in
//                the named function first and then in every other function of the file, kept when it translates with the
//                item's binders. Every candidate is offered in both polarities (`if !ok { fix }` and `case ok: keep` are
//                the same guard), so the tie is "some guard of the file is the model's piece or its negation".
//   lockhascall    — does the file still contain the call `<var>(<subst["arg"]>)`, e.g. `sort.Strings(keys)`? → `true`/`false`.
//   lockdurationms — the `index`-th argument of the first call of `<var>` in the file, a constant duration such as
//                `500 * time.Millisecond`, in milliseconds.

import (
	"fmt"
	"go/ast"
	"go/token"
	"strconv"
)

func init() {
	extraKinds["lockguard"] = guardKind
	extraKinds["lockhascall"] = hasCallKind
	extraKinds["lockdurationms"] = durationMsKind
}

func guardKind(t *tr, f *ast.File) ([]cand, error) {
	it := t.it
	fd := findFunc(f, it.Func)
	var found []cand
	seen := map[string]bool{}
	add := func(e ast.Expr, where string) {
		rhs, err := t.expr(e)
		if err != nil || seen[rhs] {
			return
		}
		seen[rhs] = true
		found = append(found, cand{rhs, fmt.Sprintf("guard in %s: %s", where, src(e))})
	}
	scan := func(d *ast.FuncDecl) {
		if d.Body == nil {
			return
		}
		ast.Inspect(d.Body, func(n ast.Node) bool {
			switch x := n.(type) {
			case *ast.IfStmt:
				add(x.Cond, d.Name.Name)
			case *ast.SwitchStmt:
				if x.Tag == nil {
					for _, st := range x.Body.List {
						if cc, ok := st.(*ast.CaseClause); ok {
							for _, e := range cc.List {
								add(e, d.Name.Name)
							}
						}
					}
				}
			}
			return true
		})
	}
	if fd != nil {
		scan(fd)
	}
	for _, d := range f.Decls {
		if od, ok := d.(*ast.FuncDecl); ok && od != fd {
			scan(od)
		}
	}
	if len(found) == 0 {
		return nil, fmt.Errorf("no guard in %s translates with binders %s", it.File, it.Params)
	}
	if len(found) > 4 {
		found = found[:4]
	}
	var all []cand
	for _, c := range found {
		all = append(all, c)
	}
	for _, c := range found {
		all = append(all, cand{"!(" + c.rhs + ")", c.origin + " (negated)"})
	}
	return all, nil
}

func hasCallKind(t *tr, f *ast.File) ([]cand, error) {
	it := t.it
	arg := it.Subst["arg"]
	hit := false
	ast.Inspect(f, func(n ast.Node) bool {
		if ce, ok := n.(*ast.CallExpr); ok && src(ce.Fun) == it.Var {
			if arg == "" || (len(ce.Args) > 0 && src(ce.Args[0]) == arg) {
				hit = true
			}
		}
		return true
	})
	return []cand{{strconv.FormatBool(hit), fmt.Sprintf("is there a call %s(%s) in the file", it.Var, arg)}}, nil
}

var durUnitsNs = map[string]int64{"time.Nanosecond": 1, "time.Microsecond": 1e3, "time.Millisecond": 1e6, "time.Second": 1e9,
	"time.Minute": 60e9, "time.Hour": 3600e9}

func durationNs(e ast.Expr) (int64, error) {
	switch x := e.(type) {
	case *ast.ParenExpr:
		return durationNs(x.X)
	case *ast.SelectorExpr:
		if u, ok := durUnitsNs[src(x)]; ok {
			return u, nil
		}
	case *ast.BasicLit:
		if x.Kind == token.INT {
			return strconv.ParseInt(x.Value, 0, 64)
		}
	case *ast.BinaryExpr:
		if x.Op == token.MUL {
			l, err := durationNs(x.X)
			if err != nil {
				return 0, err
			}
			r, err := durationNs(x.Y)
			if err != nil {
				return 0, err
			}
			return l * r, nil
		}
	}
	return 0, fmt.Errorf("not a constant duration: %s", src(e))
}

func durationMsKind(t *tr, f *ast.File) ([]cand, error) {
	it := t.it
	var res []cand
	var firstErr error
	ast.Inspect(f, func(n ast.Node) bool {
		ce, ok := n.(*ast.CallExpr)
		if !ok || src(ce.Fun) != it.Var || len(res) > 0 {
			return true
		}
		if it.Index >= len(ce.Args) {
			firstErr = fmt.Errorf("call %s has no argument #%d", it.Var, it.Index)
			return true
		}
		ns, err := durationNs(ce.Args[it.Index])
		if err != nil {
			firstErr = err
			return true
		}
		if ns%1e6 != 0 {
			firstErr = fmt.Errorf("%s is not a whole number of milliseconds", src(ce.Args[it.Index]))
			return true
		}
		res = append(res, cand{strconv.FormatInt(ns/1e6, 10), fmt.Sprintf("argument #%d of %s: %s", it.Index, it.Var, src(ce.Args[it.Index]))})
		return true
	})
	if len(res) == 0 {
		if firstErr == nil {
			firstErr = fmt.Errorf("no call of %s in %s", it.Var, it.File)
		}
		return nil, firstErr
	}
	return res, nil
}
