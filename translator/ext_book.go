package main

// Item kind of the book group (C07, C08, C09, C15, C32).
//
// "ifatom": like "ifcond", but every if-condition is split at its top-level `&&` into atoms, and the
// candidates are the atoms (of the addressed if first, then of every other if of that function and
// of the rest of the file that translate with the item's binders) together with their negations.
// `if a && b {…}` and `if a { if b {…} }` and `if !a { continue }` are the same code; the tie is
// "one atom (or its negation) is the model's named piece".  Only atoms that mention EVERY binder of
// the item are occurrences of the piece (an unrelated test over a subset of the binders is not a
// candidate: when the real occurrence moves out of reach the item must degrade to "structural").

import (
	"fmt"
	"go/ast"
	"go/token"
	"regexp"
)

func bookMentionsAll(rhs string, binders []string) bool {
	for _, b := range binders {
		if !regexp.MustCompile(`(^|[^A-Za-z0-9_.])` + regexp.QuoteMeta(b) + `([^A-Za-z0-9_]|$)`).MatchString(rhs) {
			return false
		}
	}
	return true
}

func bookAtoms(e ast.Expr, out *[]ast.Expr) {
	switch x := e.(type) {
	case *ast.ParenExpr:
		bookAtoms(x.X, out)
		return
	case *ast.BinaryExpr:
		if x.Op == token.LAND {
			bookAtoms(x.X, out)
			bookAtoms(x.Y, out)
			return
		}
	}
	*out = append(*out, e)
}

func init() {
	extraKinds["ifatom"] = func(t *tr, f *ast.File) ([]cand, error) {
		it := t.it
		fd := findFunc(f, it.Func)
		type occ struct {
			c     cand
			first bool
		}
		var occs []occ
		scan := func(d *ast.FuncDecl, named bool) {
			if d.Body == nil {
				return
			}
			n := 0
			name := d.Name.Name
			if named {
				name = it.Func
			}
			ast.Inspect(d.Body, func(nd ast.Node) bool {
				x, ok := nd.(*ast.IfStmt)
				if !ok {
					return true
				}
				var atoms []ast.Expr
				bookAtoms(x.Cond, &atoms)
				if len(atoms) > 1 { // the whole conjunction is a candidate too (an `||` edited into `&&` must not hide in the atoms)
					atoms = append(atoms, x.Cond)
				}
				for _, a := range atoms {
					if rhs, err := t.expr(a); err == nil && bookMentionsAll(rhs, binderList(it.Params)) {
						occs = append(occs, occ{cand{rhs, fmt.Sprintf("atom of if #%d in %s: %s", n, name, src(a))}, named && n == it.Index})
					}
				}
				n++
				return true
			})
		}
		if fd != nil {
			scan(fd, true)
		}
		for _, d := range f.Decls {
			if od, ok := d.(*ast.FuncDecl); ok && od != fd {
				scan(od, false)
			}
		}
		var all []cand
		seen := map[string]bool{}
		for pass := 0; pass < 2; pass++ {
			for _, o := range occs {
				if o.first == (pass == 0) && !seen[o.c.rhs] {
					seen[o.c.rhs] = true
					all = append(all, o.c)
				}
			}
		}
		if len(all) == 0 {
			return nil, fmt.Errorf("no if-condition atom in %s translates with binders %s", it.File, it.Params)
		}
		if len(all) > 8 {
			all = all[:8]
		}
		pos := len(all)
		for i := 0; i < pos; i++ {
			all = append(all, cand{"!(" + all[i].rhs + ")", "negation of " + all[i].origin})
		}
		return all, nil
	}
}
