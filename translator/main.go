// Command veriftranslator regenerates Lean definitions from projecteru2/core's Go source.
//
// It is deliberately tiny: it translates *expressions and predicate-shaped functions* (comparators,
// guards, eligibility tests, constant tables) picked out of the source by a spec file into surface Lean
// that mirrors the Go operators one-to-one, and emits for each a theorem `… = <hand-written model def>` proved by `rfl` or, failing that, by extensional equality (`funext; simp only; grind`).
// The model is hand-written; this regenerated file is re-checked by `lake build` on every run, so a change
// to any translated expression in /repo breaks a proof obligation (the `rfl`), which bin/check reports.
//
// usage: veriftranslator -repo /repo -spec spec.json   (writes the file named in the spec)
package main

import (
	"encoding/json"
	"flag"
	"fmt"
	"go/ast"
	"go/parser"
	"go/printer"
	"go/token"
	"os"
	"path/filepath"
	"sort"
	"strconv"
	"strings"
)

type Item struct {
	Kind   string            `json:"kind"`   // func | ifcond | funclit | mapkeys | const | forcond
	File   string            `json:"file"`   // path relative to repo
	Func   string            `json:"func"`   // enclosing function name ("Recv.Name" for methods)
	Index  int               `json:"index"`  // N-th if / func literal / for inside Func (source order)
	Var    string            `json:"var"`    // mapkeys/const: identifier
	Lean   string            `json:"lean"`   // name of the generated definition
	Params string            `json:"params"` // Lean binder list, e.g. "(a b : Info)"
	Ret    string            `json:"ret"`    // Lean result type
	Subst  map[string]string `json:"subst"`  // Go source text of a sub-expression -> Lean text
	Eq     string            `json:"eq"`     // hand-written model definition it must equal (by rfl)
}

type Spec struct {
	Out       string            `json:"out"`
	Namespace string            `json:"namespace"`
	Imports   []string          `json:"imports"`
	Open      []string          `json:"open"`
	Fields    map[string]string `json:"fields"` // Go field name -> Lean field name
	Calls     map[string]string `json:"calls"`  // Go callee text -> Lean function
	Items     []Item            `json:"items"`
}

var fset = token.NewFileSet()

func src(n ast.Node) string {
	var sb strings.Builder
	printer.Fprint(&sb, fset, n)
	return sb.String()
}

type tr struct {
	spec *Spec
	it   *Item
}

func (t *tr) expr(e ast.Expr) (string, error) {
	if s, ok := t.it.Subst[src(e)]; ok {
		return s, nil
	}
	switch x := e.(type) {
	case *ast.ParenExpr:
		s, err := t.expr(x.X)
		return "(" + s + ")", err
	case *ast.BinaryExpr:
		l, err := t.expr(x.X)
		if err != nil {
			return "", err
		}
		r, err := t.expr(x.Y)
		if err != nil {
			return "", err
		}
		op := map[token.Token]string{token.LOR: "||", token.LAND: "&&", token.LSS: "<", token.GTR: ">", token.LEQ: "≤",
			token.GEQ: "≥", token.EQL: "==", token.NEQ: "!=", token.ADD: "+", token.SUB: "-", token.MUL: "*"}[x.Op]
		if op == "" {
			return "", fmt.Errorf("unsupported operator %s in %s", x.Op, src(e))
		}
		// parenthesise operands that are themselves binary, to keep Go's grouping explicit
		if _, ok := x.X.(*ast.BinaryExpr); ok {
			l = "(" + l + ")"
		}
		if _, ok := x.Y.(*ast.BinaryExpr); ok {
			r = "(" + r + ")"
		}
		return l + " " + op + " " + r, nil
	case *ast.UnaryExpr:
		s, err := t.expr(x.X)
		if err != nil {
			return "", err
		}
		switch x.Op {
		case token.NOT:
			return "!(" + s + ")", nil
		case token.SUB:
			return "-(" + s + ")", nil
		}
		return "", fmt.Errorf("unsupported unary %s", x.Op)
	case *ast.SelectorExpr:
		base, err := t.expr(x.X)
		if err != nil {
			return "", err
		}
		f, ok := t.spec.Fields[x.Sel.Name]
		if !ok {
			return "", fmt.Errorf("unknown field %s in %s", x.Sel.Name, src(e))
		}
		return base + "." + f, nil
	case *ast.Ident:
		return x.Name, nil
	case *ast.BasicLit:
		if x.Kind == token.INT {
			return x.Value, nil
		}
		if x.Kind == token.STRING {
			return x.Value, nil
		}
		return "", fmt.Errorf("unsupported literal %s", x.Value)
	case *ast.CallExpr:
		fn, ok := t.spec.Calls[src(x.Fun)]
		if !ok {
			return "", fmt.Errorf("unsupported call %s", src(x.Fun))
		}
		parts := []string{fn}
		for _, a := range x.Args {
			s, err := t.expr(a)
			if err != nil {
				return "", err
			}
			parts = append(parts, "("+s+")")
		}
		return strings.Join(parts, " "), nil
	}
	return "", fmt.Errorf("unsupported expression %T: %s", e, src(e))
}

// body translates `if c { return a }; …; return b` chains (and a bare `return e`).
func (t *tr) body(stmts []ast.Stmt) (string, error) {
	if len(stmts) == 0 {
		return "", fmt.Errorf("empty body")
	}
	switch s := stmts[0].(type) {
	case *ast.ReturnStmt:
		if len(s.Results) != 1 {
			return "", fmt.Errorf("return with %d results", len(s.Results))
		}
		return t.expr(s.Results[0])
	case *ast.IfStmt:
		if s.Init != nil {
			return "", fmt.Errorf("if with init")
		}
		c, err := t.expr(s.Cond)
		if err != nil {
			return "", err
		}
		th, err := t.body(s.Body.List)
		if err != nil {
			return "", err
		}
		var el string
		if s.Else != nil {
			blk, ok := s.Else.(*ast.BlockStmt)
			if !ok {
				return "", fmt.Errorf("else-if not supported")
			}
			el, err = t.body(blk.List)
		} else {
			el, err = t.body(stmts[1:])
		}
		if err != nil {
			return "", err
		}
		return "if " + c + " then " + th + " else " + el, nil
	}
	return "", fmt.Errorf("unsupported statement %T: %s", stmts[0], src(stmts[0]))
}

func findFunc(f *ast.File, name string) *ast.FuncDecl {
	for _, d := range f.Decls {
		fd, ok := d.(*ast.FuncDecl)
		if !ok {
			continue
		}
		n := fd.Name.Name
		if fd.Recv != nil && len(fd.Recv.List) == 1 {
			rt := fd.Recv.List[0].Type
			if st, ok := rt.(*ast.StarExpr); ok {
				rt = st.X
			}
			n = src(rt) + "." + n
		}
		if n == name {
			return fd
		}
	}
	return nil
}

func main() {
	repo := flag.String("repo", "/repo", "repository root")
	specPath := flag.String("spec", "", "spec json")
	outRoot := flag.String("outroot", ".", "directory the spec's out path is relative to")
	flag.Parse()
	b, err := os.ReadFile(*specPath)
	if err != nil {
		fail(err)
	}
	var spec Spec
	if err := json.Unmarshal(b, &spec); err != nil {
		fail(err)
	}
	files := map[string]*ast.File{}
	var out strings.Builder
	out.WriteString("-- GENERATED by /verif/translator from /repo's Go source on every run. Do not edit.\n")
	for _, i := range spec.Imports {
		out.WriteString("import " + i + "\n")
	}
	out.WriteString("namespace " + spec.Namespace + "\n")
	if len(spec.Open) > 0 {
		out.WriteString("open " + strings.Join(spec.Open, " ") + "\n")
	}
	for k := range spec.Items {
		it := &spec.Items[k]
		f := files[it.File]
		if f == nil {
			f, err = parser.ParseFile(fset, filepath.Join(*repo, it.File), nil, 0)
			if err != nil {
				fail(err)
			}
			files[it.File] = f
		}
		t := &tr{spec: &spec, it: it}
		var rhs, origin string
		switch it.Kind {
		case "mapkeys":
			var keys []string
			ast.Inspect(f, func(n ast.Node) bool {
				vs, ok := n.(*ast.ValueSpec)
				if !ok || len(vs.Names) != 1 || vs.Names[0].Name != it.Var || len(vs.Values) != 1 {
					return true
				}
				cl, ok := vs.Values[0].(*ast.CompositeLit)
				if !ok {
					return true
				}
				for _, el := range cl.Elts {
					kv := el.(*ast.KeyValueExpr)
					keys = append(keys, constString(f, kv.Key)+"→"+src(kv.Value))
				}
				return false
			})
			sort.Strings(keys)
			var qs []string
			for _, k := range keys {
				qs = append(qs, strconv.Quote(k))
			}
			rhs = "[" + strings.Join(qs, ", ") + "]"
			origin = "map literal " + it.Var
		case "const":
			rhs = strconv.Quote(constString(f, ast.NewIdent(it.Var)))
			origin = "constant " + it.Var
		default:
			fd := findFunc(f, it.Func)
			if fd == nil {
				fail(fmt.Errorf("%s: function %s not found", it.File, it.Func))
			}
			switch it.Kind {
			case "func":
				rhs, err = t.body(fd.Body.List)
				origin = "body of " + it.Func
			case "ifcond", "funclit", "forcond":
				n := 0
				var found ast.Node
				ast.Inspect(fd.Body, func(nd ast.Node) bool {
					if found != nil {
						return false
					}
					switch x := nd.(type) {
					case *ast.IfStmt:
						if it.Kind == "ifcond" {
							if n == it.Index {
								found = x
							}
							n++
						}
					case *ast.FuncLit:
						if it.Kind == "funclit" {
							if n == it.Index {
								found = x
							}
							n++
						}
					case *ast.ForStmt:
						if it.Kind == "forcond" {
							if n == it.Index {
								found = x
							}
							n++
						}
					}
					return true
				})
				if found == nil {
					fail(fmt.Errorf("%s: %s #%d not found in %s", it.File, it.Kind, it.Index, it.Func))
				}
				switch x := found.(type) {
				case *ast.IfStmt:
					rhs, err = t.expr(x.Cond)
					origin = fmt.Sprintf("condition of if #%d in %s: %s", it.Index, it.Func, src(x.Cond))
				case *ast.ForStmt:
					rhs, err = t.expr(x.Cond)
					origin = fmt.Sprintf("condition of for #%d in %s: %s", it.Index, it.Func, src(x.Cond))
				case *ast.FuncLit:
					rhs, err = t.body(x.Body.List)
					origin = fmt.Sprintf("function literal #%d in %s", it.Index, it.Func)
				}
			default:
				fail(fmt.Errorf("unknown kind %s", it.Kind))
			}
			if err != nil {
				fail(fmt.Errorf("%s %s: %v", it.File, it.Func, err))
			}
		}
		fmt.Fprintf(&out, "\n/-- %s (%s) -/\ndef %s %s : %s := %s\n", strings.ReplaceAll(origin, "-/", "- /"), it.File, it.Lean, it.Params, it.Ret, rhs)
		if it.Eq != "" {
			// `rfl` when the Go expression has the surface form the model records; otherwise the two are
			// proved extensionally equal (linear integer arithmetic + propositional structure), so a
			// semantically equivalent rewrite of the Go expression keeps the tie and any other breaks it.
			fmt.Fprintf(&out, "theorem %s_eq : @%s = @%s := by\n  first\n  | rfl\n  | (repeat (apply funext; intro)); simp only [%s, %s]; grind\n", it.Lean, it.Lean, it.Eq, it.Lean, it.Eq)
		}
	}
	out.WriteString("\nend " + spec.Namespace + "\n")
	dst := filepath.Join(*outRoot, spec.Out)
	os.MkdirAll(filepath.Dir(dst), 0o755)
	os.Remove(dst)
	if err := os.WriteFile(dst, []byte(out.String()), 0o644); err != nil {
		fail(err)
	}
}

// constString resolves an identifier naming a string constant declared in the same file (or a literal).
func constString(f *ast.File, e ast.Expr) string {
	if bl, ok := e.(*ast.BasicLit); ok {
		s, _ := strconv.Unquote(bl.Value)
		return s
	}
	id, ok := e.(*ast.Ident)
	if !ok {
		return src(e)
	}
	res := id.Name
	ast.Inspect(f, func(n ast.Node) bool {
		vs, ok := n.(*ast.ValueSpec)
		if !ok {
			return true
		}
		for i, nm := range vs.Names {
			if nm.Name == id.Name && i < len(vs.Values) {
				if bl, ok := vs.Values[i].(*ast.BasicLit); ok {
					if s, err := strconv.Unquote(bl.Value); err == nil {
						res = s
					} else {
						res = bl.Value
					}
				}
			}
		}
		return true
	})
	return res
}

func fail(err error) {
	fmt.Fprintln(os.Stderr, "veriftranslator:", err)
	os.Exit(1)
}
