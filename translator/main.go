// Command veriftranslator regenerates Lean definitions from projecteru2/core's Go source.
//
// It is deliberately tiny: it translates *expressions and predicate-shaped functions* (comparators,
// guards, eligibility tests, constant tables) picked out of the source by a spec file into surface Lean
// that mirrors the Go operators one-to-one, and emits for each a theorem `… = <hand-written model def>` proved by `rfl` or, failing that, by extensional equality (`funext; simp only; grind`).
// The model is hand-written; this regenerated file is re-checked by `lake build` on every run, so a change
// to any translated expression in /repo breaks a proof obligation (the `rfl`), which bin/check reports.
//
// usage: veriftranslator -repo /repo -spec spec.json   (writes the file named in the spec)
package main

import (
	"encoding/json"
	"flag"
	"fmt"
	"go/ast"
	"go/parser"
	"go/printer"
	"go/token"
	"os"
	"path/filepath"
	"sort"
	"strconv"
	"strings"
)

type Item struct {
	Kind   string            `json:"kind"`   // func | ifcond | funclit | mapkeys | const | forcond
	File   string            `json:"file"`   // path relative to repo
	Func   string            `json:"func"`   // enclosing function name ("Recv.Name" for methods)
	Index  int               `json:"index"`  // N-th if / func literal / for inside Func (source order)
	Var    string            `json:"var"`    // mapkeys/const: identifier
	Lean   string            `json:"lean"`   // name of the generated definition
	Params string            `json:"params"` // Lean binder list, e.g. "(a b : Info)"
	Ret    string            `json:"ret"`    // Lean result type
	Subst  map[string]string `json:"subst"`  // Go source text of a sub-expression -> Lean text
	Eq     string            `json:"eq"`     // hand-written model definition it must equal (by rfl)
}

type Spec struct {
	Out       string            `json:"out"`
	Namespace string            `json:"namespace"`
	Imports   []string          `json:"imports"`
	Open      []string          `json:"open"`
	Fields    map[string]string `json:"fields"` // Go field name -> Lean field name
	Calls     map[string]string `json:"calls"`  // Go callee text -> Lean function
	Items     []Item            `json:"items"`
}

var fset = token.NewFileSet()

func src(n ast.Node) string {
	var sb strings.Builder
	printer.Fprint(&sb, fset, n)
	return sb.String()
}

type tr struct {
	spec    *Spec
	it      *Item
	subst   map[string]string // Go source text -> Lean text (item's subst, or a helper's parameters while it is inlined)
	allowed map[string]bool   // identifiers that may appear free (the generated definition's binders)
	pkg     []*ast.File       // all files of the package, for inlining of pure helper functions
	depth   int
}

// binderNames extracts the names bound by a Lean binder list such as "(need total : Int) (info : Info)".
func binderNames(params string) map[string]bool {
	res := map[string]bool{}
	for _, grp := range strings.Split(params, "(") {
		grp = strings.TrimSpace(grp)
		if i := strings.Index(grp, ":"); i >= 0 {
			for _, n := range strings.Fields(grp[:i]) {
				res[n] = true
			}
		}
	}
	return res
}

// pureHelper finds a package-level function (no receiver, one result) of the package by name.
func (t *tr) pureHelper(name string) *ast.FuncDecl {
	for _, f := range t.pkg {
		for _, d := range f.Decls {
			if fd, ok := d.(*ast.FuncDecl); ok && fd.Recv == nil && fd.Name.Name == name && fd.Body != nil &&
				fd.Type.Results != nil && len(fd.Type.Results.List) == 1 && len(fd.Type.Results.List[0].Names) == 0 {
				return fd
			}
		}
	}
	return nil
}

func (t *tr) expr(e ast.Expr) (string, error) {
	if s, ok := t.subst[src(e)]; ok {
		return s, nil
	}
	switch x := e.(type) {
	case *ast.IndexExpr:
		// "*[i]" in the subst table: any slice indexed by i (the slice may have been renamed)
		if s, ok := t.subst["*["+src(x.Index)+"]"]; ok {
			return s, nil
		}
		return "", fmt.Errorf("unsupported index expression %s", src(e))
	case *ast.ParenExpr:
		s, err := t.expr(x.X)
		return "(" + s + ")", err
	case *ast.BinaryExpr:
		l, err := t.expr(x.X)
		if err != nil {
			return "", err
		}
		r, err := t.expr(x.Y)
		if err != nil {
			return "", err
		}
		op := map[token.Token]string{token.LOR: "||", token.LAND: "&&", token.LSS: "<", token.GTR: ">", token.LEQ: "≤",
			token.GEQ: "≥", token.EQL: "==", token.NEQ: "!=", token.ADD: "+", token.SUB: "-", token.MUL: "*"}[x.Op]
		if op == "" {
			return "", fmt.Errorf("unsupported operator %s in %s", x.Op, src(e))
		}
		// parenthesise operands that are themselves binary, to keep Go's grouping explicit
		if _, ok := x.X.(*ast.BinaryExpr); ok {
			l = "(" + l + ")"
		}
		if _, ok := x.Y.(*ast.BinaryExpr); ok {
			r = "(" + r + ")"
		}
		return l + " " + op + " " + r, nil
	case *ast.UnaryExpr:
		s, err := t.expr(x.X)
		if err != nil {
			return "", err
		}
		switch x.Op {
		case token.AND: // &x read through the pointer only: the value itself
			return s, nil
		case token.NOT:
			return "!(" + s + ")", nil
		case token.SUB:
			return "-(" + s + ")", nil
		}
		return "", fmt.Errorf("unsupported unary %s", x.Op)
	case *ast.SelectorExpr:
		base, err := t.expr(x.X)
		if err != nil {
			return "", err
		}
		f, ok := t.spec.Fields[x.Sel.Name]
		if !ok {
			return "", fmt.Errorf("unknown field %s in %s", x.Sel.Name, src(e))
		}
		return base + "." + f, nil
	case *ast.StarExpr:
		return t.expr(x.X)
	case *ast.Ident:
		if x.Name == "true" || x.Name == "false" {
			return x.Name, nil
		}
		if t.allowed != nil && !t.allowed[x.Name] {
			return "", fmt.Errorf("free identifier %s", x.Name)
		}
		return x.Name, nil
	case *ast.BasicLit:
		if x.Kind == token.INT {
			return x.Value, nil
		}
		if x.Kind == token.STRING {
			return x.Value, nil
		}
		return "", fmt.Errorf("unsupported literal %s", x.Value)
	case *ast.CallExpr:
		fn, ok := t.spec.Calls[src(x.Fun)]
		if !ok {
			// a pure helper of the same package (single result, if/return chain) is inlined
			if id, isID := x.Fun.(*ast.Ident); isID && t.depth < 4 {
				if fd := t.pureHelper(id.Name); fd != nil {
					sub := &tr{spec: t.spec, it: t.it, subst: map[string]string{}, allowed: map[string]bool{}, pkg: t.pkg, depth: t.depth + 1}
					var names []string
					for _, fl := range fd.Type.Params.List {
						for _, n := range fl.Names {
							names = append(names, n.Name)
						}
					}
					if len(names) == len(x.Args) {
						bad := false
						for i, a := range x.Args {
							as, err := t.expr(a)
							if err != nil {
								bad = true
								break
							}
							sub.subst[names[i]] = "(" + as + ")"
						}
						if !bad {
							if s, err := sub.body(fd.Body.List); err == nil {
								return "(" + s + ")", nil
							}
						}
					}
				}
			}
			return "", fmt.Errorf("unsupported call %s", src(x.Fun))
		}
		parts := []string{fn}
		for _, a := range x.Args {
			s, err := t.expr(a)
			if err != nil {
				return "", err
			}
			parts = append(parts, "("+s+")")
		}
		return strings.Join(parts, " "), nil
	}
	return "", fmt.Errorf("unsupported expression %T: %s", e, src(e))
}

// body translates `if c { return a }; …; return b` chains (and a bare `return e`).
func (t *tr) body(stmts []ast.Stmt) (string, error) {
	if len(stmts) == 0 {
		return "", fmt.Errorf("empty body")
	}
	switch s := stmts[0].(type) {
	case *ast.AssignStmt:
		// `a, b := &xs[i], &xs[j]` / `d := need - info.Count`: a local alias of a translatable expression
		if s.Tok != token.DEFINE || len(s.Lhs) != len(s.Rhs) {
			return "", fmt.Errorf("unsupported statement %T: %s", stmts[0], src(stmts[0]))
		}
		saved := map[string]string{}
		for k, v := range t.subst {
			saved[k] = v
		}
		defer func() { t.subst = saved }()
		ns := map[string]string{}
		for k, v := range t.subst {
			ns[k] = v
		}
		for i, l := range s.Lhs {
			id, ok := l.(*ast.Ident)
			if !ok {
				return "", fmt.Errorf("unsupported assignment %s", src(s))
			}
			r, err := t.expr(s.Rhs[i])
			if err != nil {
				return "", err
			}
			ns[id.Name] = "(" + r + ")"
		}
		t.subst = ns
		return t.body(stmts[1:])
	case *ast.ReturnStmt:
		if len(s.Results) != 1 {
			return "", fmt.Errorf("return with %d results", len(s.Results))
		}
		return t.expr(s.Results[0])
	case *ast.IfStmt:
		if s.Init != nil {
			return "", fmt.Errorf("if with init")
		}
		c, err := t.expr(s.Cond)
		if err != nil {
			return "", err
		}
		th, err := t.body(s.Body.List)
		if err != nil {
			return "", err
		}
		var el string
		if s.Else != nil {
			blk, ok := s.Else.(*ast.BlockStmt)
			if !ok {
				return "", fmt.Errorf("else-if not supported")
			}
			el, err = t.body(blk.List)
		} else {
			el, err = t.body(stmts[1:])
		}
		if err != nil {
			return "", err
		}
		return "if " + c + " then " + th + " else " + el, nil
	}
	return "", fmt.Errorf("unsupported statement %T: %s", stmts[0], src(stmts[0]))
}

var pkgCache = map[string][]*ast.File{}

// pkgFiles parses every non-test file of the directory of file (cached).
func pkgFiles(repo, file string) []*ast.File {
	dir := filepath.Dir(filepath.Join(repo, file))
	if fs, ok := pkgCache[dir]; ok {
		return fs
	}
	var res []*ast.File
	ents, _ := os.ReadDir(dir)
	for _, e := range ents {
		n := e.Name()
		if e.IsDir() || !strings.HasSuffix(n, ".go") || strings.HasSuffix(n, "_test.go") {
			continue
		}
		if f, err := parser.ParseFile(fset, filepath.Join(dir, n), nil, 0); err == nil {
			res = append(res, f)
		}
	}
	pkgCache[dir] = res
	return res
}

func findFunc(f *ast.File, name string) *ast.FuncDecl {
	for _, d := range f.Decls {
		fd, ok := d.(*ast.FuncDecl)
		if !ok {
			continue
		}
		n := fd.Name.Name
		if fd.Recv != nil && len(fd.Recv.List) == 1 {
			rt := fd.Recv.List[0].Type
			if st, ok := rt.(*ast.StarExpr); ok {
				rt = st.X
			}
			n = src(rt) + "." + n
		}
		if n == name {
			return fd
		}
	}
	return nil
}

func main() {
	repo := flag.String("repo", "/repo", "repository root")
	specPath := flag.String("spec", "", "spec json")
	outRoot := flag.String("outroot", ".", "directory the spec's out path is relative to")
	flag.Parse()
	b, err := os.ReadFile(*specPath)
	if err != nil {
		fail(err)
	}
	var spec Spec
	if err := json.Unmarshal(b, &spec); err != nil {
		fail(err)
	}
	files := map[string]*ast.File{}
	var out strings.Builder
	out.WriteString("-- GENERATED by /verif/translator from /repo's Go source on every run. Do not edit.\n")
	for _, i := range spec.Imports {
		out.WriteString("import " + i + "\n")
	}
	out.WriteString("namespace " + spec.Namespace + "\n")
	if len(spec.Open) > 0 {
		out.WriteString("open " + strings.Join(spec.Open, " ") + "\n")
	}
	for k := range spec.Items {
		it := &spec.Items[k]
		f := files[it.File]
		if f == nil {
			f, err = parser.ParseFile(fset, filepath.Join(*repo, it.File), nil, 0)
			if err != nil {
				structural(err)
			}
			files[it.File] = f
		}
		t := &tr{spec: &spec, it: it, subst: it.Subst, allowed: binderNames(it.Params), pkg: pkgFiles(*repo, it.File)}
		if t.subst == nil {
			t.subst = map[string]string{}
		}
		var rhs, origin string
		switch it.Kind {
		case "mapkeys":
			var keys []string
			ast.Inspect(f, func(n ast.Node) bool {
				vs, ok := n.(*ast.ValueSpec)
				if !ok || len(vs.Names) != 1 || vs.Names[0].Name != it.Var || len(vs.Values) != 1 {
					return true
				}
				cl, ok := vs.Values[0].(*ast.CompositeLit)
				if !ok {
					return true
				}
				for _, el := range cl.Elts {
					kv := el.(*ast.KeyValueExpr)
					keys = append(keys, constString(f, kv.Key)+"→"+src(kv.Value))
				}
				return false
			})
			if len(keys) == 0 {
				structural(fmt.Errorf("%s: map literal %s not found", it.File, it.Var))
			}
			sort.Strings(keys)
			var qs []string
			for _, k := range keys {
				qs = append(qs, strconv.Quote(k))
			}
			rhs = "[" + strings.Join(qs, ", ") + "]"
			origin = "map literal " + it.Var
		case "const":
			cv := constString(f, ast.NewIdent(it.Var))
			if cv == it.Var {
				structural(fmt.Errorf("%s: constant %s with a literal value not found", it.File, it.Var))
			}
			rhs = strconv.Quote(cv)
			origin = "constant " + it.Var
		default:
			cands, err := t.candidates(f)
			if err != nil {
				structural(fmt.Errorf("%s %s: %v", it.File, it.Func, err))
			}
			emitCandidates(&out, it, cands)
			continue
		}
		fmt.Fprintf(&out, "\n/-- %s (%s) -/\ndef %s %s : %s := %s\n", strings.ReplaceAll(origin, "-/", "- /"), it.File, it.Lean, it.Params, it.Ret, rhs)
		if it.Eq != "" {
			fmt.Fprintf(&out, "theorem %s_eq : @%s = @%s := by\n  %s\n", it.Lean, it.Lean, it.Eq, tieTactic(it.Lean, it.Eq))
		}
	}
	out.WriteString("\nend " + spec.Namespace + "\n")
	dst := filepath.Join(*outRoot, spec.Out)
	os.MkdirAll(filepath.Dir(dst), 0o755)
	if old, err := os.ReadFile(dst); err == nil && string(old) == out.String() {
		return // unchanged: leave the file (and its build products) alone
	}
	tmp := dst + fmt.Sprintf(".tmp%d", os.Getpid())
	if err := os.WriteFile(tmp, []byte(out.String()), 0o644); err != nil {
		fail(err)
	}
	if err := os.Rename(tmp, dst); err != nil {
		fail(err)
	}
}

type cand struct{ rhs, origin string }

// extraKinds lets a group add item kinds in its own file of this package (translator/ext_<group>.go, registering in
// an init function) without touching this file. A handler returns the candidate translations of the item (the first
// is the preferred one) or an error, which is reported as structural.
var extraKinds = map[string]func(t *tr, f *ast.File) ([]cand, error){}

// tieTactic closes `@gen = @model`: `rfl` when the Go expression has the surface form the model records; otherwise the
// two are proved extensionally equal (linear integer arithmetic + propositional structure), so a semantically
// equivalent rewrite of the Go expression keeps the tie and any other breaks it.
func tieTactic(gen, model string) string {
	return fmt.Sprintf("first | rfl | ((repeat (apply funext; intro)); simp only [%s, %s]; grind)", gen, model)
}

// candidates returns the translations the item may refer to. For `func` it is the body of the named function. For
// `ifcond` / `forcond` / `funclit` it is the indexed occurrence inside the named function first, followed by every
// other occurrence in that function and then in the rest of the file that translates with the item's binders only
// (so that moving a condition into an extracted helper, or inserting another `if` before it, does not lose the tie).
func (t *tr) candidates(f *ast.File) ([]cand, error) {
	it := t.it
	fd := findFunc(f, it.Func)
	if it.Kind == "func" {
		if fd == nil {
			return nil, fmt.Errorf("function %s not found", it.Func)
		}
		rhs, err := t.body(fd.Body.List)
		if err != nil {
			return nil, err
		}
		return []cand{{rhs, "body of " + it.Func}}, nil
	}
	if h, ok := extraKinds[it.Kind]; ok {
		return h(t, f)
	}
	if it.Kind != "ifcond" && it.Kind != "funclit" && it.Kind != "forcond" {
		return nil, fmt.Errorf("unknown kind %s", it.Kind)
	}
	type occ struct {
		c     cand
		index bool
	}
	var occs []occ
	scan := func(d *ast.FuncDecl, named bool) {
		if d.Body == nil {
			return
		}
		n := 0
		name := d.Name.Name
		if named {
			name = it.Func
		}
		ast.Inspect(d.Body, func(nd ast.Node) bool {
			var rhs, origin string
			var err error
			hit := false
			switch x := nd.(type) {
			case *ast.IfStmt:
				if it.Kind == "ifcond" {
					hit = true
					rhs, err = t.expr(x.Cond)
					origin = fmt.Sprintf("condition of if #%d in %s: %s", n, name, src(x.Cond))
				}
			case *ast.ForStmt:
				if it.Kind == "forcond" {
					hit = true
					if x.Cond == nil {
						err = fmt.Errorf("no condition")
					} else {
						rhs, err = t.expr(x.Cond)
						origin = fmt.Sprintf("condition of for #%d in %s: %s", n, name, src(x.Cond))
					}
				}
			case *ast.FuncLit:
				if it.Kind == "funclit" {
					hit = true
					rhs, err = t.body(x.Body.List)
					origin = fmt.Sprintf("function literal #%d in %s", n, name)
				}
			}
			if hit {
				if err == nil {
					occs = append(occs, occ{cand{rhs, origin}, named && n == it.Index})
				}
				n++
			}
			return true
		})
	}
	if fd != nil {
		scan(fd, true)
	}
	for _, d := range f.Decls {
		if od, ok := d.(*ast.FuncDecl); ok && od != fd {
			scan(od, false)
		}
	}
	var first, rest []cand
	seen := map[string]bool{}
	for _, o := range occs {
		if o.index {
			first = append(first, o.c)
			seen[o.c.rhs] = true
		}
	}
	for _, o := range occs {
		if !o.index && !seen[o.c.rhs] {
			seen[o.c.rhs] = true
			rest = append(rest, o.c)
		}
	}
	all := append(first, rest...)
	if len(all) == 0 {
		return nil, fmt.Errorf("no %s in %s translates with binders %s", it.Kind, it.File, it.Params)
	}
	if len(all) > 8 {
		all = all[:8]
	}
	return all, nil
}

// binderList returns the bound names of a Lean binder list in order.
func binderList(params string) []string {
	var res []string
	for _, grp := range strings.Split(params, "(") {
		grp = strings.TrimSpace(grp)
		if i := strings.Index(grp, ":"); i >= 0 {
			res = append(res, strings.Fields(grp[:i])...)
		}
	}
	return res
}

// emitCandidates writes one definition per candidate and the tie `some candidate is the model's named piece`. For a
// condition (ifcond / forcond) "is" admits the negated form as well: `if skip(x) { continue }; use(x)` and
// `if keep(x) { use(x) }` with keep = !skip are the same code, and the translator reads conditions, not branches.
func emitCandidates(out *strings.Builder, it *Item, cs []cand) {
	polar := it.Kind == "ifcond" || it.Kind == "forcond"
	if len(cs) == 1 && !polar {
		fmt.Fprintf(out, "\n/-- %s (%s) -/\ndef %s %s : %s := %s\n", strings.ReplaceAll(cs[0].origin, "-/", "- /"), it.File, it.Lean, it.Params, it.Ret, cs[0].rhs)
		if it.Eq != "" {
			fmt.Fprintf(out, "theorem %s_eq : @%s = @%s := by\n  %s\n", it.Lean, it.Lean, it.Eq, tieTactic(it.Lean, it.Eq))
		}
		return
	}
	var names []string
	for i, c := range cs {
		n := it.Lean
		if i > 0 {
			n = fmt.Sprintf("%s_alt%d", it.Lean, i)
		}
		names = append(names, n)
		fmt.Fprintf(out, "\n/-- %s (%s) -/\ndef %s %s : %s := %s\n", strings.ReplaceAll(c.origin, "-/", "- /"), it.File, n, it.Params, it.Ret, c.rhs)
	}
	if it.Eq == "" {
		return
	}
	type alt struct{ stmt, tac string }
	var as []alt
	neg := fmt.Sprintf("(fun %s => !(%s %s))", it.Params, it.Eq, strings.Join(binderList(it.Params), " "))
	for _, n := range names {
		as = append(as, alt{fmt.Sprintf("(@%s = @%s)", n, it.Eq), tieTactic(n, it.Eq)})
	}
	if polar {
		for _, n := range names {
			as = append(as, alt{fmt.Sprintf("(@%s = %s)", n, neg), tieTactic(n, it.Eq)})
		}
	}
	var disj, tacs []string
	for i, a := range as {
		disj = append(disj, a.stmt)
		path := strings.Repeat("apply Or.inr; ", i)
		if i < len(as)-1 {
			path += "apply Or.inl; "
		}
		tacs = append(tacs, "("+path+a.tac+")")
	}
	fmt.Fprintf(out, "/-- one of the occurrences found in the source is the model's named piece (or, for a condition, its negation) -/\ntheorem %s_eq : %s := by\n  first\n  | %s\n", it.Lean, strings.Join(disj, " ∨ "), strings.Join(tacs, "\n  | "))
}

// structural reports that the source no longer has the shape the spec addresses (exit code 3): the regenerated tie
// cannot be re-established for this run; bin/check then decides by the correspondence tie with the intensified search.
func structural(err error) {
	fmt.Fprintln(os.Stderr, "veriftranslator: structural:", err)
	os.Exit(3)
}

// constString resolves an identifier naming a string constant declared in the same file (or a literal).
func constString(f *ast.File, e ast.Expr) string {
	if bl, ok := e.(*ast.BasicLit); ok {
		s, _ := strconv.Unquote(bl.Value)
		return s
	}
	id, ok := e.(*ast.Ident)
	if !ok {
		return src(e)
	}
	res := id.Name
	ast.Inspect(f, func(n ast.Node) bool {
		vs, ok := n.(*ast.ValueSpec)
		if !ok {
			return true
		}
		for i, nm := range vs.Names {
			if nm.Name == id.Name && i < len(vs.Values) {
				if bl, ok := vs.Values[i].(*ast.BasicLit); ok {
					if s, err := strconv.Unquote(bl.Value); err == nil {
						res = s
					} else {
						res = bl.Value
					}
				}
			}
		}
		return true
	})
	return res
}

func fail(err error) {
	fmt.Fprintln(os.Stderr, "veriftranslator:", err)
	os.Exit(1)
}
