package main

// Item kinds of group txw (C16/C17/C35/C36).  The Item struct is shared, so `var` carries the address:
//
//	callarg   var = "<callee>#<n>"      the n-th argument of the first call to <callee> inside `func` (or, if the
//	                                    function does not contain it, anywhere in the file) must be a basic literal;
//	                                    emitted as a Lean String (its value for string literals, its text otherwise)
//	litfield  var = "<callee>#<Field>"  the first argument of the call to <callee> is a composite literal with a
//	                                    `Field: <int literal>` element; emitted as a Lean Int
//	lowerkey  var = "<map ident>"       some index expression `<map ident>[e]` in the file has e = strings.ToLower(x.username);
//	                                    emitted as "lower".  Any other shape (e.g. the key pre-computed in the
//	                                    constructor) is structural: the tie cannot say anything about it.

import (
	"fmt"
	"go/ast"
	"go/token"
	"strconv"
	"strings"
)

func txwCalls(root ast.Node, callee string) []*ast.CallExpr {
	var res []*ast.CallExpr
	ast.Inspect(root, func(n ast.Node) bool {
		if c, ok := n.(*ast.CallExpr); ok && src(c.Fun) == callee {
			res = append(res, c)
		}
		return true
	})
	return res
}

func txwScope(t *tr, f *ast.File) []ast.Node {
	var scopes []ast.Node
	if fd := findFunc(f, t.it.Func); fd != nil && fd.Body != nil {
		scopes = append(scopes, fd.Body)
	}
	return append(scopes, f)
}

func init() {
	extraKinds["callarg"] = func(t *tr, f *ast.File) ([]cand, error) {
		parts := strings.SplitN(t.it.Var, "#", 2)
		if len(parts) != 2 {
			return nil, fmt.Errorf("callarg: var must be callee#index")
		}
		idx, err := strconv.Atoi(parts[1])
		if err != nil {
			return nil, err
		}
		for _, sc := range txwScope(t, f) {
			for _, c := range txwCalls(sc, parts[0]) {
				if idx >= len(c.Args) {
					continue
				}
				bl, ok := c.Args[idx].(*ast.BasicLit)
				if !ok {
					return nil, fmt.Errorf("argument %d of %s is not a literal: %s", idx, parts[0], src(c.Args[idx]))
				}
				val := bl.Value
				if bl.Kind == token.STRING {
					if s, err := strconv.Unquote(bl.Value); err == nil {
						val = s
					}
				}
				return []cand{{strconv.Quote(val), fmt.Sprintf("argument %d of %s", idx, src(c))}}, nil
			}
		}
		return nil, fmt.Errorf("no call to %s with %d arguments", parts[0], idx+1)
	}
	extraKinds["litfield"] = func(t *tr, f *ast.File) ([]cand, error) {
		parts := strings.SplitN(t.it.Var, "#", 2)
		if len(parts) != 2 {
			return nil, fmt.Errorf("litfield: var must be callee#Field")
		}
		for _, sc := range txwScope(t, f) {
			for _, c := range txwCalls(sc, parts[0]) {
				if len(c.Args) < 1 {
					continue
				}
				cl, ok := c.Args[0].(*ast.CompositeLit)
				if !ok {
					return nil, fmt.Errorf("argument of %s is not a composite literal: %s", parts[0], src(c.Args[0]))
				}
				for _, el := range cl.Elts {
					kv, ok := el.(*ast.KeyValueExpr)
					if !ok || src(kv.Key) != parts[1] {
						continue
					}
					bl, ok := kv.Value.(*ast.BasicLit)
					if !ok || bl.Kind != token.INT {
						return nil, fmt.Errorf("%s of %s is not an integer literal: %s", parts[1], parts[0], src(kv.Value))
					}
					return []cand{{"(" + bl.Value + " : Int)", fmt.Sprintf("field %s of %s", parts[1], src(c))}}, nil
				}
				return nil, fmt.Errorf("%s has no field %s", src(cl), parts[1])
			}
		}
		return nil, fmt.Errorf("no call to %s", parts[0])
	}
	extraKinds["lowerkey"] = func(t *tr, f *ast.File) ([]cand, error) {
		var found ast.Expr
		ast.Inspect(f, func(n ast.Node) bool {
			ix, ok := n.(*ast.IndexExpr)
			if ok && found == nil && src(ix.X) == t.it.Var {
				found = ix.Index
			}
			return true
		})
		if found == nil {
			return nil, fmt.Errorf("no index expression on %s", t.it.Var)
		}
		c, ok := found.(*ast.CallExpr)
		if !ok || src(c.Fun) != "strings.ToLower" || len(c.Args) != 1 || !strings.HasSuffix(src(c.Args[0]), ".username") {
			return nil, fmt.Errorf("lookup key of %s is %s, not strings.ToLower(<x>.username)", t.it.Var, src(found))
		}
		return []cand{{strconv.Quote("lower"), "lookup key " + src(found)}}, nil
	}
}
