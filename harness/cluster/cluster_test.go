//go:build verif

// Correspondence harness for C10–C12: random histories of cluster operations on a REAL
// Calcium (ckit), every operation run fault-free and then — from the same restored
// pre-state — once per sampled / enumerated single-fault address. One JSON case per run:
// pre/post snapshot, the resource layer's answers, the (model-level) fault address, the
// result messages and the trace.
package cluster

import (
	"bufio"
	"context"
	"encoding/json"
	"fmt"
	"os"
	"sort"
	"strings"
	"testing"
	"time"

	"verifharness/ckit"
	"verifharness/hx"

	resourcetypes "github.com/projecteru2/core/resource/types"
	"github.com/projecteru2/core/types"
)

type nodeJ struct {
	Name  string   `json:"name"`
	Cap   ckit.Res `json:"cap"`
	Usage ckit.Res `json:"usage"`
	// complete capacity record of the plugin (cpu map, cpu→NUMA map, NUMA memory incl. zero entries, memory)
	CapSig string `json:"capsig"`
}
type wlJ struct {
	ID   int      `json:"id"`
	Node string   `json:"node"`
	Res  ckit.Res `json:"res"`
}
type ctJ struct {
	ID      int    `json:"id"`
	Node    string `json:"node"`
	Running bool   `json:"running"`
}
type markerJ struct {
	Node  string `json:"node"`
	Count int    `json:"count"`
}
type walJ struct {
	Event string `json:"event"`
	Node  string `json:"node"`
}
type snapJ struct {
	Nodes   []nodeJ   `json:"nodes"`
	Wls     []wlJ     `json:"wls"`
	Cts     []ctJ     `json:"cts"`
	Markers []markerJ `json:"markers"`
	Wal     []walJ    `json:"wal"`
	Next    int       `json:"next"`
	Pnodes  []string  `json:"pnodes"`          // nodes the resource plugin has a record of
	Pcap    []nodeJ   `json:"pcap"`            // plugin records of nodes the store does not know
	Diffs   []string  `json:"diffs,omitempty"` // the code's own node resource check (informational)
}
type msgJ struct {
	Node string    `json:"node"`
	ID   int       `json:"id"`
	OK   bool      `json:"ok"`
	Res  *ckit.Res `json:"res"` // the resources a create success reports
}
type trJ struct {
	Kind     string `json:"kind"`
	Node     string `json:"node"`
	Injected bool   `json:"injected"`
}
type kase struct {
	ID    string         `json:"id"`
	Op    string         `json:"op"`
	Args  map[string]any `json:"args"`
	Req   map[string]any `json:"req"` // API-level request (for replay)
	Fault *ckit.Addr     `json:"fault"`
	IFlt  *ckit.Addr     `json:"impl_fault,omitempty"` // address used on the implementation
	Fired bool           `json:"fired"`
	Pre   snapJ          `json:"pre"`
	Post  snapJ          `json:"post"`
	Msgs  []msgJ         `json:"msgs"`
	Ret   string         `json:"ret"`
	Trace []trJ          `json:"trace"`
	Impl  map[string]any `json:"impl"`
	// usage-changing plugin calls made while the pod lock of the node\'s pod was not held
	LockViol []string `json:"lock_viol,omitempty"`
	// the caller\'s context was cancelled (or its deadline expired) exactly before / after this call
	Cancel map[string]any   `json:"cancel,omitempty"`
	Setup  []map[string]any `json:"setup,omitempty"` // how to rebuild the pre-state (replay)
}

// world = one cluster + id canonicalisation
type world struct {
	t    *testing.T
	cl   *ckit.Cluster
	ids  map[string]int
	next int
	// in-progress markers that existed before the operation under test (left behind by an earlier
	// faulty operation — C13/C14's business): reported only if they change
	oldMarkers map[string]int
	callCtx    context.Context // context of the API calls (default: the cluster's)
	hung       bool            // an operation did not return: the run is abandoned
}

func (w *world) ctx() context.Context {
	if w.callCtx != nil {
		return w.callCtx
	}
	return w.cl.Ctx()
}

// trigCtx is the caller's context of a cancellation run: a standard cancellable context (so that the
// end propagates SYNCHRONOUSLY to the contexts utils.Txn derives from it) that ends when fire is called.
// A deadline that expires is the same event for the code under test (Done closed, Err non-nil); an exact
// step-synchronised expiry cannot be produced with a timer, so both variants use cancellation and differ
// only in whether the context carries a (far) deadline.
type trigCtx struct {
	context.Context
	cancel context.CancelFunc
}

func newTrigCtx(parent context.Context, deadline bool) *trigCtx {
	if deadline {
		var c1 context.CancelFunc
		parent, c1 = context.WithDeadline(parent, time.Now().Add(time.Hour))
		_ = c1
	}
	ctx, cancel := context.WithCancel(parent)
	return &trigCtx{Context: ctx, cancel: cancel}
}

func (c *trigCtx) fire() { c.cancel() }

func (w *world) idOf(real string) int {
	if v, ok := w.ids[real]; ok {
		return v
	}
	w.ids[real] = w.next
	w.next++
	return w.ids[real]
}

// preSnap snapshots the state before an operation and remembers its markers as "old"
func (w *world) preSnap() snapJ {
	w.cl.Quiesce()
	w.oldMarkers = map[string]int{}
	for _, m := range w.cl.Snapshot().Markers {
		w.oldMarkers[m.App+"/"+m.Entry+"/"+m.Node+"/"+m.Ident] = m.Count
	}
	return w.snap()
}

func (w *world) snap() snapJ {
	w.cl.Quiesce()
	s := w.cl.Snapshot()
	out := snapJ{Nodes: []nodeJ{}, Wls: []wlJ{}, Cts: []ctJ{}, Markers: []markerJ{}, Wal: []walJ{}}
	for _, n := range s.Nodes {
		out.Nodes = append(out.Nodes, nodeJ{Name: n.Name, Cap: n.Cap, Usage: n.Usage, CapSig: n.CapSig})
		out.Diffs = append(out.Diffs, n.Diffs...)
	}
	// unseen ids get numbers in a deterministic order (sorted real id) unless the caller numbered them before
	for _, x := range s.Workloads {
		out.Wls = append(out.Wls, wlJ{ID: w.idOf(x.ID), Node: x.Node, Res: x.Res})
	}
	for _, c := range s.Containers {
		out.Cts = append(out.Cts, ctJ{ID: w.idOf(c.ID), Node: c.Node, Running: c.Running})
	}
	seen := map[string]bool{}
	for _, m := range s.Markers {
		key := m.App + "/" + m.Entry + "/" + m.Node + "/" + m.Ident
		seen[key] = true
		if c, old := w.oldMarkers[key]; old {
			if c != m.Count {
				out.Markers = append(out.Markers, markerJ{Node: m.Node, Count: -1})
			}
			continue
		}
		out.Markers = append(out.Markers, markerJ{Node: m.Node, Count: m.Count})
	}
	for key := range w.oldMarkers {
		if !seen[key] {
			out.Markers = append(out.Markers, markerJ{Node: key, Count: -2})
		}
	}
	for _, e := range s.WAL {
		out.Wal = append(out.Wal, walJ{Event: e.Event, Node: e.Node})
	}
	out.Pnodes = append([]string{}, s.PluginNodes...)
	sort.Strings(out.Pnodes)
	out.Pcap = []nodeJ{}
	for _, pn := range out.Pnodes {
		known := false
		for _, n := range s.Nodes {
			known = known || n.Name == pn
		}
		if !known {
			if c, u, _, err := w.cl.Rmgr.Manager.GetNodeResourceInfo(w.cl.Ctx(), pn, nil, false); err == nil {
				out.Pcap = append(out.Pcap, nodeJ{Name: pn, Cap: ckit.NodeRes(c), Usage: ckit.NodeRes(u)})
			}
		}
	}
	sort.Slice(out.Wls, func(i, j int) bool { return out.Wls[i].ID < out.Wls[j].ID })
	sort.Slice(out.Cts, func(i, j int) bool { return out.Cts[i].ID < out.Cts[j].ID })
	out.Next = w.next
	return out
}

// realID resolves a canonical id among the workloads that exist NOW (discarded branches of the
// history may have given the same number to other real ids).
func (w *world) realID(id int) string {
	for _, x := range w.cl.Snapshot().Workloads {
		if v, ok := w.ids[x.ID]; ok && v == id {
			return x.ID
		}
	}
	for k, v := range w.ids {
		if v == id {
			return k
		}
	}
	return ""
}

// ---------------------------------------------------------------- operations

// op is an API-level request, serialisable for replay
type op map[string]any

func (o op) s(k string) string { v, _ := o[k].(string); return v }
func (o op) i(k string) int {
	switch v := o[k].(type) {
	case int:
		return v
	case float64:
		return int(v)
	case int64:
		return int(v)
	}
	return 0
}
func (o op) b(k string) bool { v, _ := o[k].(bool); return v }
func (o op) ints(k string) []int {
	out := []int{}
	switch v := o[k].(type) {
	case []int:
		return v
	case []any:
		for _, x := range v {
			if f, ok := x.(float64); ok {
				out = append(out, int(f))
			}
		}
	}
	return out
}
func (o op) strs(k string) []string {
	out := []string{}
	switch v := o[k].(type) {
	case []string:
		return v
	case []any:
		for _, x := range v {
			if s, ok := x.(string); ok {
				out = append(out, s)
			}
		}
	}
	return out
}

func wlRequest(o op) resourcetypes.Resources {
	raw := resourcetypes.RawParams{}
	if m := o.i("mem"); m != 0 {
		raw["memory-request"] = int64(m)
	}
	if l := o.i("mem_limit"); l != 0 {
		raw["memory-limit"] = int64(l)
	}
	if c := o.i("cpu_milli"); c != 0 {
		raw["cpu-request"] = float64(c) / 1000
	}
	if o.b("bind") {
		raw["cpu-bind"] = true
	}
	if o.b("keep_bind") {
		raw["keep-cpu-bind"] = true
	}
	return resourcetypes.Resources{"cpumem": raw}
}

// outcome of running one op on the implementation
type outcome struct {
	msgs  []msgJ
	ret   string
	trace []ckit.Event
	// raw create / replace messages for id numbering
	createMsgs []*types.CreateWorkloadMessage
	slow       bool // finished only after the soft deadline
}

func (w *world) exec(o op, plan ckit.Plan) outcome {
	cl, ctx := w.cl, w.ctx()
	var out outcome
	out.ret = "ok"
	nodeOf := map[string]string{} // real id -> node before the op
	for _, x := range cl.Snapshot().Workloads {
		nodeOf[x.ID] = x.Node
	}
	kind, msg := guard2(25*time.Second, 150*time.Second, func() {
		out.trace = cl.Traced(plan, func() {
			switch o.s("op") {
			case "create":
				nf := &types.NodeFilter{Podname: o.s("pod"), Includes: o.strs("includes")}
				ch, err := cl.C.CreateWorkload(ctx, &types.DeployOptions{
					Name: o.s("app"), Entrypoint: &types.Entrypoint{Name: "web"}, Podname: o.s("pod"), Image: "img",
					Count: o.i("count"), DeployStrategy: o.s("strategy"), NodesLimit: o.i("limit"), IgnorePull: true,
					NodeFilter: nf, Resources: wlRequest(o),
				})
				if err != nil {
					out.ret = "fail"
					return
				}
				out.ret = "ok"
				for m := range ch {
					out.createMsgs = append(out.createMsgs, m)
				}
			case "remove":
				ids := []string{}
				for _, i := range o.ints("ids") {
					ids = append(ids, w.realID(i))
				}
				ch, err := cl.C.RemoveWorkload(ctx, ids, true)
				if err != nil {
					out.ret = "fail"
					return
				}
				for m := range ch {
					if m.WorkloadID == "" {
						out.msgs = append(out.msgs, msgJ{Node: "", ID: 0, OK: m.Success})
					} else {
						out.msgs = append(out.msgs, msgJ{Node: nodeOf[m.WorkloadID], ID: w.idOf(m.WorkloadID), OK: m.Success})
					}
				}
			case "dissociate":
				ids := []string{}
				for _, i := range o.ints("ids") {
					ids = append(ids, w.realID(i))
				}
				ch, err := cl.C.DissociateWorkload(ctx, ids)
				if err != nil {
					out.ret = "fail"
					return
				}
				for m := range ch {
					out.msgs = append(out.msgs, msgJ{Node: nodeOf[m.WorkloadID], ID: w.idOf(m.WorkloadID), OK: m.Error == nil})
				}
			case "realloc":
				if err := cl.C.ReallocResource(ctx, &types.ReallocOptions{ID: w.realID(o.i("id")), Resources: wlRequest(o)}); err != nil {
					out.ret = "fail"
				}
			case "replace":
				id := w.realID(o.i("id"))
				ch, err := cl.C.ReplaceWorkload(ctx, &types.ReplaceOptions{
					DeployOptions: types.DeployOptions{Name: o.s("app"), Entrypoint: &types.Entrypoint{Name: "web"}, Image: "img2", IgnorePull: true},
					IDs:           []string{id},
				})
				if err != nil {
					out.ret = "fail"
					return
				}
				for m := range ch {
					out.msgs = append(out.msgs, msgJ{Node: nodeOf[id], ID: w.idOf(id), OK: m.Error == nil})
					if m.Create != nil {
						out.createMsgs = append(out.createMsgs, m.Create)
					}
				}
			case "addnode":
				spec := ckit.NodeSpec{Name: o.s("node"), Pod: o.s("pod"), CPU: o.i("cpu"), Memory: int64(o.i("mem"))}
				if _, err := cl.C.AddNode(ctx, cl.AddNodeOptions(spec)); err != nil {
					out.ret = "fail"
				}
			case "removenode":
				if err := cl.C.RemoveNode(ctx, o.s("node")); err != nil {
					out.ret = "fail"
				}
			case "fixnode":
				if _, err := cl.C.NodeResource(ctx, o.s("node"), o.b("fix")); err != nil {
					out.ret = "fail"
				}
			case "setnode":
				raw := resourcetypes.RawParams{}
				if m := o.i("mem"); m != 0 {
					raw["memory"] = int64(m)
				}
				if c := o.i("cpu"); c != 0 {
					raw["cpu"] = c
				}
				if c := o.s("cpu_list"); c != "" { // per-core shares, e.g. "0:50,4:100"
					raw["cpu"] = c
				}
				if nc := o.strs("numa_cpu"); len(nc) > 0 {
					raw["numa-cpu"] = nc
				}
				if nm := o.strs("numa_mem"); len(nm) > 0 {
					raw["numa-memory"] = nm
				}
				so := &types.SetNodeOptions{Nodename: o.s("node"), Delta: o.b("delta"), Bypass: types.TriKeep}
				if len(raw) > 0 {
					so.Resources = resourcetypes.Resources{"cpumem": raw}
				}
				if l := o.s("label"); l != "" {
					so.Labels = map[string]string{"l": l}
				}
				if _, err := cl.C.SetNode(ctx, so); err != nil {
					out.ret = "fail"
				}
			}
		})
	})
	switch kind {
	case "slow": // finished, but only after the soft deadline: the machine is overloaded, not the code
		out.slow = true
	case "":
	default:
		out.ret = kind + ":" + msg
		if kind == "timeout" {
			w.hung = true
			out.trace = ckit.Foreground(cl.Trace())
		}
	}
	return out
}

// guard2 runs f; "" = finished within soft, "slow" = finished within hard, "timeout" = did not finish
// within hard (the goroutine is leaked), "panic" = f panicked.
func guard2(soft, hard time.Duration, f func()) (kind, msg string) {
	done := make(chan [2]string, 1)
	go func() {
		defer func() {
			if r := recover(); r != nil {
				done <- [2]string{"panic", fmt.Sprint(r)}
			}
		}()
		f()
		done <- [2]string{"", ""}
	}()
	select {
	case r := <-done:
		return r[0], r[1]
	case <-time.After(soft):
	}
	select {
	case r := <-done:
		if r[0] == "" {
			return "slow", ""
		}
		return r[0], r[1]
	case <-time.After(hard - soft):
		return "timeout", ""
	}
}

// infra patterns: failures of the embedded etcd / its client under load that nobody injected
var infraPatterns = []string{"request timed out", "etcdserver:", "too many requests", "connection refused", "transport is closing",
	"leader changed", "mvcc:", "lease not found", "unavailable"}
var ctxPatterns = []string{"context deadline exceeded", "context canceled"}

// infraFailure reports whether a run was disturbed by the infrastructure: it finished only after the
// soft deadline, or a call failed (not injected) with an etcd / timeout error. In cancellation runs the
// context errors are the intended ones and do not count.
func infraFailure(out *outcome, cancelRun bool) bool {
	if out.slow {
		return true
	}
	for _, e := range out.trace {
		if !e.Failed || e.Injected || e.Parked || e.Err == "" {
			continue
		}
		for _, p := range infraPatterns {
			if strings.Contains(e.Err, p) {
				return true
			}
		}
		if !cancelRun {
			for _, p := range ctxPatterns {
				if strings.Contains(e.Err, p) {
					return true
				}
			}
		}
	}
	return false
}

var lockKinds = map[string]bool{"lock": true, "locked": true, "unlock": true, "trylock": true}

var usageWrites = map[string]bool{"pluginSetUsage:incr": true, "pluginSetUsage:decr": true, "pluginAlloc": true, "pluginRealloc": true,
	"pluginRollbackAlloc": true, "pluginRollbackRealloc": true}

// noLocks drops the lock events (they are neither fault addresses nor part of the compared trace)
func noLocks(evs []ckit.Event) []ckit.Event {
	out := []ckit.Event{}
	for _, e := range evs {
		if !lockKinds[e.Kind] {
			out = append(out, e)
		}
	}
	return out
}

// lockViolations replays the lock / unlock events of a trace (arrival order) and lists the
// usage-changing plugin calls made while the pod lock of the node's pod was not held.
func (w *world) lockViolations(evs []ckit.Event) []string {
	pods := map[string]string{}
	for _, n := range w.cl.Snapshot().Nodes {
		pods[n.Name] = n.Pod
	}
	held := map[string]int{}
	holders := map[string]bool{} // lock object ids (Event.Arg) that currently hold their lock
	out := []string{}
	for _, e := range evs {
		switch {
		case e.Kind == "locked":
			held[e.Node]++
			holders[e.Arg] = true
		case e.Kind == "unlock":
			if holders[e.Arg] { // the Unlock after a FAILED Lock releases nothing
				held[e.Node]--
				delete(holders, e.Arg)
			}
		case usageWrites[e.Kind] || (e.Kind == "pluginGetNodeResourceInfo" && e.Arg == "fix=true"):
			if p, ok := pods[e.Node]; ok && held["plock_"+p] <= 0 {
				out = append(out, e.Kind+"@"+e.Node)
			}
		}
	}
	return out
}

func trOf(evs []ckit.Event) []trJ {
	out := []trJ{}
	for _, e := range evs {
		if lockKinds[e.Kind] {
			continue
		}
		out = append(out, trJ{Kind: e.Kind, Node: e.Node, Injected: e.Injected})
	}
	sort.Slice(out, func(i, j int) bool {
		a, b := out[i], out[j]
		if a.Kind != b.Kind {
			return a.Kind < b.Kind
		}
		if a.Node != b.Node {
			return a.Node < b.Node
		}
		return !a.Injected && b.Injected
	})
	return out
}

func zeroRes(n int) []ckit.Res {
	out := make([]ckit.Res, n)
	for i := range out {
		out[i] = ckit.Res{Cores: map[string]int64{}, NUMA: map[string]int64{}}
	}
	return out
}

func resFromData(v any) []ckit.Res {
	b, _ := json.Marshal(v)
	out := []ckit.Res{}
	_ = json.Unmarshal(b, &out)
	return out
}

func oneRes(v any) ckit.Res {
	b, _ := json.Marshal(v)
	out := ckit.Res{}
	_ = json.Unmarshal(b, &out)
	if out.Cores == nil {
		out.Cores = map[string]int64{}
	}
	if out.NUMA == nil {
		out.NUMA = map[string]int64{}
	}
	return out
}

var perInstanceKinds = map[string]bool{"engineCreate": true, "walLog:create-workload": true, "storeAddWorkload": true,
	"engineStart": true, "engineInspect": true, "walCommit:create-workload": true}

// analyse derives the model-level arguments (resource layer answers, visit orders, ids of new
// workloads, model-level fault address) from the run's trace and messages.
func (w *world) analyse(o op, out *outcome, pre snapJ, ifault *ckit.Addr) (args map[string]any, mfault *ckit.Addr) {
	tr := out.trace
	if ifault != nil {
		c := *ifault
		mfault = &c
	}
	switch o.s("op") {
	case "create":
		plan := []map[string]any{}
		planIdx := map[string]int{}
		planOK := true
		sawCap, sawStatus := false, false
		sawFilter, sawAllocLog, injected := false, false, false
		for _, e := range tr {
			injected = injected || e.Injected
			switch e.Kind {
			case "storeGetNodesByPod", "storeGetNode":
				sawFilter = sawFilter || !e.Failed
			case "walLog:allocate-workload":
				sawAllocLog = true
			case "pluginAlloc":
				cnt := 0
				if c, ok := e.Data["count"].(int); ok {
					cnt = c
				}
				var rs []ckit.Res
				if r, ok := e.Data["resources"]; ok && !e.Failed {
					rs = resFromData(r)
				} else {
					rs = zeroRes(cnt)
				}
				planIdx[e.Node] = len(plan)
				plan = append(plan, map[string]any{"node": e.Node, "res": rs})
			case "pluginGetDeployCapacity":
				sawCap = !e.Failed
			case "storeGetDeployStatus":
				sawStatus = !e.Failed
			}
		}
		for _, e := range tr { // planned nodes the condition step never reached
			if e.Kind == "storeDeleteProcessing" {
				if _, ok := planIdx[e.Node]; !ok {
					planIdx[e.Node] = len(plan)
					plan = append(plan, map[string]any{"node": e.Node, "res": []ckit.Res{}})
				}
			}
		}
		if sawCap && sawStatus && len(plan) == 0 {
			planOK = false // strategy / capacity refusal
		}
		// instance index of every created container: ERU_WORKLOAD_SEQ minus the node's offset
		type inst struct {
			node string
			seq  int
			wid  string
		}
		insts := []inst{}
		minSeq := map[string]int{}
		for _, e := range tr {
			if e.Kind == "engineCreate" {
				s := -1
				fmt.Sscanf(e.Arg, "seq=%d", &s)
				if m, ok := minSeq[e.Node]; !ok || s < m {
					minSeq[e.Node] = s
				}
				insts = append(insts, inst{e.Node, s, e.WID})
			}
		}
		sort.Slice(insts, func(i, j int) bool {
			if planIdx[insts[i].node] != planIdx[insts[j].node] {
				return planIdx[insts[i].node] < planIdx[insts[j].node]
			}
			return insts[i].seq < insts[j].seq
		})
		idxOf := map[string]int{} // wid -> instance index on its node
		for _, in := range insts {
			if in.wid != "" {
				w.idOf(in.wid) // number new containers in the model's creation order
				idxOf[in.wid] = in.seq - minSeq[in.node]
			}
		}
		for _, m := range out.createMsgs {
			if m.Error == nil {
				rr := ckit.WorkloadRes(m.Resources)
				out.msgs = append(out.msgs, msgJ{Node: m.Nodename, ID: w.idOf(m.WorkloadID), OK: true, Res: &rr})
			} else {
				out.msgs = append(out.msgs, msgJ{Node: m.Nodename, ID: 0, OK: false})
			}
		}
		if mfault != nil && perInstanceKinds[mfault.Kind] {
			for _, e := range tr {
				if e.Injected {
					if e.Kind == "engineCreate" {
						s := -1
						fmt.Sscanf(e.Arg, "seq=%d", &s)
						mfault.Ord = s - minSeq[e.Node]
					} else if i, ok := idxOf[e.WID]; ok {
						mfault.Ord = i
					}
				}
			}
		}
		noNodes := sawFilter && !sawAllocLog && !injected // the filter selected no node
		args = map[string]any{"includes": o.strs("includes"), "noNodes": noNodes, "planOk": planOK, "plan": plan}
	case "remove", "dissociate":
		first := ""
		groups := []map[string]any{}
		gi := map[string]int{}
		seenFirst := false
		for _, e := range tr {
			if e.Kind == "storeGetWorkloads" && !seenFirst {
				first, seenFirst = e.Node, true
				continue
			}
			if e.Kind == "storeGetNode" {
				if _, ok := gi[e.Node]; !ok {
					gi[e.Node] = len(groups)
					groups = append(groups, map[string]any{"node": e.Node, "ids": []int{}})
				}
			}
			if e.Kind == "storeGetWorkloads" && seenFirst && e.WID != "" {
				if g, ok := gi[e.Node]; ok {
					groups[g]["ids"] = append(groups[g]["ids"].([]int), w.idOf(e.WID))
				}
			}
		}
		// ids whose per-workload read never happened (node lock failed): request order
		for _, id := range o.ints("ids") {
			node := ""
			for _, x := range pre.Wls {
				if x.ID == id {
					node = x.Node
				}
			}
			g, ok := gi[node]
			if !ok {
				continue
			}
			has := false
			for _, y := range groups[g]["ids"].([]int) {
				has = has || y == id
			}
			if !has {
				groups[g]["ids"] = append(groups[g]["ids"].([]int), id)
			}
		}
		args = map[string]any{"first": first, "groups": groups}
	case "realloc":
		node := ""
		for _, x := range pre.Wls {
			if x.ID == o.i("id") {
				node = x.Node
			}
		}
		var answer any
		found := false
		for _, e := range tr {
			if e.Kind == "pluginRealloc" {
				found = true
				if !e.Failed {
					answer = map[string]any{"delta": oneRes(e.Data["delta"]), "res": oneRes(e.Data["resources"])}
				} else if e.Injected {
					z := zeroRes(1)[0]
					answer = map[string]any{"delta": z, "res": z}
				}
			}
		}
		if !found {
			z := zeroRes(1)[0]
			answer = map[string]any{"delta": z, "res": z}
		}
		args = map[string]any{"node": node, "id": o.i("id"), "answer": answer}
	case "replace":
		node := ""
		for _, x := range pre.Wls {
			if x.ID == o.i("id") {
				node = x.Node
			}
		}
		for _, e := range tr {
			if e.Kind == "engineCreate" && e.WID != "" {
				w.idOf(e.WID)
			}
		}
		args = map[string]any{"node": node, "id": o.i("id")}
	case "addnode":
		args = map[string]any{"node": o.s("node"), "cap": zeroRes(1)[0]} // cap filled by setCap from the twin
	case "removenode":
		args = map[string]any{"node": o.s("node")}
	case "fixnode":
		args = map[string]any{"node": o.s("node"), "fix": o.b("fix")}
	case "setnode":
		refused := false
		for _, e := range tr {
			if e.Kind == "pluginSetCapacity" && e.Ord == 0 && e.Failed && !e.Injected {
				refused = true // the plugin rejects the request itself
			}
		}
		args = map[string]any{"node": o.s("node"), "newCap": nil, "refused": refused} // newCap filled by setCap from the fault-free twin
	}
	return args, mfault
}

// setCap fills the set-node model argument: the capacity the fault-free twin run ended with
// (a deterministic function of the pre-state and the request).
func setCap(o op, args map[string]any, twinPost snapJ) {
	if o.s("op") == "addnode" {
		for _, n := range twinPost.Nodes {
			if n.Name == o.s("node") {
				args["cap"] = n.Cap
			}
		}
		return
	}
	if o.s("op") != "setnode" || (o.i("mem") == 0 && o.i("cpu") == 0 && o.s("cpu_list") == "" && len(o.strs("numa_cpu")) == 0 && len(o.strs("numa_mem")) == 0) {
		return
	}
	for _, n := range twinPost.Nodes {
		if n.Name == o.s("node") {
			args["newCap"] = n.Cap
		}
	}
}

// ---------------------------------------------------------------- generation

type gen struct {
	r     *hx.Rng
	pods  []string
	nodes []ckit.NodeSpec // every node ever described (initial + added by add-node operations)
	apps  int
	extra int
}

// current returns the specs of the nodes that exist in the snapshot
func (g *gen) current(pre snapJ) []ckit.NodeSpec {
	out := []ckit.NodeSpec{}
	for _, n := range pre.Nodes {
		for _, sp := range g.nodes {
			if sp.Name == n.Name {
				out = append(out, sp)
				break
			}
		}
	}
	return out
}

const mib = 1 << 20

func (g *gen) setup(w *world) []map[string]any {
	r := g.r
	setup := []map[string]any{}
	npods := r.Range(1, 2)
	nnodes := r.Range(1, 4)
	for p := 0; p < npods; p++ {
		name := fmt.Sprintf("p%d", p)
		g.pods = append(g.pods, name)
		w.cl.AddPod(name)
		setup = append(setup, map[string]any{"pod": name})
	}
	for i := 0; i < nnodes; i++ {
		spec := ckit.NodeSpec{Name: fmt.Sprintf("n%d", i), Pod: g.pods[r.Intn(npods)], CPU: hx.Pick(r, 2, 4, 4, 8), Memory: int64(hx.Pick(r, 512, 1024, 2048, 4096)) * mib}
		if r.Chance(35) {
			half := spec.CPU / 2
			a, b := []string{}, []string{}
			for c := 0; c < spec.CPU; c++ {
				if c < half {
					a = append(a, fmt.Sprint(c))
				} else {
					b = append(b, fmt.Sprint(c))
				}
			}
			spec.NUMACPU = []string{strings.Join(a, ","), strings.Join(b, ",")}
			spec.NUMAMemory = []string{fmt.Sprint(spec.Memory / 2), fmt.Sprint(spec.Memory / 2)}
		}
		g.nodes = append(g.nodes, spec)
		w.cl.AddNode(spec)
		setup = append(setup, map[string]any{"node": spec})
	}
	return setup
}

func (g *gen) request(o op) {
	r := g.r
	switch r.Intn(4) {
	case 0: // memory only
		o["mem"] = r.Range(1, 12) * 64 * mib
	case 1: // unbound cpu + memory
		o["mem"] = r.Range(1, 8) * 64 * mib
		o["cpu_milli"] = hx.Pick(r, 500, 1000, 1500, 2000)
	default: // bound cpu
		o["mem"] = r.Range(1, 8) * 64 * mib
		o["cpu_milli"] = hx.Pick(r, 500, 1000, 1000, 1500, 2000)
		o["bind"] = true
	}
	if r.Chance(35) { // memory limit above the request: only the request counts against capacity
		o["mem_limit"] = o.i("mem") * hx.Pick(r, 2, 3)
	}
}

func (g *gen) nextOp(pre snapJ, only string) op {
	r := g.r
	cur := g.current(pre)
	for tries := 0; tries < 20; tries++ {
		kind := hx.Pick(r, "create", "create", "create", "remove", "remove", "dissociate", "realloc", "realloc", "replace", "setnode", "addnode", "removenode", "fixnode")
		if only == "nodeops" {
			if r.Chance(30) {
				kind = hx.Pick(r, "addnode", "removenode", "removenode", "setnode")
			}
		} else if only != "" && r.Chance(60) {
			kind = only
		}
		if len(pre.Wls) == 0 && r.Chance(80) {
			kind = "create"
		}
		if len(cur) == 0 {
			kind = "addnode" // every node was removed
		}
		o := op{"op": kind}
		switch kind {
		case "create":
			pod := g.pods[r.Intn(len(g.pods))]
			o["pod"] = pod
			o["app"] = fmt.Sprintf("app%d", r.Intn(2))
			o["count"] = r.Range(1, 4)
			o["strategy"] = hx.Pick(r, "AUTO", "AUTO", "FILL", "EACH", "GLOBAL", "DRAINED")
			if r.Chance(20) {
				o["limit"] = r.Range(1, 2)
			}
			if r.Chance(15) {
				inc := []string{}
				for _, n := range cur {
					if n.Pod == pod && r.Chance(60) {
						inc = append(inc, n.Name)
					}
				}
				if len(inc) > 0 {
					o["includes"] = inc
				}
			}
			g.request(o)
			if r.Chance(8) { // a request that cannot fit: refusal path
				o["mem"] = 64 * 1024 * mib
			}
			return o
		case "remove", "dissociate":
			if len(pre.Wls) == 0 {
				continue
			}
			n := 1
			if r.Chance(40) {
				n = r.Range(2, 3)
			}
			ids := []int{}
			for i := 0; i < n; i++ {
				id := pre.Wls[r.Intn(len(pre.Wls))].ID
				dup := false
				for _, x := range ids {
					dup = dup || x == id
				}
				if !dup {
					ids = append(ids, id)
				}
			}
			o["ids"] = ids
			return o
		case "realloc":
			if len(pre.Wls) == 0 {
				continue
			}
			x := pre.Wls[r.Intn(len(pre.Wls))]
			o["id"] = x.ID
			switch r.Intn(5) {
			case 4: // grow to the edge of the node's free memory (just fits / just does not fit)
				free := 0
				for _, n := range pre.Nodes {
					if n.Name == x.Node {
						free = int(n.Cap.Mem - n.Usage.Mem)
					}
				}
				o["mem"] = free + hx.Pick(r, 0, 0, 64*mib, -64*mib, int(x.Res.Mem)/2)
				if o.i("mem") == 0 {
					o["mem"] = 64 * mib
				}
			case 0:
				o["mem"] = r.Range(-4, 6) * 64 * mib
			case 1:
				o["cpu_milli"] = hx.Pick(r, 500, 1000, -500, -1000)
				o["bind"] = len(x.Res.Cores) > 0
				o["keep_bind"] = true
			case 2:
				o["mem"] = 64 * 1024 * mib // cannot fit
			default:
				o["mem"] = r.Range(1, 4) * 64 * mib
				o["cpu_milli"] = hx.Pick(r, 500, 1000)
				o["keep_bind"] = true
			}
			return o
		case "replace":
			if len(pre.Wls) == 0 {
				continue
			}
			o["id"] = pre.Wls[r.Intn(len(pre.Wls))].ID
			o["app"] = "app0"
			return o
		case "addnode":
			if len(cur) >= 5 && r.Chance(70) {
				continue
			}
			spec := ckit.NodeSpec{Pod: g.pods[r.Intn(len(g.pods))], CPU: hx.Pick(r, 2, 4), Memory: int64(hx.Pick(r, 512, 1024, 2048)) * mib}
			if len(cur) > 0 && r.Chance(15) {
				spec.Name = cur[r.Intn(len(cur))].Name // already exists: the plugin refuses
			} else {
				g.extra++
				spec.Name = fmt.Sprintf("x%d", g.extra)
				g.nodes = append(g.nodes, spec)
			}
			o["node"], o["pod"], o["cpu"], o["mem"] = spec.Name, spec.Pod, spec.CPU, int(spec.Memory)
			return o
		case "fixnode":
			o["node"] = cur[r.Intn(len(cur))].Name
			o["fix"] = r.Chance(70)
			return o
		case "removenode":
			o["node"] = cur[r.Intn(len(cur))].Name
			if r.Chance(50) { // prefer a node without workloads (a node with workloads is refused)
				for _, n := range cur {
					busy := false
					for _, x := range pre.Wls {
						busy = busy || x.Node == n.Name
					}
					if !busy {
						o["node"] = n.Name
					}
				}
			}
			return o
		case "setnode":
			sp := cur[r.Intn(len(cur))]
			o["node"] = sp.Name
			half := sp.CPU / 2
			lo, hi := []string{}, []string{}
			for c := 0; c < sp.CPU; c++ {
				if c < half {
					lo = append(lo, fmt.Sprint(c))
				} else {
					hi = append(hi, fmt.Sprint(c))
				}
			}
			switch r.Intn(8) {
			case 4: // NUMA layout and NUMA memory, as a delta or as an absolute request
				o["numa_cpu"] = []string{strings.Join(lo, ","), strings.Join(hi, ",")}
				o["numa_mem"] = []string{fmt.Sprint(r.Range(1, 4) * 64 * mib), fmt.Sprint(r.Range(1, 4) * 64 * mib)}
				o["delta"] = r.Chance(60)
			case 5: // NUMA memory only
				o["numa_mem"] = []string{fmt.Sprint(r.Range(1, 4) * 64 * mib), fmt.Sprint(r.Range(1, 4) * 64 * mib)}
				o["delta"] = r.Chance(60)
			case 6: // per-core shares: one more core / more pieces on core 0 (delta), or a rewritten core list
				if r.Chance(50) {
					o["cpu_list"] = fmt.Sprintf("0:%d,%d:100", hx.Pick(r, 50, 100), sp.CPU)
					o["delta"] = true
				} else {
					o["cpu_list"] = fmt.Sprintf("0:%d,1:100", hx.Pick(r, 100, 200))
				}
			case 7: // NUMA layout together with memory
				o["numa_cpu"] = []string{strings.Join(lo, ","), strings.Join(hi, ",")}
				o["mem"] = r.Range(1, 4) * 128 * mib
				o["delta"] = true
			case 0:
				o["mem"] = r.Range(1, 8) * 128 * mib
				o["delta"] = true
			case 1:
				o["mem"] = r.Range(16, 64) * 128 * mib
			case 2:
				o["label"] = fmt.Sprintf("v%d", r.Intn(3))
			default:
				o["mem"] = r.Range(1, 4) * 128 * mib
				o["delta"] = true
				o["label"] = "x"
			}
			return o
		}
	}
	if len(cur) == 0 {
		g.extra++
		sp := ckit.NodeSpec{Name: fmt.Sprintf("x%d", g.extra), Pod: g.pods[0], CPU: 2, Memory: 1024 * mib}
		g.nodes = append(g.nodes, sp)
		return op{"op": "addnode", "node": sp.Name, "pod": sp.Pod, "cpu": sp.CPU, "mem": int(sp.Memory)}
	}
	return op{"op": "setnode", "node": cur[0].Name, "label": "z"}
}

// ---------------------------------------------------------------- driver

func TestGen(t *testing.T) {
	seed := hx.Seed()
	r := hx.NewRng(seed)
	budget := hx.EnvInt("VERIF_CASES", 200) // number of emitted cases (runs of an operation)
	thorough := hx.Thorough()
	only := map[string]string{"C12": "create", "C11": "nodeops"}[os.Getenv("VERIF_PROPERTY")]
	out := hx.OpenOut()
	defer out.Close()
	if rp := os.Getenv("VERIF_REPLAY"); rp != "" {
		replay(t, rp, out)
		return
	}
	// generous lock / transaction timeouts: the embedded etcd can be slow when the machine is overloaded
	cl := ckit.NewCluster(t, ckit.Options{TraceLocks: true, LockTimeout: 60 * time.Second, GlobalTimeout: 120 * time.Second})
	d := &driver{t: t, cl: cl, r: r, out: out, budget: budget}
	d.corpus()
	if !d.hung {
		if thorough {
			d.concurrent(40)
		} else {
			d.concurrent(10)
		}
	}
	hist := 0
	for out.N < budget && !d.hung {
		hist++
		cl.Wipe()
		w := &world{t: t, cl: cl, ids: map[string]int{}, next: 1}
		g := &gen{r: r}
		setup := g.setup(w)
		nops := r.Range(5, 14)
		if thorough {
			nops = r.Range(5, 40)
		}
		for k := 0; k < nops && out.N < budget && !w.hung; k++ {
			pre := w.preSnap()
			o := g.nextOp(pre, only)
			d.step(w, o, pre, fmt.Sprintf("s%d-h%d-o%d", seed, hist, k), setup, thorough, r.Chance(25))
		}
		d.hung = d.hung || w.hung
	}
	t.Logf("histories=%d cases=%d infra-retried=%d infra-dropped=%d", hist, out.N, d.infraRetried, d.infraDropped)
}

type driver struct {
	infraRetried int  // runs repeated from the restored pre-state because the infrastructure failed
	infraDropped int  // runs given up after 3 such attempts
	hung         bool // an operation never returned: stop
	t            *testing.T
	cl           *ckit.Cluster
	r            *hx.Rng
	out          *hx.Out
	budget       int
}

// step runs one operation fault-free and then, from the restored pre-state, once per fault address
// of the fault-free trace (all of them, or 3 sampled ones); the history continues from the
// fault-free post-state, or (keepFaulty) from the last faulty one.
// execClean runs the operation; a run disturbed by the infrastructure (overloaded embedded etcd) is
// repeated from the restored pre-state, at most 3 times, then dropped (ok = false).
func (d *driver) execClean(w *world, o op, plan ckit.Plan, cancelRun bool, restore func()) (outcome, bool) {
	for attempt := 0; attempt < 3; attempt++ {
		res := w.exec(o, plan)
		if w.hung || !infraFailure(&res, cancelRun) {
			return res, true
		}
		d.infraRetried++
		time.Sleep(time.Duration(attempt+1) * time.Second)
		restore()
	}
	d.infraDropped++
	return outcome{}, false
}

func (d *driver) step(w *world, o op, pre snapJ, base string, setup []map[string]any, all, keepFaulty bool) {
	cl, out, r := d.cl, d.out, d.r
	cpBefore := cl.Checkpoint()
	res, ok := d.execClean(w, o, ckit.Plan{}, false, func() { cl.Restore(cpBefore); w.next = pre.Next })
	if !ok {
		cl.Restore(cpBefore)
		w.next = pre.Next
		return
	}
	args, _ := w.analyse(o, &res, pre, nil)
	post := w.snap()
	setCap(o, args, post)
	out.Emit(&kase{ID: base, Op: o.s("op"), Args: args, Req: o, Pre: pre, Post: post, Msgs: nz(res.msgs), Ret: res.ret,
		Trace: trOf(res.trace), Impl: map[string]any{"diffs": post.Diffs}, LockViol: w.lockViolations(res.trace), Setup: setup})
	cpAfter := cl.Checkpoint()
	nextAfter := w.next
	addrs := ckit.Addresses(noLocks(res.trace))
	if !all {
		hx.Shuffle(r, addrs)
		if len(addrs) > 3 {
			addrs = addrs[:3]
		}
	}
	planned := 0
	for _, e := range res.trace {
		if e.Kind == "pluginAlloc" {
			if c, ok := e.Data["count"].(int); ok {
				planned += c
			}
		}
	}
	for ai, a := range addrs {
		if w.hung {
			return
		}
		if out.N >= d.budget && !strings.HasPrefix(base, "corpus") {
			break
		}
		cl.Restore(cpBefore)
		w.next = pre.Next
		a := a
		fres, ok := d.execClean(w, o, ckit.Plan{Fail: []ckit.Addr{a}}, false, func() { cl.Restore(cpBefore); w.next = pre.Next })
		if !ok {
			continue
		}
		fired := false
		for _, e := range fres.trace {
			fired = fired || e.Injected
		}
		fargs, mf := w.analyse(o, &fres, pre, &a)
		fpost := w.snap()
		setCap(o, fargs, post)
		out.Emit(&kase{ID: fmt.Sprintf("%s-f%d", base, ai), Op: o.s("op"), Args: fargs, Req: o, Fault: mf, IFlt: &a, Fired: fired,
			Pre: pre, Post: fpost, Msgs: nz(fres.msgs), Ret: fres.ret, Trace: trOf(fres.trace), Impl: map[string]any{"diffs": fpost.Diffs}, LockViol: w.lockViolations(fres.trace), Setup: setup})
		if keepFaulty && ai == len(addrs)-1 {
			cpAfter = nil // continue the history from this faulty post-state
		}
	}
	// caller cancellation / deadline expiry exactly before or after a chosen call of the operation
	cands := []ckit.Addr{}
	for _, a := range ckit.Addresses(noLocks(res.trace)) {
		if cancelKinds[a.Kind] {
			cands = append(cands, a)
		}
	}
	if !all && len(cands) > 0 {
		cands = []ckit.Addr{cands[r.Intn(len(cands))]}
		if !r.Chance(40) {
			cands = nil
		}
	}
	for ci, a := range cands {
		for _, after := range []bool{false, true} {
			if w.hung {
				return
			}
			if !all && r.Chance(50) {
				continue
			}
			cl.Restore(cpBefore)
			w.next = pre.Next
			deadline := (ci+map[bool]int{false: 0, true: 1}[after])%2 == 1
			tc := newTrigCtx(cl.Ctx(), deadline)
			w.callCtx = tc
			a := a
			cres, ok := d.execClean(w, o, ckit.Plan{Hook: &a, HookAfter: after, HookFn: func() { tc.fire() }}, true, func() {
				cl.Restore(cpBefore)
				w.next = pre.Next
				tc = newTrigCtx(cl.Ctx(), deadline)
				w.callCtx = tc
			})
			w.callCtx = nil
			if !ok {
				continue
			}
			cargs, _ := w.analyse(o, &cres, pre, nil)
			cpost := w.snap()
			setCap(o, cargs, post)
			cargs["planned"] = planned
			how := "cancel"
			if deadline {
				how = "deadline"
			}
			out.Emit(&kase{ID: fmt.Sprintf("%s-c%d%v", base, ci, after), Op: o.s("op"), Args: cargs, Req: o, Pre: pre, Post: cpost,
				Msgs: nz(cres.msgs), Ret: cres.ret, Trace: trOf(cres.trace), Impl: map[string]any{"diffs": cpost.Diffs},
				LockViol: w.lockViolations(cres.trace), Setup: setup,
				Cancel: map[string]any{"kind": a.Kind, "node": a.Node, "ord": a.Ord, "after": after, "how": how}})
		}
	}
	if cpAfter != nil && !w.hung {
		cl.Restore(cpAfter)
		if w.next < nextAfter {
			w.next = nextAfter
		}
	}
}

// calls at which the caller's context is ended
var cancelKinds = map[string]bool{"pluginAlloc": true, "storeCreateProcessing": true, "engineCreate": true, "storeAddWorkload": true,
	"engineStart": true, "pluginSetUsage:decr": true, "storeRemoveWorkload": true, "engineRemove": true, "pluginRealloc": true,
	"storeUpdateWorkload": true, "engineStop": true, "walLog:create-processing": true}

// corpus: fixed histories run first on every invocation, every fault address enumerated — the
// places where defects were found (D11, D12, D13, D16c, D25) and the seeded changes that once escaped.
func (d *driver) corpus() {
	cl := d.cl
	mk := func(nodes ...ckit.NodeSpec) (*world, []map[string]any) {
		cl.Wipe()
		w := &world{t: d.t, cl: cl, ids: map[string]int{}, next: 1}
		setup := []map[string]any{{"pod": "p0"}}
		cl.AddPod("p0")
		for _, n := range nodes {
			cl.AddNode(n)
			setup = append(setup, map[string]any{"node": n})
		}
		return w, setup
	}
	run := func(w *world, setup []map[string]any, name string, all bool, ops ...op) {
		for i, o := range ops {
			if w.hung {
				d.hung = true
				return
			}
			d.step(w, o, w.preSnap(), fmt.Sprintf("corpus-%s-o%d", name, i), setup, all, false)
		}
		d.hung = d.hung || w.hung
	}
	// A: memory limit above the request, node filled to the brim, growing realloc must be refused
	w, setup := mk(ckit.NodeSpec{Name: "n0", Pod: "p0", CPU: 4, Memory: 1000 * mib})
	run(w, setup, "limit", false,
		op{"op": "create", "pod": "p0", "app": "app0", "count": 1, "strategy": "AUTO", "mem": 300 * mib, "mem_limit": 600 * mib},
		op{"op": "create", "pod": "p0", "app": "app1", "count": 1, "strategy": "AUTO", "mem": 600 * mib},
		op{"op": "realloc", "id": 1, "mem": 300 * mib, "mem_limit": 300 * mib},
		op{"op": "realloc", "id": 1, "mem": 100 * mib},
		op{"op": "realloc", "id": 1, "mem": 64 * mib})
	// B: every operation kind with every fault address
	w, setup = mk(ckit.NodeSpec{Name: "n0", Pod: "p0", CPU: 4, Memory: 2048 * mib}, ckit.NodeSpec{Name: "n1", Pod: "p0", CPU: 2, Memory: 1024 * mib})
	run(w, setup, "all", true,
		op{"op": "create", "pod": "p0", "app": "app0", "count": 3, "strategy": "AUTO", "mem": 128 * mib, "cpu_milli": 1000, "bind": true},
		op{"op": "realloc", "id": 1, "mem": 64 * mib},
		op{"op": "replace", "id": 2, "app": "app0"},
		op{"op": "setnode", "node": "n1", "mem": 256 * mib, "delta": true},
		op{"op": "setnode", "node": "n0", "delta": true, "numa_cpu": []string{"0,1", "2,3"}, "numa_mem": []string{fmt.Sprint(256 * mib), fmt.Sprint(256 * mib)}},
		op{"op": "setnode", "node": "n1", "numa_cpu": []string{"0", "1"}, "numa_mem": []string{fmt.Sprint(128 * mib), fmt.Sprint(128 * mib)}},
		op{"op": "setnode", "node": "n1", "delta": true, "cpu_list": "0:50,2:100"},
		op{"op": "remove", "ids": []int{1}},
		op{"op": "dissociate", "ids": []int{3}},
		op{"op": "addnode", "node": "x1", "pod": "p0", "cpu": 2, "mem": 512 * mib},
		op{"op": "removenode", "node": "x1"},
		op{"op": "fixnode", "node": "n0", "fix": true})
	if d.hung {
		return
	}
	// C: FILL to a level one node has already reached: the plan contains a node with ZERO new instances
	w, setup = mk(ckit.NodeSpec{Name: "n0", Pod: "p0", CPU: 4, Memory: 2048 * mib}, ckit.NodeSpec{Name: "n1", Pod: "p0", CPU: 4, Memory: 2048 * mib})
	run(w, setup, "fill", false,
		op{"op": "create", "pod": "p0", "app": "app0", "count": 2, "strategy": "FILL", "mem": 64 * mib, "includes": []string{"n1"}},
		op{"op": "create", "pod": "p0", "app": "app0", "count": 2, "strategy": "FILL", "mem": 64 * mib})
}

// concurrent: pairs of operations on DIFFERENT workloads of the same node started together
// (C10 quantifies over such interleavings). The post-state must be consistent and equal to one
// of the two sequential orders of the model.
func (d *driver) concurrent(trials int) {
	cl := d.cl
	cl.Wipe()
	w := &world{t: d.t, cl: cl, ids: map[string]int{}, next: 1}
	setup := []map[string]any{{"pod": "p0"}}
	cl.AddPod("p0")
	spec := ckit.NodeSpec{Name: "n0", Pod: "p0", CPU: 4, Memory: 4096 * mib}
	cl.AddNode(spec)
	setup = append(setup, map[string]any{"node": spec})
	res := w.exec(op{"op": "create", "pod": "p0", "app": "app0", "count": 4, "strategy": "AUTO", "mem": 128 * mib}, ckit.Plan{})
	w.analyse(op{"op": "create"}, &res, w.snap(), nil)
	cp := cl.Checkpoint()
	for tr := 0; tr < trials; tr++ {
		cl.Restore(cp)
		pre := w.preSnap()
		if len(pre.Wls) < 2 {
			return
		}
		ia := d.r.Intn(len(pre.Wls))
		ib := (ia + 1 + d.r.Intn(len(pre.Wls)-1)) % len(pre.Wls)
		mkOp := func(kind string, x wlJ) op {
			switch kind {
			case "fixnode":
				return op{"op": "fixnode", "node": x.Node, "fix": true}
			case "realloc":
				return op{"op": "realloc", "id": x.ID, "mem": d.r.Range(1, 4) * 64 * mib}
			default:
				return op{"op": kind, "ids": []int{x.ID}}
			}
		}
		oa := mkOp(hx.Pick(d.r, "remove", "dissociate", "realloc", "fixnode", "fixnode"), pre.Wls[ia])
		ob := mkOp(hx.Pick(d.r, "remove", "dissociate"), pre.Wls[ib])
		ra, rb := w.realID(pre.Wls[ia].ID), w.realID(pre.Wls[ib].ID)
		call := func(o op, real string) {
			ctx := cl.Ctx()
			switch o.s("op") {
			case "remove":
				if ch, err := cl.C.RemoveWorkload(ctx, []string{real}, true); err == nil {
					for range ch {
					}
				}
			case "dissociate":
				if ch, err := cl.C.DissociateWorkload(ctx, []string{real}); err == nil {
					for range ch {
					}
				}
			case "realloc":
				_ = cl.C.ReallocResource(ctx, &types.ReallocOptions{ID: real, Resources: wlRequest(o)})
			case "fixnode":
				_, _ = cl.C.NodeResource(ctx, o.s("node"), true)
			}
		}
		var trace []ckit.Event
		hx.Guard(60*time.Second, func() {
			trace = cl.Traced(ckit.Plan{}, func() {
				start := make(chan struct{})
				done := make(chan struct{}, 2)
				go func() { <-start; call(oa, ra); done <- struct{}{} }()
				go func() { <-start; call(ob, rb); done <- struct{}{} }()
				close(start)
				<-done
				<-done
			})
		})
		argsOf := func(o op, x wlJ) map[string]any {
			if o.s("op") == "fixnode" {
				return map[string]any{"node": x.Node, "fix": true}
			}
			if o.s("op") == "realloc" {
				var answer any
				for _, e := range trace {
					if e.Kind == "pluginRealloc" && !e.Failed {
						answer = map[string]any{"delta": oneRes(e.Data["delta"]), "res": oneRes(e.Data["resources"])}
					}
				}
				return map[string]any{"node": x.Node, "id": x.ID, "answer": answer}
			}
			return map[string]any{"first": x.Node, "groups": []map[string]any{{"node": x.Node, "ids": []int{x.ID}}}}
		}
		infra := false
		for _, e := range trace {
			if e.Failed && !e.Injected && e.Err != "" {
				for _, p := range append(append([]string{}, infraPatterns...), ctxPatterns...) {
					infra = infra || strings.Contains(e.Err, p)
				}
			}
		}
		if infra {
			d.infraDropped++
			continue
		}
		post := w.snap()
		d.out.Emit(&kase{ID: fmt.Sprintf("conc-%d", tr), Op: "concurrent",
			Args: map[string]any{"a": map[string]any{"op": oa.s("op"), "args": argsOf(oa, pre.Wls[ia])}, "b": map[string]any{"op": ob.s("op"), "args": argsOf(ob, pre.Wls[ib])}},
			Req:  map[string]any{"a": oa, "b": ob}, Pre: pre, Post: post, Msgs: []msgJ{}, Ret: "ok", Trace: trOf(trace),
			Impl: map[string]any{"diffs": post.Diffs}, LockViol: w.lockViolations(trace), Setup: setup})
	}
}

func nz(m []msgJ) []msgJ {
	if m == nil {
		return []msgJ{}
	}
	return m
}

// replay re-executes recorded cases: rebuilds the pre-state is not possible in general (it is the
// result of a history), so a replay file carries whole histories: every line is re-run in order on
// a fresh cluster built from the first line's setup; lines with a fault are run from the restored
// pre-state of the preceding fault-free line of the same operation.
func replay(t *testing.T, path string, out *hx.Out) {
	f, err := os.Open(path)
	if err != nil {
		t.Fatal(err)
	}
	defer f.Close()
	sc := bufio.NewScanner(f)
	sc.Buffer(make([]byte, 1<<24), 1<<24)
	cl := ckit.NewCluster(t, ckit.Options{})
	for sc.Scan() {
		line := strings.TrimSpace(sc.Text())
		if line == "" {
			continue
		}
		var k kase
		if err := json.Unmarshal([]byte(line), &k); err != nil {
			t.Fatalf("replay: %v", err)
		}
		// rebuild a state with the same abstract content as k.Pre: same nodes, then one workload per
		// recorded workload with exactly its resources is not expressible through the API; instead the
		// case is re-run on a cluster rebuilt from its setup with the workloads re-created by request.
		cl.Wipe()
		w := &world{t: t, cl: cl, ids: map[string]int{}, next: 1}
		for _, s := range k.Setup {
			if p, ok := s["pod"].(string); ok {
				cl.AddPod(p)
			}
			if n, ok := s["node"]; ok {
				b, _ := json.Marshal(n)
				var spec ckit.NodeSpec
				_ = json.Unmarshal(b, &spec)
				cl.AddNode(spec)
			}
		}
		for _, n := range k.Pre.Nodes { // nodes added by earlier add-node operations of the history
			if podOf(k.Setup, n.Name) == "" {
				pod := "p0"
				if p, ok := k.Req["pod"].(string); ok && p != "" {
					pod = p
				}
				cl.AddNode(ckit.NodeSpec{Name: n.Name, Pod: pod, CPU: len(n.Cap.Cores), Memory: n.Cap.Mem})
			}
		}
		// re-create the recorded workloads one by one (memory / cpu request = recorded resources)
		ok := true
		for _, x := range k.Pre.Wls {
			o := op{"op": "create", "pod": podOf(k.Setup, x.Node), "app": "app0", "count": 1, "strategy": "AUTO", "includes": []string{x.Node},
				"mem": int(x.Res.Mem), "cpu_milli": int(x.Res.CPU / 1000000), "bind": len(x.Res.Cores) > 0}
			res := w.exec(o, ckit.Plan{})
			if len(res.createMsgs) != 1 || res.createMsgs[0].Error != nil {
				ok = false
				break
			}
			w.ids[res.createMsgs[0].WorkloadID] = x.ID
			if w.next <= x.ID {
				w.next = x.ID + 1
			}
		}
		if !ok {
			t.Logf("replay: could not rebuild the pre-state of %s", k.ID)
			continue
		}
		if w.next < k.Pre.Next {
			w.next = k.Pre.Next
		}
		pre := w.preSnap()
		cp := cl.Checkpoint()
		o := op(k.Req)
		twin := w.exec(o, ckit.Plan{})
		targs, _ := w.analyse(o, &twin, pre, nil)
		twinPost := w.snap()
		setCap(o, targs, twinPost)
		if k.IFlt == nil {
			args := targs
			out.Emit(&kase{ID: k.ID, Op: k.Op, Args: args, Req: o, Pre: pre, Post: twinPost, Msgs: nz(twin.msgs), Ret: twin.ret, Trace: trOf(twin.trace), Setup: k.Setup})
			continue
		}
		cl.Restore(cp)
		w.next = pre.Next
		fres := w.exec(o, ckit.Plan{Fail: []ckit.Addr{*k.IFlt}})
		fired := false
		for _, e := range fres.trace {
			fired = fired || e.Injected
		}
		fargs, mf := w.analyse(o, &fres, pre, k.IFlt)
		fpost := w.snap()
		setCap(o, fargs, twinPost)
		out.Emit(&kase{ID: k.ID, Op: k.Op, Args: fargs, Req: o, Fault: mf, IFlt: k.IFlt, Fired: fired, Pre: pre, Post: fpost, Msgs: nz(fres.msgs),
			Ret: fres.ret, Trace: trOf(fres.trace), Setup: k.Setup})
	}
}

func podOf(setup []map[string]any, node string) string {
	for _, s := range setup {
		if n, ok := s["node"].(map[string]any); ok {
			if n["Name"] == node {
				p, _ := n["Pod"].(string)
				return p
			}
		}
	}
	return ""
}
