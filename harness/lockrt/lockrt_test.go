// Correspondence harness for C18 (mutual exclusion, try-lock, waiter outcome) and C19 (a holder
// is told when it loses its lock): real lock objects created through the stores' CreateLock
// (redis on miniredis with virtual server time; etcd on the embedded cluster), driven through
// scripted sequential and controlled-overlap schedules; one JSON case per schedule.
package lockrt

import (
	"bufio"
	"context"
	"encoding/json"
	"errors"
	"fmt"
	"os"
	"reflect"
	"strings"
	"sync"
	"testing"
	"time"
	"unsafe"

	"verifharness/hx"

	"github.com/alicebob/miniredis/v2"
	goredis "github.com/go-redis/redis/v8"
	"github.com/projecteru2/core/cluster/calcium"
	enginefactory "github.com/projecteru2/core/engine/factory"
	"github.com/projecteru2/core/lock"
	redislock "github.com/projecteru2/core/lock/redis"
	"github.com/projecteru2/core/store/etcdv3/embedded"
	"github.com/projecteru2/core/store/etcdv3/meta"
	redisstore "github.com/projecteru2/core/store/redis"
	"github.com/projecteru2/core/types"
	clientv3 "go.etcd.io/etcd/client/v3"
	"go.etcd.io/etcd/client/v3/concurrency"
)

type cmd struct {
	Op string `json:"op"` // lock trylock unlock ff lockasync join revoke observe
	C  int    `json:"c"`
	Dt int    `json:"dt"` // ms (ff)
}

type kase struct {
	ID      string         `json:"id"`
	Backend string         `json:"backend"`
	TTL     int            `json:"ttl_ms"`
	Wait    int            `json:"wait_ms"` // redis only: wait timeout != lock TTL (lock/redis.New directly)
	Kind    string         `json:"kind,omitempty"`   // "" = schedule on one key; "multikey" = loss of one of several locks held by with*Locked
	Helper  string         `json:"helper,omitempty"` // multikey: pod | nodeop
	NKeys   int            `json:"nkeys,omitempty"`
	Lose    int            `json:"lose,omitempty"` // multikey: index (acquisition order) of the lock whose lease is revoked
	CtxDL   int            `json:"ctx_deadline_ms,omitempty"` // the context passed to Lock/TryLock carries this deadline (0: none)
	Clients int            `json:"clients"`
	Cmds    []cmd          `json:"cmds"`
	Impl    map[string]any `json:"impl"`
}

const etcdPrefix = "/eru"
const etcdLockPrefix = "__lock__/eru"

type lockMaker func(key string, ttl time.Duration) (lock.DistributedLock, error)

type asyncRes struct {
	ctx context.Context
	err error
}

// runner executes one schedule on one lock key
type runner struct {
	k       *kase
	mk      lockMaker
	mini    *miniredis.Miniredis // redis only
	cli     *clientv3.Client     // etcd only
	key     string
	locks   map[int]lock.DistributedLock
	ctxs    map[int]context.Context
	kids    map[int]context.Context // a child of the lock context, as the cluster derives its working contexts
	started map[int]time.Time       // when the client's Lock call began
	rcli    *goredis.Client
	cancels []context.CancelFunc
	expired map[int]bool               // lease ran out after an orphaned session (no promptness bound applies)
	actx    map[int]context.Context    // the context passed to the client's Lock/TryLock
	acancel map[int]context.CancelFunc
	pending map[int]chan asyncRes
	leases  map[int]clientv3.LeaseID
	seen    map[clientv3.LeaseID]bool
	revoked map[int]time.Time
	unlocked  map[int]bool
	perturbed bool // etcd: a holder's lease expired although the script did not revoke it (machine stall)
	// timingOff: the machine was too slow for the schedule's timing assumptions (a command between
	// lockasync and join ran after the redis waiter's 500 ms retry; a loss signal arrived late):
	// the schedule is re-run, and judged as is on the last attempt
	timingOff  bool
	asyncStart time.Time
}

// checkLeases notices an unscripted lease loss of a client that should still hold the lock
func (r *runner) checkLeases() {
	if r.cli == nil {
		return
	}
	for c := range r.ctxs {
		if r.unlocked[c] {
			continue
		}
		if _, ok := r.revoked[c]; ok {
			continue
		}
		id, ok := r.leases[c]
		if !ok {
			continue
		}
		ctx, cancel := context.WithTimeout(context.Background(), 2*time.Second)
		resp, err := r.cli.TimeToLive(ctx, id)
		cancel()
		if err == nil && resp.TTL <= 0 {
			r.perturbed = true
		}
	}
}

func (r *runner) get(c int) (lock.DistributedLock, error) {
	if l, ok := r.locks[c]; ok {
		return l, nil
	}
	var l lock.DistributedLock
	var err error
	if r.rcli != nil && r.k.Wait != r.k.TTL {
		l, err = redislock.New(r.rcli, "/lock/"+r.key, time.Duration(r.k.Wait)*time.Millisecond, time.Duration(r.k.TTL)*time.Millisecond)
	} else {
		l, err = r.mk(r.key, time.Duration(r.k.TTL)*time.Millisecond)
	}
	if err == nil {
		r.locks[c] = l
	}
	return l, err
}

func lockErr(err error) string {
	switch {
	case err == nil:
		return "acquired"
	case strings.Contains(err.Error(), "redislock: not obtained"):
		return "not-obtained"
	case strings.Contains(err.Error(), "Locked by another session"):
		return "locked"
	case errors.Is(err, context.DeadlineExceeded) || strings.Contains(err.Error(), "context deadline exceeded"):
		return "timeout"
	case strings.Contains(err.Error(), "session expired"):
		return "session-expired"
	}
	return "other:" + err.Error()
}

// learnLease attributes the lease of the newest unseen key under the lock prefix to client c (etcd)
func (r *runner) learnLease(c int) {
	if r.cli == nil {
		return
	}
	ctx, cancel := context.WithTimeout(context.Background(), 2*time.Second)
	defer cancel()
	resp, err := r.cli.Get(ctx, "/"+etcdLockPrefix+"/"+r.key+"/", clientv3.WithPrefix())
	if err != nil {
		return
	}
	for _, kv := range resp.Kvs {
		id := clientv3.LeaseID(kv.Lease)
		if !r.seen[id] {
			r.seen[id] = true
			r.leases[c] = id
		}
	}
}

// waitFlag classifies how long a failed waiting Lock took against its wait timeout
func (r *runner) waitFlag(c int, res string) string {
	if res != "not-obtained" && res != "timeout" {
		return ""
	}
	t0, ok := r.started[c]
	if !ok {
		return ""
	}
	wait := time.Duration(r.k.Wait) * time.Millisecond
	el := time.Since(t0)
	switch {
	case el < wait*7/10:
		return "early"
	case el > wait+600*time.Millisecond:
		r.timingOff = true // re-run before believing it
		return "late"
	}
	return ""
}

func (r *runner) acquired(c int, rctx context.Context) {
	r.ctxs[c] = rctx
	kid, cancel := context.WithCancel(rctx)
	r.kids[c] = kid
	r.cancels = append(r.cancels, cancel)
}

// acquireCtx: the context handed to the client's Lock/TryLock, cancellable by the script and
// optionally with a deadline (request timeouts shorter than the lock timeout are common in calcium)
func (r *runner) acquireCtx(c int) context.Context {
	if x, ok := r.actx[c]; ok {
		return x
	}
	var x context.Context
	var cancel context.CancelFunc
	if r.k.CtxDL > 0 {
		x, cancel = context.WithTimeout(context.Background(), time.Duration(r.k.CtxDL)*time.Millisecond)
	} else {
		x, cancel = context.WithCancel(context.Background())
	}
	r.actx[c], r.acancel[c] = x, cancel
	r.cancels = append(r.cancels, cancel)
	return x
}

// session digs the etcd session out of an etcdlock.Mutex (test-only; the field is not exported)
func session(l lock.DistributedLock) *concurrency.Session {
	v := reflect.ValueOf(l)
	if v.Kind() != reflect.Ptr || v.Elem().Kind() != reflect.Struct {
		return nil
	}
	f := v.Elem().FieldByName("session")
	if !f.IsValid() {
		return nil
	}
	s, _ := reflect.NewAt(f.Type(), unsafe.Pointer(f.UnsafeAddr())).Elem().Interface().(*concurrency.Session)
	return s
}

func (r *runner) exec(c cmd) (res string, flag string) {
	ctx := context.Background()
	ttl := time.Duration(r.k.TTL) * time.Millisecond
	switch c.Op {
	case "lock", "trylock":
		l, err := r.get(c.C)
		if err != nil {
			return "other:" + err.Error(), ""
		}
		t0 := time.Now()
		r.started[c.C] = t0
		var rctx context.Context
		if c.Op == "lock" {
			rctx, err = l.Lock(r.acquireCtx(c.C))
		} else {
			rctx, err = l.TryLock(r.acquireCtx(c.C))
		}
		if err == nil {
			r.acquired(c.C, rctx)
			r.learnLease(c.C)
		}
		x := lockErr(err)
		if r.mini != nil && x == "timeout" {
			x = "not-obtained"
		}
		if c.Op == "trylock" {
			if time.Since(t0) > 300*time.Millisecond {
				return x, "slow"
			}
			return x, ""
		}
		return x, r.waitFlag(c.C, x)
	case "lockasync":
		l, err := r.get(c.C)
		if err != nil {
			return "other:" + err.Error(), ""
		}
		ch := make(chan asyncRes, 1)
		r.asyncStart = time.Now()
		r.started[c.C] = r.asyncStart
		actx := r.acquireCtx(c.C)
		go func() {
			rctx, err := l.Lock(actx)
			ch <- asyncRes{rctx, err}
		}()
		select {
		case a := <-ch:
			if a.err == nil {
				r.acquired(c.C, a.ctx)
			}
			r.learnLease(c.C)
			x := lockErr(a.err)
			if r.mini != nil && x == "timeout" {
				x = "not-obtained"
			}
			return x, r.waitFlag(c.C, x)
		case <-time.After(150 * time.Millisecond):
			r.pending[c.C] = ch
			r.learnLease(c.C)
			return "blocked", ""
		}
	case "join":
		ch, ok := r.pending[c.C]
		if !ok {
			return "misuse", ""
		}
		delete(r.pending, c.C)
		select {
		case a := <-ch:
			if a.err == nil {
				r.acquired(c.C, a.ctx)
			}
			x := lockErr(a.err)
			if r.mini != nil && x == "timeout" {
				x = "not-obtained"
			}
			return x, r.waitFlag(c.C, x)
		case <-time.After(time.Duration(r.k.Wait)*time.Millisecond + 5*time.Second):
			return "hang", ""
		}
	case "unlock":
		l, ok := r.locks[c.C]
		if !ok {
			var err error
			if l, err = r.get(c.C); err != nil {
				return "other:" + err.Error(), ""
			}
		}
		err := l.Unlock(ctx)
		if r.mini != nil {
			switch {
			case err == nil:
				return "released", ""
			case strings.Contains(err.Error(), "lock not held"):
				return "not-held", ""
			}
			return "other:" + err.Error(), ""
		}
		if err != nil {
			return "other:" + err.Error(), ""
		}
		return "unlocked", ""
	case "ff":
		r.mini.FastForward(time.Duration(c.Dt) * time.Millisecond)
		return "advanced", ""
	case "sleep":
		time.Sleep(time.Duration(c.Dt) * time.Millisecond)
		return "slept", ""
	case "cancelctx":
		// the request that took the lock is cancelled / times out while the lock is still held
		if cancel, ok := r.acancel[c.C]; ok {
			cancel()
		}
		time.Sleep(150 * time.Millisecond) // give a (wrong) release on cancellation time to happen
		return "done", ""
	case "expire":
		// the session's keepalive stops (session orphaned: Done() fires, key and lease stay) and the
		// lease then runs out by itself
		l, ok := r.locks[c.C]
		if !ok || r.cli == nil {
			return "misuse", ""
		}
		ss := session(l)
		if ss == nil {
			return "other:no session", ""
		}
		r.revoked[c.C] = time.Now()
		r.expired[c.C] = true
		ss.Orphan()
		deadline := time.Now().Add(ttl + 6*time.Second)
		for time.Now().Before(deadline) { // until the lease is gone
			rc, cancel := context.WithTimeout(ctx, 2*time.Second)
			resp, err := r.cli.TimeToLive(rc, ss.Lease())
			cancel()
			if err == nil && resp.TTL == -1 { // the lease is gone (not merely due): its keys are deleted
				return "revoked", ""
			}
			time.Sleep(100 * time.Millisecond)
		}
		return "other:lease did not expire", ""
	case "revoke":
		id, ok := r.leases[c.C]
		if !ok {
			return "misuse", ""
		}
		rc, cancel := context.WithTimeout(ctx, 2*time.Second)
		defer cancel()
		if _, err := r.cli.Revoke(rc, id); err != nil {
			return "other:" + err.Error(), ""
		}
		r.revoked[c.C] = time.Now()
		return "revoked", ""
	case "observe":
		rctx, ok := r.ctxs[c.C]
		if !ok {
			return "ctx-none", ""
		}
		kid := r.kids[c.C]
		// promptness bound: one keepalive interval (TTL/3) + the client's 500 ms keepalive scheduling
		// granularity + slack; correctness: wait much longer before calling the context live
		bound := ttl/3 + 500*time.Millisecond + 1500*time.Millisecond
		wait := 10 * time.Second
		if r.mini != nil {
			wait = 150 * time.Millisecond
		}
		if _, lost := r.revoked[c.C]; !lost {
			wait = 150 * time.Millisecond
		}
		// what the critical section sees: Done() of the lock context and of a context derived from it
		// (Err() alone is not a signal: nobody polls it)
		closed := func(x context.Context, d time.Duration) bool {
			select {
			case <-x.Done():
				return true
			case <-time.After(d):
				return false
			}
		}
		if !closed(rctx, wait) || !closed(kid, 500*time.Millisecond) {
			return "ctx-live", ""
		}
		flag := ""
		if t, ok := r.revoked[c.C]; ok && time.Since(t) > bound && !r.expired[c.C] {
			flag = "slow"
			r.timingOff = true
		}
		if errors.Is(rctx.Err(), types.ErrLockSessionDone) {
			return "ctx-session-done", flag
		}
		return "ctx-cancelled", flag
	}
	return "misuse", ""
}

func (r *runner) run() {
	res := []string{}
	flags := []string{}
	kind, msg := hx.Guard(90*time.Second, func() {
		for _, c := range r.k.Cmds {
			r.checkLeases()
			t0 := time.Now()
			x, s := r.exec(c)
			el := time.Since(t0)
			// a call that does not wait by design but took long, or that ran into a client-side
			// deadline: the machine is too busy for this schedule's timing
			nonBlocking := c.Op == "trylock" || c.Op == "unlock" || c.Op == "ff" || c.Op == "revoke" || ((c.Op == "lock" || c.Op == "lockasync") && x == "acquired")
			if (nonBlocking && el > 300*time.Millisecond) || strings.HasPrefix(x, "other:") {
				r.timingOff = true
			}
			if r.mini != nil && len(r.pending) > 0 && c.Op != "lockasync" && c.Op != "join" && time.Since(r.asyncStart) > 400*time.Millisecond {
				r.timingOff = true
			}
			if r.mini == nil && len(r.pending) > 0 && c.Op != "lockasync" && c.Op != "join" && time.Since(r.asyncStart) > time.Duration(r.k.Wait-150)*time.Millisecond {
				r.timingOff = true // the waiter's deadline came too close while the script was still acting
			}
			if c.Op == "unlock" {
				r.unlocked[c.C] = true
			}
			r.checkLeases()
			res = append(res, x)
			flags = append(flags, s)
		}
	})
	r.k.Impl = map[string]any{"res": res, "flags": flags}
	if r.perturbed {
		r.k.Impl["perturbed"] = true
	}
	if kind != "" {
		r.k.Impl[kind] = msg
	}
	// leave nothing behind: release whatever is still held or pending
	for c, ch := range r.pending {
		select {
		case <-ch:
		case <-time.After(time.Duration(r.k.Wait)*time.Millisecond + 2*time.Second):
		}
		delete(r.pending, c)
	}
	for _, cancel := range r.cancels {
		cancel()
	}
	for _, l := range r.locks {
		ctx, cancel := context.WithTimeout(context.Background(), time.Second)
		_ = l.Unlock(ctx)
		cancel()
	}
}

// ---------------------------------------------------------------- generators
// gen builds a schedule that keeps its own view of who holds the key so that blocking calls are
// used deliberately (each costs real time), and every lock object is used for one acquisition.
func gen(r *hx.Rng, backend string, loss bool, allowSlow bool) *kase {
	k := &kase{Backend: backend, TTL: 1000, Cmds: []cmd{}}
	if backend == "etcd" {
		k.TTL = hx.Pick(r, 3000, 4000, 2700, 3400) // etcdlock.New uses the ttl as given for the wait timeout
	} else {
		k.TTL = hx.Pick(r, 1000, 1000, 2000, 2500, 1200) // incl. TTLs that are not whole seconds
	}
	k.Wait = k.TTL
	if backend == "redis" && !loss && r.Chance(25) { // lock/redis.New with wait timeout != lock TTL
		k.Wait = hx.Pick(r, k.TTL/2, k.TTL*2)
	}
	next := 0
	fresh := func() int { next++; return next - 1 }
	holder, held := -1, false // who holds in the harness's view (ignoring expiry)
	expired := false           // the holder's key/lease is gone
	add := func(op string, c, dt int) { k.Cmds = append(k.Cmds, cmd{op, c, dt}) }
	free := func() bool { return !held || expired }
	if loss {
		// a holder loses its lock (TTL elapses / lease revoked) while contenders wait or try;
		// afterwards every involved lock context is observed
		a := fresh()
		if r.Chance(25) { // some history on the key first
			h := fresh()
			add(hx.Pick(r, "lock", "trylock"), h, 0)
			add("unlock", h, 0)
		}
		add(hx.Pick(r, "lock", "lock", "trylock"), a, 0)
		if backend == "redis" && r.Chance(40) { // part of the TTL passes first
			add("ff", 0, hx.Pick(r, 100, k.TTL/2, k.TTL-1))
		}
		if r.Chance(30) { // a try-lock bounces off the live holder
			add("trylock", fresh(), 0)
		}
		viaExpiry := backend == "etcd" && r.Chance(35)
		if viaExpiry {
			k.TTL, k.Wait = 2000, 2000
		} else if backend == "etcd" && r.Chance(45) {
			// the acquiring contexts carry a deadline shorter than the lock ttl
			k.TTL, k.Wait = 4000, 4000
			k.CtxDL = 3900
		}
		lose := func() {
			if backend == "redis" {
				add("ff", 0, k.TTL+r.Intn(3)*100)
			} else if viaExpiry {
				add("expire", a, 0) // keepalive stops, the lease runs out by itself
			} else {
				add("revoke", a, 0)
			}
		}
		b := fresh()
		pick := r.Intn(4)
		if viaExpiry && pick >= 2 {
			pick = 0 // a waiter's timeout (= ttl) would race with the expiry; let the contender come afterwards
		}
		switch pick {
		case 0: // contender arrives after the loss
			lose()
			add(hx.Pick(r, "trylock", "lock"), b, 0)
		case 1: // holder observed before anybody else comes
			lose()
			add("observe", a, 0)
			add("trylock", b, 0)
		default: // contender blocked in Lock across the loss
			add("lockasync", b, 0)
			lose()
			add("join", b, 0)
		}
		add("observe", a, 0)
		add("observe", b, 0)
		if r.Chance(40) { // a third client bounces off the new holder
			add("trylock", fresh(), 0)
		}
		switch r.Intn(3) {
		case 0:
			add("unlock", a, 0) // the old holder's late unlock must not free the new holder's lock
			if r.Chance(50) {
				add("trylock", fresh(), 0)
			}
			add("unlock", b, 0)
		case 1:
			add("unlock", b, 0)
			add("unlock", a, 0)
		default:
			add("unlock", b, 0)
		}
		if r.Chance(30) {
			add("observe", b, 0) // after a normal unlock the context is not cancelled with an error
		}
		k.Clients = next
		return k
	}
	steps := r.Range(3, 9)
	slowBudget := 0
	if allowSlow {
		slowBudget = 1
	}
	for i := 0; i < steps && next < 7; i++ {
		switch x := r.Intn(100); {
		case x < 26: // lock: on a free key, or (rarely) blocking on a held one
			if free() {
				c := fresh()
				add("lock", c, 0)
				holder, held, expired = c, true, false
			} else if slowBudget > 0 {
				slowBudget--
				add("lock", fresh(), 0)
			} else {
				add("trylock", fresh(), 0)
			}
		case x < 38 && held && !expired:
			// the request that took the lock ends; the lock stays until Unlock
			add("cancelctx", holder, 0)
			add("trylock", fresh(), 0)
		case x < 50:
			c := fresh()
			add("trylock", c, 0)
			if free() {
				holder, held, expired = c, true, false
			}
		case x < 72:
			if held {
				add("unlock", holder, 0)
				held, expired = false, false
			} else if backend == "redis" {
				add("unlock", fresh(), 0) // unlock of a lock that was never taken
			}
		case x < 84 && backend == "redis":
			dt := hx.Pick(r, 100, k.TTL/2, k.TTL-1, k.TTL, k.TTL+1)
			if k.TTL%1000 != 0 && r.Chance(60) { // inside the last fraction of a second of the lease
				dt = hx.Pick(r, k.TTL/1000*1000, k.TTL/1000*1000+(k.TTL%1000)/2, k.TTL/1000*1000+1)
			}
			if k.Wait != k.TTL { // the instants at which a confusion of the two durations shows
				dt = hx.Pick(r, k.Wait, k.Wait+1, k.TTL-1, k.TTL, k.TTL+1, k.Wait-1)
			}
			add("ff", 0, dt)
			if dt >= k.TTL {
				expired = true
			} else if held && !expired && r.Chance(50) { // a second partial advance may cross the TTL
				add("ff", 0, k.TTL-dt)
				expired = true
			}
		default: // controlled overlap: a waiter blocked in Lock while the holder releases / stays
			if held && !expired && slowBudget >= 0 {
				w := fresh()
				add("lockasync", w, 0)
				switch r.Intn(4) {
				case 0: // holder releases: waiter acquires
					if backend == "etcd" && k.TTL%1000 != 0 && allowSlow {
						// ... inside the last fraction of a second of the waiter's timeout
						add("sleep", 0, fracSleep(k.TTL))
					}
					add("unlock", holder, 0)
					add("join", w, 0)
					holder, held, expired = w, true, false
				case 1: // a try-lock sneaks in while the waiter sleeps between retries (redis) / queues behind (etcd)
					add("unlock", holder, 0)
					t := fresh()
					add("trylock", t, 0)
					add("join", w, 0)
					if backend == "redis" {
						holder = t
					} else {
						holder = w
					}
					held, expired = true, false
				case 2: // TTL elapses (redis) / holder keeps the lock (etcd: waiter times out)
					if backend == "redis" {
						add("ff", 0, k.TTL)
						add("join", w, 0)
						add("unlock", holder, 0) // the old holder's late unlock must not free the new holder's key
						holder, held, expired = w, true, false
					} else if allowSlow {
						add("join", w, 0)
					} else {
						add("unlock", holder, 0)
						add("join", w, 0)
						holder, held, expired = w, true, false
					}
				default: // waiter runs into its deadline
					if allowSlow {
						add("join", w, 0)
					} else {
						add("unlock", holder, 0)
						add("join", w, 0)
						holder, held, expired = w, true, false
					}
				}
			}
		}
	}
	if held && r.Chance(70) {
		add("unlock", holder, 0)
	}
	k.Clients = next
	return k
}

// fracSleep: how long to sleep after a lockasync (which itself takes 150 ms) so that the next command
// runs shortly after the last whole second of a fractional wait timeout and well before its end
func fracSleep(ttl int) int {
	frac := ttl % 1000
	d := frac / 3
	if d > 150 {
		d = 150
	}
	return ttl/1000*1000 + d - 150
}

func corpus() []*kase {
	burner := &kase{Backend: "redis", TTL: 4000, Wait: 4000, Clients: 9, Cmds: []cmd{{"lock", 0, 0}}}
	for c := 1; c <= 8; c++ { // 8 waiters x 8 retry decisions: any process-wide retry budget below that shows in the next case
		burner.Cmds = append(burner.Cmds, cmd{"lockasync", c, 0})
	}
	for c := 1; c <= 8; c++ {
		burner.Cmds = append(burner.Cmds, cmd{"join", c, 0})
	}
	burner.Cmds = append(burner.Cmds, cmd{"unlock", 0, 0})
	return []*kase{
		burner,
		{Backend: "redis", TTL: 2000, Wait: 2000, Clients: 2, Cmds: []cmd{{"lock", 0, 0}, {"lockasync", 1, 0}, {"unlock", 0, 0}, {"join", 1, 0}, {"unlock", 1, 0}}},
		// wait timeout != lock TTL, both orders
		{Backend: "redis", TTL: 2000, Wait: 1000, Clients: 3, Cmds: []cmd{{"lock", 0, 0}, {"ff", 0, 1000}, {"trylock", 1, 0}, {"ff", 0, 1000}, {"trylock", 2, 0}, {"unlock", 2, 0}}},
		{Backend: "redis", TTL: 1000, Wait: 2000, Clients: 3, Cmds: []cmd{{"lock", 0, 0}, {"ff", 0, 1000}, {"trylock", 1, 0}, {"unlock", 1, 0}}},
		// TTLs that are not whole seconds: a contender inside the last fraction must be refused
		{Backend: "redis", TTL: 2500, Wait: 2500, Clients: 3, Cmds: []cmd{{"lock", 0, 0}, {"ff", 0, 2250}, {"trylock", 1, 0}, {"ff", 0, 250}, {"trylock", 2, 0}, {"unlock", 2, 0}}},
		{Backend: "redis", TTL: 1200, Wait: 1200, Clients: 2, Cmds: []cmd{{"trylock", 0, 0}, {"ff", 0, 1100}, {"trylock", 1, 0}, {"unlock", 0, 0}}},
		// the acquiring context ends while the lock is held: not a release
		{Backend: "etcd", TTL: 3000, Wait: 3000, Clients: 3, Cmds: []cmd{{"lock", 0, 0}, {"cancelctx", 0, 0}, {"trylock", 1, 0}, {"unlock", 0, 0}, {"trylock", 2, 0}, {"unlock", 2, 0}}},
		{Backend: "etcd", TTL: 3000, Wait: 3000, Clients: 2, Cmds: []cmd{{"trylock", 0, 0}, {"cancelctx", 0, 0}, {"trylock", 1, 0}, {"unlock", 0, 0}}},
		{Backend: "redis", TTL: 1000, Wait: 1000, Clients: 2, Cmds: []cmd{{"lock", 0, 0}, {"cancelctx", 0, 0}, {"trylock", 1, 0}, {"unlock", 0, 0}}},
		// loss by expiry after the keepalive stopped; loss under an acquiring context with a short deadline
		{Backend: "etcd", TTL: 2000, Wait: 2000, Clients: 2, Cmds: []cmd{{"lock", 0, 0}, {"expire", 0, 0}, {"lock", 1, 0}, {"observe", 0, 0}, {"observe", 1, 0}, {"unlock", 1, 0}, {"unlock", 0, 0}}},
		{Backend: "etcd", TTL: 4000, Wait: 4000, CtxDL: 3900, Clients: 2, Cmds: []cmd{{"lock", 0, 0}, {"lockasync", 1, 0}, {"revoke", 0, 0}, {"join", 1, 0}, {"observe", 0, 0}, {"unlock", 1, 0}, {"unlock", 0, 0}}},
		// etcd wait timeouts with a fractional second: release inside the fraction; sub-second timeout
		{Backend: "etcd", TTL: 2700, Wait: 2700, Clients: 2, Cmds: []cmd{{"lock", 0, 0}, {"lockasync", 1, 0}, {"sleep", 0, fracSleep(2700)}, {"unlock", 0, 0}, {"join", 1, 0}, {"unlock", 1, 0}}},
		{Backend: "etcd", TTL: 300, Wait: 300, Clients: 2, Cmds: []cmd{{"lock", 0, 0}, {"lockasync", 1, 0}, {"join", 1, 0}, {"unlock", 0, 0}}},
		// D15: redis holder is not told about TTL expiry while a second client acquires
		{Backend: "redis", TTL: 1000, Wait: 1000, Clients: 2, Cmds: []cmd{{"lock", 0, 0}, {"lockasync", 1, 0}, {"ff", 0, 1000}, {"join", 1, 0}, {"observe", 0, 0}, {"unlock", 0, 0}, {"unlock", 1, 0}}},
		{Backend: "redis", TTL: 1000, Wait: 1000, Clients: 3, Cmds: []cmd{{"lock", 0, 0}, {"trylock", 1, 0}, {"unlock", 0, 0}, {"trylock", 2, 0}, {"unlock", 2, 0}}},
		{Backend: "etcd", TTL: 2000, Wait: 2000, Clients: 3, Cmds: []cmd{{"lock", 0, 0}, {"trylock", 1, 0}, {"lockasync", 2, 0}, {"unlock", 0, 0}, {"join", 2, 0}, {"unlock", 2, 0}}},
		{Backend: "etcd", TTL: 2000, Wait: 2000, Clients: 2, Cmds: []cmd{{"lock", 0, 0}, {"lockasync", 1, 0}, {"revoke", 0, 0}, {"join", 1, 0}, {"observe", 0, 0}, {"observe", 1, 0}, {"unlock", 0, 0}, {"unlock", 1, 0}}},
	}
}

func isLoss(k *kase) bool {
	if k.Kind == "multikey" {
		return true
	}
	for _, c := range k.Cmds {
		if c.Op == "observe" || c.Op == "revoke" || c.Op == "expire" {
			return true
		}
	}
	return false
}

func TestGen(t *testing.T) {
	seed := hx.Seed()
	r := hx.NewRng(seed)
	n := hx.EnvInt("VERIF_CASES", 120)
	prop := os.Getenv("VERIF_PROPERTY")
	wantLoss := prop == "C19"
	out := hx.OpenOut()
	defer out.Close()

	// etcd: the embedded cluster and the real meta.ETCD (CreateLock as the etcd store does)
	ecfg := types.EtcdConfig{Prefix: etcdPrefix, LockPrefix: etcdLockPrefix}
	etcd, err := meta.NewETCD(ecfg, t)
	if err != nil {
		t.Fatal(err)
	}
	ecli := embedded.NewCluster(t, etcdPrefix).RandClient()

	cases := []*kase{}
	nFixed := 0
	mk := &multiEnv{}
	if rp := os.Getenv("VERIF_REPLAY"); rp != "" {
		f, err := os.Open(rp)
		if err != nil {
			t.Fatal(err)
		}
		defer f.Close()
		sc := bufio.NewScanner(f)
		sc.Buffer(make([]byte, 1<<20), 1<<26)
		for sc.Scan() {
			k := &kase{}
			if json.Unmarshal(sc.Bytes(), k) == nil && k.Backend != "" {
				cases = append(cases, k)
			}
		}
		nFixed = len(cases)
	} else {
		for _, k := range corpus() {
			if isLoss(k) == wantLoss {
				cases = append(cases, k)
			}
		}
		if wantLoss { // loss of one of several locks held by with*Locked (real Calcium, real etcd locks)
			for i := 0; i < 6; i++ {
				nk := 2 + i%2
				cases = append(cases, &kase{Backend: "etcd", Kind: "multikey", Helper: []string{"pod", "nodeop"}[i/2%2], NKeys: nk, Lose: (i + i/3) % nk, TTL: 3000, Wait: 3000, Cmds: []cmd{}})
			}
		}
		nFixed = len(cases)
		etcdQuota := n / 8 // etcd schedules run in real time (lease granularity is seconds)
		if etcdQuota < 4 {
			etcdQuota = 4
		}
		slowQuota := n / 10
		for i := 0; i < n; i++ {
			backend := "redis"
			if i%8 == 7 && etcdQuota > 0 {
				backend = "etcd"
				etcdQuota--
			}
			allowSlow := false
			if (backend == "etcd" || i%5 == 0) && slowQuota > 0 {
				allowSlow = true
				slowQuota--
			}
			cases = append(cases, gen(r, backend, wantLoss, allowSlow))
		}
	}
	for i, k := range cases {
		k.ID = fmt.Sprintf("s%d-%d", seed, i)
		k.Impl = nil
	}

	// one execution of a schedule; reports whether it should be re-run (environment perturbation)
	runOnce := func(i int, k *kase, attempt int, last bool) bool {
		rn := &runner{k: k, key: fmt.Sprintf("k%d_%d_%d", seed, i, attempt), locks: map[int]lock.DistributedLock{}, ctxs: map[int]context.Context{},
			kids: map[int]context.Context{}, started: map[int]time.Time{}, expired: map[int]bool{},
			actx: map[int]context.Context{}, acancel: map[int]context.CancelFunc{},
			pending: map[int]chan asyncRes{}, leases: map[int]clientv3.LeaseID{}, seen: map[clientv3.LeaseID]bool{}, revoked: map[int]time.Time{},
			unlocked: map[int]bool{}}
		if k.Backend == "redis" {
			m, err := miniredis.Run()
			if err != nil {
				k.Impl = map[string]any{"setup": err.Error()}
				return false
			}
			defer m.Close()
			st, err := redisstore.New(types.Config{MaxConcurrency: 10, Store: types.Redis, Redis: types.RedisConfig{Addr: m.Addr(), LockPrefix: "/lock"}}, t)
			if err != nil {
				k.Impl = map[string]any{"setup": err.Error()}
				return false
			}
			rn.mini, rn.mk = m, st.CreateLock
			rn.rcli = goredis.NewClient(&goredis.Options{Addr: m.Addr()})
			defer rn.rcli.Close()
		} else {
			rn.cli, rn.mk = ecli, etcd.CreateLock
		}
		rn.run()
		if last {
			if rn.timingOff && !rn.perturbed {
				k.Impl["timing_off"] = true
			}
			return false
		}
		return rn.perturbed || rn.timingOff
	}
	// schedules are independent (own miniredis / own etcd lock key): first pass on a worker pool,
	// then the perturbed ones again, one at a time (less load), at most twice
	var wg sync.WaitGroup
	var mu sync.Mutex
	retry := []int{}
	sem := make(chan struct{}, 8)
	for i, k := range cases {
		if k.Wait == 0 {
			k.Wait = k.TTL
		}
		if i < nFixed { // the fixed corpus runs first, in order, alone (its cases build on each other)
			if k.Kind == "multikey" {
				runMultiKey(t, mk, k)
			} else if runOnce(i, k, 0, false) && runOnce(i, k, 1, false) {
				runOnce(i, k, 2, true)
			}
			continue
		}
		wg.Add(1)
		sem <- struct{}{}
		go func(i int, k *kase) {
			defer wg.Done()
			defer func() { <-sem }()
			if runOnce(i, k, 0, false) {
				mu.Lock()
				retry = append(retry, i)
				mu.Unlock()
			}
		}(i, k)
	}
	wg.Wait()
	for _, i := range retry {
		if runOnce(i, cases[i], 1, false) {
			runOnce(i, cases[i], 2, true)
		}
	}
	for _, k := range cases {
		out.Emit(k)
	}
}

// ---------------------------------------------------------------- several locks held at once (C19)
type multiEnv struct {
	cal *calcium.Calcium
	n   int
}

// runMultiKey: with{NodesPod,NodesOperation}Locked over NKeys keys on real etcd locks; inside the
// callback the lease of the Lose-th lock (acquisition order) is revoked and the callback's context
// (and a child of it) is observed.
func runMultiKey(t *testing.T, m *multiEnv, k *kase) {
	ctx := context.Background()
	if m.cal == nil {
		cfg := types.Config{
			LockTimeout: 3 * time.Second, GlobalTimeout: 30 * time.Second, MaxConcurrency: 1000,
			WALFile: t.TempDir() + "/wal", ConnectionTimeout: 2 * time.Second,
			Etcd:      types.EtcdConfig{Prefix: etcdPrefix, LockPrefix: etcdLockPrefix},
			Scheduler: types.SchedulerConfig{MaxShare: -1, ShareBase: 100},
		}
		enginefactory.InitEngineCache(ctx, cfg, nil)
		c, err := calcium.New(ctx, cfg, t)
		if err != nil {
			k.Impl = map[string]any{"setup": err.Error()}
			return
		}
		m.cal = c
	}
	m.n++
	st := m.cal.GetStore()
	cli := embedded.NewCluster(t, etcdPrefix).RandClient()
	names := []string{}
	keys := []string{}
	for i := 0; i < k.NKeys; i++ {
		pod := fmt.Sprintf("mk%dp", m.n)
		if k.Helper == "pod" {
			pod = fmt.Sprintf("mk%dp%d", m.n, i)
		}
		node := fmt.Sprintf("mk%dn%d", m.n, i)
		if i == 0 || k.Helper == "pod" {
			if _, err := st.AddPod(ctx, pod, ""); err != nil {
				k.Impl = map[string]any{"setup": err.Error()}
				return
			}
		}
		if _, err := st.AddNode(ctx, &types.AddNodeOptions{Nodename: node, Endpoint: "mock://" + node, Podname: pod}); err != nil {
			k.Impl = map[string]any{"setup": err.Error()}
			return
		}
		names = append(names, node)
		if k.Helper == "pod" {
			keys = append(keys, "plock_"+pod)
		} else {
			keys = append(keys, "cnode_op_"+pod+"_"+node)
		}
	}
	res, flag := "not-run", ""
	f := func(fctx context.Context, _ map[string]*types.Node) error {
		kid, cancel := context.WithCancel(fctx)
		defer cancel()
		rc, rcancel := context.WithTimeout(ctx, 3*time.Second)
		defer rcancel()
		resp, err := cli.Get(rc, "/"+etcdLockPrefix+"/"+keys[k.Lose]+"/", clientv3.WithPrefix())
		if err != nil || len(resp.Kvs) != 1 {
			res = fmt.Sprintf("other:lease lookup %v %d", err, len(resp.Kvs))
			return nil
		}
		if _, err := cli.Revoke(rc, clientv3.LeaseID(resp.Kvs[0].Lease)); err != nil {
			res = "other:" + err.Error()
			return nil
		}
		t0 := time.Now()
		select {
		case <-kid.Done():
			res = "ctx-cancelled"
			if errors.Is(fctx.Err(), types.ErrLockSessionDone) {
				res = "ctx-session-done"
			}
			if time.Since(t0) > 3*time.Second {
				flag = "slow"
			}
		case <-time.After(10 * time.Second):
			res = "ctx-live"
		}
		return nil
	}
	nf := &types.NodeFilter{Includes: names, All: true}
	var err error
	kind, msg := hx.Guard(60*time.Second, func() {
		if k.Helper == "pod" {
			err = m.cal.VerifLockWithNodesPodLocked(ctx, nf, f)
		} else {
			err = m.cal.VerifLockWithNodesOperationLocked(ctx, nf, f)
		}
	})
	k.Impl = map[string]any{"res": []string{res}, "flags": []string{flag}}
	if err != nil {
		k.Impl["err"] = err.Error()
	}
	if kind != "" {
		k.Impl[kind] = msg
	}
}
