// Correspondence harness for C24: real utils.MakeWorkloadName / ParseWorkloadName, real
// filepath.Join, and the real store key builders + queries (ListWorkloads, GetDeployStatus)
// of store/etcdv3 (embedded etcd) and store/redis (miniredis) on generated small worlds.
package miscnames

import (
	"bufio"
	"context"
	"encoding/json"
	"fmt"
	"os"
	"path/filepath"
	"sort"
	"testing"
	"time"

	"verifharness/hx"

	"github.com/alicebob/miniredis/v2"

	enginefactory "github.com/projecteru2/core/engine/factory"
	"github.com/projecteru2/core/store"
	"github.com/projecteru2/core/store/etcdv3"
	"github.com/projecteru2/core/store/redis"
	"github.com/projecteru2/core/types"
	"github.com/projecteru2/core/utils"
)

type wl struct {
	App   string `json:"app"`
	Entry string `json:"entry"`
	Node  string `json:"node"`
	ID    string `json:"id"`
	Sfx   string `json:"sfx"`
}

type query struct {
	Kind  string `json:"kind"` // list | count
	App   string `json:"app"`
	Entry string `json:"entry"`
	Node  string `json:"node"`
}

type kase struct {
	ID      string   `json:"id"`
	Op      string   `json:"op"` // parse | join | world
	Backend string   `json:"backend,omitempty"`
	Name    string   `json:"name,omitempty"`  // parse: raw name
	Elems   []string `json:"elems,omitempty"` // join
	World   []wl     `json:"world,omitempty"`
	Queries []query  `json:"queries,omitempty"`
	Impl    any      `json:"impl,omitempty"`
}

var (
	etcdStore  store.Store
	redisStore store.Store
	mini       *miniredis.Miniredis
)

func setup(t *testing.T) {
	cfg := types.Config{}
	cfg.LockTimeout = 10 * time.Second
	cfg.GlobalTimeout = 30 * time.Second
	cfg.Etcd = types.EtcdConfig{Machines: []string{"127.0.0.1:2379"}, Prefix: "/eru-verif", LockPrefix: "/eru-verif-lock"}
	cfg.MaxConcurrency = 1000
	ctx, cancel := context.WithCancel(context.Background())
	defer cancel()
	enginefactory.InitEngineCache(ctx, cfg, nil)
	m, err := etcdv3.New(cfg, t)
	if err != nil {
		t.Fatal(err)
	}
	etcdStore = m
	mini, err = miniredis.Run()
	if err != nil {
		t.Fatal(err)
	}
	cfg.Redis.Addr = mini.Addr()
	r, err := redis.New(cfg, nil)
	if err != nil {
		t.Fatal(err)
	}
	redisStore = r
}

type listRes struct {
	IDs []string `json:"ids,omitempty"`
	Err string   `json:"err,omitempty"`
}
type countRes struct {
	Counts map[string]int `json:"counts,omitempty"`
	Err    string         `json:"err,omitempty"`
}

func runWorld(k *kase) {
	st := etcdStore
	if k.Backend == "redis" {
		st = redisStore
	}
	ctx := context.Background()
	res := map[string]any{}
	st.AddPod(ctx, "pod", "") //nolint
	added := []*types.Workload{}
	addErrs := []string{}
	for _, w := range k.World {
		st.AddNode(ctx, &types.AddNodeOptions{Nodename: w.Node, Endpoint: "mock://" + w.ID, Podname: "pod", Test: true}) //nolint
		wk := &types.Workload{ID: w.ID, Name: utils.MakeWorkloadName(w.App, w.Entry, w.Sfx), Nodename: w.Node, Podname: "pod"}
		if err := st.AddWorkload(ctx, wk, nil); err != nil {
			addErrs = append(addErrs, w.ID)
			continue
		}
		added = append(added, wk)
	}
	qr := []any{}
	for _, q := range k.Queries {
		switch q.Kind {
		case "list":
			ws, err := st.ListWorkloads(ctx, q.App, q.Entry, q.Node, 0, nil)
			r := listRes{}
			if err != nil {
				r.Err = "error"
			} else {
				r.IDs = []string{}
				for _, w := range ws {
					r.IDs = append(r.IDs, w.ID)
				}
				sort.Strings(r.IDs)
			}
			qr = append(qr, r)
		default:
			c, err := st.GetDeployStatus(ctx, q.App, q.Entry)
			r := countRes{}
			if err != nil {
				r.Err = "error"
			} else {
				r.Counts = c
			}
			qr = append(qr, r)
		}
	}
	for _, wk := range added {
		st.RemoveWorkload(ctx, wk) //nolint
	}
	if k.Backend == "redis" {
		mini.FlushAll()
	}
	sort.Strings(addErrs)
	res["add_errs"] = addErrs
	res["results"] = qr
	k.Impl = res
}

func run(k *kase) {
	kind, msg := hx.Guard(20*time.Second, func() {
		switch k.Op {
		case "parse":
			a, e, i, err := utils.ParseWorkloadName(k.Name)
			if err != nil {
				k.Impl = map[string]any{"err": "invalid-name"}
			} else {
				k.Impl = map[string]any{"app": a, "entry": e, "ident": i}
			}
		case "roundtrip":
			w := k.World[0]
			a, e, i, err := utils.ParseWorkloadName(utils.MakeWorkloadName(w.App, w.Entry, w.Sfx))
			if err != nil {
				k.Impl = map[string]any{"err": "invalid-name"}
			} else {
				k.Impl = map[string]any{"app": a, "entry": e, "ident": i}
			}
		case "join":
			k.Impl = map[string]any{"path": filepath.Join(k.Elems...)}
		case "world":
			runWorld(k)
		}
	})
	if kind != "" {
		k.Impl = map[string]any{kind: msg}
	}
}

// name pools: plain names, names with the separators the API accepts, path-like and glob-like names
var plain = []string{"a", "b", "app", "web", "a1", "zz"}
var seps = []string{"a_b", "a_", "_a", "a-b", "a.b", "a b", "b_a_b", "a__b"}
var pathy = []string{"a/b", "/a", "a/", "/", ".", "..", "a/..", "a/../b", "a//b", "./a", "b/a"}
var globby = []string{"a*", "*", "?", "a?", "[ab]", "a[", "a\\", "\\a", "[a-c]", "[^a]", "a]"}
var suffixes = []string{"abcdef", "QWERTY", "zzzzzz"}

func pickName(r *hx.Rng, cls int, entry bool) string {
	var s string
	switch cls {
	case 0:
		s = hx.Pick(r, plain...)
	case 1:
		s = hx.Pick(r, append(append([]string{}, plain...), seps...)...)
	case 2:
		s = hx.Pick(r, append(append([]string{}, plain...), pathy...)...)
	default:
		s = hx.Pick(r, append(append([]string{}, plain...), globby...)...)
	}
	if entry { // Entrypoint.Validate rejects '_'
		for i := 0; i < 8 && containsUS(s); i++ {
			s = hx.Pick(r, plain...)
		}
	}
	return s
}

func containsUS(s string) bool {
	for _, c := range s {
		if c == '_' {
			return true
		}
	}
	return false
}

func genWorld(r *hx.Rng, i int) *kase {
	k := &kase{ID: fmt.Sprintf("w%d", i), Op: "world", Backend: hx.Pick(r, "etcd", "redis")}
	cls := hx.Pick(r, 0, 1, 1, 1, 2, 3)
	if k.Backend == "etcd" && cls == 3 {
		cls = 1
	}
	n := r.Range(1, 5)
	names := map[string]bool{"": true}
	for j := 0; j < n; j++ {
		w := wl{App: pickName(r, cls, false), Entry: pickName(r, cls, true), Node: pickName(r, cls, false),
			ID: fmt.Sprintf("id%02d", j), Sfx: hx.Pick(r, suffixes...)}
		if j > 0 && r.Chance(50) { // share parts with an earlier workload
			p := k.World[r.Intn(j)]
			switch r.Intn(3) {
			case 0:
				w.App = p.App
			case 1:
				w.App, w.Entry = p.App, p.Entry
			default:
				w.Node = p.Node
			}
		}
		k.World = append(k.World, w)
		names[w.App], names[w.Entry], names[w.Node] = true, true, true
	}
	pool := []string{}
	for s := range names {
		pool = append(pool, s)
	}
	sort.Strings(pool)
	pool = append(pool, "nosuch")
	// queries: the exact coordinates of every workload at every depth, plus random mixes
	for _, w := range k.World {
		k.Queries = append(k.Queries,
			query{Kind: "list", App: w.App}, query{Kind: "list", App: w.App, Entry: w.Entry},
			query{Kind: "list", App: w.App, Entry: w.Entry, Node: w.Node}, query{Kind: "count", App: w.App, Entry: w.Entry})
	}
	k.Queries = append(k.Queries, query{Kind: "list"})
	for j := 0; j < 4; j++ {
		k.Queries = append(k.Queries, query{Kind: hx.Pick(r, "list", "list", "count"), App: hx.Pick(r, pool...), Entry: hx.Pick(r, pool...), Node: hx.Pick(r, pool...)})
	}
	for j := range k.Queries {
		if k.Queries[j].Kind == "count" {
			k.Queries[j].Node = ""
			if k.Queries[j].App == "" || k.Queries[j].Entry == "" { // GetDeployStatus is only called with both names
				k.Queries[j].App, k.Queries[j].Entry = k.World[0].App, k.World[0].Entry
			}
		}
	}
	return k
}

func corpus() []*kase {
	w := func(a, e, n, id string) wl { return wl{App: a, Entry: e, Node: n, ID: id, Sfx: "abcdef"} }
	return []*kase{
		{ID: "c-parse-leading-slash", Op: "roundtrip", World: []wl{w("/a", "e", "n", "id00")}},
		{ID: "c-parse-us", Op: "roundtrip", World: []wl{w("a_b", "e", "n", "id00")}},
		{ID: "c-join", Op: "join", Elems: []string{"/deploy", "a/..", "", ".", "x"}},
		{ID: "c-slash-collision", Op: "world", Backend: "etcd", World: []wl{w("a/b", "c", "n", "id00"), w("a", "b", "n", "id01")},
			Queries: []query{{Kind: "list", App: "a", Entry: "b"}, {Kind: "list", App: "a"}, {Kind: "count", App: "a", Entry: "b"}}},
		{ID: "c-dot", Op: "world", Backend: "etcd", World: []wl{w(".", "c", "n", "id00"), w("c", "n", "m", "id01")},
			Queries: []query{{Kind: "list", App: "c"}, {Kind: "list", App: "."}}},
		{ID: "c-glob", Op: "world", Backend: "redis", World: []wl{w("a", "e", "n", "id00"), w("b", "e", "n", "id01")},
			Queries: []query{{Kind: "list", App: "*"}, {Kind: "list", App: "?", Entry: "e"}, {Kind: "count", App: "[ab]", Entry: "e"}}},
		{ID: "c-underscore", Op: "world", Backend: "redis", World: []wl{w("a_b", "c", "n", "id00"), w("a", "c", "n", "id01")},
			Queries: []query{{Kind: "list", App: "a"}, {Kind: "list", App: "a_b"}, {Kind: "count", App: "a", Entry: "c"}}},
	}
}

func genCase(r *hx.Rng, i int) *kase {
	switch r.Intn(10) {
	case 0:
		cls := r.Intn(4)
		return &kase{ID: fmt.Sprintf("p%d", i), Op: "roundtrip", World: []wl{{App: pickName(r, cls, false), Entry: pickName(r, cls, true), Node: "n", ID: "id00", Sfx: hx.Pick(r, suffixes...)}}}
	case 1:
		parts := []string{"a", "b", "", "_", "__", "/", "/a", "a_b", "x"}
		s := ""
		for j := r.Range(0, 5); j > 0; j-- {
			s += hx.Pick(r, parts...) + hx.Pick(r, "_", "_", "")
		}
		return &kase{ID: fmt.Sprintf("p%d", i), Op: "parse", Name: s}
	case 2:
		all := append(append(append([]string{"", "/deploy", "/status"}, plain...), pathy...), seps...)
		n := r.Range(0, 5)
		el := []string{}
		for j := 0; j < n; j++ {
			el = append(el, hx.Pick(r, all...))
		}
		return &kase{ID: fmt.Sprintf("j%d", i), Op: "join", Elems: el}
	default:
		return genWorld(r, i)
	}
}

func TestGen(t *testing.T) {
	setup(t)
	out := hx.OpenOut()
	defer out.Close()
	if rp := os.Getenv("VERIF_REPLAY"); rp != "" {
		f, err := os.Open(rp)
		if err != nil {
			t.Fatal(err)
		}
		defer f.Close()
		sc := bufio.NewScanner(f)
		sc.Buffer(make([]byte, 1<<20), 1<<26)
		for sc.Scan() {
			k := &kase{}
			if json.Unmarshal(sc.Bytes(), k) != nil {
				continue
			}
			k.Impl = nil
			run(k)
			out.Emit(k)
		}
		return
	}
	r := hx.NewRng(hx.Seed())
	n := hx.EnvInt("VERIF_CASES", 300)
	for _, k := range corpus() {
		run(k)
		out.Emit(k)
	}
	for i := 0; out.N < n; i++ {
		k := genCase(r, i)
		run(k)
		out.Emit(k)
	}
}
