// Correspondence harness for C24: real utils.MakeWorkloadName / ParseWorkloadName, real
// filepath.Join, and the real store key builders + queries (ListWorkloads, GetDeployStatus)
// of store/etcdv3 (embedded etcd) and store/redis (miniredis) on generated small worlds.
package miscnames

import (
	"bufio"
	"context"
	"encoding/json"
	"fmt"
	"os"
	"path/filepath"
	"regexp"
	"sort"
	"strings"
	"sync"
	"testing"
	"time"

	"verifharness/hx"

	"github.com/alicebob/miniredis/v2"

	enginefactory "github.com/projecteru2/core/engine/factory"
	"github.com/projecteru2/core/store"
	"github.com/projecteru2/core/store/etcdv3"
	"github.com/projecteru2/core/store/redis"
	"github.com/projecteru2/core/types"
	"github.com/projecteru2/core/utils"
)

type wl struct {
	App   string `json:"app"`
	Entry string `json:"entry"`
	Node  string `json:"node"`
	ID    string `json:"id"`
	Sfx   string `json:"sfx"`
	Color string `json:"color,omitempty"` // label color=<Color>
}

type query struct {
	Kind  string `json:"kind"` // list | count | stream
	App   string `json:"app"`
	Entry string `json:"entry"`
	Node  string `json:"node"`
	Limit int64  `json:"limit,omitempty"` // list only
	Label string `json:"label,omitempty"` // list/stream: require label color=<Label>
}

// proc is an in-flight deployment marker (Store.CreateProcessing)
type proc struct {
	App   string `json:"app"`
	Entry string `json:"entry"`
	Node  string `json:"node"`
	Ident string `json:"ident"`
	Count int    `json:"count"`
}

type kase struct {
	ID      string   `json:"id"`
	Op      string   `json:"op"`          // parse | roundtrip | join | world | suffix
	N       int      `json:"n,omitempty"` // suffix: number of names generated as create.go does
	Backend string   `json:"backend,omitempty"`
	Name    string   `json:"name,omitempty"`  // parse: raw name
	Elems   []string `json:"elems,omitempty"` // join
	World   []wl     `json:"world,omitempty"`
	Procs   []proc   `json:"procs,omitempty"`
	Queries []query  `json:"queries,omitempty"`
	Impl    any      `json:"impl,omitempty"`
}

var (
	etcdStore  store.Store
	redisStore store.Store
	mini       *miniredis.Miniredis
)

func setup(t *testing.T) {
	cfg := types.Config{}
	cfg.LockTimeout = 10 * time.Second
	cfg.GlobalTimeout = 30 * time.Second
	cfg.Etcd = types.EtcdConfig{Machines: []string{"127.0.0.1:2379"}, Prefix: "/eru-verif", LockPrefix: "/eru-verif-lock"}
	cfg.MaxConcurrency = 1000
	ctx, cancel := context.WithCancel(context.Background())
	defer cancel()
	enginefactory.InitEngineCache(ctx, cfg, nil)
	m, err := etcdv3.New(cfg, t)
	if err != nil {
		t.Fatal(err)
	}
	etcdStore = m
	mini, err = miniredis.Run()
	if err != nil {
		t.Fatal(err)
	}
	cfg.Redis.Addr = mini.Addr()
	r, err := redis.New(cfg, nil)
	if err != nil {
		t.Fatal(err)
	}
	redisStore = r
}

type streamRes struct {
	Stream []string `json:"stream"` // ids of the workloads whose status change was delivered
}
type listRes struct {
	IDs []string `json:"ids,omitempty"`
	Err string   `json:"err,omitempty"`
}
type countRes struct {
	Counts map[string]int `json:"counts,omitempty"`
	Err    string         `json:"err,omitempty"`
}

func labelsOf(color string) map[string]string {
	if color == "" {
		return nil
	}
	return map[string]string{"color": color}
}

// collector of one WorkloadStatusStream
type collector struct {
	mu  sync.Mutex
	ids map[string]bool
}

func (c *collector) snapshot() []string {
	c.mu.Lock()
	defer c.mu.Unlock()
	out := []string{}
	for id := range c.ids {
		out = append(out, id)
	}
	sort.Strings(out)
	return out
}

func runWorld(k *kase) {
	st := etcdStore
	if k.Backend == "redis" {
		st = redisStore
	}
	ctx := context.Background()
	res := map[string]any{}
	st.AddPod(ctx, "pod", "") //nolint
	added := []*types.Workload{}
	addErrs := []string{}
	for _, w := range k.World {
		st.AddNode(ctx, &types.AddNodeOptions{Nodename: w.Node, Endpoint: "mock://" + w.ID, Podname: "pod", Test: true}) //nolint
		wk := &types.Workload{ID: w.ID, Name: utils.MakeWorkloadName(w.App, w.Entry, w.Sfx), Nodename: w.Node, Podname: "pod", Labels: labelsOf(w.Color)}
		if err := st.AddWorkload(ctx, wk, nil); err != nil {
			addErrs = append(addErrs, w.ID)
			continue
		}
		added = append(added, wk)
	}
	procs := []*types.Processing{}
	for _, p := range k.Procs {
		pr := &types.Processing{Appname: p.App, Entryname: p.Entry, Nodename: p.Node, Ident: p.Ident}
		if err := st.CreateProcessing(ctx, pr, p.Count); err == nil {
			procs = append(procs, pr)
		} else {
			addErrs = append(addErrs, "proc:"+p.Ident)
		}
	}
	qr := make([]any, len(k.Queries))
	// 1. list and count queries
	listed := map[int][]string{}
	for qi, q := range k.Queries {
		switch q.Kind {
		case "list":
			ws, err := st.ListWorkloads(ctx, q.App, q.Entry, q.Node, q.Limit, labelsOf(q.Label))
			r := listRes{}
			if err != nil {
				r.Err = "error"
			} else {
				r.IDs = []string{}
				for _, w := range ws {
					r.IDs = append(r.IDs, w.ID)
				}
				sort.Strings(r.IDs)
			}
			qr[qi] = r
		case "count":
			c, err := st.GetDeployStatus(ctx, q.App, q.Entry)
			r := countRes{}
			if err != nil {
				r.Err = "error"
			} else {
				r.Counts = c
			}
			qr[qi] = r
		case "stream":
			ws, _ := st.ListWorkloads(ctx, q.App, q.Entry, q.Node, 0, labelsOf(q.Label))
			ids := []string{}
			for _, w := range ws {
				ids = append(ids, w.ID)
			}
			listed[qi] = ids
		}
	}
	// 2. status streams: open every stream, then report a status for every workload exactly as
	// calcium.SetWorkloadsStatus does (names parsed back from the workload name)
	if len(listed) > 0 {
		sctx, cancel := context.WithCancel(ctx)
		cols := map[int]*collector{}
		for qi, q := range k.Queries {
			if q.Kind != "stream" {
				continue
			}
			c := &collector{ids: map[string]bool{}}
			cols[qi] = c
			ch := st.WorkloadStatusStream(sctx, q.App, q.Entry, q.Node, labelsOf(q.Label))
			go func() {
				for m := range ch {
					c.mu.Lock()
					c.ids[m.ID] = true
					c.mu.Unlock()
				}
			}()
		}
		// watches / subscriptions established: miniredis reports its pattern subscriptions; etcd watches are
		// created synchronously enough for the pause. (A fixed pause alone lost deliveries on a loaded machine:
		// the status write overtook the PSUBSCRIBE.)
		if k.Backend == "redis" {
			for dl := time.Now().Add(3 * time.Second); mini.PubSubNumPat() < len(cols) && time.Now().Before(dl); {
				time.Sleep(5 * time.Millisecond)
			}
		}
		time.Sleep(40 * time.Millisecond)
		complete := func() bool {
			for qi, c := range cols {
				have := map[string]bool{}
				for _, id := range c.snapshot() {
					have[id] = true
				}
				for _, id := range listed[qi] {
					if !have[id] {
						return false
					}
				}
			}
			return true
		}
		// A status change is reported for every workload; if some stream has not delivered everything
		// ListWorkloads returns for its filters within 400 ms the change is reported again (with the health flag
		// flipped, so that it is a change) — up to 5 rounds: a stream that works delivers in the end however slow
		// the machine is, a stream that filters wrongly never does.
		for round := 0; round < 5; round++ {
			for _, wk := range added {
				a, e, _, err := utils.ParseWorkloadName(wk.Name)
				if err != nil {
					continue
				}
				var before map[string]bool
				if k.Backend == "redis" {
					before = map[string]bool{}
					for _, key := range mini.Keys() {
						before[key] = true
					}
				}
				st.SetWorkloadStatus(ctx, &types.StatusMeta{ID: wk.ID, Running: true, Healthy: round%2 == 0, Appname: a, Entrypoint: e, Nodename: wk.Nodename}, 0) //nolint
				if k.Backend == "redis" {                                                                                                                           // miniredis has no keyspace notifications: emit the one Redis would send for the key just written
					for _, key := range mini.Keys() {
						if !before[key] || round > 0 {
							if round > 0 && !strings.HasSuffix(key, "/"+wk.ID) {
								continue
							}
							mini.Publish("__keyspace@0__:"+key, "set")
						}
					}
				}
			}
			deadline := time.Now().Add(400 * time.Millisecond)
			for time.Now().Before(deadline) && !complete() {
				time.Sleep(10 * time.Millisecond)
			}
			if complete() {
				break
			}
		}
		time.Sleep(40 * time.Millisecond)
		cancel()
		for qi, c := range cols {
			qr[qi] = streamRes{Stream: c.snapshot()}
		}
	}
	for _, pr := range procs {
		st.DeleteProcessing(ctx, pr) //nolint
	}
	for _, wk := range added {
		st.RemoveWorkload(ctx, wk) //nolint
	}
	if k.Backend == "redis" {
		mini.FlushAll()
	}
	sort.Strings(addErrs)
	res["add_errs"] = addErrs
	res["results"] = qr
	k.Impl = res
}

var lettersRE = regexp.MustCompile(`(?m)^\s*letters\s*=\s*"([^"]*)"`)

// runSuffix builds workload names exactly as cluster/calcium/create.go does — suffix :=
// utils.RandomString(6); name := utils.MakeWorkloadName(app, entry, suffix) — and parses them back.
// The random suffixes themselves are not part of the case: the result reports the alphabet (as read
// from the source constant and as observed), how many names failed, and a few samples (failing first).
func runSuffix(k *kase) {
	w := k.World[0]
	repo := os.Getenv("VERIF_REPO_DIR")
	if repo == "" {
		repo = "/repo"
	}
	src := ""
	if b, err := os.ReadFile(filepath.Join(repo, "utils", "utils.go")); err == nil {
		if m := lettersRE.FindSubmatch(b); m != nil {
			src = string(m[1])
		}
	}
	seen := map[rune]bool{}
	type sample struct {
		Sfx   string `json:"sfx"`
		App   string `json:"app"`
		Entry string `json:"entry"`
		Ident string `json:"ident"`
		Err   bool   `json:"err,omitempty"`
	}
	bad, good := []sample{}, []sample{}
	nbad := 0
	for i := 0; i < k.N; i++ {
		sfx := utils.RandomString(6)
		for _, c := range sfx {
			seen[c] = true
		}
		a, e, id, err := utils.ParseWorkloadName(utils.MakeWorkloadName(w.App, w.Entry, sfx))
		sm := sample{Sfx: sfx, App: a, Entry: e, Ident: id, Err: err != nil}
		if err != nil || a != w.App || e != w.Entry || id != sfx {
			nbad++
			if len(bad) < 8 {
				bad = append(bad, sm)
			}
		} else if len(good) < 4 {
			good = append(good, sm)
		}
	}
	obs := []rune{}
	for c := range seen {
		obs = append(obs, c)
	}
	sort.Slice(obs, func(i, j int) bool { return obs[i] < obs[j] })
	k.Impl = map[string]any{"alphabet_src": src, "alphabet_seen": string(obs), "failed": nbad, "samples": append(bad, good...)}
}

func run(k *kase) {
	kind, msg := hx.Guard(20*time.Second, func() {
		switch k.Op {
		case "parse":
			a, e, i, err := utils.ParseWorkloadName(k.Name)
			if err != nil {
				k.Impl = map[string]any{"err": "invalid-name"}
			} else {
				k.Impl = map[string]any{"app": a, "entry": e, "ident": i}
			}
		case "roundtrip":
			w := k.World[0]
			a, e, i, err := utils.ParseWorkloadName(utils.MakeWorkloadName(w.App, w.Entry, w.Sfx))
			if err != nil {
				k.Impl = map[string]any{"err": "invalid-name"}
			} else {
				k.Impl = map[string]any{"app": a, "entry": e, "ident": i}
			}
		case "join":
			k.Impl = map[string]any{"path": filepath.Join(k.Elems...)}
		case "suffix":
			runSuffix(k)
		case "world":
			runWorld(k)
		}
	})
	if kind != "" {
		k.Impl = map[string]any{kind: msg}
	}
}

// name pools: plain names, names with the separators the API accepts, path-like and glob-like names
var plain = []string{"a", "b", "app", "web", "a1", "zz"}

// names that are prefixes of one another (key-prefix collisions between neighbours)
var prefixy = []string{"web", "web-canary", "webx", "n1", "n10", "app", "app_x", "app-1", "a", "a1", "a_b", "a_"}
var seps = []string{"a_b", "a_", "_a", "a-b", "a.b", "a b", "b_a_b", "a__b"}
var pathy = []string{"a/b", "/a", "a/", "/", ".", "..", "a/..", "a/../b", "a//b", "./a", "b/a"}
var globby = []string{"a*", "*", "?", "a?", "[ab]", "a[", "a\\", "\\a", "[a-c]", "[^a]", "a]"}

// share of worlds that also exercise WorkloadStatusStream (each costs ~0.1-0.5 s of waiting)
var streamPct = 12

var suffixes = []string{"abcdef", "QWERTY", "zzzzzz"}

func pickName(r *hx.Rng, cls int, entry bool) string {
	var s string
	switch cls {
	case 0:
		s = hx.Pick(r, plain...)
	case 1:
		s = hx.Pick(r, append(append([]string{}, plain...), seps...)...)
	case 4:
		s = hx.Pick(r, prefixy...)
	case 2:
		s = hx.Pick(r, append(append([]string{}, plain...), pathy...)...)
	default:
		s = hx.Pick(r, append(append([]string{}, plain...), globby...)...)
	}
	if entry { // Entrypoint.Validate rejects '_'
		for i := 0; i < 8 && containsUS(s); i++ {
			s = hx.Pick(r, plain...)
		}
	}
	return s
}

func containsUS(s string) bool {
	for _, c := range s {
		if c == '_' {
			return true
		}
	}
	return false
}

func genWorld(r *hx.Rng, i int) *kase {
	k := &kase{ID: fmt.Sprintf("w%d", i), Op: "world", Backend: hx.Pick(r, "etcd", "redis")}
	cls := hx.Pick(r, 0, 1, 1, 4, 4, 4, 2, 3)
	if k.Backend == "etcd" && cls == 3 {
		cls = 1
	}
	n := r.Range(1, 5)
	names := map[string]bool{"": true}
	for j := 0; j < n; j++ {
		w := wl{App: pickName(r, cls, false), Entry: pickName(r, cls, true), Node: pickName(r, cls, false),
			ID: fmt.Sprintf("id%02d", j), Sfx: hx.Pick(r, suffixes...), Color: hx.Pick(r, "", "red", "blue")}
		if j > 0 && r.Chance(50) { // share parts with an earlier workload
			p := k.World[r.Intn(j)]
			switch r.Intn(3) {
			case 0:
				w.App = p.App
			case 1:
				w.App, w.Entry = p.App, p.Entry
			default:
				w.Node = p.Node
			}
		}
		k.World = append(k.World, w)
		names[w.App], names[w.Entry], names[w.Node] = true, true, true
	}
	pool := []string{}
	for s := range names {
		pool = append(pool, s)
	}
	sort.Strings(pool)
	pool = append(pool, "nosuch")
	// queries: the exact coordinates of every workload at every depth, plus random mixes
	for _, w := range k.World {
		k.Queries = append(k.Queries,
			query{Kind: "list", App: w.App}, query{Kind: "list", App: w.App, Entry: w.Entry},
			query{Kind: "list", App: w.App, Entry: w.Entry, Node: w.Node}, query{Kind: "count", App: w.App, Entry: w.Entry})
	}
	k.Queries = append(k.Queries, query{Kind: "list"})
	// the extra features below are exercised with names that keep the key layout intact (classes 0, 1, 4):
	// with '..'-style names keys leave their root and the three key spaces (deploy/status/processing) mix
	tidy := cls != 2 && cls != 3
	// in-flight deployment markers: on the workloads' own coordinates and on neighbouring names
	for j := r.Intn(4); tidy && j > 0; j-- {
		w := k.World[r.Intn(len(k.World))]
		p := proc{App: w.App, Entry: w.Entry, Node: w.Node, Ident: fmt.Sprintf("op%02d", len(k.Procs)), Count: r.Range(1, 3)}
		switch r.Intn(4) {
		case 0:
			p.Entry = pickName(r, cls, true)
		case 1:
			p.App = pickName(r, cls, false)
		case 2:
			p.Node = pickName(r, cls, false)
		}
		k.Procs = append(k.Procs, p)
		names[p.App], names[p.Entry], names[p.Node] = true, true, true
		k.Queries = append(k.Queries, query{Kind: "count", App: p.App, Entry: p.Entry})
	}
	pool = pool[:0]
	for s := range names {
		pool = append(pool, s)
	}
	sort.Strings(pool)
	pool = append(pool, "nosuch")
	// labels and limits
	if tidy && r.Chance(40) {
		w := k.World[r.Intn(len(k.World))]
		k.Queries = append(k.Queries, query{Kind: "list", App: w.App, Label: hx.Pick(r, "red", "blue")},
			query{Kind: "list", Label: "red"}, query{Kind: "list", Limit: int64(r.Range(1, 3))},
			query{Kind: "list", App: w.App, Limit: int64(r.Range(1, 2))})
	}
	// status streams for every filter shape, including filters without their parent filter
	if tidy && r.Chance(hx.EnvInt("VERIF_STREAM_PCT", streamPct)) {
		w := k.World[r.Intn(len(k.World))]
		for _, f := range [][3]string{{"", "", ""}, {w.App, "", ""}, {w.App, w.Entry, ""}, {w.App, w.Entry, w.Node},
			{"", w.Entry, w.Node}, {"", "", w.Node}, {w.App, "", w.Node}, {"", w.Entry, ""},
			{hx.Pick(r, pool...), hx.Pick(r, pool...), hx.Pick(r, pool...)}} {
			k.Queries = append(k.Queries, query{Kind: "stream", App: f[0], Entry: f[1], Node: f[2]})
		}
		if r.Chance(30) {
			k.Queries = append(k.Queries, query{Kind: "stream", App: w.App, Label: "red"})
		}
	}
	for _, w := range k.World[:1] { // list queries of the same unusual shapes
		k.Queries = append(k.Queries, query{Kind: "list", Entry: w.Entry, Node: w.Node}, query{Kind: "list", Node: w.Node}, query{Kind: "list", App: w.App, Node: w.Node})
	}
	for j := 0; j < 4; j++ {
		k.Queries = append(k.Queries, query{Kind: hx.Pick(r, "list", "list", "count"), App: hx.Pick(r, pool...), Entry: hx.Pick(r, pool...), Node: hx.Pick(r, pool...)})
	}
	for j := range k.Queries {
		if k.Queries[j].Kind == "count" {
			k.Queries[j].Node = ""
			if k.Queries[j].App == "" || k.Queries[j].Entry == "" { // GetDeployStatus is only called with both names
				k.Queries[j].App, k.Queries[j].Entry = k.World[0].App, k.World[0].Entry
			}
		}
	}
	return k
}

func corpus() []*kase {
	w := func(a, e, n, id string) wl { return wl{App: a, Entry: e, Node: n, ID: id, Sfx: "abcdef"} }
	return []*kase{
		{ID: "c-parse-leading-slash", Op: "roundtrip", World: []wl{w("/a", "e", "n", "id00")}},
		{ID: "c-suffix-shop-web", Op: "suffix", N: 2000, World: []wl{w("shop", "web", "n1", "id00")}},
		{ID: "c-suffix-underscore-app", Op: "suffix", N: 500, World: []wl{w("a_b", "web-1", "n1", "id00")}},
		{ID: "c-parse-us", Op: "roundtrip", World: []wl{w("a_b", "e", "n", "id00")}},
		{ID: "c-join", Op: "join", Elems: []string{"/deploy", "a/..", "", ".", "x"}},
		{ID: "c-slash-collision", Op: "world", Backend: "etcd", World: []wl{w("a/b", "c", "n", "id00"), w("a", "b", "n", "id01")},
			Queries: []query{{Kind: "list", App: "a", Entry: "b"}, {Kind: "list", App: "a"}, {Kind: "count", App: "a", Entry: "b"}}},
		{ID: "c-dot", Op: "world", Backend: "etcd", World: []wl{w(".", "c", "n", "id00"), w("c", "n", "m", "id01")},
			Queries: []query{{Kind: "list", App: "c"}, {Kind: "list", App: "."}}},
		{ID: "c-glob", Op: "world", Backend: "redis", World: []wl{w("a", "e", "n", "id00"), w("b", "e", "n", "id01")},
			Queries: []query{{Kind: "list", App: "*"}, {Kind: "list", App: "?", Entry: "e"}, {Kind: "count", App: "[ab]", Entry: "e"}}},
		{ID: "c-prefix-entry-processing", Op: "world", Backend: "etcd", World: []wl{w("app", "web", "n1", "id00"), w("app", "web-canary", "n1", "id01")},
			Procs:   []proc{{App: "app", Entry: "web-canary", Node: "n1", Ident: "op00", Count: 2}, {App: "app", Entry: "web", Node: "n10", Ident: "op01", Count: 1}},
			Queries: []query{{Kind: "count", App: "app", Entry: "web"}, {Kind: "count", App: "app", Entry: "web-canary"}, {Kind: "list", App: "app", Entry: "web"}, {Kind: "list", App: "app", Entry: "web", Node: "n1"}}},
		{ID: "c-prefix-entry-processing-redis", Op: "world", Backend: "redis", World: []wl{w("app", "web", "n1", "id00"), w("app_x", "web", "n10", "id01")},
			Procs:   []proc{{App: "app", Entry: "web-canary", Node: "n1", Ident: "op00", Count: 2}, {App: "app_x", Entry: "web", Node: "n1", Ident: "op01", Count: 1}},
			Queries: []query{{Kind: "count", App: "app", Entry: "web"}, {Kind: "count", App: "app_x", Entry: "web"}, {Kind: "list", App: "app"}, {Kind: "list", App: "app", Entry: "web", Node: "n1"}}},
		{ID: "c-collapsed-underscores", Op: "world", Backend: "etcd", World: []wl{w("my__app", "web", "n1", "id00"), w("my_app", "web", "n1", "id01"), w("billing_", "web", "n1", "id02"), w("billing", "web", "n1", "id03")},
			Queries: []query{{Kind: "list", App: "my_app"}, {Kind: "list", App: "my__app"}, {Kind: "list", App: "billing"}, {Kind: "count", App: "billing_", Entry: "web"}}},
		{ID: "c-stream-shapes", Op: "world", Backend: "etcd", World: []wl{w("app", "web", "n1", "id00"), w("n1", "web", "n10", "id01"), w("app", "api", "n1", "id02")},
			Queries: []query{{Kind: "stream"}, {Kind: "stream", App: "app"}, {Kind: "stream", App: "app", Entry: "web"}, {Kind: "stream", App: "app", Entry: "web", Node: "n1"},
				{Kind: "stream", Entry: "web", Node: "n1"}, {Kind: "stream", Node: "n1"}, {Kind: "stream", App: "app", Node: "n1"}, {Kind: "stream", App: "n1", Entry: "web"}}},
		{ID: "c-stream-shapes-redis", Op: "world", Backend: "redis", World: []wl{w("app", "web", "n1", "id00"), w("n1", "web", "n10", "id01"), w("app", "api", "n1", "id02")},
			Queries: []query{{Kind: "stream"}, {Kind: "stream", App: "app"}, {Kind: "stream", App: "app", Entry: "web"}, {Kind: "stream", App: "app", Entry: "web", Node: "n1"},
				{Kind: "stream", Entry: "web", Node: "n1"}, {Kind: "stream", Node: "n1"}, {Kind: "stream", App: "app", Node: "n1"}}},
		{ID: "c-underscore", Op: "world", Backend: "redis", World: []wl{w("a_b", "c", "n", "id00"), w("a", "c", "n", "id01")},
			Queries: []query{{Kind: "list", App: "a"}, {Kind: "list", App: "a_b"}, {Kind: "count", App: "a", Entry: "c"}}},
	}
}

func genCase(r *hx.Rng, i int) *kase {
	switch r.Intn(10) {
	case 0:
		cls := r.Intn(4)
		return &kase{ID: fmt.Sprintf("p%d", i), Op: "roundtrip", World: []wl{{App: pickName(r, cls, false), Entry: pickName(r, cls, true), Node: "n", ID: "id00", Sfx: hx.Pick(r, suffixes...)}}}
	case 1:
		parts := []string{"a", "b", "", "_", "__", "/", "/a", "a_b", "x"}
		s := ""
		for j := r.Range(0, 5); j > 0; j-- {
			s += hx.Pick(r, parts...) + hx.Pick(r, "_", "_", "")
		}
		return &kase{ID: fmt.Sprintf("p%d", i), Op: "parse", Name: s}
	case 2:
		all := append(append(append([]string{"", "/deploy", "/status"}, plain...), pathy...), seps...)
		n := r.Range(0, 5)
		el := []string{}
		for j := 0; j < n; j++ {
			el = append(el, hx.Pick(r, all...))
		}
		return &kase{ID: fmt.Sprintf("j%d", i), Op: "join", Elems: el}
	default:
		return genWorld(r, i)
	}
}

func TestGen(t *testing.T) {
	setup(t)
	out := hx.OpenOut()
	defer out.Close()
	if rp := os.Getenv("VERIF_REPLAY"); rp != "" {
		f, err := os.Open(rp)
		if err != nil {
			t.Fatal(err)
		}
		defer f.Close()
		sc := bufio.NewScanner(f)
		sc.Buffer(make([]byte, 1<<20), 1<<26)
		for sc.Scan() {
			k := &kase{}
			if json.Unmarshal(sc.Bytes(), k) != nil {
				continue
			}
			k.Impl = nil
			run(k)
			out.Emit(k)
		}
		return
	}
	r := hx.NewRng(hx.Seed())
	n := hx.EnvInt("VERIF_CASES", 300)
	for _, k := range corpus() {
		run(k)
		out.Emit(k)
	}
	for i := 0; out.N < n; i++ {
		k := genCase(r, i)
		run(k)
		out.Emit(k)
	}
}
