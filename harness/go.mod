module verifharness

go 1.23

require (
	github.com/alicebob/miniredis/v2 v2.30.2
	github.com/docker/docker v24.0.9+incompatible
	github.com/go-redis/redis/v8 v8.11.5
	github.com/google/uuid v1.3.1
	github.com/opencontainers/image-spec v1.1.0-rc2.0.20221005185240-3a7f492d3f1b
	github.com/projecteru2/core v0.0.0
	github.com/stretchr/testify v1.8.4
)

require (
	dario.cat/mergo v1.0.0 // indirect
	github.com/CMGS/statsd v0.0.0-20160223095033-48c421b3c1ab // indirect
	github.com/ProtonMail/go-crypto v0.0.0-20230828082145-3c4c8a2d2371 // indirect
	github.com/alicebob/gopher-json v0.0.0-20230218143504-906a9b012302 // indirect
	github.com/cloudflare/circl v1.3.7 // indirect
	github.com/containerd/containerd v1.7.11 // indirect
	github.com/cyphar/filepath-securejoin v0.2.4 // indirect
	github.com/davecgh/go-spew v1.1.1 // indirect
	github.com/dgryski/go-rendezvous v0.0.0-20200823014737-9f7001d12a5f // indirect
	github.com/docker/distribution v2.8.2+incompatible // indirect
	github.com/docker/go-metrics v0.0.1 // indirect
	github.com/emirpasic/gods v1.18.1 // indirect
	github.com/go-git/gcfg v1.5.1-0.20230307220236-3a3c6141e376 // indirect
	github.com/go-git/go-billy/v5 v5.5.0 // indirect
	github.com/go-git/go-git/v5 v5.11.0 // indirect
	github.com/golang/groupcache v0.0.0-20210331224755-41bb18bfe9da // indirect
	github.com/gorilla/mux v1.8.0 // indirect
	github.com/jbenet/go-context v0.0.0-20150711004518-d14ea06fba99 // indirect
	github.com/kevinburke/ssh_config v1.2.0 // indirect
	github.com/klauspost/compress v1.16.5 // indirect
	github.com/moby/patternmatcher v0.5.0 // indirect
	github.com/moby/sys/sequential v0.5.0 // indirect
	github.com/moby/term v0.0.0-20221205130635-1aeaba878587 // indirect
	github.com/morikuni/aec v1.0.0 // indirect
	github.com/muroq/redislock v0.0.0-20210327061935-5425e33e6f9f // indirect
	github.com/opencontainers/go-digest v1.0.0 // indirect
	github.com/opencontainers/runc v1.1.12 // indirect
	github.com/pjbgf/sha1cd v0.3.0 // indirect
	github.com/pmezard/go-difflib v1.0.0 // indirect
	github.com/projecteru2/libyavirt v0.0.0-20230921032447-a617cf0c746c // indirect
	github.com/sergi/go-diff v1.3.1 // indirect
	github.com/skeema/knownhosts v1.2.1 // indirect
	github.com/stretchr/objx v0.5.0 // indirect
	github.com/xanzy/ssh-agent v0.3.3 // indirect
	github.com/yuin/gopher-lua v1.1.0 // indirect
	golang.org/x/sync v0.4.0 // indirect
	gopkg.in/warnings.v0 v0.1.2 // indirect
	gopkg.in/yaml.v3 v3.0.1 // indirect
)

require (
	github.com/BurntSushi/toml v1.2.1 // indirect
	github.com/alphadose/haxmap v1.2.0 // indirect
	github.com/benbjohnson/clock v1.3.3 // indirect
	github.com/beorn7/perks v1.0.1 // indirect
	github.com/cenkalti/backoff/v4 v4.2.1 // indirect
	github.com/cespare/xxhash/v2 v2.2.0 // indirect
	github.com/cockroachdb/errors v1.9.1 // indirect
	github.com/cockroachdb/logtags v0.0.0-20230118201751-21c54148d20b // indirect
	github.com/cockroachdb/redact v1.1.3 // indirect
	github.com/coreos/go-semver v0.3.1 // indirect
	github.com/coreos/go-systemd/v22 v22.5.0 // indirect
	github.com/docker/go-connections v0.4.0 // indirect
	github.com/docker/go-units v0.5.0 // indirect
	github.com/dustin/go-humanize v1.0.1 // indirect
	github.com/getsentry/sentry-go v0.20.0 // indirect
	github.com/go-logr/logr v1.3.0 // indirect
	github.com/go-logr/stdr v1.2.2 // indirect
	github.com/gogo/protobuf v1.3.2 // indirect
	github.com/golang-jwt/jwt/v4 v4.5.0
	github.com/golang/protobuf v1.5.4 // indirect
	github.com/google/btree v1.1.2 // indirect
	github.com/gorilla/websocket v1.5.0 // indirect
	github.com/grpc-ecosystem/go-grpc-middleware v1.4.0 // indirect
	github.com/grpc-ecosystem/go-grpc-prometheus v1.2.0 // indirect
	github.com/grpc-ecosystem/grpc-gateway v1.16.0 // indirect
	github.com/grpc-ecosystem/grpc-gateway/v2 v2.16.0 // indirect
	github.com/jinzhu/configor v1.2.1 // indirect
	github.com/jonboulle/clockwork v0.4.0 // indirect
	github.com/json-iterator/go v1.1.12 // indirect
	github.com/kr/pretty v0.3.1 // indirect
	github.com/kr/text v0.2.0 // indirect
	github.com/mattn/go-colorable v0.1.13 // indirect
	github.com/mattn/go-isatty v0.0.18 // indirect
	github.com/matttproud/golang_protobuf_extensions v1.0.4 // indirect
	github.com/mitchellh/mapstructure v1.5.0
	github.com/modern-go/concurrent v0.0.0-20180306012644-bacd9c7ef1dd // indirect
	github.com/modern-go/reflect2 v1.0.2 // indirect
	github.com/panjf2000/ants/v2 v2.7.3 // indirect
	github.com/pkg/errors v0.9.1 // indirect
	github.com/prometheus/client_golang v1.15.0 // indirect
	github.com/prometheus/client_model v0.3.0 // indirect
	github.com/prometheus/common v0.42.0 // indirect
	github.com/prometheus/procfs v0.9.0 // indirect
	github.com/rogpeppe/go-internal v1.11.0 // indirect
	github.com/rs/zerolog v1.29.1 // indirect
	github.com/sanity-io/litter v1.5.5 // indirect
	github.com/sirupsen/logrus v1.9.3 // indirect
	github.com/soheilhy/cmux v0.1.5 // indirect
	github.com/spf13/pflag v1.0.5 // indirect
	github.com/tmc/grpc-websocket-proxy v0.0.0-20220101234140-673ab2c3ae75 // indirect
	github.com/xiang90/probing v0.0.0-20221125231312-a49e3df8f510 // indirect
	go.etcd.io/bbolt v1.3.8 // indirect
	go.etcd.io/etcd/api/v3 v3.5.11
	go.etcd.io/etcd/client/pkg/v3 v3.5.11 // indirect
	go.etcd.io/etcd/client/v2 v2.305.11 // indirect
	go.etcd.io/etcd/client/v3 v3.5.11
	go.etcd.io/etcd/pkg/v3 v3.5.11 // indirect
	go.etcd.io/etcd/raft/v3 v3.5.11 // indirect
	go.etcd.io/etcd/server/v3 v3.5.11 // indirect
	go.etcd.io/etcd/tests/v3 v3.5.11 // indirect
	go.opentelemetry.io/contrib/instrumentation/google.golang.org/grpc/otelgrpc v0.46.0 // indirect
	go.opentelemetry.io/otel v1.20.0 // indirect
	go.opentelemetry.io/otel/exporters/otlp/otlptrace v1.20.0 // indirect
	go.opentelemetry.io/otel/exporters/otlp/otlptrace/otlptracegrpc v1.20.0 // indirect
	go.opentelemetry.io/otel/metric v1.20.0 // indirect
	go.opentelemetry.io/otel/sdk v1.20.0 // indirect
	go.opentelemetry.io/otel/trace v1.20.0 // indirect
	go.opentelemetry.io/proto/otlp v1.0.0 // indirect
	go.uber.org/atomic v1.10.0 // indirect
	go.uber.org/multierr v1.11.0 // indirect
	go.uber.org/zap v1.24.0 // indirect
	golang.org/x/crypto v0.17.0 // indirect
	golang.org/x/exp v0.0.0-20230425010034-47ecfdc1ba53 // indirect
	golang.org/x/net v0.19.0 // indirect
	golang.org/x/sys v0.15.0 // indirect
	golang.org/x/text v0.14.0 // indirect
	golang.org/x/time v0.3.0 // indirect
	google.golang.org/genproto v0.0.0-20231002182017-d307bd883b97 // indirect
	google.golang.org/genproto/googleapis/api v0.0.0-20231002182017-d307bd883b97 // indirect
	google.golang.org/genproto/googleapis/rpc v0.0.0-20231002182017-d307bd883b97 // indirect
	google.golang.org/grpc v1.60.1
	google.golang.org/protobuf v1.33.0 // indirect
	gopkg.in/natefinch/lumberjack.v2 v2.2.1 // indirect
	gopkg.in/yaml.v2 v2.4.0 // indirect
	sigs.k8s.io/yaml v1.3.0 // indirect
)

replace github.com/projecteru2/core => /repo
