module verifharness

go 1.23

require github.com/projecteru2/core v0.0.0

require (
	github.com/BurntSushi/toml v1.2.1 // indirect
	github.com/alphadose/haxmap v1.2.0 // indirect
	github.com/cockroachdb/errors v1.9.1 // indirect
	github.com/cockroachdb/logtags v0.0.0-20230118201751-21c54148d20b // indirect
	github.com/cockroachdb/redact v1.1.3 // indirect
	github.com/docker/go-connections v0.4.0 // indirect
	github.com/docker/go-units v0.5.0 // indirect
	github.com/getsentry/sentry-go v0.20.0 // indirect
	github.com/gogo/protobuf v1.3.2 // indirect
	github.com/golang/protobuf v1.5.4 // indirect
	github.com/jinzhu/configor v1.2.1 // indirect
	github.com/kr/pretty v0.3.1 // indirect
	github.com/kr/text v0.2.0 // indirect
	github.com/mattn/go-colorable v0.1.13 // indirect
	github.com/mattn/go-isatty v0.0.18 // indirect
	github.com/mitchellh/mapstructure v1.5.0 // indirect
	github.com/panjf2000/ants/v2 v2.7.3 // indirect
	github.com/pkg/errors v0.9.1 // indirect
	github.com/rogpeppe/go-internal v1.11.0 // indirect
	github.com/rs/zerolog v1.29.1 // indirect
	golang.org/x/exp v0.0.0-20230425010034-47ecfdc1ba53 // indirect
	golang.org/x/sys v0.15.0 // indirect
	golang.org/x/text v0.14.0 // indirect
	google.golang.org/grpc v1.60.1 // indirect
	google.golang.org/protobuf v1.33.0 // indirect
	gopkg.in/natefinch/lumberjack.v2 v2.2.1 // indirect
	gopkg.in/yaml.v2 v2.4.0 // indirect
)

replace github.com/projecteru2/core => /repo
