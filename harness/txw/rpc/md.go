package rpc

import (
	"context"

	"google.golang.org/grpc/metadata"
)

func metadataAppend(ctx context.Context, kv []string) context.Context {
	return metadata.AppendToOutgoingContext(ctx, kv...)
}
