// Correspondence harness for C35 (auth/simple over a real gRPC transport) and C36
// (client/interceptor retry wrappers against a scripted server).  Everything runs in-process over
// bufconn; one server + one client connection per case.
package rpc

import (
	"bufio"
	"context"
	"encoding/json"
	"errors"
	"fmt"
	"io"
	"net"
	"os"
	"regexp"
	"strconv"
	"strings"
	"sync"
	"sync/atomic"
	"testing"
	"time"

	"verifharness/hx"

	"github.com/projecteru2/core/auth"
	"github.com/projecteru2/core/client/interceptor"
	pb "github.com/projecteru2/core/rpc/gen"
	"github.com/projecteru2/core/types"

	"google.golang.org/grpc"
	"google.golang.org/grpc/codes"
	"google.golang.org/grpc/credentials/insecure"
	"google.golang.org/grpc/status"
	"google.golang.org/grpc/test/bufconn"
)

// ---------------------------------------------------------------- shared plumbing

type endpoint struct {
	lis  *bufconn.Listener
	srv  *grpc.Server
	conn *grpc.ClientConn
}

func newEndpoint(impl pb.CoreRPCServer, sopts []grpc.ServerOption, dopts []grpc.DialOption) (*endpoint, error) {
	lis := bufconn.Listen(1 << 16)
	srv := grpc.NewServer(sopts...)
	pb.RegisterCoreRPCServer(srv, impl)
	go srv.Serve(lis) //nolint
	dopts = append([]grpc.DialOption{
		grpc.WithTransportCredentials(insecure.NewCredentials()),
		grpc.WithContextDialer(func(ctx context.Context, _ string) (net.Conn, error) { return lis.DialContext(ctx) }),
	}, dopts...)
	conn, err := grpc.Dial("passthrough:///bufnet", dopts...)
	if err != nil {
		srv.Stop()
		return nil, err
	}
	return &endpoint{lis: lis, srv: srv, conn: conn}, nil
}

func (e *endpoint) close() {
	e.conn.Close()
	done := make(chan struct{})
	go func() { e.srv.GracefulStop(); close(done) }()
	select {
	case <-done:
	case <-time.After(3 * time.Second):
		e.srv.Stop()
	}
	e.lis.Close()
}

func bytesOf(s string) []int {
	r := make([]int, len(s))
	for i := 0; i < len(s); i++ {
		r[i] = int(s[i])
	}
	return r
}

func strOf(b []int) string {
	r := make([]byte, len(b))
	for i, x := range b {
		r[i] = byte(x)
	}
	return string(r)
}

func errClass(err error) string {
	switch {
	case err == nil:
		return "ok"
	case err == io.EOF:
		return "eof"
	case errors.Is(err, context.Canceled):
		return "ctx-canceled"
	case errors.Is(err, context.DeadlineExceeded):
		return "ctx-deadline"
	}
	if st, ok := status.FromError(err); ok {
		switch st.Message() {
		case types.ErrInvaildGRPCUsername.Error():
			return "bad-username"
		case types.ErrInvaildGRPCPassword.Error():
			return "bad-password"
		case types.ErrInvaildGRPCRequestMeta.Error():
			return "no-meta"
		}
		return "rpc:" + st.Code().String()
	}
	return "other"
}

func replayCases[T any](path string) ([]*T, error) {
	f, err := os.Open(path)
	if err != nil {
		return nil, err
	}
	defer f.Close()
	var res []*T
	sc := bufio.NewScanner(f)
	sc.Buffer(make([]byte, 1<<20), 1<<26)
	for sc.Scan() {
		line := strings.TrimSpace(sc.Text())
		if line == "" {
			continue
		}
		k := new(T)
		if err := json.Unmarshal([]byte(line), k); err != nil {
			return nil, err
		}
		res = append(res, k)
	}
	return res, sc.Err()
}

// runParallel executes run(i) for i in [0,n) on `workers` goroutines.
func runParallel(n, workers int, run func(i int)) {
	var wg sync.WaitGroup
	ch := make(chan int)
	for w := 0; w < workers; w++ {
		wg.Add(1)
		go func() {
			defer wg.Done()
			for i := range ch {
				run(i)
			}
		}()
	}
	for i := 0; i < n; i++ {
		ch <- i
	}
	close(ch)
	wg.Wait()
}

// ---------------------------------------------------------------- C35: authentication

type authCase struct {
	ID    string         `json:"id"`
	SU    []int          `json:"su"` // server username / password (bytes)
	SP    []int          `json:"sp"`
	Cred  bool           `json:"cred"` // client presents per-RPC credentials
	CU    []int          `json:"cu"`
	CP    []int          `json:"cp"`
	Extra [][2][]int     `json:"extra"` // additional outgoing-context metadata pairs (key, value)
	// Calls != nil: a HISTORY of calls on ONE client connection (no dial-level credential), each with
	// its own per-call credential (grpc.PerRPCCredentials call option); Impl["calls"] lists the outcomes
	Calls []*authCall    `json:"calls,omitempty"`
	Impl  map[string]any `json:"impl"`
}

type authCall struct {
	Kind string `json:"kind"` // "unary" | "stream"
	Cred bool   `json:"cred"`
	CU   []int  `json:"cu"`
	CP   []int  `json:"cp"`
}

func runAuthHistory(k *authCase) {
	impl := map[string]any{}
	k.Impl = impl
	kind, msg := hx.Guard(30*time.Second, func() {
		a := auth.NewAuth(types.AuthConfig{Username: strOf(k.SU), Password: strOf(k.SP)})
		srv := &authServer{}
		ep, err := newEndpoint(srv, []grpc.ServerOption{grpc.StreamInterceptor(a.StreamInterceptor), grpc.UnaryInterceptor(a.UnaryInterceptor)}, nil)
		if err != nil {
			impl["crash"] = "dial-error"
			return
		}
		defer ep.close()
		cli := pb.NewCoreRPCClient(ep.conn)
		res := []map[string]any{}
		for _, c := range k.Calls {
			ctx, cancel := context.WithTimeout(context.Background(), 10*time.Second)
			var opts []grpc.CallOption
			if c.Cred {
				opts = append(opts, grpc.PerRPCCredentials(auth.NewCredential(types.AuthConfig{Username: strOf(c.CU), Password: strOf(c.CP)})))
			}
			srv.mu.Lock()
			before := srv.served
			srv.mu.Unlock()
			var cerr error
			if c.Kind == "unary" {
				_, cerr = cli.Info(ctx, &pb.Empty{}, opts...)
			} else {
				st, serr := cli.WatchServiceStatus(ctx, &pb.Empty{}, opts...)
				cerr = serr
				if serr == nil {
					var m *pb.ServiceStatus
					if m, cerr = st.Recv(); cerr == nil && m.IntervalInSecond != 7 {
						cerr = errors.New("garbled")
					}
				}
			}
			cancel()
			cls := "served"
			if cerr != nil {
				cls = errClass(cerr)
			}
			srv.mu.Lock()
			ran := srv.served-before == 1
			srv.mu.Unlock()
			res = append(res, map[string]any{"class": cls, "handler_ran": ran})
		}
		impl["calls"] = res
	})
	if kind != "" {
		impl["crash"] = kind + ":" + msg
	}
}

// genAuthHistory: 2-7 calls on one connection; good and bad credentials and anonymous calls in every
// order, unary and streaming mixed (a server that remembers an earlier success of the connection,
// the peer or the stream kind would serve a later bad call)
func genAuthHistory(r *hx.Rng) *authCase {
	su, sp := genName(r), genPass(r)
	k := &authCase{SU: bytesOf(su), SP: bytesOf(sp)}
	n := r.Range(2, 7)
	for i := 0; i < n; i++ {
		c := &authCall{Kind: hx.Pick(r, "unary", "stream"), Cred: true}
		cu, cp := su, sp
		switch r.Intn(8) {
		case 0, 1, 2: // good
		case 3:
			cu = flipCase(r, su)
		case 4:
			cp = hx.Pick(r, sp+"x", flipCase(r, sp)+"!", "", genPass(r)+"#")
		case 5:
			cu = genName(r) + "z"
		case 6, 7:
			c.Cred = false
		}
		c.CU, c.CP = bytesOf(cu), bytesOf(cp)
		k.Calls = append(k.Calls, c)
	}
	return k
}


type authServer struct {
	pb.UnimplementedCoreRPCServer
	mu     sync.Mutex
	served int
}

func (s *authServer) Info(context.Context, *pb.Empty) (*pb.CoreInfo, error) {
	s.mu.Lock()
	s.served++
	s.mu.Unlock()
	return &pb.CoreInfo{Version: "v"}, nil
}

func (s *authServer) WatchServiceStatus(_ *pb.Empty, st pb.CoreRPC_WatchServiceStatusServer) error {
	s.mu.Lock()
	s.served++
	s.mu.Unlock()
	return st.Send(&pb.ServiceStatus{IntervalInSecond: 7})
}

func runAuth(k *authCase) {
	impl := map[string]any{}
	k.Impl = impl
	kind, msg := hx.Guard(20*time.Second, func() {
		a := auth.NewAuth(types.AuthConfig{Username: strOf(k.SU), Password: strOf(k.SP)})
		srv := &authServer{}
		var dopts []grpc.DialOption
		if k.Cred {
			dopts = append(dopts, grpc.WithPerRPCCredentials(auth.NewCredential(types.AuthConfig{Username: strOf(k.CU), Password: strOf(k.CP)})))
		}
		ep, err := newEndpoint(srv, []grpc.ServerOption{grpc.StreamInterceptor(a.StreamInterceptor), grpc.UnaryInterceptor(a.UnaryInterceptor)}, dopts)
		if err != nil {
			impl["unary"], impl["stream"] = "dial-error", "dial-error"
			return
		}
		defer ep.close()
		cli := pb.NewCoreRPCClient(ep.conn)
		ctx, cancel := context.WithTimeout(context.Background(), 10*time.Second)
		defer cancel()
		if len(k.Extra) > 0 {
			kv := []string{}
			for _, p := range k.Extra {
				kv = append(kv, strOf(p[0]), strOf(p[1]))
			}
			ctx = metadataAppend(ctx, kv)
		}
		// unary
		_, uerr := cli.Info(ctx, &pb.Empty{})
		before := srv.served
		if uerr == nil {
			impl["unary"] = "served"
		} else {
			impl["unary"] = errClass(uerr)
		}
		impl["unary_handler_ran"] = before == 1
		// streaming
		st, serr := cli.WatchServiceStatus(ctx, &pb.Empty{})
		if serr == nil {
			var m *pb.ServiceStatus
			m, serr = st.Recv()
			if serr == nil && m.IntervalInSecond != 7 {
				serr = errors.New("garbled")
			}
		}
		if serr == nil {
			impl["stream"] = "served"
		} else {
			impl["stream"] = errClass(serr)
		}
		srv.mu.Lock()
		impl["stream_handler_ran"] = srv.served-before == 1
		srv.mu.Unlock()
	})
	if kind != "" {
		impl["crash"] = kind + ":" + msg
	}
}

var keyAlphabet = "abcxyzABCXYZ019_-."
var valAlphabet = "abcXYZ019 !#$%&'()*+,-./:;<=>?@[\\]^_`{|}~\""

func genName(r *hx.Rng) string {
	n := r.Range(1, 8)
	b := make([]byte, n)
	for i := range b {
		b[i] = keyAlphabet[r.Intn(len(keyAlphabet))]
	}
	s := string(b)
	if r.Chance(8) {
		s += "-bin"
	}
	return s
}

func genPass(r *hx.Rng) string {
	if r.Chance(15) {
		return ""
	}
	n := r.Range(1, 10)
	b := make([]byte, n)
	for i := range b {
		b[i] = valAlphabet[r.Intn(len(valAlphabet))]
	}
	return string(b)
}

func flipCase(r *hx.Rng, s string) string {
	b := []byte(s)
	for i, c := range b {
		if r.Chance(50) {
			switch {
			case c >= 'a' && c <= 'z':
				b[i] = c - 32
			case c >= 'A' && c <= 'Z':
				b[i] = c + 32
			}
		}
	}
	return string(b)
}

func genAuth(r *hx.Rng) *authCase {
	su, sp := genName(r), genPass(r)
	k := &authCase{SU: bytesOf(su), SP: bytesOf(sp), Cred: true}
	cu, cp := su, sp
	switch r.Intn(10) {
	case 0, 1, 2, 3: // same credentials as the server
	case 4: // username differing only in case
		cu = flipCase(r, su)
	case 5: // wrong password (often a near miss)
		cp = hx.Pick(r, sp+"x", flipCase(r, sp), flipCase(r, sp), "", " "+sp, genPass(r))
	case 6: // other user
		cu = genName(r)
	case 7: // other user holding the right password
		cu, cp = su+"x", sp
	case 8:
		k.Cred = false
	case 9: // extra metadata under the username key from the call context (comes after the credential)
		k.Extra = append(k.Extra, [2][]int{bytesOf(strings.ToLower(su)), bytesOf(genPass(r))})
		if r.Chance(50) {
			k.Cred = false
		}
	}
	k.CU, k.CP = bytesOf(cu), bytesOf(cp)
	return k
}

// malformed: keys/values outside what gRPC accepts as metadata
func genAuthMalformed(r *hx.Rng) *authCase {
	su := hx.Pick(r, "", "a b", "us\x00er", "na\xc3\xafve", "user:1", "grpc-foo", "content-type", "user-agent", "te", ":path", "Grpc-Timeout", "authorization")
	sp := hx.Pick(r, "p", "", "new\nline", "nul\x00", "h\xc3\xa9", "tab\there", "\x7f", " lead", "trail ")
	return &authCase{SU: bytesOf(su), SP: bytesOf(sp), Cred: true, CU: bytesOf(su), CP: bytesOf(sp)}
}

func testGenAuth(t *testing.T) {
	seed := hx.Seed()
	r := hx.NewRng(seed)
	n := hx.EnvInt("VERIF_CASES", 300)
	var cases []*authCase
	if rp := os.Getenv("VERIF_REPLAY"); rp != "" {
		var err error
		if cases, err = replayCases[authCase](rp); err != nil {
			t.Fatal(err)
		}
	} else {
		// fixed corpus: D24 witness (mixed-case username, same credentials on both sides) and neighbours
		fixed := [][4]string{{"Admin", "secret", "Admin", "secret"}, {"admin", "secret", "admin", "secret"}, {"admin", "secret", "ADMIN", "secret"},
			{"admin", "", "admin", ""}, {"admin", "secret", "admin", "Secret"}, {"key-bin", "\x00\x01\xff", "key-bin", "\x00\x01\xff"}, {"A.b_C-9", "p w", "A.b_C-9", "p w"}}
		for _, f := range fixed {
			cases = append(cases, &authCase{SU: bytesOf(f[0]), SP: bytesOf(f[1]), Cred: true, CU: bytesOf(f[2]), CP: bytesOf(f[3])})
		}
		// histories on one connection: good -> bad -> none -> good, unary and streaming mixed
		good := func(kind string) *authCall { return &authCall{Kind: kind, Cred: true, CU: bytesOf("Admin"), CP: bytesOf("secret")} }
		bad := func(kind string) *authCall { return &authCall{Kind: kind, Cred: true, CU: bytesOf("Admin"), CP: bytesOf("guess")} }
		other := func(kind string) *authCall { return &authCall{Kind: kind, Cred: true, CU: bytesOf("root"), CP: bytesOf("secret")} }
		anon := func(kind string) *authCall { return &authCall{Kind: kind} }
		cases = append(cases, &authCase{SU: bytesOf("Admin"), SP: bytesOf("secret"), Calls: []*authCall{good("unary"), bad("unary"), anon("stream"), good("stream"), other("unary"), bad("stream")}})
		cases = append(cases, &authCase{SU: bytesOf("Admin"), SP: bytesOf("secret"), Calls: []*authCall{bad("stream"), anon("unary"), good("stream"), anon("stream"), bad("unary")}})
		for i := 0; i < n; i++ {
			if i%12 == 11 {
				cases = append(cases, genAuthMalformed(r))
			} else if i%4 == 1 {
				cases = append(cases, genAuthHistory(r))
			} else {
				cases = append(cases, genAuth(r))
			}
		}
		for i, k := range cases {
			k.ID = fmt.Sprintf("a%d-%d", seed, i)
		}
	}
	runParallel(len(cases), 16, func(i int) {
		if cases[i].Calls != nil {
			runAuthHistory(cases[i])
		} else {
			runAuth(cases[i])
		}
	})
	out := hx.OpenOut()
	defer out.Close()
	for _, k := range cases {
		out.Emit(k)
	}
}

// ---------------------------------------------------------------- C36: retry

type streamScript struct {
	K   int    `json:"k"`   // messages sent before the stream ends
	End string `json:"end"` // "eof" | "err" | "hang"
	// Fault != "": this element is not a stream the server plays but a client-side failure of the
	// corresponding open attempt, injected below the retry interceptor: "open" = newStream() fails,
	// "send" = the stream opens but re-sending the request on it (SendMsg) fails
	Fault string `json:"fault,omitempty"`
}

// faultInjector is the innermost stream interceptor of every case: it counts the streams the client
// opens (or tries to) and fails the i-th attempt as the script says.
type faultInjector struct {
	mu     sync.Mutex
	opens  int
	late   int // attempts made under an already cancelled context (the one operation of the retry loop after a cancellation): they fail inside gRPC and are not script positions
	script []streamScript
}

type sendFailStream struct {
	grpc.ClientStream
	cancel context.CancelFunc
}

func (s *sendFailStream) SendMsg(any) error {
	s.cancel() // release the half-open stream on the server
	return status.Error(codes.Unavailable, "injected send failure")
}

func (f *faultInjector) intercept(ctx context.Context, desc *grpc.StreamDesc, cc *grpc.ClientConn, method string, streamer grpc.Streamer, opts ...grpc.CallOption) (grpc.ClientStream, error) {
	f.mu.Lock()
	if ctx.Err() != nil {
		f.late++
		f.mu.Unlock()
		return streamer(ctx, desc, cc, method, opts...)
	}
	i := f.opens
	f.opens++
	f.mu.Unlock()
	fault := ""
	if i < len(f.script) {
		fault = f.script[i].Fault
	}
	switch fault {
	case "open":
		return nil, status.Error(codes.Unavailable, "injected open failure")
	case "send":
		cctx, cancel := context.WithCancel(ctx)
		cs, err := streamer(cctx, desc, cc, method, opts...)
		if err != nil {
			cancel()
			return nil, err
		}
		return &sendFailStream{ClientStream: cs, cancel: cancel}, nil
	}
	return streamer(ctx, desc, cc, method, opts...)
}

type retryCase struct {
	ID          string         `json:"id"`
	Mode        string         `json:"mode"`   // "stream" | "unary"
	Method      string         `json:"method"` // stream: "WorkloadStatusStream" | "WatchServiceStatus" | "GetPodResource" | "NodeStatusStream"; unary: "GetPod"
	Max         int            `json:"max"`
	Script      []streamScript `json:"script"`       // stream mode: i-th opened stream
	Unary       []bool         `json:"unary"`        // unary mode: i-th attempt succeeds?
	CancelAfter int            `json:"cancel_after"` // stream mode: cancel the caller's context after this many messages (-1: never)
	CancelBlock bool           `json:"cancel_blocked"` // stream mode: cancel from another goroutine once Recv is blocked on a hanging stream
	Wrap        bool           `json:"wrap"`           // a ClientStream decorator below the retry interceptor reports the caller's cancellation as a WRAPPED context.Canceled and opens streams on a context the cancellation does not reach
	Req         string         `json:"req"`
	Allow       []string       `json:"allow"`    // interceptor.RPCNeedRetry as found in /repo
	ProdMax     map[string]int `json:"prod_max"` // retry budgets configured in /repo/client (read from source)
	Impl        map[string]any `json:"impl"`
}

type retryServer struct {
	pb.UnimplementedCoreRPCServer
	mu     sync.Mutex
	script []streamScript
	unary  []bool
	seen   []string // request payload of every call that reached a handler
	sent   int64    // messages sent so far (all streams)
	hang   chan struct{}
}

// next registers an incoming call and returns its ordinal
func (s *retryServer) next(req string) int {
	s.mu.Lock()
	defer s.mu.Unlock()
	s.seen = append(s.seen, req)
	return len(s.seen) - 1
}

func (s *retryServer) play(i int, ctx context.Context, send func(id string) error) error {
	sc := streamScript{K: 0, End: "err"} // beyond the script: break at once
	if i < len(s.script) {
		sc = s.script[i]
	}
	for j := 0; j < sc.K; j++ {
		if err := send(fmt.Sprintf("%d.%d", i, j)); err != nil {
			return err
		}
		atomic.AddInt64(&s.sent, 1)
	}
	switch sc.End {
	case "eof":
		return nil
	case "hang":
		select {
		case s.hang <- struct{}{}:
		default:
		}
		<-ctx.Done()
		return ctx.Err()
	}
	return status.Error(codes.Unavailable, "scripted break")
}

func (s *retryServer) WorkloadStatusStream(o *pb.WorkloadStatusStreamOptions, st pb.CoreRPC_WorkloadStatusStreamServer) error {
	i := s.next(o.Appname)
	return s.play(i, st.Context(), func(id string) error { return st.Send(&pb.WorkloadStatusStreamMessage{Id: id}) })
}

func (s *retryServer) WatchServiceStatus(_ *pb.Empty, st pb.CoreRPC_WatchServiceStatusServer) error {
	i := s.next("")
	return s.play(i, st.Context(), func(id string) error { return st.Send(&pb.ServiceStatus{Addresses: []string{id}}) })
}

func (s *retryServer) NodeStatusStream(_ *pb.Empty, st pb.CoreRPC_NodeStatusStreamServer) error {
	i := s.next("")
	return s.play(i, st.Context(), func(id string) error { return st.Send(&pb.NodeStatusStreamMessage{Nodename: id}) })
}

func (s *retryServer) GetPodResource(o *pb.GetPodOptions, st pb.CoreRPC_GetPodResourceServer) error {
	i := s.next(o.Name)
	return s.play(i, st.Context(), func(id string) error { return st.Send(&pb.NodeResource{Name: id}) })
}

func (s *retryServer) GetPod(_ context.Context, o *pb.GetPodOptions) (*pb.Pod, error) {
	i := s.next(o.Name)
	if i < len(s.unary) && s.unary[i] {
		return &pb.Pod{Name: o.Name}, nil
	}
	return nil, status.Error(codes.Unavailable, "scripted failure")
}

// wrapStream / wrapCancelInterceptor: a transport-side decorator installed BELOW the retry interceptor.
// (a) after the caller cancelled, RecvMsg errors are reported the way layered transports do: the
// context error wrapped with some detail (errors.Is(err, context.Canceled) holds, err != context.Canceled);
// (b) streams are opened on a context detached from the caller's cancellation (an already opened
// stream is still torn down when the caller cancels), so that a stream re-opened AFTER the
// cancellation would reach the server handler and be counted there.
type wrapStream struct {
	grpc.ClientStream
	ctx    context.Context
	cancel context.CancelFunc
}

func (w *wrapStream) RecvMsg(m any) error {
	err := w.ClientStream.RecvMsg(m)
	if err != nil && w.ctx.Err() != nil {
		return fmt.Errorf("stream recv aborted: %w", w.ctx.Err())
	}
	return err
}

func wrapCancelInterceptor(ctx context.Context, desc *grpc.StreamDesc, cc *grpc.ClientConn, method string, streamer grpc.Streamer, opts ...grpc.CallOption) (grpc.ClientStream, error) {
	dctx, dcancel := context.WithCancel(context.WithoutCancel(ctx))
	if ctx.Err() == nil {
		go func() {
			select {
			case <-ctx.Done():
				dcancel()
			case <-dctx.Done():
			}
		}()
	}
	cs, err := streamer(dctx, desc, cc, method, opts...)
	if err != nil {
		dcancel()
		return nil, err
	}
	return &wrapStream{ClientStream: cs, ctx: ctx, cancel: dcancel}, nil
}

func runRetry(k *retryCase) {
	impl := map[string]any{}
	k.Impl = impl
	kind, msg := hx.Guard(60*time.Second, func() {
		served := []streamScript{} // the server plays the non-fault elements, in order
		for _, e := range k.Script {
			if e.Fault == "" {
				served = append(served, e)
			}
		}
		srv := &retryServer{script: served, unary: k.Unary, hang: make(chan struct{}, 1)}
		inj := &faultInjector{script: k.Script}
		streamChain := []grpc.StreamClientInterceptor{interceptor.NewStreamRetry(interceptor.RetryOptions{Max: k.Max})}
		if k.Wrap {
			streamChain = append(streamChain, wrapCancelInterceptor)
		}
		streamChain = append(streamChain, inj.intercept)
		ep, err := newEndpoint(srv, nil, []grpc.DialOption{
			grpc.WithUnaryInterceptor(interceptor.NewUnaryRetry(interceptor.RetryOptions{Max: k.Max})),
			grpc.WithChainStreamInterceptor(streamChain...),
		})
		if err != nil {
			impl["err"] = "dial-error"
			return
		}
		cli := pb.NewCoreRPCClient(ep.conn)
		ctx, cancel := context.WithCancel(context.Background())
		defer cancel()
		delivered := []string{}
		var ndelivered int64
		var last error
		var cmu sync.Mutex
		if k.CancelBlock {
			// cancel from outside once the server hangs, the client has received everything sent so far
			// and has had time to block in Recv again
			go func() {
				select {
				case <-srv.hang:
				case <-ctx.Done():
					return
				}
				for w := 0; w < 5000 && atomic.LoadInt64(&ndelivered) < atomic.LoadInt64(&srv.sent); w++ {
					time.Sleep(time.Millisecond)
				}
				time.Sleep(30 * time.Millisecond)
				srv.mu.Lock()
				n := len(srv.seen)
				srv.mu.Unlock()
				cmu.Lock()
				impl["seen_at_cancel"] = n
				cmu.Unlock()
				cancel()
				if k.Wrap {
					time.AfterFunc(3*time.Second, func() { ep.conn.Close() })
				}
			}()
		}
		if k.Mode == "unary" {
			var p *pb.Pod
			p, last = cli.GetPod(ctx, &pb.GetPodOptions{Name: k.Req})
			if last == nil {
				delivered = append(delivered, p.Name)
			}
		} else {
			var recv func() (string, error)
			switch k.Method {
			case "WorkloadStatusStream":
				st, err := cli.WorkloadStatusStream(ctx, &pb.WorkloadStatusStreamOptions{Appname: k.Req})
				last = err
				if err == nil {
					recv = func() (string, error) { m, e := st.Recv(); return m.GetId(), e }
				}
			case "WatchServiceStatus":
				st, err := cli.WatchServiceStatus(ctx, &pb.Empty{})
				last = err
				if err == nil {
					recv = func() (string, error) { m, e := st.Recv(); return strings.Join(m.GetAddresses(), ","), e }
				}
			case "NodeStatusStream":
				st, err := cli.NodeStatusStream(ctx, &pb.Empty{})
				last = err
				if err == nil {
					recv = func() (string, error) { m, e := st.Recv(); return m.GetNodename(), e }
				}
			default:
				st, err := cli.GetPodResource(ctx, &pb.GetPodOptions{Name: k.Req})
				last = err
				if err == nil {
					recv = func() (string, error) { m, e := st.Recv(); return m.GetName(), e }
				}
			}
			cancelled := false
			for recv != nil {
				if k.CancelAfter >= 0 && len(delivered) >= k.CancelAfter && !cancelled {
					cancelled = true
					// the first request is on its way: let it reach the handler so that the count is stable
					for w := 0; w < 2000 && len(delivered) == 0; w++ {
						srv.mu.Lock()
						n := len(srv.seen)
						srv.mu.Unlock()
						if n >= 1 {
							break
						}
						time.Sleep(time.Millisecond)
					}
					srv.mu.Lock()
					impl["seen_at_cancel"] = len(srv.seen)
					srv.mu.Unlock()
					cancel()
					if k.Wrap { // a (wrongly) re-opened stream lives on a detached context: make sure the run ends
						tm := time.AfterFunc(3*time.Second, func() { ep.conn.Close() })
						defer tm.Stop()
					}
					// one more Recv after the cancellation: it must fail without reaching the server
					_, last = recv()
					if last == nil { // a message already in flight may still be delivered; drain
						for last == nil {
							_, last = recv()
						}
					}
					break
				}
				var id string
				id, last = recv()
				if last != nil {
					break
				}
				delivered = append(delivered, id)
				atomic.AddInt64(&ndelivered, 1)
				if len(delivered) > 10000 {
					last = errors.New("runaway")
					break
				}
			}
		}
		ep.close() // waits for the server handlers: every call that reached the server is in `seen`
		cmu.Lock()
		defer cmu.Unlock()
		srv.mu.Lock()
		impl["seen"] = append([]string{}, srv.seen...)
		srv.mu.Unlock()
		impl["delivered"] = delivered
		impl["err"] = errClass(last)
		inj.mu.Lock()
		impl["opens"] = inj.opens
		impl["opens_after_cancel"] = inj.late
		inj.mu.Unlock()
	})
	if kind != "" {
		impl["crash"] = kind + ":" + msg
	}
}

// prodBudgets reads the retry budgets /repo's own clients configure (a tiny fact extractor).
func prodBudgets() map[string]int {
	res := map[string]int{}
	root := os.Getenv("VERIF_REPO_DIR")
	if root == "" {
		root = os.Getenv("VERIF_REPO")
	}
	if root == "" {
		root = "/repo"
	}
	for name, file := range map[string]string{"client": root + "/client/client.go", "servicediscovery": root + "/client/servicediscovery/eru_service_discovery.go"} {
		src, err := os.ReadFile(file)
		if err != nil {
			continue
		}
		for _, m := range regexp.MustCompile(`New(Unary|Stream)Retry\(interceptor\.RetryOptions\{Max:\s*(\d+)\}\)`).FindAllStringSubmatch(string(src), -1) {
			v, _ := strconv.Atoi(m[2])
			res[name+"."+strings.ToLower(m[1])] = v
		}
	}
	return res
}

func allowList() []string {
	res := []string{}
	for m := range interceptor.RPCNeedRetry {
		res = append(res, m)
	}
	sortStrings(res)
	return res
}

func sortStrings(xs []string) {
	for i := 1; i < len(xs); i++ {
		for j := i; j > 0 && xs[j] < xs[j-1]; j-- {
			xs[j], xs[j-1] = xs[j-1], xs[j]
		}
	}
}

func genScript(r *hx.Rng, slow bool) []streamScript {
	n := r.Range(1, 6)
	sc := make([]streamScript, n)
	for i := range sc {
		k := hx.Pick(r, 1, 1, 2, 3, 5)
		if slow && r.Chance(40) {
			k = 0 // an empty stream costs a real-time back-off
		}
		sc[i] = streamScript{K: k, End: hx.Pick(r, "err", "eof")}
	}
	return sc
}

func testGenRetry(t *testing.T) {
	seed := hx.Seed()
	r := hx.NewRng(seed)
	n := hx.EnvInt("VERIF_CASES", 60)
	var cases []*retryCase
	if rp := os.Getenv("VERIF_REPLAY"); rp != "" {
		var err error
		if cases, err = replayCases[retryCase](rp); err != nil {
			t.Fatal(err)
		}
	} else {
		add := func(k *retryCase) { k.CancelAfter = max(k.CancelAfter, -1); cases = append(cases, k) }
		S := func(k int, e string) streamScript { return streamScript{K: k, End: e} }
		// fixed corpus
		add(&retryCase{Mode: "stream", Method: "WorkloadStatusStream", Max: 1, Script: []streamScript{S(2, "err"), S(0, "err"), S(1, "eof"), S(0, "eof"), S(0, "err")}, CancelAfter: -1})
		add(&retryCase{Mode: "stream", Method: "WatchServiceStatus", Max: 0, Script: []streamScript{S(1, "eof"), S(2, "err")}, CancelAfter: -1})
		add(&retryCase{Mode: "stream", Method: "WorkloadStatusStream", Max: 2, Script: []streamScript{S(2, "err"), S(3, "hang")}, CancelAfter: 3})
		add(&retryCase{Mode: "stream", Method: "WorkloadStatusStream", Max: 1, Script: []streamScript{S(1, "hang")}, CancelAfter: 0})
		add(&retryCase{Mode: "stream", Method: "WatchServiceStatus", Max: 1, Script: []streamScript{S(2, "err"), S(1, "hang")}, CancelAfter: -1, CancelBlock: true})
		add(&retryCase{Mode: "stream", Method: "WorkloadStatusStream", Max: 2, Script: []streamScript{S(0, "hang")}, CancelAfter: -1, CancelBlock: true})
		add(&retryCase{Mode: "stream", Method: "WorkloadStatusStream", Max: 2, Script: []streamScript{S(1, "eof"), S(0, "err"), S(0, "hang")}, CancelAfter: -1, CancelBlock: true})
		add(&retryCase{Mode: "stream", Method: "NodeStatusStream", Max: 2, Script: []streamScript{S(2, "hang")}, CancelAfter: -1, CancelBlock: true})
		F := func(kind string) streamScript { return streamScript{End: "err", Fault: kind} }
		add(&retryCase{Mode: "stream", Method: "WorkloadStatusStream", Max: 2, Script: []streamScript{S(1, "err"), F("send"), S(1, "eof")}, CancelAfter: -1})
		add(&retryCase{Mode: "stream", Method: "WatchServiceStatus", Max: 1, Script: []streamScript{S(2, "eof"), F("open"), S(1, "err"), F("send"), F("open"), S(3, "eof")}, CancelAfter: -1})
		add(&retryCase{Mode: "stream", Method: "WorkloadStatusStream", Max: 3, Script: []streamScript{S(1, "err"), F("open"), S(0, "eof"), F("send"), S(2, "err")}, CancelAfter: -1})
		add(&retryCase{Mode: "stream", Method: "GetPodResource", Max: 2, Script: []streamScript{S(1, "err"), F("send"), S(1, "eof")}, CancelAfter: -1})
		add(&retryCase{Mode: "stream", Method: "WatchServiceStatus", Max: 3, Script: []streamScript{S(1, "hang"), S(1, "eof")}, CancelAfter: 1, Wrap: true})
		add(&retryCase{Mode: "stream", Method: "WorkloadStatusStream", Max: 0, Script: []streamScript{S(2, "err"), S(1, "hang"), S(2, "hang")}, CancelAfter: -1, CancelBlock: true, Wrap: true})
		add(&retryCase{Mode: "stream", Method: "GetPodResource", Max: 2, Script: []streamScript{S(2, "hang"), S(1, "eof")}, CancelAfter: 1, Wrap: true})
		add(&retryCase{Mode: "stream", Method: "GetPodResource", Max: 3, Script: []streamScript{S(2, "err"), S(2, "eof")}, CancelAfter: -1})
		add(&retryCase{Mode: "stream", Method: "NodeStatusStream", Max: 3, Script: []streamScript{S(0, "eof"), S(2, "eof")}, CancelAfter: -1})
		add(&retryCase{Mode: "unary", Method: "GetPod", Max: 0, Unary: []bool{false, true}})
		add(&retryCase{Mode: "unary", Method: "GetPod", Max: 2, Unary: []bool{false, false, true}})
		for i := 0; i < n; i++ {
			k := &retryCase{Max: r.Intn(4), CancelAfter: -1}
			slow := i%5 == 0 // bounded share of cases that sit in real-time back-off
			switch c := r.Intn(10); {
			case c < 6:
				k.Mode, k.Method = "stream", hx.Pick(r, "WorkloadStatusStream", "WatchServiceStatus")
				k.Script = genScript(r, slow)
				if r.Chance(30) { // re-open attempts that fail on the client side (open error, re-send error)
					for n := r.Range(1, 2); n > 0; n-- {
						at := r.Range(1, len(k.Script))
						f := streamScript{End: "err", Fault: hx.Pick(r, "send", "send", "open")}
						k.Script = append(k.Script[:at], append([]streamScript{f}, k.Script[at:]...)...)
					}
				}
				if r.Chance(25) { // the watch ends the usual way: the stream goes silent, the caller cancels while blocked
					k.CancelBlock = true
					k.Script[len(k.Script)-1] = streamScript{K: hx.Pick(r, 0, 1, 3), End: "hang"}
				} else if r.Chance(35) {
					tot := 0
					for _, s := range k.Script {
						tot += s.K
					}
					k.CancelAfter = r.Intn(tot + 1)
					k.Script[len(k.Script)-1].End = "hang"
				}
				if (k.CancelBlock || k.CancelAfter >= 0) && r.Chance(40) {
					k.Wrap = true
					// something the server could still play if the cancelled watch were (wrongly) re-opened
					k.Script = append(k.Script, streamScript{K: hx.Pick(r, 1, 2), End: "eof"})
				}
			case c < 8:
				k.Mode, k.Method = "stream", hx.Pick(r, "GetPodResource", "NodeStatusStream")
				k.Script = genScript(r, true)
			default:
				k.Mode, k.Method = "unary", "GetPod"
				if !slow {
					k.Max = hx.Pick(r, 0, 0, 1)
				}
				m := r.Range(1, 4)
				for j := 0; j < m; j++ {
					k.Unary = append(k.Unary, r.Chance(40))
				}
			}
			add(k)
		}
		allow, prod := allowList(), prodBudgets()
		for i, k := range cases {
			k.ID = fmt.Sprintf("r%d-%d", seed, i)
			k.Req = fmt.Sprintf("req-%d", i)
			k.Allow, k.ProdMax = allow, prod
		}
	}
	runParallel(len(cases), 48, func(i int) { runRetry(cases[i]) })
	out := hx.OpenOut()
	defer out.Close()
	for _, k := range cases {
		out.Emit(k)
	}
}

func TestGen(t *testing.T) {
	if os.Getenv("VERIF_PROPERTY") == "C36" {
		testGenRetry(t)
		return
	}
	testGenAuth(t)
}
