// Correspondence harness for C17: the real utils.Txn / utils.PCR with instrumented closures.
// Exhaustive over step outcomes (cond ok/fail, then ok/fail/absent, rollback ok/fail/absent) and
// the moment at which the caller cancels its context (before/during each step, never, afterwards).
package txn

import (
	"bufio"
	"context"
	"encoding/json"
	"errors"
	"fmt"
	"os"
	"strings"
	"sync"
	"testing"
	"time"

	"verifharness/hx"

	"github.com/projecteru2/core/types"
	"github.com/projecteru2/core/utils"
)

type call struct {
	Step   string `json:"step"`
	Entry  bool   `json:"entry"` // ctx.Err() != nil when the step started
	Exit   bool   `json:"exit"`  // ctx.Err() != nil when the step returned
	ByCond *bool  `json:"by_cond,omitempty"`
	Traced bool   `json:"traced"` // the tracing value of the caller's context is visible
}

type kase struct {
	ID     string         `json:"id"`
	Fn     string         `json:"fn"`     // "txn" | "pcr"
	Cond   string         `json:"cond"`   // ok | fail
	Then   string         `json:"then"`   // ok | fail | absent
	Rb     string         `json:"rb"`     // ok | fail | absent
	Cancel string         `json:"cancel"` // never beforeCond duringCond beforeThen duringThen beforeRollback duringRollback afterAll
	Slow   string         `json:"slow"`   // none | cond | then | rollback: the step that runs for longer than ttl
	Traced bool           `json:"traced"` // the caller's context carries a types.TracingID value
	Impl   map[string]any `json:"impl"`
}

var errCond = errors.New("cond failed")
var errThen = errors.New("then failed")
var errRb = errors.New("rollback failed")

const (
	shortTTL  = 300 * time.Millisecond
	slowSleep = 450 * time.Millisecond
)

// run executes one row; a row with a short ttl is repeated when the machine was too busy for the
// assumption "steps other than the slow one take negligible time" to hold in that execution
func run(k *kase) {
	for attempt := 0; attempt < 8; attempt++ {
		if runOnce(k) {
			return
		}
	}
}

func runOnce(k *kase) (timingOK bool) {
	impl := map[string]any{}
	k.Impl = impl
	calls := []call{}
	slept := false
	base := context.Background()
	if k.Traced {
		base = context.WithValue(base, types.TracingID, "tid-1")
	}
	ctx0, cancel := context.WithCancel(base)
	defer cancel()
	ttl := time.Hour
	if k.Slow != "" && k.Slow != "none" {
		ttl = shortTTL
	}
	step := func(name string, outcome string, e error, flag *bool) func(context.Context) error {
		return func(ctx context.Context) error {
			if k.Cancel == "before"+name {
				cancel()
			}
			c := call{Step: strings.ToLower(name), Entry: ctx.Err() != nil, ByCond: flag}
			if k.Cancel == "during"+name {
				cancel()
				// cancellation of a derived context is propagated synchronously by context.WithCancel/WithTimeout
			}
			if strings.EqualFold(k.Slow, name) {
				slept = true
				time.Sleep(slowSleep) // this step overruns ttl
			}
			c.Exit = ctx.Err() != nil
			tid, _ := ctx.Value(types.TracingID).(string)
			c.Traced = tid == "tid-1"
			calls = append(calls, c)
			if outcome == "fail" {
				return e
			}
			return nil
		}
	}
	cond := step("Cond", k.Cond, errCond, nil)
	var then func(context.Context) error
	if k.Then != "absent" {
		then = step("Then", k.Then, errThen, nil)
	}
	if k.Cancel == "beforeCond" {
		// handled inside cond's wrapper before the entry observation: cancel before calling Txn instead
		cancel()
	}
	var err error
	t0 := time.Now()
	kind, msg := hx.Guard(10*time.Second, func() {
		if k.Fn == "pcr" {
			var rb func(context.Context) error
			if k.Rb != "absent" {
				rb = step("Rollback", k.Rb, errRb, nil)
			}
			err = utils.PCR(ctx0, cond, then, rb, ttl)
		} else {
			var rb func(context.Context, bool) error
			if k.Rb != "absent" {
				rb = func(ctx context.Context, byCond bool) error {
					return step("Rollback", k.Rb, errRb, &byCond)(ctx)
				}
			}
			err = utils.Txn(ctx0, cond, then, rb, ttl)
		}
	})
	elapsed := time.Since(t0)
	if slept {
		elapsed -= slowSleep
	}
	timingOK = ttl == time.Hour || elapsed < shortTTL/4
	if k.Cancel == "afterAll" {
		cancel()
	}
	impl["calls"] = calls
	switch {
	case kind != "":
		impl["crash"] = kind
		_ = msg
	case err == nil:
		impl["ret"] = "nil"
	case errors.Is(err, errCond):
		impl["ret"] = "condErr"
	case errors.Is(err, errThen):
		impl["ret"] = "thenErr"
	case errors.Is(err, errRb):
		impl["ret"] = "rollbackErr"
	default:
		impl["ret"] = "other:" + err.Error()
	}
	return timingOK
}

func TestGen(t *testing.T) {
	var cases []*kase
	if rp := os.Getenv("VERIF_REPLAY"); rp != "" {
		f, err := os.Open(rp)
		if err != nil {
			t.Fatal(err)
		}
		sc := bufio.NewScanner(f)
		for sc.Scan() {
			if strings.TrimSpace(sc.Text()) == "" {
				continue
			}
			k := &kase{}
			if err := json.Unmarshal(sc.Bytes(), k); err != nil {
				t.Fatal(err)
			}
			cases = append(cases, k)
		}
		f.Close()
	} else {
		i := 0
		for _, fn := range []string{"txn", "pcr"} {
			for _, c := range []string{"ok", "fail"} {
				for _, th := range []string{"ok", "fail", "absent"} {
					for _, rb := range []string{"ok", "fail", "absent"} {
						for _, ca := range []string{"never", "beforeCond", "duringCond", "beforeThen", "duringThen", "beforeRollback", "duringRollback", "afterAll"} {
							// every row: plain; with each step overrunning ttl; with a caller context carrying a tracing id
							for _, v := range [][2]string{{"none", ""}, {"cond", ""}, {"then", ""}, {"rollback", ""}, {"none", "traced"}} {
								cases = append(cases, &kase{ID: fmt.Sprintf("t%d", i), Fn: fn, Cond: c, Then: th, Rb: rb, Cancel: ca, Slow: v[0], Traced: v[1] != ""})
								i++
							}
						}
					}
				}
			}
		}
	}
	// the slow rows sleep in real time: run the (independent) rows on 48 goroutines
	var wg sync.WaitGroup
	ch := make(chan *kase)
	for w := 0; w < 32; w++ {
		wg.Add(1)
		go func() {
			defer wg.Done()
			for k := range ch {
				run(k)
			}
		}()
	}
	for _, k := range cases {
		ch <- k
	}
	close(ch)
	wg.Wait()
	out := hx.OpenOut()
	defer out.Close()
	for _, k := range cases {
		out.Emit(k)
	}
}
