// Correspondence harness for C16: drives the real wal.Hydro (over a real kv.Lithium / bbolt file)
// through generated histories of log / commit / close-reopen / recover with scripted handlers.
// A thin KV wrapper (installed through wal.VerifNewHydro) records the ids handed out by
// NextSequence and can park a Log between NextSequence and Put (concurrent loggers, crashes).
package wal

import (
	"bufio"
	"context"
	"encoding/json"
	"errors"
	"fmt"
	"os"
	"path/filepath"
	"strconv"
	"strings"
	"sync"
	"testing"
	"time"

	"verifharness/hx"

	"github.com/projecteru2/core/types"
	corewal "github.com/projecteru2/core/wal"
	"github.com/projecteru2/core/wal/kv"
)

type op struct {
	Op    string            `json:"op"` // log begin finish burst reject commit reopen register recover dump inject
	Typ   string            `json:"typ,omitempty"`
	Item  string            `json:"item,omitempty"`
	Items []string          `json:"items,omitempty"` // burst
	Typs  []string          `json:"typs,omitempty"`  // burst
	Reg   []string          `json:"reg,omitempty"`   // reopen: handler types registered on the new instance
	Outs  map[string]string `json:"outs,omitempty"`  // recover: item -> ok|handleErr|notNeeded|checkErr|decodeErr (default ok)
	Key   string            `json:"key,omitempty"`   // inject
	Val   string            `json:"val,omitempty"`   // inject: "event" (valid JSON of typ/item) | "garbage"
	// recover only: actions other goroutines perform BETWEEN the scan and the handling of an event (fired
	// from inside the handler's Decode of item At, i.e. after the scan transaction and before the event's
	// check/handle/delete), and a scan transaction failing after that many entries
	During        []*during      `json:"during,omitempty"`
	ScanFailAfter *int           `json:"scan_fail_after,omitempty"`
	Impl          map[string]any `json:"impl,omitempty"`
}

type during struct {
	At   string `json:"at"`
	Do   string `json:"do"` // "commit" | "log"
	Item string `json:"item"`
	Typ  string `json:"typ,omitempty"`
}

type kase struct {
	ID    string   `json:"id"`
	Plain bool     `json:"plain"` // true: real wal.NewHydro, no wrapper (ids only visible in dumps)
	Reg   []string `json:"reg"`   // handler types registered initially
	Ops   []*op    `json:"ops"`
	Crash string   `json:"crash,omitempty"`
}

// ---------------------------------------------------------------- scripted handler

type callLog struct {
	mu    sync.Mutex
	calls [][3]string
	outs  map[string]string
	hook  func(kind, item string) // called (outside the lock) before a call is answered
}

func (c *callLog) add(kind, typ, item string) string {
	if c.hook != nil {
		c.hook(kind, item)
	}
	c.mu.Lock()
	defer c.mu.Unlock()
	c.calls = append(c.calls, [3]string{kind, typ, item})
	if o, ok := c.outs[item]; ok {
		return o
	}
	return "ok"
}

type handler struct {
	typ string
	log *callLog
}

func (h handler) Typ() string { return h.typ }
func (h handler) Encode(v any) ([]byte, error) {
	s := v.(string)
	if strings.HasPrefix(s, "!enc") {
		return nil, errors.New("scripted encode error")
	}
	return []byte(s), nil
}
func (h handler) Decode(bs []byte) (any, error) {
	if h.log.add("decode", h.typ, string(bs)) == "decodeErr" {
		return nil, errors.New("scripted decode error")
	}
	return string(bs), nil
}
func (h handler) Check(_ context.Context, v any) (bool, error) {
	switch h.log.add("check", h.typ, v.(string)) {
	case "checkErr":
		return false, errors.New("scripted check error")
	case "notNeeded", "notNeededDelErr":
		return false, nil
	}
	return true, nil
}
func (h handler) Handle(_ context.Context, v any) error {
	if h.log.add("handle", h.typ, v.(string)) == "handleErr" {
		return errors.New("scripted handle error")
	}
	return nil
}

// ---------------------------------------------------------------- observing KV wrapper

type obsKV struct {
	kv.KV
	mu     sync.Mutex // serialises KV calls so that the recorded order is the execution order
	trace  [][]any
	park   bool
	parked chan uint64
	gates  map[uint64]chan bool
	// fault injection (only while a recover op that asks for it runs)
	failDelete    map[string]bool // items whose Delete fails
	scanFailAfter int             // >= 0: the next Scan fails after that many entries
}

type errEntry struct{ err error }

func (e errEntry) Pair() ([]byte, []byte) { return nil, nil }
func (e errEntry) Error() error          { return e.err }

// Scan: optionally a scan transaction that fails after n entries (Lithium reports that with an entry
// carrying the error; Hydro skips it and the channel closes)
func (o *obsKV) Scan(prefix []byte) (<-chan kv.ScanEntry, func()) {
	o.mu.Lock()
	n := o.scanFailAfter
	o.scanFailAfter = -1
	o.mu.Unlock()
	ch, abort := o.KV.Scan(prefix)
	if n < 0 {
		return ch, abort
	}
	out := make(chan kv.ScanEntry)
	go func() {
		defer close(out)
		i := 0
		for e := range ch {
			if i == n {
				abort()
				break
			}
			out <- e
			i++
		}
		out <- errEntry{errors.New("injected scan failure")}
		for range ch { // let the real scanner finish
		}
	}()
	return out, func() {}
}

func idOfKey(key []byte) uint64 {
	v, _ := strconv.ParseUint(strings.TrimPrefix(string(key), "/events/"), 16, 64)
	return v
}

func (o *obsKV) NextSequence() (uint64, error) {
	o.mu.Lock()
	defer o.mu.Unlock()
	id, err := o.KV.NextSequence()
	if err == nil {
		o.trace = append(o.trace, []any{"seq", id})
	}
	return id, err
}

func (o *obsKV) Put(key, val []byte) error {
	o.mu.Lock()
	if o.park {
		id := idOfKey(key)
		g := make(chan bool, 1)
		if old, dup := o.gates[id]; dup { // id handed out twice: let the earlier logger go ahead
			old <- true
		}
		o.gates[id] = g
		o.park = false
		o.mu.Unlock()
		o.parked <- id
		if !<-g {
			return errors.New("aborted: process died before Put")
		}
		o.mu.Lock()
	}
	defer o.mu.Unlock()
	err := o.KV.Put(key, val)
	if err == nil {
		var ev corewal.HydroEvent
		_ = json.Unmarshal(val, &ev)
		o.trace = append(o.trace, []any{"put", idOfKey(key), ev.Type, string(ev.Item)})
	}
	return err
}

func (o *obsKV) Delete(key []byte) error {
	o.mu.Lock()
	defer o.mu.Unlock()
	if len(o.failDelete) > 0 {
		if val, err := o.KV.Get(key); err == nil {
			var ev corewal.HydroEvent
			if json.Unmarshal(val, &ev) == nil && o.failDelete[string(ev.Item)] {
				return errors.New("injected delete failure")
			}
		}
	}
	return o.KV.Delete(key)
}

// ---------------------------------------------------------------- driver

type driver struct {
	path    string
	plain   bool
	h       *corewal.Hydro
	lith    *kv.Lithium
	obs     *obsKV
	log     *callLog
	commits map[string]corewal.Commit
	done    map[string]chan error // in-flight (parked) logs by item
	idOf    map[string]uint64
}

func (d *driver) open(reg []string) error {
	if d.plain {
		h, err := corewal.NewHydro(d.path, time.Second)
		if err != nil {
			return err
		}
		d.h = h
	} else {
		d.lith = kv.NewLithium()
		if err := d.lith.Open(d.path, 0600, time.Second); err != nil {
			return err
		}
		d.obs = &obsKV{KV: d.lith, parked: make(chan uint64, 1), gates: map[uint64]chan bool{}, scanFailAfter: -1}
		d.h = corewal.VerifNewHydro(d.obs)
	}
	for _, t := range reg {
		d.h.Register(handler{typ: t, log: d.log})
	}
	return nil
}

func (d *driver) closeAndAbort() {
	d.h.Close()
	if d.obs != nil {
		d.obs.mu.Lock()
		for id, g := range d.obs.gates {
			g <- false
			delete(d.obs.gates, id)
		}
		d.obs.mu.Unlock()
		for item, ch := range d.done {
			<-ch
			delete(d.done, item)
		}
	}
}

func errClass(err error) string {
	switch {
	case err == nil:
		return "ok"
	case errors.Is(err, types.ErrInvaildWALEventType):
		return "invalid-type"
	case errors.Is(err, types.ErrInvaildWALEvent):
		return "invalid-event"
	case strings.Contains(err.Error(), "scripted encode error"):
		return "encode"
	case strings.Contains(err.Error(), "aborted"):
		return "aborted"
	}
	return "other:" + err.Error()
}

func (d *driver) dump() ([][3]string, error) {
	var l *kv.Lithium
	if d.plain { // the file is locked by the Hydro: close it, read, open again (= a restart)
		return nil, errors.New("dump in plain mode goes through reopen")
	}
	l = d.lith
	res := [][3]string{}
	ch, _ := l.Scan([]byte(""))
	for e := range ch {
		if e.Error() != nil {
			return nil, e.Error()
		}
		k, v := e.Pair()
		var ev corewal.HydroEvent
		if err := json.Unmarshal(v, &ev); err != nil {
			res = append(res, [3]string{string(k), "", "!garbage"})
		} else {
			res = append(res, [3]string{string(k), ev.Type, string(ev.Item)})
		}
	}
	return res, nil
}

func dumpFile(path string) ([][3]string, error) {
	l := kv.NewLithium()
	if err := l.Open(path, 0600, time.Second); err != nil {
		return nil, err
	}
	defer l.Close()
	d := &driver{lith: l}
	return d.dump()
}

func (d *driver) exec(o *op) {
	impl := map[string]any{}
	o.Impl = impl
	switch o.Op {
	case "log":
		n0 := 0
		if d.obs != nil {
			n0 = len(d.obs.trace)
		}
		c, err := d.h.Log(o.Typ, o.Item)
		impl["err"] = errClass(err)
		if err == nil {
			d.commits[o.Item] = c
			if d.obs != nil {
				for _, ev := range d.obs.trace[n0:] {
					if ev[0] == "seq" {
						impl["id"] = ev[1]
					}
				}
			}
		}
	case "reject":
		_, err := d.h.Log(o.Typ, o.Item)
		impl["err"] = errClass(err)
	case "begin":
		d.obs.mu.Lock()
		d.obs.park = true
		d.obs.mu.Unlock()
		ch := make(chan error, 1)
		d.done[o.Item] = ch
		item, typ := o.Item, o.Typ
		go func() {
			c, err := d.h.Log(typ, item)
			if err == nil {
				d.obs.mu.Lock()
				d.commits[item] = c
				d.obs.mu.Unlock()
			}
			ch <- err
		}()
		select {
		case id := <-d.obs.parked:
			d.idOf[o.Item] = id
			impl["id"] = id
		case err := <-ch: // Log failed before reaching Put
			impl["err"] = errClass(err)
			delete(d.done, o.Item)
			d.obs.mu.Lock()
			d.obs.park = false
			d.obs.mu.Unlock()
		}
	case "finish":
		id := d.idOf[o.Item]
		d.obs.mu.Lock()
		g := d.obs.gates[id]
		delete(d.obs.gates, id)
		d.obs.mu.Unlock()
		if g == nil { // can only happen if the store handed the same id to two loggers
			impl["err"] = "no-gate"
			return
		}
		g <- true
		err := <-d.done[o.Item]
		delete(d.done, o.Item)
		impl["err"] = errClass(err)
		impl["id"] = id
	case "burst":
		n0 := len(d.obs.trace)
		var wg sync.WaitGroup
		errs := make([]string, len(o.Items))
		for i := range o.Items {
			wg.Add(1)
			go func(i int) {
				defer wg.Done()
				c, err := d.h.Log(o.Typs[i], o.Items[i])
				errs[i] = errClass(err)
				if err == nil {
					d.obs.mu.Lock()
					d.commits[o.Items[i]] = c
					d.obs.mu.Unlock()
				}
			}(i)
		}
		wg.Wait()
		impl["errs"] = errs
		impl["trace"] = append([][]any{}, d.obs.trace[n0:]...)
	case "commit":
		c := d.commits[o.Item]
		if c == nil {
			impl["err"] = "no-closure"
			return
		}
		impl["err"] = errClass(c())
	case "register":
		d.h.Register(handler{typ: o.Typ, log: d.log})
	case "reopen":
		d.closeAndAbort()
		if d.plain {
			if ents, err := dumpFile(d.path); err == nil {
				impl["dump"] = ents
			} else {
				impl["err"] = "dump:" + err.Error()
			}
		}
		// commit closures of the old instance are dead with the process
		d.commits = map[string]corewal.Commit{}
		if err := d.open(o.Reg); err != nil {
			impl["err"] = "open:" + err.Error()
		}
	case "failput":
		id := d.idOf[o.Item]
		d.obs.mu.Lock()
		g := d.obs.gates[id]
		delete(d.obs.gates, id)
		d.obs.mu.Unlock()
		if g == nil {
			impl["err"] = "no-gate"
			return
		}
		g <- false // the Put returns an error: Log fails after it consumed the id
		err := <-d.done[o.Item]
		delete(d.done, o.Item)
		impl["err"] = errClass(err)
	case "recover":
		fired := []map[string]any{}
		pending := append([]*during{}, o.During...)
		d.log.mu.Lock()
		d.log.calls = nil
		d.log.outs = o.Outs
		d.log.hook = nil
		if len(pending) > 0 {
			d.log.hook = func(kind, item string) {
				if kind != "decode" {
					return
				}
				for i, a := range pending {
					if a == nil || a.At != item {
						continue
					}
					pending[i] = nil
					f := map[string]any{"at": a.At, "do": a.Do, "item": a.Item}
					switch a.Do {
					case "commit":
						d.obs.mu.Lock()
						c := d.commits[a.Item]
						d.obs.mu.Unlock()
						if c == nil {
							continue
						}
						if err := c(); err != nil {
							f["err"] = err.Error()
						}
					case "log":
						n0 := len(d.obs.trace)
						c, err := d.h.Log(a.Typ, a.Item)
						if err != nil {
							f["err"] = err.Error()
							continue
						}
						d.obs.mu.Lock()
						d.commits[a.Item] = c
						for _, ev := range d.obs.trace[n0:] {
							if ev[0] == "seq" {
								f["id"] = ev[1]
							}
						}
						d.obs.mu.Unlock()
						f["typ"] = a.Typ
					}
					fired = append(fired, f)
				}
			}
		}
		d.log.mu.Unlock()
		if d.obs != nil {
			d.obs.mu.Lock()
			d.obs.failDelete = map[string]bool{}
			for it, oc := range o.Outs {
				if strings.HasSuffix(oc, "DelErr") {
					d.obs.failDelete[it] = true
				}
			}
			if o.ScanFailAfter != nil {
				d.obs.scanFailAfter = *o.ScanFailAfter
			}
			d.obs.mu.Unlock()
		}
		d.h.Recover(context.Background())
		if d.obs != nil {
			d.obs.mu.Lock()
			d.obs.failDelete = nil
			d.obs.scanFailAfter = -1
			d.obs.mu.Unlock()
		}
		d.log.mu.Lock()
		d.log.hook = nil
		impl["calls"] = append([][3]string{}, d.log.calls...)
		d.log.mu.Unlock()
		impl["fired"] = fired
	case "dump":
		ents, err := d.dump()
		if err != nil {
			impl["err"] = err.Error()
		}
		impl["dump"] = ents
	case "inject":
		val := []byte("{not json")
		if o.Val == "event" {
			val, _ = corewal.NewHydroEvent(0, o.Typ, []byte(o.Item)).Encode()
		}
		impl["err"] = errClass(d.lith.Put([]byte(o.Key), val))
	}
}

func runCase(k *kase, dir string) {
	path := filepath.Join(dir, strings.ReplaceAll(k.ID, "/", "_")+".db")
	os.Remove(path)
	defer os.Remove(path)
	kind, msg := hx.Guard(20*time.Second, func() {
		d := &driver{path: path, plain: k.Plain, log: &callLog{}, commits: map[string]corewal.Commit{}, done: map[string]chan error{}, idOf: map[string]uint64{}}
		if err := d.open(k.Reg); err != nil {
			k.Crash = "open:" + err.Error()
			return
		}
		for _, o := range k.Ops {
			d.exec(o)
		}
		d.closeAndAbort()
	})
	if kind != "" {
		k.Crash = kind + ":" + msg
	}
}

// ---------------------------------------------------------------- generator

var allTypes = []string{"create-lambda", "create-workload", "workload-allocated", "processing-created"}
var outcomes = []string{"ok", "ok", "handleErr", "notNeeded", "checkErr", "decodeErr"}

type gen struct {
	plain    bool
	r        *hx.Rng
	n        int
	reg      map[string]bool
	finished []string // items whose Log returned (commit closure alive)
	inflight []string
	live     []string // items believed to be in the store (for outcome scripts)
}

func (g *gen) item() string { g.n++; return fmt.Sprintf("i%d", g.n) }

func (g *gen) regList() []string {
	res := []string{}
	for _, t := range allTypes {
		if g.reg[t] {
			res = append(res, t)
		}
	}
	return res
}

func (g *gen) pickReg() string {
	l := g.regList()
	if len(l) == 0 {
		return ""
	}
	return l[g.r.Intn(len(l))]
}

func (g *gen) outs() map[string]string {
	m := map[string]string{}
	mode := g.r.Intn(4) // 0 all ok, 1 sparse failures, 2 dense mix, 3 everything fails
	for _, it := range g.live {
		switch mode {
		case 1:
			if g.r.Chance(20) {
				m[it] = hx.Pick(g.r, outcomes...)
			}
		case 2:
			m[it] = hx.Pick(g.r, outcomes...)
			if !g.plain && g.r.Chance(15) { // the KV Delete of the handled event fails
				m[it] = hx.Pick(g.r, "okDelErr", "notNeededDelErr")
			}
		case 3:
			m[it] = hx.Pick(g.r, "handleErr", "checkErr", "decodeErr")
		}
	}
	return m
}

func remove(xs []string, x string) []string {
	res := xs[:0:0]
	for _, y := range xs {
		if y != x {
			res = append(res, y)
		}
	}
	return res
}

func genCase(r *hx.Rng, plain bool, maxOps int) *kase {
	g := &gen{r: r, plain: plain, reg: map[string]bool{}}
	for _, t := range allTypes {
		if r.Chance(75) {
			g.reg[t] = true
		}
	}
	if len(g.regList()) == 0 {
		g.reg[allTypes[0]] = true
	}
	k := &kase{Plain: plain, Reg: g.regList()}
	nops := r.Range(3, maxOps)
	allowInject := r.Chance(15) // foreign writes switch the specification off for the history: keep them to a minority
	if r.Chance(12) {
		// long prefix of logs: ids cross the one-hex-digit boundary (15 -> 16), where an unpadded or
		// differently ordered key encoding would change the scan order
		for i, n := 0, r.Range(14, 20); i < n; i++ {
			it := g.item()
			k.Ops = append(k.Ops, &op{Op: "log", Typ: g.pickReg(), Item: it})
			g.finished, g.live = append(g.finished, it), append(g.live, it)
		}
		nops += len(k.Ops)
	}
	for len(k.Ops) < nops {
		c := r.Intn(100)
		noReg := len(g.regList()) == 0 // nothing registered: every Log is rejected (covered by "reject")
		switch {
		case c < 30 && !noReg:
			it := g.item()
			k.Ops = append(k.Ops, &op{Op: "log", Typ: g.pickReg(), Item: it})
			g.finished, g.live = append(g.finished, it), append(g.live, it)
		case c < 40 && !plain && !noReg:
			it := g.item()
			k.Ops = append(k.Ops, &op{Op: "begin", Typ: g.pickReg(), Item: it})
			g.inflight = append(g.inflight, it)
		case c < 50 && !plain && len(g.inflight) > 0 && r.Chance(25):
			// the Put of an in-flight Log fails: id consumed, nothing stored
			it := g.inflight[r.Intn(len(g.inflight))]
			g.inflight = remove(g.inflight, it)
			k.Ops = append(k.Ops, &op{Op: "failput", Item: it})
		case c < 50 && !plain && len(g.inflight) > 0:
			it := g.inflight[r.Intn(len(g.inflight))]
			g.inflight = remove(g.inflight, it)
			k.Ops = append(k.Ops, &op{Op: "finish", Item: it})
			g.finished, g.live = append(g.finished, it), append(g.live, it)
		case c < 55 && !plain && !noReg:
			o := &op{Op: "burst"}
			for i, n := 0, r.Range(2, 6); i < n; i++ {
				it := g.item()
				o.Items, o.Typs = append(o.Items, it), append(o.Typs, g.pickReg())
				g.finished, g.live = append(g.finished, it), append(g.live, it)
			}
			k.Ops = append(k.Ops, o)
		case c < 70 && len(g.finished) > 0:
			it := g.finished[r.Intn(len(g.finished))]
			if r.Chance(85) {
				g.finished = remove(g.finished, it) // otherwise: may be committed twice later
			}
			k.Ops = append(k.Ops, &op{Op: "commit", Item: it})
		case c < 80:
			// restart: registrations are per instance
			g.reg = map[string]bool{}
			for _, t := range allTypes {
				if r.Chance(80) {
					g.reg[t] = true
				}
			}
			k.Ops = append(k.Ops, &op{Op: "reopen", Reg: g.regList()})
			g.finished, g.inflight = nil, nil
		case c < 83:
			t := allTypes[r.Intn(len(allTypes))]
			g.reg[t] = true
			k.Ops = append(k.Ops, &op{Op: "register", Typ: t})
		case c < 86:
			if r.Chance(50) || noReg {
				k.Ops = append(k.Ops, &op{Op: "reject", Typ: hx.Pick(r, "no-such-type", "", allTypes[r.Intn(len(allTypes))]+"x"), Item: g.item()})
			} else if t := g.pickReg(); t != "" {
				k.Ops = append(k.Ops, &op{Op: "reject", Typ: t, Item: "!enc" + g.item()})
			}
		case c < 88 && !plain && allowInject:
			it := g.item()
			if noReg {
				continue
			}
			key := hx.Pick(r, "/events/zz", "/events/", "/events/00000000000000000000000000000000ff", "/events/000000000000000A", "/event", "/events0", "/eventz/0000000000000001", "/events/00000000000000a0")
			k.Ops = append(k.Ops, &op{Op: "inject", Key: key, Val: hx.Pick(r, "event", "event", "garbage"), Typ: g.pickReg(), Item: it})
			g.live = append(g.live, it)
		case c < 97:
			rec := &op{Op: "recover", Outs: g.outs()}
			if !plain && !noReg && len(g.live) > 0 && r.Chance(35) {
				// other goroutines commit / log between the scan and the handling of some event
				for n := r.Range(1, 3); n > 0; n-- {
					a := &during{At: g.live[r.Intn(len(g.live))]}
					if len(g.finished) > 0 && r.Chance(70) {
						a.Do, a.Item = "commit", g.finished[r.Intn(len(g.finished))]
						if strings.HasSuffix(rec.Outs[a.Item], "DelErr") {
							continue // its Delete is made to fail during this recovery
						}
						if r.Chance(85) {
							g.finished = remove(g.finished, a.Item)
						}
					} else {
						a.Do, a.Item, a.Typ = "log", g.item(), g.pickReg()
						g.finished, g.live = append(g.finished, a.Item), append(g.live, a.Item)
					}
					rec.During = append(rec.During, a)
				}
			}
			if !plain && !allowInject && r.Chance(8) {
				n := r.Intn(4)
				rec.ScanFailAfter = &n
			}
			k.Ops = append(k.Ops, rec)
			if !plain {
				k.Ops = append(k.Ops, &op{Op: "dump"})
			}
		default:
			if !plain {
				k.Ops = append(k.Ops, &op{Op: "dump"})
			}
		}
	}
	// always end with a recovery of whatever is left, and a look at the store
	k.Ops = append(k.Ops, &op{Op: "recover", Outs: g.outs()})
	if plain {
		k.Ops = append(k.Ops, &op{Op: "reopen", Reg: g.regList()})
	} else {
		k.Ops = append(k.Ops, &op{Op: "dump"})
	}
	return k
}

func fixedCorpus() []*kase {
	T := allTypes
	two := 2
	return []*kase{
		// a Commit lands between the scan and the handling: the handler still runs for "b" (and "c" logged meanwhile is not replayed)
		{Reg: T, Ops: []*op{{Op: "log", Typ: T[0], Item: "a"}, {Op: "log", Typ: T[1], Item: "b"},
			{Op: "recover", During: []*during{{At: "a", Do: "commit", Item: "b"}, {At: "a", Do: "log", Item: "c", Typ: T[0]}, {At: "b", Do: "commit", Item: "b"}}}, {Op: "dump"}, {Op: "recover"}, {Op: "dump"}}},
		// KV faults: Delete fails for "a", the Put of "c" fails, the scan fails after 2 entries
		{Reg: T, Ops: []*op{{Op: "log", Typ: T[0], Item: "a"}, {Op: "log", Typ: T[1], Item: "b"}, {Op: "begin", Typ: T[2], Item: "c"}, {Op: "failput", Item: "c"}, {Op: "log", Typ: T[2], Item: "d"},
			{Op: "recover", Outs: map[string]string{"a": "okDelErr", "b": "notNeededDelErr"}}, {Op: "dump"},
			{Op: "recover", ScanFailAfter: &two}, {Op: "dump"}, {Op: "recover"}, {Op: "dump"}}},
		{Reg: T, Ops: []*op{{Op: "log", Typ: T[0], Item: "a"}, {Op: "log", Typ: T[1], Item: "b"}, {Op: "commit", Item: "a"}, {Op: "reopen", Reg: T},
			{Op: "log", Typ: T[0], Item: "c"}, {Op: "recover", Outs: map[string]string{"b": "handleErr"}}, {Op: "dump"}, {Op: "recover"}, {Op: "dump"}}},
		{Reg: T, Ops: []*op{{Op: "begin", Typ: T[0], Item: "a"}, {Op: "begin", Typ: T[0], Item: "b"}, {Op: "finish", Item: "b"}, {Op: "recover", Outs: map[string]string{"b": "checkErr"}},
			{Op: "finish", Item: "a"}, {Op: "begin", Typ: T[2], Item: "c"}, {Op: "reopen", Reg: T[:2]}, {Op: "log", Typ: T[1], Item: "d"}, {Op: "recover"}, {Op: "dump"}}},
	}
}

func TestGen(t *testing.T) {
	seed := hx.Seed()
	r := hx.NewRng(seed)
	n := hx.EnvInt("VERIF_CASES", 300)
	maxOps := 40
	if hx.Thorough() {
		maxOps = 120
	}
	dir := "/dev/shm"
	if st, err := os.Stat(dir); err != nil || !st.IsDir() {
		dir = t.TempDir()
	} else {
		dir, _ = os.MkdirTemp(dir, "verif-wal-")
		defer os.RemoveAll(dir)
	}
	var cases []*kase
	if rp := os.Getenv("VERIF_REPLAY"); rp != "" {
		f, err := os.Open(rp)
		if err != nil {
			t.Fatal(err)
		}
		sc := bufio.NewScanner(f)
		sc.Buffer(make([]byte, 1<<20), 1<<26)
		for sc.Scan() {
			if strings.TrimSpace(sc.Text()) == "" {
				continue
			}
			k := &kase{}
			if err := json.Unmarshal(sc.Bytes(), k); err != nil {
				t.Fatal(err)
			}
			for _, o := range k.Ops {
				o.Impl = nil
			}
			k.Crash = ""
			cases = append(cases, k)
		}
		f.Close()
	} else {
		cases = fixedCorpus()
		for i := 0; i < n; i++ {
			cases = append(cases, genCase(r, i%6 == 5, maxOps))
		}
		for i, k := range cases {
			k.ID = fmt.Sprintf("w%d-%d", seed, i)
		}
	}
	out := hx.OpenOut()
	defer out.Close()
	for _, k := range cases {
		runCase(k, dir)
		out.Emit(k)
	}
}
