package lockcal

import (
	"fmt"
	"go/ast"
	"go/parser"
	"go/token"
	"os"
	"path/filepath"
	"sort"
	"strings"
)

// helperKind classifies the lock helpers of cluster/calcium/lock.go
func helperKind(name string) string {
	switch name {
	case "withNodesPodLocked", "withNodePodLocked":
		return "pod"
	case "withNodesOperationLocked", "withNodeOperationLocked":
		return "nodeop"
	case "withWorkloadsLocked", "withWorkloadLocked":
		return "workload"
	case "withNodesLocked", "doLock":
		return "raw"
	}
	return ""
}

// scanNesting parses /repo/cluster/calcium/*.go (no tests, no verif hooks) and reports, for every
// call of a lock helper, the innermost lock helper call whose function-literal argument lexically
// encloses it: "file:Func:outer>inner".
func scanNesting(dir string) ([]string, error) {
	files, err := filepath.Glob(filepath.Join(dir, "*.go"))
	if err != nil {
		return nil, err
	}
	out := []string{}
	fset := token.NewFileSet()
	for _, f := range files {
		base := filepath.Base(f)
		if strings.HasSuffix(base, "_test.go") || strings.HasPrefix(base, "verif_") {
			continue
		}
		src, err := os.ReadFile(f)
		if err != nil {
			return nil, err
		}
		af, err := parser.ParseFile(fset, f, src, 0)
		if err != nil {
			return nil, err
		}
		for _, d := range af.Decls {
			fd, ok := d.(*ast.FuncDecl)
			if !ok || fd.Body == nil {
				continue
			}
			var walk func(n ast.Node, outer string)
			walk = func(n ast.Node, outer string) {
				ast.Inspect(n, func(x ast.Node) bool {
					call, ok := x.(*ast.CallExpr)
					if !ok {
						return true
					}
					sel, ok := call.Fun.(*ast.SelectorExpr)
					if !ok {
						return true
					}
					kind := helperKind(sel.Sel.Name)
					if kind == "" {
						return true
					}
					out = append(out, fmt.Sprintf("%s:%s:%s>%s", base, fd.Name.Name, outer, kind))
					for _, a := range call.Args {
						walk(a, kind)
					}
					return false
				})
			}
			walk(fd.Body, "top")
		}
	}
	sort.Strings(out)
	return out, nil
}
