// Correspondence harness for C20 (lock order of cluster operations) and C21 (node selection):
// a real Calcium over the real etcd store (embedded etcd) or the real redis store (miniredis),
// a store wrapper recording CreateLock/Lock/Unlock per goroutine, generated store contents,
// node filters with shuffled/duplicated include lists across pods and shuffled id lists.
package lockcal

import (
	"bufio"
	"context"
	"encoding/json"
	"fmt"
	"os"
	"path/filepath"
	"runtime"
	"sort"
	"strconv"
	"strings"
	"sync"
	"testing"
	"time"

	"verifharness/hx"

	"github.com/alicebob/miniredis/v2"
	"github.com/projecteru2/core/cluster/calcium"
	enginefactory "github.com/projecteru2/core/engine/factory"
	"github.com/projecteru2/core/lock"
	"github.com/projecteru2/core/log"
	resourcetypes "github.com/projecteru2/core/resource/types"
	"github.com/projecteru2/core/store"
	"github.com/projecteru2/core/store/etcdv3"
	redisstore "github.com/projecteru2/core/store/redis"
	"github.com/projecteru2/core/types"
	clientv3 "go.etcd.io/etcd/client/v3"
)

type node struct {
	N      string            `json:"n"`
	Pod    string            `json:"pod"`
	Labels map[string]string `json:"labels"`
	Up     bool              `json:"up"`
	Bypass bool              `json:"bypass"`
	Test   bool              `json:"test"` // how "up" is realised: test node or node status key
}

type wl struct {
	ID   string `json:"id"`
	Node string `json:"node"`
}

type nfilter struct {
	Pod    string            `json:"pod"`
	Inc    []string          `json:"inc"`
	Exc    []string          `json:"exc"`
	Labels map[string]string `json:"labels"`
	All    bool              `json:"all"`
}

type kase struct {
	ID        string         `json:"id"`
	Op        string         `json:"op"` // filter | locks
	Backend   string         `json:"backend"`
	Kind      string         `json:"kind,omitempty"`
	Via       string         `json:"via,omitempty"` // which exported method drove the operation kind
	Nodes     []node         `json:"nodes"`
	Workloads []wl           `json:"workloads"`
	NF        nfilter        `json:"nf"`
	IDs       []string       `json:"ids"`
	Node      string         `json:"node,omitempty"`
	Pod       string         `json:"pod,omitempty"`
	Wid       string         `json:"wid,omitempty"`
	Ignore    bool           `json:"ignore"`
	Rollback  []string       `json:"rollback"`
	Deploy    bool           `json:"deploy,omitempty"` // create: nodes carry cpumem resources, the deployment really happens (remap goroutines)
	SmallPool bool           `json:"small_pool,omitempty"` // Calcium with a pool of 2 workers (pool.Invoke fails when saturated)
	Fail      int            `json:"fail"` // >= 0: the (Fail+1)-th Lock call of the case fails (injected)
	Impl      map[string]any `json:"impl"`
}

// ---------------------------------------------------------------- recording store wrapper
type event struct {
	gid uint64
	op  string
	key string
}

type recorder struct {
	mu     sync.Mutex
	events []event
	held   int
	last   time.Time
	calls  int // Lock calls so far in this case
	failAt int // inject a failure into that call (-1: never)
}

var errInjected = fmt.Errorf("injected lock failure")

func (r *recorder) shouldFail() bool {
	r.mu.Lock()
	defer r.mu.Unlock()
	n := r.calls
	r.calls++
	return r.failAt >= 0 && n == r.failAt
}

func (r *recorder) add(op, key string) {
	r.mu.Lock()
	defer r.mu.Unlock()
	r.events = append(r.events, event{gid(), op, key})
	if op == "acq" {
		r.held++
	} else {
		r.held--
	}
	r.last = time.Now()
}

func (r *recorder) reset() {
	r.mu.Lock()
	r.events, r.held, r.last, r.calls, r.failAt = nil, 0, time.Now(), 0, -1
	r.mu.Unlock()
}

// quiesce waits until nothing is held and no lock event happened for a little while
func (r *recorder) quiesce() {
	deadline := time.Now().Add(5 * time.Second)
	for time.Now().Before(deadline) {
		r.mu.Lock()
		idle := r.held == 0 && time.Since(r.last) > 40*time.Millisecond
		r.mu.Unlock()
		if idle {
			return
		}
		time.Sleep(5 * time.Millisecond)
	}
}

func gid() uint64 {
	var buf [64]byte
	n := runtime.Stack(buf[:], false)
	f := strings.Fields(string(buf[:n]))
	id, _ := strconv.ParseUint(f[1], 10, 64)
	return id
}

type recStore struct {
	store.Store
	rec *recorder
}

type recLock struct {
	lock.DistributedLock
	key  string
	rec  *recorder
	held bool
}

func (s *recStore) CreateLock(key string, ttl time.Duration) (lock.DistributedLock, error) {
	l, err := s.Store.CreateLock(key, ttl)
	if err != nil {
		return nil, err
	}
	return &recLock{DistributedLock: l, key: key, rec: s.rec}, nil
}

func (l *recLock) Lock(ctx context.Context) (context.Context, error) {
	if l.rec.shouldFail() {
		return nil, errInjected
	}
	rctx, err := l.DistributedLock.Lock(ctx)
	if err == nil {
		l.held = true
		l.rec.add("acq", l.key)
	}
	return rctx, err
}

func (l *recLock) Unlock(ctx context.Context) error {
	if l.held {
		l.held = false
		l.rec.add("rel", l.key)
	}
	return l.DistributedLock.Unlock(ctx)
}

// episodes splits every goroutine's event stream at the points where it holds nothing
func (r *recorder) episodes() [][][2]string {
	r.mu.Lock()
	defer r.mu.Unlock()
	per := map[uint64][]event{}
	order := []uint64{}
	for _, e := range r.events {
		if _, ok := per[e.gid]; !ok {
			order = append(order, e.gid)
		}
		per[e.gid] = append(per[e.gid], e)
	}
	out := [][][2]string{}
	for _, g := range order {
		cur := [][2]string{}
		held := 0
		for _, e := range per[g] {
			cur = append(cur, [2]string{e.op, e.key})
			if e.op == "acq" {
				held++
			} else {
				held--
			}
			if held == 0 {
				out = append(out, cur)
				cur = [][2]string{}
			}
		}
		if len(cur) > 0 {
			out = append(out, cur)
		}
	}
	sort.Slice(out, func(i, j int) bool { return fmt.Sprint(out[i]) < fmt.Sprint(out[j]) })
	return out
}

// ---------------------------------------------------------------- environment
type env struct {
	t     *testing.T
	cal   *calcium.Calcium
	big   *calcium.Calcium
	small *calcium.Calcium // same store, pool of 2
	etcd  *etcdv3.Mercury
	redis *redisstore.Rediaron
	mini  *miniredis.Miniredis
	rec   *recorder
}

func newEnv(t *testing.T) *env {
	ctx := context.Background()
	dir := t.TempDir()
	cfg := types.Config{
		LockTimeout:    12 * time.Second, // no case relies on a lock timing out (failures are injected); a self-deadlocking mutant costs this much per case
		GlobalTimeout:  60 * time.Second,
		MaxConcurrency: 1000,
		WALFile:        filepath.Join(dir, "wal"),
		Etcd:           types.EtcdConfig{Prefix: "/eru", LockPrefix: "__lock__/eru"},
		Scheduler:      types.SchedulerConfig{MaxShare: -1, ShareBase: 100},
		ConnectionTimeout: 2 * time.Second,
	}
	enginefactory.InitEngineCache(ctx, cfg, nil)
	cal, err := calcium.New(ctx, cfg, t)
	if err != nil {
		t.Fatal(err)
	}
	e := &env{t: t, cal: cal, big: cal, rec: &recorder{}}
	e.etcd = cal.GetStore().(*etcdv3.Mercury)
	scfg := cfg
	scfg.MaxConcurrency = 2
	scfg.WALFile = filepath.Join(dir, "wal2")
	if e.small, err = calcium.New(ctx, scfg, t); err != nil {
		t.Fatal(err)
	}
	e.mini, err = miniredis.Run()
	if err != nil {
		t.Fatal(err)
	}
	t.Cleanup(e.mini.Close)
	rcfg := cfg
	rcfg.Store = types.Redis
	rcfg.Redis = types.RedisConfig{Addr: e.mini.Addr(), LockPrefix: "/lock"}
	e.redis, err = redisstore.New(rcfg, t)
	if err != nil {
		t.Fatal(err)
	}
	return e
}

func (e *env) use(backend string) store.Store {
	var s store.Store = e.etcd
	if backend == "redis" {
		s = e.redis
	}
	e.big.VerifLockSetStore(&recStore{Store: s, rec: e.rec})
	e.small.VerifLockSetStore(&recStore{Store: s, rec: e.rec}) // the store keeps its own (large) pool
	return s
}

func (e *env) wipe() {
	ctx := context.Background()
	var err error
	for i := 0; i < 6; i++ { // an overloaded machine makes the embedded etcd time out now and then
		if _, err = e.etcd.Delete(ctx, "/", clientv3.WithPrefix()); err == nil {
			break
		}
		time.Sleep(time.Duration(i+1) * time.Second)
	}
	if err != nil {
		e.t.Fatal(err)
	}
	e.mini.FlushAll()
}

// populate writes the case's pods, nodes and workloads into the store
func (e *env) populate(s store.Store, k *kase) error {
	ctx := context.Background()
	pods := map[string]bool{}
	for _, n := range k.Nodes {
		if !pods[n.Pod] {
			pods[n.Pod] = true
			if _, err := s.AddPod(ctx, n.Pod, ""); err != nil {
				return err
			}
		}
		if k.Deploy { // through the cluster API so that the resource plugin knows the node
			if _, err := e.big.AddNode(ctx, &types.AddNodeOptions{Nodename: n.N, Endpoint: "mock://" + n.N, Podname: n.Pod, Labels: n.Labels, Test: true,
				Resources: resourcetypes.Resources{"cpumem": {"cpu": 4, "memory": int64(4 << 30)}}}); err != nil {
				return err
			}
			continue
		}
		nd, err := s.AddNode(ctx, &types.AddNodeOptions{Nodename: n.N, Endpoint: "mock://" + n.N, Podname: n.Pod, Labels: n.Labels, Test: n.Test})
		if err != nil {
			return err
		}
		// mock:// endpoints are stored as test nodes (always up); realise down nodes and
		// status-key-driven nodes by rewriting the stored flags
		if n.Bypass || !n.Test {
			nd.Bypass = n.Bypass
			nd.Test = n.Test
			if err := s.UpdateNodes(ctx, nd); err != nil {
				return err
			}
		}
		if n.Up && !n.Test {
			if err := s.SetNodeStatus(ctx, nd, 600); err != nil {
				return err
			}
		}
	}
	for _, w := range k.Workloads {
		wk := &types.Workload{ID: w.ID, Name: "app_e_" + w.ID, Nodename: w.Node, Podname: podOf(k, w.Node)}
		if err := s.AddWorkload(ctx, wk, nil); err != nil {
			return err
		}
	}
	return nil
}

func podOf(k *kase, nodename string) string {
	for _, n := range k.Nodes {
		if n.N == nodename {
			return n.Pod
		}
	}
	return ""
}

func (f nfilter) real() *types.NodeFilter {
	return &types.NodeFilter{Podname: f.Pod, Includes: append([]string{}, f.Inc...), Excludes: append([]string{}, f.Exc...), Labels: f.Labels, All: f.All}
}

// ---------------------------------------------------------------- running a case
func (e *env) run(k *kase) {
	if k.Kind == "nesting-scan" || k.Op == "nesting" {
		k.Op = "nesting"
		sites, err := scanNesting("/repo/cluster/calcium")
		if err != nil {
			k.Impl = map[string]any{"err": err.Error()}
			return
		}
		k.Impl = map[string]any{"sites": sites}
		return
	}
	e.wipe()
	s := e.use(k.Backend)
	var serr error
	for i := 0; i < 4; i++ {
		if serr = e.populate(s, k); serr == nil {
			break
		}
		time.Sleep(time.Duration(i+1) * time.Second)
		e.wipe()
	}
	if serr != nil {
		k.Impl = map[string]any{"setup": serr.Error()}
		return
	}
	e.rec.reset()
	e.rec.failAt = k.Fail
	ctx := context.Background()
	if k.Op == "filter" {
		var ns []*types.Node
		var err error
		kind, msg := hx.Guard(20*time.Second, func() { ns, err = e.cal.VerifLockFilterNodes(ctx, k.NF.real()) })
		switch {
		case kind != "":
			k.Impl = map[string]any{kind: msg}
		case err != nil:
			k.Impl = map[string]any{"err": "notfound"}
		default:
			names := []string{}
			for _, n := range ns {
				names = append(names, n.Name)
			}
			k.Impl = map[string]any{"ok": names}
		}
		return
	}
	kind, msg := hx.Guard(120*time.Second, func() { e.drive(ctx, k) })
	e.rec.quiesce()
	k.Impl = map[string]any{"episodes": e.rec.episodes()}
	if kind != "" {
		k.Impl[kind] = msg
	}
}

func (e *env) drive(ctx context.Context, k *kase) {
	c := e.big
	if k.SmallPool {
		c = e.small
	}
	nop := func(context.Context, map[string]*types.Node) error { return nil }
	deploy := &types.DeployOptions{Name: "app", Podname: "p", Image: "img", Count: 1, DeployStrategy: "AUTO",
		Entrypoint: &types.Entrypoint{Name: "e"}, NodeFilter: k.NF.real()}
	if k.Deploy {
		deploy.IgnorePull = true
		deploy.Count = 2
		deploy.Resources = resourcetypes.Resources{"cpumem": {"memory-request": int64(1 << 20), "cpu-request": 0.5}}
	}
	switch k.Kind {
	case "create":
		if ch, err := c.CreateWorkload(ctx, deploy); err == nil {
			for range ch {
			}
		}
	case "capacity":
		_, _ = c.CalculateCapacity(ctx, deploy)
	case "removepod":
		_ = c.RemovePod(ctx, k.Pod)
	case "node":
		switch k.Via {
		case "SetNode":
			_, _ = c.SetNode(ctx, &types.SetNodeOptions{Nodename: k.Node, Labels: map[string]string{"x": "y"}})
		case "RemoveNode":
			_ = c.RemoveNode(ctx, k.Node)
		default:
			_, _ = c.NodeResource(ctx, k.Node, true)
		}
	case "remove":
		if k.Via == "DissociateWorkload" {
			if ch, err := c.DissociateWorkload(ctx, append([]string{}, k.IDs...)); err == nil {
				for range ch {
				}
			}
		} else if ch, err := c.RemoveWorkload(ctx, append([]string{}, k.IDs...), true); err == nil {
			for range ch {
			}
		}
	case "replace":
		ropts := &types.ReplaceOptions{DeployOptions: types.DeployOptions{Name: "app", Image: "img", Count: 1, IgnorePull: true,
			Entrypoint: &types.Entrypoint{Name: "e"}, DeployStrategy: "AUTO"}, IDs: append([]string{}, k.IDs...)}
		if ch, err := c.ReplaceWorkload(ctx, ropts); err == nil {
			for range ch {
			}
		}
	case "realloc":
		_ = c.ReallocResource(ctx, &types.ReallocOptions{ID: k.Wid})
	case "each":
		switch k.Via {
		case "RawEngine":
			for _, id := range k.IDs {
				_, _ = c.RawEngine(ctx, &types.RawEngineOptions{ID: id, Op: "noop", IgnoreLock: k.Ignore})
			}
		case "ReplaceWorkload-unused":
			ropts := &types.ReplaceOptions{DeployOptions: types.DeployOptions{Name: "app", Image: "img", Count: 1, IgnorePull: true,
				Entrypoint: &types.Entrypoint{Name: "e"}, DeployStrategy: "AUTO"}, IDs: append([]string{}, k.IDs...)}
			if ch, err := c.ReplaceWorkload(ctx, ropts); err == nil {
				for range ch {
				}
			}
		case "Send":
			if ch, err := c.Send(ctx, &types.SendOptions{IDs: append([]string{}, k.IDs...), Files: []types.LinuxFile{{Filename: "/f", Content: []byte("x"), Mode: 0644}}}); err == nil {
				for range ch {
				}
			}
		default:
			if ch, err := c.ControlWorkload(ctx, append([]string{}, k.IDs...), "stop", true); err == nil {
				for range ch {
				}
			}
		}
	case "remap":
		c.RemapResourceAndLog(ctx, log.WithFunc("verif"), &types.Node{NodeMeta: types.NodeMeta{Name: k.Node}})
	case "nodespod":
		_ = c.VerifLockWithNodesPodLocked(ctx, k.NF.real(), nop)
	case "nodesop":
		_ = c.VerifLockWithNodesOperationLocked(ctx, k.NF.real(), nop)
	case "workloads":
		_ = c.VerifLockWithWorkloadsLocked(ctx, k.Ignore, append([]string{}, k.IDs...), func(context.Context, map[string]*types.Workload) error { return nil })
	}
}

// ---------------------------------------------------------------- generators
func genWorld(r *hx.Rng, k *kase) {
	npods := r.Range(1, 3)
	nnodes := r.Range(1, 6)
	names := []string{"n1", "n2", "n3", "n4", "n5", "n6", "n10", "N1", "n-1"}
	hx.Shuffle(r, names)
	podnames := []string{"pa", "pb", "pc", "p_a", "Pa"}
	hx.Shuffle(r, podnames)
	for i := 0; i < nnodes; i++ {
		n := node{N: names[i], Pod: podnames[r.Intn(npods)], Labels: map[string]string{}, Up: !r.Chance(20), Bypass: r.Chance(12)}
		if r.Chance(50) {
			n.Labels["zone"] = hx.Pick(r, "a", "b")
		}
		if r.Chance(30) {
			n.Labels["ssd"] = "1"
		}
		if r.Chance(25) {
			n.Labels["gpu"] = "" // a label that is present with an empty value
		}
		n.Test = n.Up && r.Chance(50)
		k.Nodes = append(k.Nodes, n)
	}
	nw := r.Range(0, 6)
	for i := 0; i < nw; i++ {
		k.Workloads = append(k.Workloads, wl{ID: fmt.Sprintf("%s%02d", hx.Pick(r, "w", "W", "x"), i*7%10+i), Node: k.Nodes[r.Intn(len(k.Nodes))].N})
	}
	hx.Shuffle(r, k.Workloads)
}

// genBigWorld: 13-40 nodes nXX spread over 2-3 pods (node nXX in pod p(XX mod pods)), all up:
// large enough that an unstable sort (sort.Slice beyond 12 elements) scrambles equal keys
func genBigWorld(r *hx.Rng, k *kase, n int) {
	pods := r.Range(2, 3)
	for i := 0; i < n; i++ {
		k.Nodes = append(k.Nodes, node{N: fmt.Sprintf("n%02d", i), Pod: fmt.Sprintf("p%d", i%pods), Labels: map[string]string{}, Up: true, Test: true})
	}
	hx.Shuffle(r, k.Nodes)
}

// bigCase: a helper (or create/capacity) over an include list naming most of a big world, shuffled
func bigCase(r *hx.Rng, n int, kind string) *kase {
	k := &kase{Op: "locks", Backend: "etcd", Kind: kind, Fail: -1, Workloads: []wl{}, IDs: []string{}, Rollback: []string{}}
	genBigWorld(r, k, n)
	inc := []string{}
	for _, nd := range k.Nodes {
		if r.Chance(92) {
			inc = append(inc, nd.N)
		}
	}
	if r.Chance(30) && len(inc) > 0 {
		inc = append(inc, inc[r.Intn(len(inc))]) // a repeat
	}
	hx.Shuffle(r, inc)
	k.NF = nfilter{Inc: inc, Exc: []string{}, Labels: map[string]string{}, All: true}
	return k
}

func genFilter(r *hx.Rng, k *kase) nfilter {
	f := nfilter{Inc: []string{}, Exc: []string{}, Labels: map[string]string{}}
	if r.Chance(55) { // include list: shuffled, with repeats, across pods, sometimes a missing name
		n := r.Range(1, 6)
		for i := 0; i < n; i++ {
			f.Inc = append(f.Inc, k.Nodes[r.Intn(len(k.Nodes))].N)
		}
		if r.Chance(8) {
			f.Inc = append(f.Inc, "ghost")
			hx.Shuffle(r, f.Inc)
		}
		f.All = r.Chance(50)
		if r.Chance(30) {
			f.Pod = k.Nodes[0].Pod
		}
		return f
	}
	if r.Chance(75) {
		f.Pod = k.Nodes[r.Intn(len(k.Nodes))].Pod
	}
	if r.Chance(5) {
		f.Pod = "nopod"
	}
	if r.Chance(50) {
		n := r.Range(1, 3)
		for i := 0; i < n; i++ {
			f.Exc = append(f.Exc, k.Nodes[r.Intn(len(k.Nodes))].N)
		}
		if r.Chance(20) {
			f.Exc = append(f.Exc, "ghost")
		}
	}
	if r.Chance(40) {
		f.Labels["zone"] = hx.Pick(r, "a", "b")
	}
	if r.Chance(15) {
		f.Labels["ssd"] = "1"
	}
	if r.Chance(20) {
		f.Labels["gpu"] = "" // must select only nodes that carry the key
	}
	f.All = r.Chance(35)
	return f
}

func genIDs(r *hx.Rng, k *kase) []string {
	ids := []string{}
	if len(k.Workloads) == 0 {
		return []string{"ghost"}
	}
	n := r.Range(1, 6)
	for i := 0; i < n; i++ {
		ids = append(ids, k.Workloads[r.Intn(len(k.Workloads))].ID)
	}
	if r.Chance(8) {
		ids = append(ids, "ghost")
		hx.Shuffle(r, ids)
	}
	return ids
}

func genLocks(r *hx.Rng, k *kase) {
	k.Op, k.Backend, k.Fail = "locks", "etcd", -1
	k.IDs, k.Rollback = []string{}, []string{}
	k.NF = nfilter{Inc: []string{}, Exc: []string{}, Labels: map[string]string{}}
	kinds := []string{"replace", "replace", "create", "create", "capacity", "removepod", "node", "node", "remove", "remove", "realloc", "each", "each", "remap", "nodespod", "nodespod", "nodesop", "workloads", "workloads"}
	k.Kind = kinds[r.Intn(len(kinds))]
	anyNode := k.Nodes[r.Intn(len(k.Nodes))].N
	if r.Chance(6) {
		anyNode = "ghost"
	}
	switch k.Kind {
	case "create", "capacity", "nodespod", "nodesop":
		k.NF = genFilter(r, k)
		if k.Kind == "create" && r.Chance(50) { // a create that really deploys: remap goroutines afterwards
			k.Deploy = true
			for i := range k.Nodes {
				k.Nodes[i].Up, k.Nodes[i].Test, k.Nodes[i].Bypass = true, true, false
			}
			k.Workloads = []wl{}
		}
	case "removepod":
		k.Pod = k.Nodes[r.Intn(len(k.Nodes))].Pod
	case "node":
		k.Node = anyNode
		k.Via = hx.Pick(r, "SetNode", "RemoveNode", "NodeResource")
	case "remove":
		k.IDs = genIDs(r, k)
		k.Via = hx.Pick(r, "RemoveWorkload", "DissociateWorkload")
		if k.Via == "RemoveWorkload" && len(k.Workloads) > 0 && r.Chance(35) {
			// saturated pool: outer goroutine + one node goroutine fill it, the remap cannot be submitted.
			// (ids of one node only: with a second node the code's own wg.Wait would never return)
			k.SmallPool = true
			node := k.Workloads[r.Intn(len(k.Workloads))].Node
			k.IDs = []string{}
			for _, w := range k.Workloads {
				if w.Node == node {
					k.IDs = append(k.IDs, w.ID)
				}
			}
			hx.Shuffle(r, k.IDs)
		}
	case "realloc":
		k.Wid = genIDs(r, k)[0]
	case "replace":
		k.IDs = genIDs(r, k)
		k.Via = "ReplaceWorkload"
	case "each":
		k.IDs = genIDs(r, k)
		k.Via = hx.Pick(r, "ControlWorkload", "Send", "RawEngine")
		k.Ignore = k.Via == "RawEngine" && r.Chance(40)
	case "remap":
		k.Node = anyNode
	case "workloads":
		k.IDs = genIDs(r, k)
		k.Ignore = r.Chance(15)
	}
	switch k.Kind { // a failing acquisition at every position (single-episode kinds only)
	case "create", "capacity", "removepod", "node", "nodespod", "nodesop", "workloads":
		if r.Chance(22) && !k.Deploy {
			k.Fail = r.Intn(4)
		}
	}
}

func corpus() []*kase {
	two := []node{{N: "n1", Pod: "pa", Labels: map[string]string{}, Up: true, Test: true}, {N: "n2", Pod: "pb", Labels: map[string]string{}, Up: true, Test: true}}
	mk := func(op, kind string, inc []string) *kase {
		return &kase{Op: op, Backend: "etcd", Kind: kind, Fail: -1, Nodes: two, Workloads: []wl{}, IDs: []string{}, Rollback: []string{},
			NF: nfilter{Inc: inc, Exc: []string{}, Labels: map[string]string{}}}
	}
	return []*kase{
		mk("filter", "", []string{"n1", "n1", "n2"}), // D10: used to give [n1,n1]
		mk("filter", "", []string{"n2", "n1"}),
		mk("locks", "nodespod", []string{"n1", "n2"}), // D10: plock_pa,plock_pb ...
		mk("locks", "nodespod", []string{"n2", "n1"}), // ... vs plock_pb,plock_pa
		mk("locks", "create", []string{"n2", "n1", "n2"}),
		bigCase(hx.NewRng(13), 13, "nodesop"),
		bigCase(hx.NewRng(14), 13, "nodespod"),
		bigCase(hx.NewRng(30), 30, "nodesop"),
		bigCase(hx.NewRng(64), 64, "nodesop"),
		{Op: "locks", Kind: "nesting-scan", Backend: "etcd", Fail: -1, Nodes: []node{}, Workloads: []wl{}, IDs: []string{}, Rollback: []string{},
			NF: nfilter{Inc: []string{}, Exc: []string{}, Labels: map[string]string{}}},
	}
}

func TestGen(t *testing.T) {
	seed := hx.Seed()
	r := hx.NewRng(seed)
	n := hx.EnvInt("VERIF_CASES", 200)
	prop := os.Getenv("VERIF_PROPERTY")
	out := hx.OpenOut()
	defer out.Close()
	e := newEnv(t)
	want := "locks"
	if prop == "C21" {
		want = "filter"
	}
	id := 0
	emit := func(k *kase) {
		if k.Op != want && !(want == "locks" && k.Op == "nesting") {
			return
		}
		k.ID = fmt.Sprintf("s%d-%d", seed, id)
		id++
		k.Impl = nil
		e.run(k)
		out.Emit(k)
	}
	if rp := os.Getenv("VERIF_REPLAY"); rp != "" {
		f, err := os.Open(rp)
		if err != nil {
			t.Fatal(err)
		}
		defer f.Close()
		sc := bufio.NewScanner(f)
		sc.Buffer(make([]byte, 1<<20), 1<<26)
		for sc.Scan() {
			k := &kase{}
			if json.Unmarshal(sc.Bytes(), k) == nil && k.Op != "" {
				emit(k)
			}
		}
		return
	}
	for _, k := range corpus() {
		emit(k)
	}
	for i := 0; i < n; i++ {
		if want == "locks" && i%25 == 7 { // include lists of 13-40 nodes interleaved over pods
			emit(bigCase(r, r.Range(13, 40), hx.Pick(r, "nodesop", "nodesop", "nodespod", "capacity")))
			continue
		}
		k := &kase{Workloads: []wl{}, Fail: -1}
		genWorld(r, k)
		if want == "filter" {
			k.Op = "filter"
			k.Backend = hx.Pick(r, "etcd", "etcd", "redis")
			k.IDs, k.Rollback = []string{}, []string{}
			k.NF = genFilter(r, k)
		} else {
			genLocks(r, k)
		}
		emit(k)
	}
}
