//go:build verif

// Package ckit builds a REAL calcium.Calcium (real etcd-backed store over embedded etcd,
// real cobalt manager with the real cpumem plugin, real WAL file) around a stateful fake
// engine, with recording / fault-injecting / parking decorators on every collaborator.
// See README.md.
package ckit

import (
	"context"
	"encoding/json"
	"fmt"
	"os"
	"path/filepath"
	"sort"
	"strconv"
	"strings"
	"sync"
	"sync/atomic"
	"testing"
	"time"

	"github.com/projecteru2/core/cluster/calcium"
	enginefactory "github.com/projecteru2/core/engine/factory"
	resourcetypes "github.com/projecteru2/core/resource/types"
	"github.com/projecteru2/core/store/etcdv3/embedded"
	"github.com/projecteru2/core/types"

	clientv3 "go.etcd.io/etcd/client/v3"
)

// Options configures NewCluster. Zero values give sensible defaults.
type Options struct {
	MaxShare       int           // scheduler max share (default -1)
	ShareBase      int           // pieces per core (default 100)
	LockTimeout    time.Duration // default 10s
	GlobalTimeout  time.Duration // default 20s
	MaxConcurrency int           // worker pool size (default 100000; small values make the pool DROP tasks)
	TraceLocks     bool          // also record lock / unlock calls (kind "lock"/"unlock", key in Node)
	WALFile        string        // default: a fresh file in t.TempDir()
}

// Cluster is one Calcium instance plus its instrumented collaborators.
type Cluster struct {
	T        *testing.T
	C        *calcium.Calcium
	Cfg      types.Config
	Rec      *Recorder
	Hub      *EngineHub
	Store    *Store // decorated store installed in C (Store.Store is the raw one)
	Rmgr     *Rmgr
	WAL      *WAL
	Etcd     *clientv3.Client // namespaced client of the embedded etcd shared by store and plugin
	ctx      context.Context
	cancel   context.CancelFunc
	inflight func() int64
}

var (
	initOnce sync.Once
	hubSeq   atomic.Int64
)

func (o Options) config(t *testing.T) types.Config {
	def := func(v, d int) int {
		if v == 0 {
			return d
		}
		return v
	}
	cfg := types.Config{}
	cfg.Etcd.Prefix = "/verif"
	cfg.Etcd.LockPrefix = "__lock__/verif"
	cfg.Store = "etcd"
	cfg.LockTimeout = o.LockTimeout
	if cfg.LockTimeout == 0 {
		cfg.LockTimeout = 10 * time.Second
	}
	cfg.GlobalTimeout = o.GlobalTimeout
	if cfg.GlobalTimeout == 0 {
		cfg.GlobalTimeout = 20 * time.Second
	}
	cfg.ConnectionTimeout = 10 * time.Second
	cfg.HAKeepaliveInterval = 16 * time.Second
	cfg.MaxConcurrency = def(o.MaxConcurrency, 100000)
	cfg.Scheduler.MaxShare = def(o.MaxShare, -1)
	cfg.Scheduler.ShareBase = def(o.ShareBase, 100)
	cfg.Scheduler.MaxDeployCount = 10000
	cfg.WALFile = o.WALFile
	if cfg.WALFile == "" {
		cfg.WALFile = filepath.Join(t.TempDir(), "core.wal")
	}
	cfg.WALOpenTimeout = 8 * time.Second
	return cfg
}

// NewCluster starts (or reuses: the embedded etcd is shared per *testing.T name) an embedded
// etcd and builds a Calcium on it. All Clusters created with the same t share ONE etcd key
// space — use Wipe between histories or distinct pod/node/app names.
func NewCluster(t *testing.T, opts Options) *Cluster {
	t.Helper()
	args := os.Args // embedded.NewCluster overwrites os.Args; keep the harness' own flags
	cfg := opts.config(t)
	ctx, cancel := context.WithCancel(context.Background())
	initOnce.Do(func() { enginefactory.InitEngineCache(context.Background(), cfg, nil) })
	cl := &Cluster{T: t, Cfg: cfg, ctx: ctx, cancel: cancel}
	cl.Rec = newRecorder()
	cl.Rec.lockEvts = opts.TraceLocks
	cl.Hub = newHub(fmt.Sprintf("h%d", hubSeq.Add(1)), cl.Rec)
	cl.open()
	os.Args = args
	cl.Etcd = embedded.NewCluster(t, cfg.Etcd.Prefix).RandClient()
	t.Cleanup(cl.Close)
	return cl
}

func (cl *Cluster) open() {
	c, err := calcium.New(cl.ctx, cl.Cfg, cl.T)
	if err != nil {
		cl.T.Fatalf("calcium.New: %v", err)
	}
	cl.C = c
	if cl.inflight, err = c.VerifInstrumentPool(); err != nil {
		cl.T.Fatalf("instrument pool: %v", err)
	}
	cl.Store = newStore(c.VerifStore(), cl.Rec)
	cl.Rmgr = &Rmgr{Manager: c.VerifRmgr(), rec: cl.Rec}
	cl.WAL = &WAL{WAL: c.VerifWAL(), rec: cl.Rec}
	c.VerifSetStore(cl.Store)
	c.VerifSetRmgr(cl.Rmgr)
	c.VerifSetWAL(cl.WAL)
	cl.Quiesce()
	cl.Rec.ResetTrace()
}

// Close releases the WAL file and the worker pool (registered as t.Cleanup by NewCluster).
func (cl *Cluster) Close() {
	if cl.C == nil {
		return
	}
	cl.cancel()
	_ = cl.WAL.WAL.Close()
	cl.C = nil
}

// Ctx is a background context for calling the cluster API.
func (cl *Cluster) Ctx() context.Context { return cl.ctx }

// Quiesce waits until the worker pool is idle (background remap / metrics tasks finished),
// so that traces and snapshots are not disturbed by the previous operation.
func (cl *Cluster) Quiesce() {
	deadline := time.Now().Add(15 * time.Second)
	idle := 0
	for time.Now().Before(deadline) {
		if cl.inflight() == 0 {
			idle++
			if idle >= 4 {
				return
			}
		} else {
			idle = 0
		}
		time.Sleep(200 * time.Microsecond)
	}
}

// SetPlan installs the fault / crash plan; ResetTrace clears the trace and the ordinals.
func (cl *Cluster) SetPlan(p Plan)   { cl.Rec.SetPlan(p) }
func (cl *Cluster) ResetTrace()      { cl.Rec.ResetTrace() }
func (cl *Cluster) Trace() []Event   { return cl.Rec.Trace() }
func (cl *Cluster) FailAt(a ...Addr) { cl.Rec.SetPlan(Plan{Fail: a}) }

// Traced runs f fault-injected by plan with a fresh trace and returns the foreground events
// (after waiting for the background tasks f started).
func (cl *Cluster) Traced(plan Plan, f func()) []Event {
	cl.Quiesce()
	cl.Rec.ResetTrace()
	cl.Rec.SetPlan(plan)
	f()
	cl.Quiesce()
	cl.Rec.SetPlan(Plan{})
	return Foreground(cl.Rec.Trace())
}

// ---------------------------------------------------------------- pods and nodes

// AddPod adds a pod through the cluster API.
func (cl *Cluster) AddPod(name string) {
	cl.T.Helper()
	if _, err := cl.C.AddPod(cl.ctx, name, ""); err != nil {
		cl.T.Fatalf("AddPod %s: %v", name, err)
	}
}

// NodeSpec describes a node to add. CPU cores get Share pieces each (0 = share base).
// NUMACPU / NUMAMemory follow the cpumem request format, e.g. NUMACPU {"0,1","2,3"},
// NUMAMemory {"1073741824","1073741824"}.
type NodeSpec struct {
	Name, Pod  string
	CPU        int
	Share      int
	Memory     int64
	NUMACPU    []string
	NUMAMemory []string
	Labels     map[string]string
}

// Resources renders the spec as a cpumem node resource request.
func (s NodeSpec) Resources() resourcetypes.Resources {
	raw := resourcetypes.RawParams{"cpu": s.CPU, "memory": s.Memory}
	if s.Share != 0 {
		raw["share"] = s.Share
	}
	if len(s.NUMACPU) > 0 {
		raw["numa-cpu"] = s.NUMACPU
	}
	if len(s.NUMAMemory) > 0 {
		raw["numa-memory"] = s.NUMAMemory
	}
	return resourcetypes.Resources{cpumemName: raw}
}

// AddNodeOptions renders the spec as options of Calcium.AddNode (endpoint of the fake engine,
// Test=true so that the node counts as available without a status heartbeat).
func (cl *Cluster) AddNodeOptions(s NodeSpec) *types.AddNodeOptions {
	return &types.AddNodeOptions{Nodename: s.Name, Endpoint: cl.Hub.Endpoint(s.Name), Podname: s.Pod, Labels: s.Labels, Resources: s.Resources(), Test: true}
}

// AddNode adds a node through the cluster API (fatal on error).
func (cl *Cluster) AddNode(s NodeSpec) *types.Node {
	cl.T.Helper()
	n, err := cl.C.AddNode(cl.ctx, cl.AddNodeOptions(s))
	if err != nil {
		cl.T.Fatalf("AddNode %s: %v", s.Name, err)
	}
	return n
}

// ---------------------------------------------------------------- snapshot

type NodeSnap struct {
	Name   string   `json:"name"`
	Pod    string   `json:"pod"`
	Bypass bool     `json:"bypass,omitempty"`
	Labels []string `json:"labels,omitempty"` // sorted k=v
	Cap    Res      `json:"cap"`
	Usage  Res      `json:"usage"`
	// CapSig / UsageSig: canonical JSON of the plugin's complete capacity / usage record (every field
	// the plugin stores, incl. the cpu→NUMA-node map and zero-valued entries that Res drops)
	CapSig   string `json:"capsig"`
	UsageSig string `json:"usagesig"`
	// Diffs is what the code's own node resource check (GetNodeResourceInfo with the recorded
	// workloads, fix=false) reports.
	Diffs []string `json:"diffs,omitempty"`
	// NoPlugin: the store knows the node but the resource plugin does not.
	NoPlugin bool `json:"noplugin,omitempty"`
}

type WorkloadSnap struct {
	ID   string `json:"id"`
	Name string `json:"name"`
	Node string `json:"node"`
	Pod  string `json:"pod"`
	Res  Res    `json:"res"`
}

type ContainerSnap struct {
	ID      string `json:"id"`
	Node    string `json:"node"`
	Running bool   `json:"running"`
}

type MarkerSnap struct {
	App   string `json:"app"`
	Entry string `json:"entry"`
	Node  string `json:"node"`
	Ident string `json:"ident"`
	Count int    `json:"count"`
}

// Snapshot is the abstract state of the cluster.
type Snapshot struct {
	Pods  []string   `json:"pods"`
	Nodes []NodeSnap `json:"nodes"` // sorted by name
	// Workloads recorded on the nodes (/node/<n>:workloads/*, what the node resource check uses), sorted by id.
	Workloads []WorkloadSnap `json:"workloads"`
	// WorkloadIDs under /workloads/* and DeployIDs under /deploy/** (for referential-consistency checks).
	WorkloadIDs []string        `json:"workload_ids"`
	DeployIDs   []string        `json:"deploy_ids"`
	Containers  []ContainerSnap `json:"containers"`
	Markers     []MarkerSnap    `json:"markers"`
	WAL         []WALEvent      `json:"wal"`
	// PluginNodes lists the nodes known to the resource plugin (for add/remove-node atomicity).
	PluginNodes []string `json:"plugin_nodes"`
}

// Snapshot reads the abstract state through the RAW collaborators (nothing is recorded,
// nothing can be failed). Call Quiesce first if an operation has just finished.
func (cl *Cluster) Snapshot() *Snapshot {
	ctx, cancel := context.WithTimeout(context.Background(), 120*time.Second)
	defer cancel()
	raw, rm := cl.Store.Store, cl.Rmgr.Manager
	s := &Snapshot{Pods: []string{}, Nodes: []NodeSnap{}, Workloads: []WorkloadSnap{}, WorkloadIDs: []string{}, DeployIDs: []string{},
		Containers: []ContainerSnap{}, Markers: []MarkerSnap{}, WAL: cl.WAL.Pending(), PluginNodes: []string{}}
	resp, err := cl.etcdGet("/", clientv3.WithPrefix(), clientv3.WithKeysOnly())
	if err != nil {
		cl.T.Fatalf("snapshot: etcd: %v", err)
	}
	nodeNames := []string{}
	for _, kv := range resp.Kvs {
		k := string(kv.Key)
		switch {
		case strings.HasPrefix(k, "/pod/info/"):
			s.Pods = append(s.Pods, strings.TrimPrefix(k, "/pod/info/"))
		case strings.HasPrefix(k, "/node/") && !strings.Contains(k[len("/node/"):], ":") && !strings.Contains(k[len("/node/"):], "/"):
			nodeNames = append(nodeNames, k[len("/node/"):])
		case strings.HasPrefix(k, "/workloads/"):
			s.WorkloadIDs = append(s.WorkloadIDs, strings.TrimPrefix(k, "/workloads/"))
		case strings.HasPrefix(k, "/deploy/"):
			s.DeployIDs = append(s.DeployIDs, k[strings.LastIndex(k, "/")+1:])
		case strings.HasPrefix(k, "/resource/cpumem/"):
			s.PluginNodes = append(s.PluginNodes, strings.TrimPrefix(k, "/resource/cpumem/"))
		case strings.HasPrefix(k, "/processing/"):
			parts := strings.Split(strings.TrimPrefix(k, "/processing/"), "/")
			if len(parts) == 4 {
				v, verr := cl.etcdGet(k)
				cnt := 0
				if verr == nil && len(v.Kvs) == 1 {
					cnt, _ = strconv.Atoi(string(v.Kvs[0].Value))
				}
				s.Markers = append(s.Markers, MarkerSnap{App: parts[0], Entry: parts[1], Node: parts[2], Ident: parts[3], Count: cnt})
			}
		}
	}
	sort.Strings(nodeNames)
	sort.Strings(s.DeployIDs)
	for _, name := range nodeNames {
		n, err := raw.GetNode(ctx, name)
		for i := 0; err != nil && i < 4; i++ {
			time.Sleep(300 * time.Millisecond)
			n, err = raw.GetNode(ctx, name)
		}
		if err != nil {
			cl.T.Fatalf("snapshot: GetNode %s: %v", name, err)
		}
		ns := NodeSnap{Name: name, Pod: n.Podname, Bypass: n.Bypass}
		for k, v := range n.Labels {
			ns.Labels = append(ns.Labels, k+"="+v)
		}
		sort.Strings(ns.Labels)
		ws, err := raw.ListNodeWorkloads(ctx, name, nil)
		for i := 0; err != nil && i < 4; i++ {
			time.Sleep(300 * time.Millisecond)
			ws, err = raw.ListNodeWorkloads(ctx, name, nil)
		}
		if err != nil {
			cl.T.Fatalf("snapshot: ListNodeWorkloads %s: %v", name, err)
		}
		for _, w := range ws {
			s.Workloads = append(s.Workloads, WorkloadSnap{ID: w.ID, Name: w.Name, Node: w.Nodename, Pod: w.Podname, Res: WorkloadRes(w.Resources)})
		}
		capa, usage, diffs, err := rm.GetNodeResourceInfo(ctx, name, ws, false)
		if err != nil {
			ns.NoPlugin = true
		} else {
			ns.Cap, ns.Usage, ns.Diffs = NodeRes(capa), NodeRes(usage), diffs
			cb, _ := json.Marshal(capa)
			ub, _ := json.Marshal(usage)
			ns.CapSig, ns.UsageSig = string(cb), string(ub)
		}
		s.Nodes = append(s.Nodes, ns)
	}
	sort.Slice(s.Workloads, func(i, j int) bool { return s.Workloads[i].ID < s.Workloads[j].ID })
	for _, c := range cl.Hub.Containers("") {
		s.Containers = append(s.Containers, ContainerSnap{ID: c.ID, Node: c.Node, Running: c.Running})
	}
	return s
}

// ---------------------------------------------------------------- checkpoint / restore / wipe

// Checkpoint is a copy of the persistent state: every etcd key without a lease (store and
// plugin records) and the fake engine's containers.
type Checkpoint struct {
	kvs        map[string]string
	containers map[string]Container
	wal        map[int]bool // WAL events pending at checkpoint time (kept on restore)
}

// etcdGet retries a read of the kit itself (the embedded etcd can time out when the machine is overloaded)
func (cl *Cluster) etcdGet(key string, opts ...clientv3.OpOption) (*clientv3.GetResponse, error) {
	var resp *clientv3.GetResponse
	var err error
	for i := 0; i < 5; i++ {
		ctx, cancel := context.WithTimeout(context.Background(), 30*time.Second)
		resp, err = cl.Etcd.Get(ctx, key, opts...)
		cancel()
		if err == nil {
			return resp, nil
		}
		time.Sleep(time.Duration(i+1) * 200 * time.Millisecond)
	}
	return resp, err
}

func (cl *Cluster) dumpKVs(ctx context.Context) map[string]string {
	resp, err := cl.etcdGet("", clientv3.WithPrefix())
	if err != nil {
		cl.T.Fatalf("checkpoint: %v", err)
	}
	out := map[string]string{}
	for _, kv := range resp.Kvs {
		if kv.Lease == 0 {
			out[string(kv.Key)] = string(kv.Value)
		}
	}
	return out
}

// Checkpoint captures the persistent state (call between operations, after Quiesce).
func (cl *Cluster) Checkpoint() *Checkpoint {
	ctx, cancel := context.WithTimeout(context.Background(), 20*time.Second)
	defer cancel()
	return &Checkpoint{kvs: cl.dumpKVs(ctx), containers: cl.Hub.dump(), wal: cl.WAL.pendingKeys()}
}

// Restore puts the persistent state back to cp: lease-less etcd keys, containers; WAL events
// logged since the checkpoint and still pending are purged. The Calcium instance itself is stateless between operations.
func (cl *Cluster) Restore(cp *Checkpoint) {
	ctx, cancel := context.WithTimeout(context.Background(), 20*time.Second)
	defer cancel()
	cl.Quiesce()
	cur := cl.dumpKVs(ctx)
	for k := range cur {
		if _, ok := cp.kvs[k]; !ok {
			_, err := cl.Etcd.Delete(ctx, k)
			for i := 0; err != nil && i < 4; i++ {
				time.Sleep(300 * time.Millisecond)
				_, err = cl.Etcd.Delete(context.Background(), k)
			}
			if err != nil {
				cl.T.Fatalf("restore: %v", err)
			}
		}
	}
	for k, v := range cp.kvs {
		if cur[k] != v {
			_, err := cl.Etcd.Put(ctx, k, v)
			for i := 0; err != nil && i < 4; i++ {
				time.Sleep(300 * time.Millisecond)
				_, err = cl.Etcd.Put(context.Background(), k, v)
			}
			if err != nil {
				cl.T.Fatalf("restore: %v", err)
			}
		}
	}
	cl.Hub.load(cp.containers)
	cl.WAL.Purge(cp.wal)
}

// Wipe empties the key space, the fake engines and the WAL (start of a new history on a shared etcd).
func (cl *Cluster) Wipe() {
	cl.Restore(&Checkpoint{kvs: map[string]string{}, containers: map[string]Container{}})
	ctx, cancel := context.WithTimeout(context.Background(), 20*time.Second)
	defer cancel()
	_, _ = cl.Etcd.Delete(ctx, "", clientv3.WithPrefix())
	cl.Rec.ResetTrace()
}

// ---------------------------------------------------------------- crash emulation

// Crash freezes the instance: call it after the crash point of the plan was reached
// (Rec.Crashed()). Every call the instance makes from now on stays parked forever, its WAL
// file is closed, and the etcd locks it holds are dropped (as lease expiry would do).
// Use Reopen to obtain the successor instance.
func (cl *Cluster) Crash() {
	cl.Rec.mu.Lock()
	cl.Rec.crashed = true
	cl.Rec.mu.Unlock()
	_ = cl.WAL.WAL.Close()
	ctx, cancel := context.WithTimeout(context.Background(), 20*time.Second)
	defer cancel()
	resp, err := cl.Etcd.Get(ctx, "", clientv3.WithPrefix())
	if err == nil {
		for _, kv := range resp.Kvs {
			if kv.Lease != 0 {
				_, _ = cl.Etcd.Delete(ctx, string(kv.Key))
			}
		}
	}
}

// Reopen builds a fresh Calcium (fresh Recorder and decorators) on the same etcd, WAL file
// and fake engines; the caller typically runs C.DisasterRecover next.
func (cl *Cluster) Reopen() {
	args := os.Args
	cl.Rec = newRecorder()
	cl.Hub.rec = cl.Rec
	cl.open()
	os.Args = args
}
