//go:build verif

package ckit

import (
	"bytes"
	"context"
	"crypto/sha256"
	"encoding/hex"
	"errors"
	"fmt"
	"io"
	"sort"
	"strings"
	"sync"
	"time"

	"github.com/projecteru2/core/engine"
	enginefactory "github.com/projecteru2/core/engine/factory"
	"github.com/projecteru2/core/engine/fake"
	enginetypes "github.com/projecteru2/core/engine/types"
	resourcetypes "github.com/projecteru2/core/resource/types"
	"github.com/projecteru2/core/types"
)

// EnginePrefix is the endpoint prefix served by the stateful fake engine:
// vfake://<hub id>/<node name>.
const EnginePrefix = "vfake://"

var (
	hubsMu sync.Mutex
	hubs   = map[string]*EngineHub{}
	regEng sync.Once
)

// Container is one container of the fake engine.
type Container struct {
	ID           string
	Name         string
	Node         string
	Running      bool
	User         string
	Image        string
	Labels       map[string]string
	Env          []string
	EngineParams resourcetypes.Resources
	Ancestor     string
	Lambda       bool
	Seq          int // ERU_WORKLOAD_SEQ of the create call, -1 if absent
}

// EngineHub holds the fake engines (one per node) of one Cluster.
type EngineHub struct {
	ID         string
	rec        *Recorder
	mu         sync.Mutex
	nodes      map[string]*FakeEngine
	containers map[string]*Container // by id, across nodes
	counter    int
	// UserSuffix is appended to the user reported by Inspect (non-empty forces the
	// "metadata changed, update workload" branch of create).
	UserSuffix string
	// WaitCode is the exit code returned by VirtualizationWait.
	WaitCode int64
}

func newHub(id string, rec *Recorder) *EngineHub {
	h := &EngineHub{ID: id, rec: rec, nodes: map[string]*FakeEngine{}, containers: map[string]*Container{}}
	hubsMu.Lock()
	hubs[id] = h
	hubsMu.Unlock()
	regEng.Do(func() {
		enginefactory.VerifRegisterEngine(EnginePrefix, func(_ context.Context, _ types.Config, nodename, endpoint, ca, cert, key string) (engine.API, error) {
			rest := strings.TrimPrefix(endpoint, EnginePrefix)
			parts := strings.SplitN(rest, "/", 2)
			hubsMu.Lock()
			hub := hubs[parts[0]]
			hubsMu.Unlock()
			if hub == nil || len(parts) != 2 {
				return nil, fmt.Errorf("verif: unknown fake engine endpoint %q", endpoint)
			}
			return hub.Engine(parts[1], &enginetypes.Params{Nodename: nodename, Endpoint: endpoint, CA: ca, Cert: cert, Key: key}), nil
		})
	})
	return h
}

// Endpoint returns the endpoint string to register a node with.
func (h *EngineHub) Endpoint(node string) string { return EnginePrefix + h.ID + "/" + node }

// Engine returns (creating if needed) the fake engine of a node.
func (h *EngineHub) Engine(node string, ep *enginetypes.Params) *FakeEngine {
	h.mu.Lock()
	defer h.mu.Unlock()
	e := h.nodes[node]
	if e == nil {
		e = &FakeEngine{EngineWithErr: &fake.EngineWithErr{DefaultErr: errors.New("verif: fake engine: not supported"), EP: ep}, hub: h, node: node, NCPU: 64, MemTotal: 1 << 40}
		h.nodes[node] = e
	} else if ep != nil {
		e.EngineWithErr.EP = ep
	}
	return e
}

// Containers returns a sorted copy of all containers (optionally of one node).
func (h *EngineHub) Containers(node string) []Container {
	h.mu.Lock()
	defer h.mu.Unlock()
	out := []Container{}
	for _, c := range h.containers {
		if node == "" || c.Node == node {
			out = append(out, *c)
		}
	}
	sort.Slice(out, func(i, j int) bool { return out[i].ID < out[j].ID })
	return out
}

// Get returns a copy of a container.
func (h *EngineHub) Get(id string) (Container, bool) {
	h.mu.Lock()
	defer h.mu.Unlock()
	c, ok := h.containers[id]
	if !ok {
		return Container{}, false
	}
	return *c, true
}

// SetRunning flips a container's running flag behind the back of the cluster (environment event).
func (h *EngineHub) SetRunning(id string, running bool) {
	h.mu.Lock()
	if c := h.containers[id]; c != nil {
		c.Running = running
	}
	h.mu.Unlock()
}

// Delete removes a container behind the back of the cluster (environment event).
func (h *EngineHub) Delete(id string) {
	h.mu.Lock()
	delete(h.containers, id)
	h.mu.Unlock()
}

func (h *EngineHub) dump() map[string]Container {
	h.mu.Lock()
	defer h.mu.Unlock()
	out := map[string]Container{}
	for k, c := range h.containers {
		out[k] = *c
	}
	return out
}

func (h *EngineHub) load(m map[string]Container) {
	h.mu.Lock()
	defer h.mu.Unlock()
	h.containers = map[string]*Container{}
	for k, c := range m {
		cc := c
		h.containers[k] = &cc
	}
}

// FakeEngine is a stateful in-memory engine for one node. Every call listed in the README
// is recorded / failed / parked through the cluster's Recorder; all other engine.API methods
// return an error (inherited from fake.EngineWithErr).
type FakeEngine struct {
	*fake.EngineWithErr
	hub      *EngineHub
	node     string
	NCPU     int
	MemTotal int64
}

func (e *FakeEngine) Info(ctx context.Context) (*enginetypes.Info, error) {
	idx, err := e.hub.rec.enter("engineInfo", e.node, "", "")
	if err != nil {
		return nil, err
	}
	e.hub.rec.done(idx, nil)
	return &enginetypes.Info{Type: "vfake", ID: e.node, NCPU: e.NCPU, MemTotal: e.MemTotal}, nil
}

func (e *FakeEngine) Ping(context.Context) error { return nil }
func (e *FakeEngine) CloseConn() error           { return nil }

func envSeq(env []string) int {
	for _, kv := range env {
		if strings.HasPrefix(kv, "ERU_WORKLOAD_SEQ=") {
			n := -1
			fmt.Sscanf(strings.TrimPrefix(kv, "ERU_WORKLOAD_SEQ="), "%d", &n)
			return n
		}
	}
	return -1
}

func (e *FakeEngine) VirtualizationCreate(ctx context.Context, opts *enginetypes.VirtualizationCreateOptions) (*enginetypes.VirtualizationCreated, error) {
	seq := envSeq(opts.Env)
	idx, err := e.hub.rec.enter("engineCreate", e.node, "", fmt.Sprintf("seq=%d", seq))
	if err != nil {
		return nil, err
	}
	if cerr := ctx.Err(); cerr != nil {
		e.hub.rec.done(idx, cerr)
		return nil, cerr
	}
	h := e.hub
	h.mu.Lock()
	h.counter++
	sum := sha256.Sum256([]byte(fmt.Sprintf("%s/%s/%d", h.ID, e.node, h.counter)))
	id := hex.EncodeToString(sum[:])
	labels := map[string]string{}
	for k, v := range opts.Labels {
		labels[k] = v
	}
	h.containers[id] = &Container{ID: id, Name: opts.Name, Node: e.node, User: opts.User, Image: opts.Image, Labels: labels,
		Env: append([]string{}, opts.Env...), EngineParams: opts.EngineParams, Ancestor: opts.AncestorWorkloadID, Lambda: opts.Lambda, Seq: seq}
	h.mu.Unlock()
	h.rec.setWID(idx, id)
	h.rec.done(idx, nil)
	return &enginetypes.VirtualizationCreated{ID: id, Name: opts.Name, Labels: map[string]string{}}, nil
}

func (e *FakeEngine) withContainer(kind, id, arg string, f func(c *Container) error) error {
	return e.withContainerCtx(context.Background(), kind, id, arg, f)
}

// withContainerCtx: like a remote engine, a call made with a finished context fails without effect
func (e *FakeEngine) withContainerCtx(ctx context.Context, kind, id, arg string, f func(c *Container) error) error {
	idx, err := e.hub.rec.enter(kind, e.node, id, arg)
	if err != nil {
		return err
	}
	if cerr := ctx.Err(); cerr != nil {
		e.hub.rec.done(idx, cerr)
		return cerr
	}
	h := e.hub
	h.mu.Lock()
	c := h.containers[id]
	if c == nil || c.Node != e.node {
		err = types.ErrWorkloadNotExists
	} else {
		err = f(c)
	}
	h.mu.Unlock()
	h.rec.done(idx, err)
	return err
}

func (e *FakeEngine) VirtualizationStart(ctx context.Context, id string) error {
	return e.withContainerCtx(ctx, "engineStart", id, "", func(c *Container) error { c.Running = true; return nil })
}

func (e *FakeEngine) VirtualizationStop(ctx context.Context, id string, _ time.Duration) error {
	return e.withContainerCtx(ctx, "engineStop", id, "", func(c *Container) error { c.Running = false; return nil })
}

func (e *FakeEngine) VirtualizationSuspend(ctx context.Context, id string) error {
	return e.withContainer("engineSuspend", id, "", func(c *Container) error { return nil })
}

func (e *FakeEngine) VirtualizationResume(ctx context.Context, id string) error {
	return e.withContainer("engineResume", id, "", func(c *Container) error { return nil })
}

func (e *FakeEngine) VirtualizationRemove(ctx context.Context, id string, _ bool, force bool) error {
	return e.withContainerCtx(ctx, "engineRemove", id, "", func(c *Container) error {
		if c.Running && !force {
			return errors.New("verif: fake engine: container is running, remove needs force")
		}
		delete(e.hub.containers, id)
		return nil
	})
}

func (e *FakeEngine) VirtualizationInspect(ctx context.Context, id string) (info *enginetypes.VirtualizationInfo, err error) {
	err = e.withContainerCtx(ctx, "engineInspect", id, "", func(c *Container) error {
		info = &enginetypes.VirtualizationInfo{ID: c.ID, User: c.User + e.hub.UserSuffix, Image: c.Image, Running: c.Running, Env: c.Env, Labels: c.Labels}
		return nil
	})
	return info, err
}

func (e *FakeEngine) VirtualizationUpdateResource(ctx context.Context, id string, params resourcetypes.Resources) error {
	return e.withContainerCtx(ctx, "engineUpdate", id, "", func(c *Container) error { c.EngineParams = params; return nil })
}

func (e *FakeEngine) VirtualizationWait(ctx context.Context, id, _ string) (res *enginetypes.VirtualizationWaitResult, err error) {
	err = e.withContainer("engineWait", id, "", func(c *Container) error {
		c.Running = false
		res = &enginetypes.VirtualizationWaitResult{Code: e.hub.WaitCode}
		return nil
	})
	return res, err
}

func (e *FakeEngine) VirtualizationLogs(ctx context.Context, opts *enginetypes.VirtualizationLogStreamOptions) (io.ReadCloser, io.ReadCloser, error) {
	err := e.withContainer("engineLogs", opts.ID, "", func(c *Container) error { return nil })
	if err != nil {
		return nil, nil, err
	}
	return io.NopCloser(bytes.NewReader(nil)), io.NopCloser(bytes.NewReader(nil)), nil
}

type nopWriteCloser struct{ io.Writer }

func (nopWriteCloser) Close() error { return nil }

func (e *FakeEngine) VirtualizationAttach(ctx context.Context, id string, _, _ bool) (io.ReadCloser, io.ReadCloser, io.WriteCloser, error) {
	err := e.withContainer("engineAttach", id, "", func(c *Container) error { return nil })
	if err != nil {
		return nil, nil, nil, err
	}
	return io.NopCloser(bytes.NewReader(nil)), io.NopCloser(bytes.NewReader(nil)), nopWriteCloser{io.Discard}, nil
}

func (e *FakeEngine) VirtualizationCopyTo(ctx context.Context, id, target string, _ []byte, _, _ int, _ int64) error {
	return e.withContainer("engineCopyTo", id, target, func(c *Container) error { return nil })
}

func (e *FakeEngine) VirtualizationCopyChunkTo(ctx context.Context, id, target string, _ int64, content io.Reader, _, _ int, _ int64) error {
	return e.withContainer("engineCopyTo", id, target, func(c *Container) error { _, _ = io.Copy(io.Discard, content); return nil })
}

// image calls: every image is present locally with one digest, so pullImage is a no-op.
func (e *FakeEngine) ImageLocalDigests(ctx context.Context, image string) ([]string, error) {
	return []string{"sha256:" + image}, nil
}
func (e *FakeEngine) ImageRemoteDigest(ctx context.Context, image string) (string, error) {
	return "sha256:" + image, nil
}
func (e *FakeEngine) ImagePull(ctx context.Context, ref string, all bool) (io.ReadCloser, error) {
	return io.NopCloser(bytes.NewReader(nil)), nil
}
