//go:build verif

package ckit

import (
	"fmt"
	"sort"
	"sync"

	"github.com/projecteru2/core/types"
	"github.com/projecteru2/core/wal"
)

// WALEvent is a logged, not yet committed WAL event as seen at the wal.WAL interface.
type WALEvent struct {
	Event string `json:"event"`
	Node  string `json:"node"`
	WID   string `json:"wid,omitempty"`
	n     int
}

// WAL decorates a wal.WAL: Log and the returned commit function are recorded as
// "walLog:<event>" / "walCommit:<event>" and can be failed / parked.
type WAL struct {
	wal.WAL
	rec     *Recorder
	mu      sync.Mutex
	pending map[int]*pendingEv
	next    int
}

type pendingEv struct {
	WALEvent
	commit wal.Commit
}

func walItem(item any) (node, wid string) {
	switch v := item.(type) {
	case *types.Workload:
		return v.Nodename, v.ID
	case *types.Processing:
		return v.Nodename, ""
	case string:
		return "", v
	}
	return "", ""
}

func (w *WAL) Log(event string, item any) (wal.Commit, error) {
	node, wid := walItem(item)
	idx, err := w.rec.enter("walLog:"+event, node, wid, "")
	if err != nil {
		return nil, err
	}
	commit, err := w.WAL.Log(event, item)
	w.rec.done(idx, err)
	if err != nil {
		return nil, err
	}
	w.mu.Lock()
	if w.pending == nil {
		w.pending = map[int]*pendingEv{}
	}
	n := w.next
	w.next++
	w.pending[n] = &pendingEv{WALEvent: WALEvent{Event: event, Node: node, WID: wid, n: n}, commit: commit}
	w.mu.Unlock()
	return func() error {
		i, err := w.rec.enter("walCommit:"+event, node, wid, "")
		if err != nil {
			return err
		}
		err = commit()
		if err == nil {
			w.mu.Lock()
			delete(w.pending, n)
			w.mu.Unlock()
		}
		w.rec.done(i, err)
		return err
	}, nil
}

// Pending lists the events logged through this wrapper and not yet committed, sorted.
func (w *WAL) Pending() []WALEvent {
	w.mu.Lock()
	out := []WALEvent{}
	for _, p := range w.pending {
		out = append(out, p.WALEvent)
	}
	w.mu.Unlock()
	sort.Slice(out, func(i, j int) bool {
		a, b := out[i], out[j]
		return fmt.Sprint(a.Event, a.Node, a.WID, a.n) < fmt.Sprint(b.Event, b.Node, b.WID, b.n)
	})
	return out
}

// pendingKeys returns the internal numbers of the pending events.
func (w *WAL) pendingKeys() map[int]bool {
	w.mu.Lock()
	defer w.mu.Unlock()
	out := map[int]bool{}
	for n := range w.pending {
		out[n] = true
	}
	return out
}

// Purge commits (unrecorded) every pending event not listed in keep; used when restoring a checkpoint.
func (w *WAL) Purge(keep map[int]bool) {
	w.mu.Lock()
	ps := []*pendingEv{}
	for n, p := range w.pending {
		if !keep[n] {
			ps = append(ps, p)
			delete(w.pending, n)
		}
	}
	w.mu.Unlock()
	for _, p := range ps {
		_ = p.commit()
	}
}
