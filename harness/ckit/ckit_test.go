//go:build verif

package ckit

import (
	"encoding/json"
	"testing"
	"time"

	resourcetypes "github.com/projecteru2/core/resource/types"
	"github.com/projecteru2/core/types"
)

// TestSmoke: the kit comes up, deploys, snapshots, injects a fault and restores a checkpoint.
func TestSmoke(t *testing.T) {
	t0 := time.Now()
	cl := NewCluster(t, Options{})
	t.Logf("cluster up in %v", time.Since(t0))
	cl.AddPod("p1")
	cl.AddNode(NodeSpec{Name: "n1", Pod: "p1", CPU: 4, Memory: 8 << 30})
	cl.AddNode(NodeSpec{Name: "n2", Pod: "p1", CPU: 4, Memory: 8 << 30})
	deploy := func(count int) []*types.CreateWorkloadMessage {
		ch, err := cl.C.CreateWorkload(cl.Ctx(), &types.DeployOptions{
			Name: "app", Entrypoint: &types.Entrypoint{Name: "web"}, Podname: "p1", Image: "img", Count: count,
			DeployStrategy: "AUTO", IgnorePull: true, NodeFilter: &types.NodeFilter{Podname: "p1"},
			Resources: resourcetypes.Resources{"cpumem": {"memory-request": int64(1 << 30), "cpu-request": 1.0, "cpu-bind": true}},
		})
		if err != nil {
			t.Fatal(err)
		}
		out := []*types.CreateWorkloadMessage{}
		for m := range ch {
			out = append(out, m)
		}
		return out
	}
	cp := cl.Checkpoint()
	var msgs []*types.CreateWorkloadMessage
	t1 := time.Now()
	tr := cl.Traced(Plan{}, func() { msgs = deploy(3) })
	t.Logf("create 3 in %v, %d events, %d msgs", time.Since(t1), len(tr), len(msgs))
	for _, m := range msgs {
		if m.Error != nil {
			t.Fatalf("unexpected error %v", m.Error)
		}
	}
	s := cl.Snapshot()
	b, _ := json.Marshal(s)
	t.Logf("snapshot: %s", b)
	if len(s.Workloads) != 3 || len(s.Containers) != 3 {
		t.Fatalf("want 3 workloads")
	}
	for _, a := range Addresses(tr) {
		t.Logf("addr %v", a)
	}
	cl.Restore(cp)
	s = cl.Snapshot()
	if len(s.Workloads) != 0 || len(s.Containers) != 0 || s.Nodes[0].Usage.Mem != 0 {
		t.Fatalf("restore failed")
	}
	tr = cl.Traced(Plan{Fail: []Addr{{Kind: "engineStart", Node: "n1", Ord: 0}}}, func() { msgs = deploy(3) })
	nerr := 0
	for _, m := range msgs {
		if m.Error != nil {
			nerr++
		}
	}
	s = cl.Snapshot()
	b, _ = json.Marshal(s.Nodes)
	t.Logf("after fault: %d msgs, %d errors, %d workloads, nodes %s", len(msgs), nerr, len(s.Workloads), b)
	if nerr != 1 || len(s.Workloads) != 2 {
		t.Fatalf("fault injection did not behave")
	}
}
