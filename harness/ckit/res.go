//go:build verif

package ckit

import (
	"math"

	cpumemtypes "github.com/projecteru2/core/resource/plugins/cpumem/types"
	resourcetypes "github.com/projecteru2/core/resource/types"
)

// Res is the canonical four-component resource vector: CPU in nano-cores (the code rounds CPU
// amounts to 9 decimals), per-core pieces, memory bytes, per-NUMA-node memory bytes.
// Zero entries of the maps are dropped (absent = 0).
type Res struct {
	CPU   int64            `json:"cpu"`
	Mem   int64            `json:"mem"`
	Cores map[string]int64 `json:"cores"`
	NUMA  map[string]int64 `json:"numa"`
}

func nano(f float64) int64 { return int64(math.Round(f * 1e9)) }

func cleanMap[V int | int64](m map[string]V) map[string]int64 {
	out := map[string]int64{}
	for k, v := range m {
		if v != 0 {
			out[k] = int64(v)
		}
	}
	return out
}

const cpumemName = "cpumem"

// WorkloadRes converts a workload's (or a realloc delta's) cpumem resources.
func WorkloadRes(r resourcetypes.Resources) Res {
	w := &cpumemtypes.WorkloadResource{}
	if raw, ok := r[cpumemName]; ok && raw != nil {
		_ = w.Parse(raw)
	}
	return Res{CPU: nano(w.CPURequest), Mem: w.MemoryRequest, Cores: cleanMap(w.CPUMap), NUMA: cleanMap(w.NUMAMemory)}
}

// NodeRes converts a node capacity / usage record of cpumem.
func NodeRes(r resourcetypes.Resources) Res {
	n := &cpumemtypes.NodeResource{}
	if raw, ok := r[cpumemName]; ok && raw != nil {
		_ = n.Parse(raw)
	}
	return Res{CPU: nano(n.CPU), Mem: n.Memory, Cores: cleanMap(n.CPUMap), NUMA: cleanMap(n.NUMAMemory)}
}

// Add returns a+b.
func (a Res) Add(b Res) Res {
	out := Res{CPU: a.CPU + b.CPU, Mem: a.Mem + b.Mem, Cores: map[string]int64{}, NUMA: map[string]int64{}}
	for k, v := range a.Cores {
		out.Cores[k] += v
	}
	for k, v := range b.Cores {
		out.Cores[k] += v
	}
	for k, v := range a.NUMA {
		out.NUMA[k] += v
	}
	for k, v := range b.NUMA {
		out.NUMA[k] += v
	}
	out.Cores, out.NUMA = cleanMap(out.Cores), cleanMap(out.NUMA)
	return out
}

// Equal compares two vectors (absent = 0).
func (a Res) Equal(b Res) bool {
	if a.CPU != b.CPU || a.Mem != b.Mem {
		return false
	}
	eq := func(x, y map[string]int64) bool {
		for k, v := range x {
			if y[k] != v {
				return false
			}
		}
		for k, v := range y {
			if x[k] != v {
				return false
			}
		}
		return true
	}
	return eq(a.Cores, b.Cores) && eq(a.NUMA, b.NUMA)
}
