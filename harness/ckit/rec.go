//go:build verif

package ckit

import (
	"errors"
	"runtime"
	"sort"
	"strings"
	"sync"
)

// Addr is the structural address of an externally visible call: the step kind, the node it
// concerns ("" when the call is not about one node) and its ordinal among the foreground
// calls of that kind on that node since the last ResetTrace. It does not depend on how
// goroutines working on different nodes interleave.
type Addr struct {
	Kind string `json:"kind"`
	Node string `json:"node"`
	Ord  int    `json:"ord"`
}

// Event is one recorded call.
type Event struct {
	Addr
	Seq      int    `json:"seq"`           // global arrival number (debugging / order of nodes only)
	WID      string `json:"wid,omitempty"` // workload / container id the call is about, if any
	Arg      string `json:"arg,omitempty"` // small call-specific detail (count, event type, ERU_WORKLOAD_SEQ, ...)
	Failed   bool   `json:"failed,omitempty"`
	Injected bool   `json:"injected,omitempty"` // failed because the fault plan said so (the real call was not made)
	Parked   bool   `json:"parked,omitempty"`   // blocked by the crash plan (the real call was not made)
	Err      string `json:"err,omitempty"`      // error text of a call that failed WITHOUT being injected (infrastructure diagnosis)
	BG       bool   `json:"bg,omitempty"`       // issued by a background task (remap, metrics, engine cache); Ord = -1
	// Data carries call-specific structured detail (e.g. the resources returned by Alloc / Realloc,
	// in canonical Res form) for harnesses that feed the resource layer's answers to a model.
	Data map[string]any `json:"data,omitempty"`
	done bool
}

// ErrInjected is returned by a call that the fault plan fails.
var ErrInjected = errors.New("verif: injected failure")

// ErrParked is returned by parked calls once they are released (Cluster.Close / ReleaseParked).
var ErrParked = errors.New("verif: call parked by crash plan")

// Plan is the fault / crash plan.
type Plan struct {
	// Fail: each listed address fails (once; an address occurs at most once per trace) without
	// the underlying call being made.
	Fail []Addr
	// ParkFrom: when the addressed call arrives, it and every later foreground or background
	// call (of any address) blocks until ReleaseParked: nothing after the crash point takes effect.
	ParkFrom *Addr
	// ParkAfter: like ParkFrom but the addressed call itself is still executed; every later call parks.
	ParkAfter *Addr
	// Err overrides the injected error (default ErrInjected).
	Err error
	// Hook: when the addressed call arrives (HookAfter false: before it is executed) or has returned
	// (HookAfter true) HookFn is called once, on the calling goroutine — e.g. to cancel the caller's
	// context at an exact point of an operation.
	Hook      *Addr
	HookAfter bool
	HookFn    func()
}

// Recorder numbers, records, fails and parks calls. One per Cluster, shared by all wrappers.
type Recorder struct {
	mu       sync.Mutex
	events   []Event
	counts   map[[2]string]int
	plan     Plan
	crashed  bool
	release  chan struct{}
	nparked  int
	bgMarks  []string
	lockEvts bool
}

func newRecorder() *Recorder {
	return &Recorder{
		counts:  map[[2]string]int{},
		release: make(chan struct{}),
		bgMarks: []string{"RemapResourceAndLog", "doRemapResource", "doSendNodeMetrics", "InitMetrics", "SendNodeMetrics", "engine/factory.(*EngineCache)", "engine/factory.validateEngine", "selfmon"},
	}
}

// isBackground reports whether the calling goroutine's stack shows a background task.
func (r *Recorder) isBackground() bool {
	pcs := make([]uintptr, 64)
	n := runtime.Callers(3, pcs)
	frames := runtime.CallersFrames(pcs[:n])
	for {
		f, more := frames.Next()
		for _, m := range r.bgMarks {
			if strings.Contains(f.Function, m) {
				return true
			}
		}
		if !more {
			return false
		}
	}
}

// enter registers a call. If it returns an error the wrapper must return it without calling
// the real implementation; otherwise the wrapper performs the call and reports through done.
func (r *Recorder) enter(kind, node, wid, arg string) (idx int, err error) {
	bg := r.isBackground()
	r.mu.Lock()
	ev := Event{Addr: Addr{Kind: kind, Node: node, Ord: -1}, Seq: len(r.events), WID: wid, Arg: arg, BG: bg}
	if !bg {
		k := [2]string{kind, node}
		ev.Ord = r.counts[k]
		r.counts[k]++
	}
	var hookFn func()
	if !bg && r.plan.Hook != nil && *r.plan.Hook == ev.Addr && r.plan.HookFn != nil && !r.plan.HookAfter {
		hookFn = r.plan.HookFn
	}
	if hookFn != nil {
		r.mu.Unlock()
		hookFn()
		r.mu.Lock()
		ev.Seq = len(r.events)
	}
	park := r.crashed
	if !bg && !park && r.plan.ParkFrom != nil && *r.plan.ParkFrom == ev.Addr {
		r.crashed, park = true, true
	}
	if park {
		ev.Parked, ev.Failed, ev.done = true, true, true
		r.events = append(r.events, ev)
		r.nparked++
		ch := r.release
		r.mu.Unlock()
		<-ch
		return -1, ErrParked
	}
	if !bg && r.plan.ParkAfter != nil && *r.plan.ParkAfter == ev.Addr {
		r.crashed = true // this call proceeds, all later ones park
	}
	if !bg {
		for _, a := range r.plan.Fail {
			if a == ev.Addr {
				ev.Injected, ev.Failed, ev.done = true, true, true
				r.events = append(r.events, ev)
				e := r.plan.Err
				r.mu.Unlock()
				if e == nil {
					e = ErrInjected
				}
				return -1, e
			}
		}
	}
	r.events = append(r.events, ev)
	idx = len(r.events) - 1
	r.mu.Unlock()
	return idx, nil
}

func (r *Recorder) done(idx int, err error) {
	if idx < 0 {
		return
	}
	r.mu.Lock()
	var hookFn func()
	if idx < len(r.events) {
		r.events[idx].done = true
		r.events[idx].Failed = err != nil
		if err != nil {
			msg := err.Error()
			if len(msg) > 200 {
				msg = msg[:200]
			}
			r.events[idx].Err = msg
		}
		if r.plan.Hook != nil && r.plan.HookAfter && r.plan.HookFn != nil && *r.plan.Hook == r.events[idx].Addr && !r.events[idx].BG {
			hookFn = r.plan.HookFn
		}
	}
	r.mu.Unlock()
	if hookFn != nil {
		hookFn()
	}
}

// setWID attaches a workload id learnt from the call's result (engine create).
func (r *Recorder) setWID(idx int, wid string) {
	if idx < 0 {
		return
	}
	r.mu.Lock()
	if idx < len(r.events) {
		r.events[idx].WID = wid
	}
	r.mu.Unlock()
}

// setData attaches structured detail learnt from the call's result.
func (r *Recorder) setData(idx int, d map[string]any) {
	if idx < 0 {
		return
	}
	r.mu.Lock()
	if idx < len(r.events) {
		r.events[idx].Data = d
	}
	r.mu.Unlock()
}

// Trace returns a copy of the events recorded since the last ResetTrace, in arrival order.
func (r *Recorder) Trace() []Event {
	r.mu.Lock()
	defer r.mu.Unlock()
	out := make([]Event, len(r.events))
	copy(out, r.events)
	return out
}

// ResetTrace forgets the recorded events and restarts all ordinals at 0.
func (r *Recorder) ResetTrace() {
	r.mu.Lock()
	r.events = nil
	r.counts = map[[2]string]int{}
	r.mu.Unlock()
}

// SetPlan installs a fault / crash plan (replacing the previous one). Plan{} = no faults.
func (r *Recorder) SetPlan(p Plan) {
	r.mu.Lock()
	r.plan = p
	r.mu.Unlock()
}

// Crashed reports whether the crash point of the plan has been reached.
func (r *Recorder) Crashed() bool {
	r.mu.Lock()
	defer r.mu.Unlock()
	return r.crashed
}

// Parked returns the number of calls currently blocked by the crash plan.
func (r *Recorder) Parked() int {
	r.mu.Lock()
	defer r.mu.Unlock()
	return r.nparked
}

// ReleaseParked lets every parked call return ErrParked and ends the crashed mode.
// CAUTION: the released goroutines then continue through the real code (compensations
// included) — this is NOT a crash any more. For crash emulation leave them parked forever
// (Cluster.Crash + Cluster.Reopen do that); use ReleaseParked only to emulate a long stall.
func (r *Recorder) ReleaseParked() {
	r.mu.Lock()
	close(r.release)
	r.release = make(chan struct{})
	r.crashed = false
	r.nparked = 0
	r.plan.ParkFrom, r.plan.ParkAfter = nil, nil
	r.mu.Unlock()
}

// Foreground filters out background events.
func Foreground(evs []Event) []Event {
	out := []Event{}
	for _, e := range evs {
		if !e.BG {
			out = append(out, e)
		}
	}
	return out
}

// Addresses lists the distinct foreground addresses of a trace in a canonical order
// (kind, node, ordinal) — the candidate fault placements of the traced operation.
func Addresses(evs []Event) []Addr {
	out := []Addr{}
	for _, e := range evs {
		if !e.BG && !e.Parked {
			out = append(out, e.Addr)
		}
	}
	sort.Slice(out, func(i, j int) bool {
		a, b := out[i], out[j]
		if a.Kind != b.Kind {
			return a.Kind < b.Kind
		}
		if a.Node != b.Node {
			return a.Node < b.Node
		}
		return a.Ord < b.Ord
	})
	return out
}
