//go:build verif

package ckit

import (
	"context"
	"fmt"
	"strings"

	enginetypes "github.com/projecteru2/core/engine/types"
	"github.com/projecteru2/core/resource"
	"github.com/projecteru2/core/resource/plugins"
	plugintypes "github.com/projecteru2/core/resource/plugins/types"
	resourcetypes "github.com/projecteru2/core/resource/types"
	"github.com/projecteru2/core/types"
)

// Rmgr decorates a resource.Manager (the real cobalt manager with the real cpumem plugin).
// An injected failure makes the call return an error WITHOUT reaching the plugin.
type Rmgr struct {
	resource.Manager
	rec *Recorder
}

// atomicCtx: see store.go `atomicWrite` — plugin writes are atomic with respect to the caller's cancellation
func atomicCtx(ctx context.Context) (context.Context, error) {
	if err := ctx.Err(); err != nil {
		return ctx, err
	}
	return context.WithoutCancel(ctx), nil
}

func resList(rs []resourcetypes.Resources) []Res {
	out := make([]Res, len(rs))
	for i, r := range rs {
		out[i] = WorkloadRes(r)
	}
	return out
}

func (m *Rmgr) AddNode(ctx context.Context, node string, opts resourcetypes.Resources, info *enginetypes.Info) (resourcetypes.Resources, error) {
	idx, err := m.rec.enter("pluginAddNode", node, "", "")
	if err != nil {
		return nil, err
	}
	ctx, cerr := atomicCtx(ctx)
	if cerr != nil {
		m.rec.done(idx, cerr)
		return nil, cerr
	}
	r, err := m.Manager.AddNode(ctx, node, opts, info)
	m.rec.done(idx, err)
	return r, err
}

func (m *Rmgr) RemoveNode(ctx context.Context, node string) error {
	idx, err := m.rec.enter("pluginRemoveNode", node, "", "")
	if err != nil {
		return err
	}
	ctx, cerr := atomicCtx(ctx)
	if cerr != nil {
		m.rec.done(idx, cerr)
		return cerr
	}
	err = m.Manager.RemoveNode(ctx, node)
	m.rec.done(idx, err)
	return err
}

func (m *Rmgr) GetNodesDeployCapacity(ctx context.Context, nodes []string, opts resourcetypes.Resources) (map[string]*plugintypes.NodeDeployCapacity, int, error) {
	idx, err := m.rec.enter("pluginGetDeployCapacity", "", "", strings.Join(sortedCopy(nodes), ","))
	if err != nil {
		return nil, 0, err
	}
	r, total, err := m.Manager.GetNodesDeployCapacity(ctx, nodes, opts)
	if err == nil {
		caps := map[string]any{}
		for n, c := range r {
			caps[n] = c.Capacity
		}
		m.rec.setData(idx, map[string]any{"capacity": caps, "total": total})
	}
	m.rec.done(idx, err)
	return r, total, err
}

func dirName(incr bool) string {
	if incr == plugins.Incr {
		return "incr"
	}
	return "decr"
}

func (m *Rmgr) SetNodeResourceCapacity(ctx context.Context, node string, nr, req resourcetypes.Resources, delta, incr bool) (resourcetypes.Resources, resourcetypes.Resources, error) {
	idx, err := m.rec.enter("pluginSetCapacity", node, "", fmt.Sprintf("delta=%v,%s", delta, dirName(incr)))
	if err != nil {
		return nil, nil, err
	}
	ctx, cerr := atomicCtx(ctx)
	if cerr != nil {
		m.rec.done(idx, cerr)
		return nil, nil, cerr
	}
	b, a, err := m.Manager.SetNodeResourceCapacity(ctx, node, nr, req, delta, incr)
	m.rec.done(idx, err)
	return b, a, err
}

func (m *Rmgr) SetNodeResourceUsage(ctx context.Context, node string, nr, req resourcetypes.Resources, ws []resourcetypes.Resources, delta, incr bool) (resourcetypes.Resources, resourcetypes.Resources, error) {
	idx, err := m.rec.enter("pluginSetUsage:"+dirName(incr), node, "", fmt.Sprintf("delta=%v,n=%d", delta, len(ws)))
	if err != nil {
		return nil, nil, err
	}
	m.rec.setData(idx, map[string]any{"resources": resList(ws)})
	ctx, cerr := atomicCtx(ctx)
	if cerr != nil {
		m.rec.done(idx, cerr)
		return nil, nil, cerr
	}
	b, a, err := m.Manager.SetNodeResourceUsage(ctx, node, nr, req, ws, delta, incr)
	m.rec.done(idx, err)
	return b, a, err
}

func (m *Rmgr) GetNodeResourceInfo(ctx context.Context, node string, ws []*types.Workload, fix bool) (resourcetypes.Resources, resourcetypes.Resources, []string, error) {
	idx, err := m.rec.enter("pluginGetNodeResourceInfo", node, "", fmt.Sprintf("fix=%v", fix))
	if err != nil {
		return nil, nil, nil, err
	}
	c, u, d, err := m.Manager.GetNodeResourceInfo(ctx, node, ws, fix)
	m.rec.done(idx, err)
	return c, u, d, err
}

func (m *Rmgr) GetMostIdleNode(ctx context.Context, nodes []string) (string, error) {
	idx, err := m.rec.enter("pluginGetMostIdleNode", "", "", strings.Join(sortedCopy(nodes), ","))
	if err != nil {
		return "", err
	}
	n, err := m.Manager.GetMostIdleNode(ctx, nodes)
	m.rec.done(idx, err)
	return n, err
}

func (m *Rmgr) Alloc(ctx context.Context, node string, count int, opts resourcetypes.Resources) ([]resourcetypes.Resources, []resourcetypes.Resources, error) {
	idx, err := m.rec.enter("pluginAlloc", node, "", fmt.Sprintf("count=%d", count))
	if err != nil {
		return nil, nil, err
	}
	ctx, cerr := atomicCtx(ctx)
	if cerr != nil {
		m.rec.done(idx, cerr)
		return nil, nil, cerr
	}
	ws, es, err := m.Manager.Alloc(ctx, node, count, opts)
	if err == nil {
		m.rec.setData(idx, map[string]any{"count": count, "resources": resList(ws)})
	} else {
		m.rec.setData(idx, map[string]any{"count": count})
	}
	m.rec.done(idx, err)
	return ws, es, err
}

func (m *Rmgr) RollbackAlloc(ctx context.Context, node string, ws []resourcetypes.Resources) error {
	idx, err := m.rec.enter("pluginRollbackAlloc", node, "", fmt.Sprintf("n=%d", len(ws)))
	if err != nil {
		return err
	}
	m.rec.setData(idx, map[string]any{"resources": resList(ws)})
	ctx, cerr := atomicCtx(ctx)
	if cerr != nil {
		m.rec.done(idx, cerr)
		return cerr
	}
	err = m.Manager.RollbackAlloc(ctx, node, ws)
	m.rec.done(idx, err)
	return err
}

func (m *Rmgr) Realloc(ctx context.Context, node string, origin, opts resourcetypes.Resources) (resourcetypes.Resources, resourcetypes.Resources, resourcetypes.Resources, error) {
	idx, err := m.rec.enter("pluginRealloc", node, "", "")
	if err != nil {
		return nil, nil, nil, err
	}
	ctx, cerr := atomicCtx(ctx)
	if cerr != nil {
		m.rec.done(idx, cerr)
		return nil, nil, nil, cerr
	}
	e, d, w, err := m.Manager.Realloc(ctx, node, origin, opts)
	if err == nil {
		m.rec.setData(idx, map[string]any{"delta": WorkloadRes(d), "resources": WorkloadRes(w), "origin": WorkloadRes(origin)})
	}
	m.rec.done(idx, err)
	return e, d, w, err
}

func (m *Rmgr) RollbackRealloc(ctx context.Context, node string, delta resourcetypes.Resources) error {
	idx, err := m.rec.enter("pluginRollbackRealloc", node, "", "")
	if err != nil {
		return err
	}
	m.rec.setData(idx, map[string]any{"delta": WorkloadRes(delta)})
	ctx, cerr := atomicCtx(ctx)
	if cerr != nil {
		m.rec.done(idx, cerr)
		return cerr
	}
	err = m.Manager.RollbackRealloc(ctx, node, delta)
	m.rec.done(idx, err)
	return err
}

func (m *Rmgr) Remap(ctx context.Context, node string, ws []*types.Workload) (map[string]resourcetypes.Resources, error) {
	idx, err := m.rec.enter("pluginRemap", node, "", "")
	if err != nil {
		return nil, err
	}
	r, err := m.Manager.Remap(ctx, node, ws)
	m.rec.done(idx, err)
	return r, err
}
