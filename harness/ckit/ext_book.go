//go:build verif

package ckit

// Additions by the book group (C32). Functions / new types only; nothing existing changes.
//
// A second engine endpoint prefix ("vbook://<hub>/<node>") serves the same stateful fake
// engine of the hub, except that VirtualizationUpdateResource can be scripted per hub:
// it may take some time, honours cancellation of its context while waiting (returns
// ctx.Err()), and fails at once for chosen container ids.

import (
	"context"
	"errors"
	"fmt"
	"strings"
	"sync"
	"time"

	"github.com/projecteru2/core/engine"
	enginefactory "github.com/projecteru2/core/engine/factory"
	enginetypes "github.com/projecteru2/core/engine/types"
	resourcetypes "github.com/projecteru2/core/resource/types"
	"github.com/projecteru2/core/types"
)

const BookEnginePrefix = "vbook://"

// ErrScriptedUpdate is returned by a scripted failing engine update.
var ErrScriptedUpdate = errors.New("verif: scripted engine update failure")

// UpdateControl scripts VirtualizationUpdateResource of the slow-update engines of one hub.
type UpdateControl struct {
	mu    sync.Mutex
	delay time.Duration
	fail  map[string]bool
}

// Set installs a delay for every update and the container ids whose update fails at once.
func (u *UpdateControl) Set(delay time.Duration, failIDs ...string) {
	u.mu.Lock()
	defer u.mu.Unlock()
	u.delay = delay
	u.fail = map[string]bool{}
	for _, id := range failIDs {
		u.fail[id] = true
	}
}

func (u *UpdateControl) get(id string) (time.Duration, bool) {
	u.mu.Lock()
	defer u.mu.Unlock()
	return u.delay, u.fail[id]
}

var (
	bookMu       sync.Mutex
	bookControls = map[string]*UpdateControl{} // by hub id
	bookReg      sync.Once
)

// UpdateControl returns the update script of this hub's slow-update engines.
func (h *EngineHub) UpdateControl() *UpdateControl {
	bookMu.Lock()
	defer bookMu.Unlock()
	c := bookControls[h.ID]
	if c == nil {
		c = &UpdateControl{fail: map[string]bool{}}
		bookControls[h.ID] = c
	}
	return c
}

// SlowEndpoint is the endpoint to register a node with so that its engine updates are scripted.
func (h *EngineHub) SlowEndpoint(node string) string {
	bookReg.Do(func() {
		enginefactory.VerifRegisterEngine(BookEnginePrefix, func(_ context.Context, _ types.Config, nodename, endpoint, ca, cert, key string) (engine.API, error) {
			parts := strings.SplitN(strings.TrimPrefix(endpoint, BookEnginePrefix), "/", 2)
			hubsMu.Lock()
			hub := hubs[parts[0]]
			hubsMu.Unlock()
			if hub == nil || len(parts) != 2 {
				return nil, fmt.Errorf("verif: unknown slow fake engine endpoint %q", endpoint)
			}
			fe := hub.Engine(parts[1], &enginetypes.Params{Nodename: nodename, Endpoint: endpoint, CA: ca, Cert: cert, Key: key})
			return &SlowUpdateEngine{FakeEngine: fe, ctl: hub.UpdateControl()}, nil
		})
	})
	return BookEnginePrefix + h.ID + "/" + node
}

// SlowUpdateEngine is the hub's fake engine with a scripted VirtualizationUpdateResource.
type SlowUpdateEngine struct {
	*FakeEngine
	ctl *UpdateControl
}

func (e *SlowUpdateEngine) record(id string, err error) error {
	idx, eerr := e.hub.rec.enter("engineUpdate", e.node, id, "scripted")
	if eerr != nil {
		return eerr
	}
	e.hub.rec.done(idx, err)
	return err
}

func (e *SlowUpdateEngine) VirtualizationUpdateResource(ctx context.Context, id string, params resourcetypes.Resources) error {
	delay, fail := e.ctl.get(id)
	if fail {
		return e.record(id, ErrScriptedUpdate)
	}
	if delay > 0 {
		select {
		case <-time.After(delay):
		case <-ctx.Done():
			return e.record(id, ctx.Err())
		}
	}
	return e.FakeEngine.VirtualizationUpdateResource(ctx, id, params)
}
