//go:build verif

package ckit

// Additions by the cluster2 group (C14, C22, C28, C30). Functions only; nothing existing changes.

// InFlight returns the number of recorded calls that have entered their real collaborator and
// not yet returned (parked calls are not counted). After a crash point was reached,
// InFlight()==0 together with a stable Parked() count means the crashed instance has come to rest.
func (r *Recorder) InFlight() int {
	r.mu.Lock()
	defer r.mu.Unlock()
	n := 0
	for i := range r.events {
		if !r.events[i].done {
			n++
		}
	}
	return n
}

// Len returns the number of events recorded since the last ResetTrace.
func (r *Recorder) Len() int {
	r.mu.Lock()
	defer r.mu.Unlock()
	return len(r.events)
}
