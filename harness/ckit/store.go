//go:build verif

package ckit

import (
	"context"
	"fmt"
	"sort"
	"strings"
	"sync"
	syncatomic "sync/atomic"
	"time"

	"github.com/projecteru2/core/lock"
	"github.com/projecteru2/core/store"
	"github.com/projecteru2/core/types"
)

// Store decorates a store.Store: every method below is recorded with its structural
// address and can be failed / parked by the Recorder's plan. Methods not overridden
// (streams, services, ephemeral keys, certificates) pass through unrecorded.
type Store struct {
	store.Store
	rec *Recorder
	mu  sync.Mutex
	wn  map[string]string // workload id -> node (learnt from AddWorkload / reads)
}

func newStore(inner store.Store, rec *Recorder) *Store {
	return &Store{Store: inner, rec: rec, wn: map[string]string{}}
}

func (s *Store) learn(ws ...*types.Workload) {
	s.mu.Lock()
	for _, w := range ws {
		if w != nil && w.ID != "" {
			s.wn[w.ID] = w.Nodename
		}
	}
	s.mu.Unlock()
}

// NodeOf returns the node a workload id was last seen on ("" if never seen).
func (s *Store) NodeOf(id string) string {
	s.mu.Lock()
	defer s.mu.Unlock()
	return s.wn[id]
}

// atomicWrite makes a recorded WRITE atomic with respect to the caller's cancellation: a call that
// arrives with a finished context fails without reaching the store, a call that has started runs to
// completion (the outcome of an etcd write whose context ends while it is in flight is otherwise
// unknown: the client reports an error although the server may still apply it).
func atomicWrite(ctx context.Context) (context.Context, error) {
	if err := ctx.Err(); err != nil {
		return ctx, err
	}
	return context.WithoutCancel(ctx), nil
}

func wlNode(w *types.Workload) (node, id string) {
	if w == nil {
		return "", ""
	}
	return w.Nodename, w.ID
}

// ---- pods
func (s *Store) AddPod(ctx context.Context, name, desc string) (*types.Pod, error) {
	idx, err := s.rec.enter("storeAddPod", "", "", name)
	if err != nil {
		return nil, err
	}
	p, err := s.Store.AddPod(ctx, name, desc)
	s.rec.done(idx, err)
	return p, err
}

func (s *Store) GetPod(ctx context.Context, name string) (*types.Pod, error) {
	idx, err := s.rec.enter("storeGetPod", "", "", name)
	if err != nil {
		return nil, err
	}
	p, err := s.Store.GetPod(ctx, name)
	s.rec.done(idx, err)
	return p, err
}

func (s *Store) RemovePod(ctx context.Context, name string) error {
	idx, err := s.rec.enter("storeRemovePod", "", "", name)
	if err != nil {
		return err
	}
	err = s.Store.RemovePod(ctx, name)
	s.rec.done(idx, err)
	return err
}

// ---- nodes
func (s *Store) AddNode(ctx context.Context, opts *types.AddNodeOptions) (*types.Node, error) {
	idx, err := s.rec.enter("storeAddNode", opts.Nodename, "", opts.Podname)
	if err != nil {
		return nil, err
	}
	ctx, cerr := atomicWrite(ctx)
	if cerr != nil {
		s.rec.done(idx, cerr)
		return nil, cerr
	}
	n, err := s.Store.AddNode(ctx, opts)
	s.rec.done(idx, err)
	return n, err
}

func (s *Store) RemoveNode(ctx context.Context, node *types.Node) error {
	name := ""
	if node != nil {
		name = node.Name
	}
	idx, err := s.rec.enter("storeRemoveNode", name, "", "")
	if err != nil {
		return err
	}
	ctx, cerr := atomicWrite(ctx)
	if cerr != nil {
		s.rec.done(idx, cerr)
		return cerr
	}
	err = s.Store.RemoveNode(ctx, node)
	s.rec.done(idx, err)
	return err
}

func (s *Store) GetNode(ctx context.Context, nodename string) (*types.Node, error) {
	idx, err := s.rec.enter("storeGetNode", nodename, "", "")
	if err != nil {
		return nil, err
	}
	n, err := s.Store.GetNode(ctx, nodename)
	s.rec.done(idx, err)
	return n, err
}

func (s *Store) GetNodes(ctx context.Context, nodenames []string) ([]*types.Node, error) {
	node := ""
	if len(nodenames) == 1 {
		node = nodenames[0]
	}
	idx, err := s.rec.enter("storeGetNodes", node, "", strings.Join(sortedCopy(nodenames), ","))
	if err != nil {
		return nil, err
	}
	n, err := s.Store.GetNodes(ctx, nodenames)
	s.rec.done(idx, err)
	return n, err
}

func (s *Store) GetNodesByPod(ctx context.Context, nf *types.NodeFilter, opts ...store.Option) ([]*types.Node, error) {
	arg := ""
	if nf != nil {
		arg = nf.Podname
	}
	idx, err := s.rec.enter("storeGetNodesByPod", "", "", arg)
	if err != nil {
		return nil, err
	}
	n, err := s.Store.GetNodesByPod(ctx, nf, opts...)
	s.rec.done(idx, err)
	return n, err
}

func (s *Store) UpdateNodes(ctx context.Context, nodes ...*types.Node) error {
	name := ""
	if len(nodes) > 0 && nodes[0] != nil {
		name = nodes[0].Name
	}
	idx, err := s.rec.enter("storeUpdateNodes", name, "", "")
	if err != nil {
		return err
	}
	ctx, cerr := atomicWrite(ctx)
	if cerr != nil {
		s.rec.done(idx, cerr)
		return cerr
	}
	err = s.Store.UpdateNodes(ctx, nodes...)
	s.rec.done(idx, err)
	return err
}

func (s *Store) SetNodeStatus(ctx context.Context, node *types.Node, ttl int64) error {
	name := ""
	if node != nil {
		name = node.Name
	}
	idx, err := s.rec.enter("storeSetNodeStatus", name, "", fmt.Sprintf("ttl=%d", ttl))
	if err != nil {
		return err
	}
	err = s.Store.SetNodeStatus(ctx, node, ttl)
	s.rec.done(idx, err)
	return err
}

func (s *Store) GetNodeStatus(ctx context.Context, nodename string) (*types.NodeStatus, error) {
	idx, err := s.rec.enter("storeGetNodeStatus", nodename, "", "")
	if err != nil {
		return nil, err
	}
	st, err := s.Store.GetNodeStatus(ctx, nodename)
	s.rec.done(idx, err)
	return st, err
}

// ---- workloads
func (s *Store) AddWorkload(ctx context.Context, w *types.Workload, p *types.Processing) error {
	node, id := wlNode(w)
	arg := "decr=false"
	if p != nil {
		arg = "decr=true"
	}
	idx, err := s.rec.enter("storeAddWorkload", node, id, arg)
	if err != nil {
		return err
	}
	ctx, cerr := atomicWrite(ctx)
	if cerr != nil {
		s.rec.done(idx, cerr)
		return cerr
	}
	err = s.Store.AddWorkload(ctx, w, p)
	if err == nil {
		s.learn(w)
	}
	s.rec.done(idx, err)
	return err
}

func (s *Store) UpdateWorkload(ctx context.Context, w *types.Workload) error {
	node, id := wlNode(w)
	idx, err := s.rec.enter("storeUpdateWorkload", node, id, "")
	if err != nil {
		return err
	}
	ctx, cerr := atomicWrite(ctx)
	if cerr != nil {
		s.rec.done(idx, cerr)
		return cerr
	}
	err = s.Store.UpdateWorkload(ctx, w)
	s.rec.done(idx, err)
	return err
}

func (s *Store) RemoveWorkload(ctx context.Context, w *types.Workload) error {
	node, id := wlNode(w)
	idx, err := s.rec.enter("storeRemoveWorkload", node, id, "")
	if err != nil {
		return err
	}
	ctx, cerr := atomicWrite(ctx)
	if cerr != nil {
		s.rec.done(idx, cerr)
		return cerr
	}
	err = s.Store.RemoveWorkload(ctx, w)
	s.rec.done(idx, err)
	return err
}

func (s *Store) GetWorkload(ctx context.Context, id string) (*types.Workload, error) {
	idx, err := s.rec.enter("storeGetWorkload", s.NodeOf(id), id, "")
	if err != nil {
		return nil, err
	}
	w, err := s.Store.GetWorkload(ctx, id)
	if err == nil {
		s.learn(w)
	}
	s.rec.done(idx, err)
	return w, err
}

func (s *Store) GetWorkloads(ctx context.Context, ids []string) ([]*types.Workload, error) {
	node, wid := "", ""
	if len(ids) == 1 {
		node, wid = s.NodeOf(ids[0]), ids[0]
	}
	idx, err := s.rec.enter("storeGetWorkloads", node, wid, fmt.Sprintf("n=%d", len(ids)))
	if err != nil {
		return nil, err
	}
	ws, err := s.Store.GetWorkloads(ctx, ids)
	if err == nil {
		s.learn(ws...)
	}
	s.rec.done(idx, err)
	return ws, err
}

func (s *Store) GetWorkloadStatus(ctx context.Context, id string) (*types.StatusMeta, error) {
	idx, err := s.rec.enter("storeGetWorkloadStatus", s.NodeOf(id), id, "")
	if err != nil {
		return nil, err
	}
	st, err := s.Store.GetWorkloadStatus(ctx, id)
	s.rec.done(idx, err)
	return st, err
}

func (s *Store) SetWorkloadStatus(ctx context.Context, st *types.StatusMeta, ttl int64) error {
	node, id := "", ""
	if st != nil {
		node, id = st.Nodename, st.ID
	}
	idx, err := s.rec.enter("storeSetWorkloadStatus", node, id, fmt.Sprintf("ttl=%d", ttl))
	if err != nil {
		return err
	}
	err = s.Store.SetWorkloadStatus(ctx, st, ttl)
	s.rec.done(idx, err)
	return err
}

func (s *Store) ListWorkloads(ctx context.Context, app, entry, node string, limit int64, labels map[string]string) ([]*types.Workload, error) {
	idx, err := s.rec.enter("storeListWorkloads", node, "", app+"/"+entry)
	if err != nil {
		return nil, err
	}
	ws, err := s.Store.ListWorkloads(ctx, app, entry, node, limit, labels)
	if err == nil {
		s.learn(ws...)
	}
	s.rec.done(idx, err)
	return ws, err
}

func (s *Store) ListNodeWorkloads(ctx context.Context, node string, labels map[string]string) ([]*types.Workload, error) {
	idx, err := s.rec.enter("storeListNodeWorkloads", node, "", "")
	if err != nil {
		return nil, err
	}
	ws, err := s.Store.ListNodeWorkloads(ctx, node, labels)
	if err == nil {
		s.learn(ws...)
	}
	s.rec.done(idx, err)
	return ws, err
}

// ---- deploy status / processing markers
func (s *Store) GetDeployStatus(ctx context.Context, app, entry string) (map[string]int, error) {
	idx, err := s.rec.enter("storeGetDeployStatus", "", "", app+"/"+entry)
	if err != nil {
		return nil, err
	}
	m, err := s.Store.GetDeployStatus(ctx, app, entry)
	s.rec.done(idx, err)
	return m, err
}

func (s *Store) CreateProcessing(ctx context.Context, p *types.Processing, count int) error {
	idx, err := s.rec.enter("storeCreateProcessing", p.Nodename, "", fmt.Sprintf("count=%d", count))
	if err != nil {
		return err
	}
	ctx, cerr := atomicWrite(ctx)
	if cerr != nil {
		s.rec.done(idx, cerr)
		return cerr
	}
	err = s.Store.CreateProcessing(ctx, p, count)
	s.rec.done(idx, err)
	return err
}

func (s *Store) DeleteProcessing(ctx context.Context, p *types.Processing) error {
	idx, err := s.rec.enter("storeDeleteProcessing", p.Nodename, "", "")
	if err != nil {
		return err
	}
	ctx, cerr := atomicWrite(ctx)
	if cerr != nil {
		s.rec.done(idx, cerr)
		return cerr
	}
	err = s.Store.DeleteProcessing(ctx, p)
	s.rec.done(idx, err)
	return err
}

// ---- locks: recorded as kind "lock"/"unlock" with the lock key in the node field.
func (s *Store) CreateLock(key string, ttl time.Duration) (lock.DistributedLock, error) {
	l, err := s.Store.CreateLock(key, ttl)
	if err != nil || !s.rec.lockEvts {
		return l, err
	}
	return &recLock{DistributedLock: l, key: key, rec: s.rec, id: fmt.Sprint(lockSeq.Add(1))}, nil
}

var lockSeq syncatomic.Int64

// recLock: the events of one lock object carry its id in Arg (a failed Lock is followed by an Unlock
// of the same object, which must not be mistaken for the release of another holder's lock)
type recLock struct {
	lock.DistributedLock
	key string
	rec *Recorder
	id  string
}

func (l *recLock) Lock(ctx context.Context) (context.Context, error) {
	idx, err := l.rec.enter("lock", l.key, "", l.id)
	if err != nil {
		return ctx, err
	}
	c, err := l.DistributedLock.Lock(ctx)
	l.rec.done(idx, err)
	if err == nil { // "locked": the moment the lock is actually held (a "lock" event marks the request)
		if i, e := l.rec.enter("locked", l.key, "", l.id); e == nil {
			l.rec.done(i, nil)
		}
	}
	return c, err
}

func (l *recLock) TryLock(ctx context.Context) (context.Context, error) {
	idx, err := l.rec.enter("trylock", l.key, "", l.id)
	if err != nil {
		return ctx, err
	}
	c, err := l.DistributedLock.TryLock(ctx)
	l.rec.done(idx, err)
	return c, err
}

func (l *recLock) Unlock(ctx context.Context) error {
	idx, err := l.rec.enter("unlock", l.key, "", l.id)
	if err != nil {
		return err
	}
	err = l.DistributedLock.Unlock(ctx)
	l.rec.done(idx, err)
	return err
}

func sortedCopy(xs []string) []string {
	out := append([]string{}, xs...)
	sort.Strings(out)
	return out
}
