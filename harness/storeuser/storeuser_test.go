// Correspondence harness for C26, user level: the two USERS of ephemeral keys run for real on an
// embedded etcd.
//
//   - "service": the real Calcium.RegisterService (cluster/calcium/service.go) over a store decorator
//     that makes chosen RegisterService calls fail with a transient error.  register -> the
//     registration lapses (the lease attached to /services/<addr> is revoked) -> re-registration
//     attempts, some of which fail -> the key must reappear; finally unregister() must return and
//     remove the key.
//   - "selfmon": two real selfmon node-status watchers (selfmon.RunNodeStatusWatcher) over a fake
//     cluster that only records whether the watcher's critical section (monitor: NodeStatusStream
//     with the section's ctx) is running.  A active, B standby, the active registration lapses ->
//     exactly one watcher may be in its critical section two keep-alive ticks later.
package storeuser

import (
	"bufio"
	"context"
	"encoding/json"
	"errors"
	"fmt"
	"os"
	"path/filepath"
	"sync"
	"sync/atomic"
	"testing"
	"time"

	"verifharness/hx"

	"github.com/projecteru2/core/cluster"
	"github.com/projecteru2/core/cluster/calcium"
	enginefactory "github.com/projecteru2/core/engine/factory"
	"github.com/projecteru2/core/selfmon"
	"github.com/projecteru2/core/store"
	"github.com/projecteru2/core/store/etcdv3/embedded"
	"github.com/projecteru2/core/types"
	clientv3 "go.etcd.io/etcd/client/v3"
)

const prefix = "/verifuser"

type kase struct {
	ID     string         `json:"id"`
	Kind   string         `json:"kind"`            // "service" | "selfmon"
	Fails  []int          `json:"fails,omitempty"` // service: which RegisterService calls (1-based) fail
	Lapses int            `json:"lapses"`          // number of lapse rounds
	Impl   map[string]any `json:"impl,omitempty"`
}

func baseConfig(t *testing.T) types.Config {
	cfg := types.Config{}
	cfg.Etcd.Prefix = prefix
	cfg.Etcd.LockPrefix = "__lock__" + prefix
	cfg.Store = "etcd"
	cfg.LockTimeout = 10 * time.Second
	cfg.GlobalTimeout = 20 * time.Second
	cfg.ConnectionTimeout = 300 * time.Millisecond
	cfg.HAKeepaliveInterval = 3 * time.Second
	cfg.MaxConcurrency = 10000
	cfg.Scheduler.MaxShare = -1
	cfg.Scheduler.ShareBase = 100
	cfg.Scheduler.MaxDeployCount = 10000
	cfg.WALFile = filepath.Join(t.TempDir(), fmt.Sprintf("core-%d.wal", time.Now().UnixNano()))
	cfg.WALOpenTimeout = 8 * time.Second
	cfg.GRPCConfig.ServiceHeartbeatInterval = 2 * time.Second
	cfg.GRPCConfig.ServiceDiscoveryPushInterval = 15 * time.Second
	return cfg
}

// ---------------------------------------------------------------- service stream

type flakyStore struct {
	store.Store
	calls int32
	fails map[int32]bool
}

func (s *flakyStore) RegisterService(ctx context.Context, addr string, expire time.Duration) (<-chan struct{}, func(), error) {
	n := atomic.AddInt32(&s.calls, 1)
	if s.fails[n] {
		return nil, nil, errors.New("etcdserver: request timed out (injected)")
	}
	return s.Store.RegisterService(ctx, addr, expire)
}

var portSeq int32 = 5000

func runService(t *testing.T, cli *clientv3.Client, k *kase) {
	ctx, cancel := context.WithCancel(context.Background())
	defer cancel()
	cfg := baseConfig(t)
	port := atomic.AddInt32(&portSeq, 1)
	cfg.Bind = fmt.Sprintf("127.0.0.1:%d", port)
	args := os.Args
	c, err := calcium.New(ctx, cfg, t)
	os.Args = args
	if err != nil {
		k.Impl = map[string]any{"infra": err.Error()}
		return
	}
	fs := &flakyStore{Store: c.VerifStore(), fails: map[int32]bool{}}
	for _, f := range k.Fails {
		fs.fails[int32(f)] = true
	}
	c.VerifSetStore(fs)
	key := "/services/" + cfg.Bind
	leaseOf := func() clientv3.LeaseID {
		r, err := cli.Get(ctx, key)
		if err != nil || len(r.Kvs) != 1 {
			return 0
		}
		return clientv3.LeaseID(r.Kvs[0].Lease)
	}
	impl := map[string]any{}
	k.Impl = impl
	unregister, err := c.RegisterService(ctx)
	if err != nil {
		impl["registered"] = false
		impl["err"] = err.Error()
		return
	}
	impl["registered"] = leaseOf() != 0
	rounds := []bool{}
	for i := 0; i < k.Lapses; i++ {
		old := leaseOf()
		if old != 0 {
			_, _ = cli.Revoke(ctx, old)
		}
		// the heartbeat (every interval/3) notices, failed attempts sleep one interval each
		deadline := time.Now().Add(time.Duration(4+2*len(k.Fails)) * cfg.GRPCConfig.ServiceHeartbeatInterval)
		back := false
		for time.Now().Before(deadline) {
			if l := leaseOf(); l != 0 && l != old {
				back = true
				break
			}
			time.Sleep(100 * time.Millisecond)
		}
		rounds = append(rounds, back)
		if !back {
			break
		}
	}
	impl["reappeared"] = rounds
	done := make(chan struct{})
	go func() {
		defer close(done)
		defer func() { _ = recover() }()
		unregister()
	}()
	select {
	case <-done:
		impl["unregistered"] = true
	// unregister() cancels the heartbeat loop and waits for it. If the lease happens to have lapsed at that moment the
	// loop's select may take the expiry branch (both are ready), fail to re-register with the cancelled context and
	// sleep one heartbeat interval (2 s) before it looks again — each time with probability 1/2. 6 s was reached on a
	// loaded machine (thorough tier, extra lapses caused by starved keep-alives); 30 s is not (2^-15), a loop that
	// never ends still is.
	case <-time.After(30 * time.Second):
		impl["unregistered"] = false
	}
	impl["key_gone"] = leaseOf() == 0
	impl["calls"] = int(atomic.LoadInt32(&fs.calls))
	if leaseOf() != 0 {
		_, _ = cli.Delete(ctx, key)
	}
}

// ---------------------------------------------------------------- selfmon stream

type fakeCluster struct {
	cluster.Cluster
	active int32
}

func (f *fakeCluster) ListPodNodes(context.Context, *types.ListNodesOptions) (<-chan *types.Node, error) {
	ch := make(chan *types.Node)
	close(ch)
	return ch, nil
}

// NodeStatusStream is what the watcher's critical section calls with the section's ctx: the
// section is running from this call until that ctx is cancelled.
func (f *fakeCluster) NodeStatusStream(ctx context.Context) chan *types.NodeStatus {
	atomic.AddInt32(&f.active, 1)
	ch := make(chan *types.NodeStatus)
	go func() {
		<-ctx.Done()
		atomic.AddInt32(&f.active, -1)
	}()
	return ch
}

func runSelfmon(t *testing.T, cli *clientv3.Client, k *kase) {
	ctx, cancel := context.WithCancel(context.Background())
	cfg := baseConfig(t)
	impl := map[string]any{}
	k.Impl = impl
	fa, fb := &fakeCluster{}, &fakeCluster{}
	keyLease := func() clientv3.LeaseID {
		r, err := cli.Get(context.Background(), selfmon.ActiveKey)
		if err != nil || len(r.Kvs) != 1 {
			return 0
		}
		return clientv3.LeaseID(r.Kvs[0].Lease)
	}
	waitFor := func(d time.Duration, f func() bool) bool {
		end := time.Now().Add(d)
		for time.Now().Before(end) {
			if f() {
				return true
			}
			time.Sleep(50 * time.Millisecond)
		}
		return f()
	}
	args := os.Args
	go selfmon.RunNodeStatusWatcher(ctx, cfg, fa, t)
	ok := waitFor(5*time.Second, func() bool { return atomic.LoadInt32(&fa.active) == 1 && keyLease() != 0 })
	os.Args = args
	impl["a_started"] = ok
	go selfmon.RunNodeStatusWatcher(ctx, cfg, fb, t)
	time.Sleep(400 * time.Millisecond)
	rounds := []map[string]any{{"a": atomic.LoadInt32(&fa.active), "b": atomic.LoadInt32(&fb.active), "key": keyLease() != 0}}
	for i := 0; i < k.Lapses; i++ {
		if l := keyLease(); l != 0 {
			_, _ = cli.Revoke(context.Background(), l)
		}
		// two keep-alive ticks (interval/3 each) for the lapsed watcher to notice, one registration
		// retry (1 s) for the standby, plus slack
		time.Sleep(2*cfg.HAKeepaliveInterval/3 + 1500*time.Millisecond)
		// let a hand-over that is just happening finish
		waitFor(2*time.Second, func() bool {
			return atomic.LoadInt32(&fa.active)+atomic.LoadInt32(&fb.active) == 1 && keyLease() != 0
		})
		rounds = append(rounds, map[string]any{"a": atomic.LoadInt32(&fa.active), "b": atomic.LoadInt32(&fb.active), "key": keyLease() != 0})
	}
	impl["rounds"] = rounds
	cancel()
	gone := waitFor(6*time.Second, func() bool {
		return atomic.LoadInt32(&fa.active) == 0 && atomic.LoadInt32(&fb.active) == 0 && keyLease() == 0
	})
	impl["stopped"] = gone
	if l := keyLease(); l != 0 {
		_, _ = cli.Revoke(context.Background(), l)
	}
}

// ---------------------------------------------------------------- driver

func corpus() []*kase {
	return []*kase{
		{ID: "svc-fail-first-retry", Kind: "service", Fails: []int{2}, Lapses: 1},
		{ID: "svc-no-fault", Kind: "service", Lapses: 2},
		{ID: "svc-fail-two-retries", Kind: "service", Fails: []int{2, 3}, Lapses: 1},
		{ID: "svc-fail-second-lapse", Kind: "service", Fails: []int{3}, Lapses: 2},
		{ID: "selfmon-one-lapse", Kind: "selfmon", Lapses: 1},
		{ID: "selfmon-two-lapses", Kind: "selfmon", Lapses: 2},
	}
}

func genCase(r *hx.Rng, id string) *kase {
	if r.Chance(25) {
		return &kase{ID: id, Kind: "selfmon", Lapses: r.Range(1, 2)}
	}
	k := &kase{ID: id, Kind: "service", Lapses: r.Range(1, 2)}
	for c := 2; c <= 5; c++ {
		if r.Chance(35) {
			k.Fails = append(k.Fails, c)
		}
	}
	return k
}

func TestGen(t *testing.T) {
	cfg := baseConfig(t)
	args := os.Args
	enginefactory.InitEngineCache(context.Background(), cfg, nil)
	cli := embedded.NewCluster(t, prefix).RandClient()
	os.Args = args
	out := hx.OpenOut()
	defer out.Close()

	cases := []*kase{}
	if rp := os.Getenv("VERIF_REPLAY"); rp != "" {
		f, err := os.Open(rp)
		if err != nil {
			t.Fatal(err)
		}
		defer f.Close()
		sc := bufio.NewScanner(f)
		sc.Buffer(make([]byte, 1<<20), 1<<26)
		for sc.Scan() {
			k := &kase{}
			if json.Unmarshal(sc.Bytes(), k) == nil && k.Kind != "" {
				k.Impl = nil
				cases = append(cases, k)
			}
		}
	} else {
		cases = append(cases, corpus()...)
		n := hx.EnvInt("VERIF_CASES", 6)
		seed := hx.Seed()
		for i := 0; i < n; i++ {
			cases = append(cases, genCase(hx.NewRng(seed*104729+uint64(i)), fmt.Sprintf("u%d-%d", seed, i)))
		}
	}
	// service cases run concurrently (each has its own address); selfmon cases share /selfmon/active
	// and run one after the other
	var wg sync.WaitGroup
	sem := make(chan struct{}, 12)
	for _, k := range cases {
		if k.Kind != "service" {
			continue
		}
		k := k
		wg.Add(1)
		sem <- struct{}{}
		go func() {
			defer wg.Done()
			defer func() { <-sem }()
			if kind, msg := hx.Guard(180*time.Second, func() { runService(t, cli, k) }); kind != "" {
				k.Impl = map[string]any{"infra": kind + ":" + msg}
			}
		}()
	}
	for _, k := range cases {
		if k.Kind == "selfmon" {
			if kind, msg := hx.Guard(120*time.Second, func() { runSelfmon(t, cli, k) }); kind != "" {
				k.Impl = map[string]any{"infra": kind + ":" + msg}
			}
		}
	}
	wg.Wait()
	for _, k := range cases {
		if _, infra := k.Impl["infra"]; infra {
			continue // test infrastructure failed (not the code under test): drop the case
		}
		out.Emit(k)
	}
}
