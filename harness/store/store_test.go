// Three-way correspondence harness for C23 / C25 / C13 (store level):
// one generated operation sequence is executed against etcdv3.Mercury (embedded etcd),
// redis.Rediaron (miniredis) and — by the Lean oracle — the reference store model.
// After every operation the call's result (canonical value or error class) and a full raw
// read-back of the backend's key space (key, canonical value, remaining TTL) are recorded.
//
// Time is virtual on both backends: miniredis only ages keys on FastForward; etcd leases are
// granted through a wrapper (vlease) that keeps a logical deadline per lease, extends it on
// KeepAliveOnce and revokes the lease when the logical clock passes the deadline.
package store

import (
	"bufio"
	"context"
	"encoding/json"
	"errors"
	"fmt"
	"os"
	"sort"
	"strings"
	"sync"
	"testing"
	"time"

	"verifharness/hx"

	"github.com/alicebob/miniredis/v2"
	goredis "github.com/go-redis/redis/v8"
	enginefactory "github.com/projecteru2/core/engine/factory"
	corestore "github.com/projecteru2/core/store"
	"github.com/projecteru2/core/store/etcdv3"
	"github.com/projecteru2/core/store/etcdv3/embedded"
	redisstore "github.com/projecteru2/core/store/redis"
	"github.com/projecteru2/core/types"
	clientv3 "go.etcd.io/etcd/client/v3"
)

// ---------------------------------------------------------------- virtual-time leases (etcd)

type vl struct {
	granted  int64
	deadline int64
}

type vlease struct {
	clientv3.Lease
	mu     sync.Mutex
	now    int64
	leases map[clientv3.LeaseID]*vl
}

const realTTL = 3600 // real leases never expire on their own during a case

func (v *vlease) Grant(ctx context.Context, ttl int64) (*clientv3.LeaseGrantResponse, error) {
	if ttl <= 0 {
		return v.Lease.Grant(ctx, ttl)
	}
	resp, err := v.Lease.Grant(ctx, realTTL)
	if err != nil {
		return resp, err
	}
	v.mu.Lock()
	v.leases[resp.ID] = &vl{granted: ttl, deadline: v.now + ttl}
	v.mu.Unlock()
	resp.TTL = ttl
	return resp, nil
}

func (v *vlease) KeepAliveOnce(ctx context.Context, id clientv3.LeaseID) (*clientv3.LeaseKeepAliveResponse, error) {
	resp, err := v.Lease.KeepAliveOnce(ctx, id)
	if err != nil {
		return resp, err
	}
	v.mu.Lock()
	if l, ok := v.leases[id]; ok {
		l.deadline = v.now + l.granted
		resp.TTL = l.granted
	}
	v.mu.Unlock()
	return resp, nil
}

func (v *vlease) TimeToLive(ctx context.Context, id clientv3.LeaseID, opts ...clientv3.LeaseOption) (*clientv3.LeaseTimeToLiveResponse, error) {
	resp, err := v.Lease.TimeToLive(ctx, id, opts...)
	if err != nil {
		return resp, err
	}
	v.mu.Lock()
	if l, ok := v.leases[id]; ok && resp.TTL > 0 {
		resp.GrantedTTL = l.granted
		resp.TTL = l.deadline - v.now
	}
	v.mu.Unlock()
	return resp, nil
}

func (v *vlease) Revoke(ctx context.Context, id clientv3.LeaseID) (*clientv3.LeaseRevokeResponse, error) {
	v.mu.Lock()
	delete(v.leases, id)
	v.mu.Unlock()
	return v.Lease.Revoke(ctx, id)
}

// advance moves the logical clock and expires (revokes) every lease whose deadline is reached.
func (v *vlease) advance(ctx context.Context, d int64) {
	v.mu.Lock()
	v.now += d
	var dead []clientv3.LeaseID
	for id, l := range v.leases {
		if l.deadline <= v.now {
			dead = append(dead, id)
			delete(v.leases, id)
		}
	}
	v.mu.Unlock()
	for _, id := range dead {
		_, _ = v.Lease.Revoke(ctx, id)
	}
}

func (v *vlease) remaining(id clientv3.LeaseID) int64 {
	v.mu.Lock()
	defer v.mu.Unlock()
	if l, ok := v.leases[id]; ok {
		return l.deadline - v.now
	}
	return -1
}

func (v *vlease) reset(ctx context.Context) {
	v.mu.Lock()
	ids := []clientv3.LeaseID{}
	for id := range v.leases {
		ids = append(ids, id)
	}
	v.leases = map[clientv3.LeaseID]*vl{}
	v.now = 0
	v.mu.Unlock()
	for _, id := range ids {
		_, _ = v.Lease.Revoke(ctx, id)
	}
}

// ---------------------------------------------------------------- backends

type backend struct {
	name  string
	st    corestore.Store
	dump  func() [][3]any
	tick  func(d int64)
	reset func()
	last  string
	// etcd only: current store revision and the deploy/processing keys as of a past revision
	revNow func() int64
	atRev  func(rev int64) [][3]any
}

type env struct {
	etcd, redis *backend
}

func setup(t *testing.T) *env {
	ctx := context.Background()
	cfg := types.Config{}
	cfg.LockTimeout = 10 * time.Second
	cfg.GlobalTimeout = 30 * time.Second
	cfg.MaxConcurrency = 1000
	cfg.Etcd = types.EtcdConfig{Machines: []string{"127.0.0.1:2379"}, Prefix: "/verif", LockPrefix: "/verif-lock"}
	enginefactory.InitEngineCache(ctx, cfg, nil)

	m, err := etcdv3.New(cfg, t)
	if err != nil {
		t.Fatal(err)
	}
	cli := embedded.NewCluster(t, cfg.Etcd.Prefix).RandClient()
	vle := &vlease{Lease: cli.Lease, leases: map[clientv3.LeaseID]*vl{}}
	cli.Lease = vle
	eb := &backend{name: "etcd", st: m}
	eb.dump = func() [][3]any {
		resp, err := cli.Get(ctx, "/", clientv3.WithPrefix())
		if err != nil {
			return [][3]any{{"!dump-error", err.Error(), 0}}
		}
		out := make([][3]any, 0, len(resp.Kvs))
		for _, kv := range resp.Kvs {
			ttl := int64(0)
			if kv.Lease != 0 {
				ttl = vle.remaining(clientv3.LeaseID(kv.Lease))
			}
			out = append(out, [3]any{string(kv.Key), canonVal(string(kv.Key), string(kv.Value)), ttl})
		}
		return out
	}
	eb.revNow = func() int64 {
		resp, err := cli.Get(ctx, "/verif-rev-probe")
		if err != nil {
			return -1
		}
		return resp.Header.Revision
	}
	eb.atRev = func(rev int64) [][3]any {
		out := [][3]any{}
		for _, pfx := range []string{"/deploy/", "/processing/"} {
			resp, err := cli.Get(ctx, pfx, clientv3.WithPrefix(), clientv3.WithRev(rev))
			if err != nil {
				return [][3]any{{"!dump-error", err.Error(), 0}}
			}
			for _, kv := range resp.Kvs {
				out = append(out, [3]any{string(kv.Key), canonVal(string(kv.Key), string(kv.Value)), 0})
			}
		}
		return out
	}
	eb.tick = func(d int64) { vle.advance(ctx, d) }
	eb.reset = func() {
		_, _ = cli.Delete(ctx, "/", clientv3.WithPrefix())
		vle.reset(ctx)
	}

	mr, err := miniredis.Run()
	if err != nil {
		t.Fatal(err)
	}
	t.Cleanup(mr.Close)
	rcfg := cfg
	rcfg.Redis = types.RedisConfig{Addr: mr.Addr(), DB: 0}
	// go-redis re-sends a command whose reply is late (default MaxRetries 3, ReadTimeout 3 s): on a
	// loaded machine that executed a marker DECR two or three times for ONE AddWorkload call.  The
	// harness switches the client's automatic retries off; a late reply then surfaces as a timeout
	// error, which runCase treats as an infrastructure failure (the case restarts on a fresh store).
	rcli := goredis.NewClient(&goredis.Options{Addr: mr.Addr(), DB: 0, MaxRetries: -1,
		ReadTimeout: 10 * time.Second, WriteTimeout: 10 * time.Second, PoolTimeout: 15 * time.Second})
	t.Cleanup(func() { _ = rcli.Close() })
	r, err := redisstore.VerifNewWithClient(rcli, rcfg)
	if err != nil {
		t.Fatal(err)
	}
	rb := &backend{name: "redis", st: r}
	rb.dump = func() [][3]any {
		keys := mr.Keys()
		sort.Strings(keys)
		out := make([][3]any, 0, len(keys))
		for _, k := range keys {
			v, _ := mr.Get(k)
			ttl := int64(mr.TTL(k) / time.Second)
			if mr.TTL(k) > 0 && ttl == 0 {
				ttl = 1
			}
			out = append(out, [3]any{k, canonVal(k, v), ttl})
		}
		return out
	}
	rb.tick = func(d int64) { mr.FastForward(time.Duration(d) * time.Second) }
	rb.reset = func() { mr.FlushAll() }
	_ = goredis.Nil
	return &env{etcd: eb, redis: rb}
}

// ---------------------------------------------------------------- canonical forms

func b01(b bool) string {
	if b {
		return "1"
	}
	return "0"
}

func canonLabels(m map[string]string) string {
	ks := make([]string, 0, len(m))
	for k := range m {
		ks = append(ks, k)
	}
	sort.Strings(ks)
	parts := make([]string, 0, len(ks))
	for _, k := range ks {
		parts = append(parts, k+"="+m[k])
	}
	return strings.Join(parts, ",")
}

func canonNodeRec(n *types.Node) string {
	return strings.Join([]string{n.Name, n.Podname, n.Endpoint, canonLabels(n.Labels), b01(n.Test), b01(n.Bypass)}, "|")
}

func canonWlRec(w *types.Workload) string {
	return strings.Join([]string{w.ID, w.Name, w.Nodename, canonLabels(w.Labels), w.Image}, "|")
}

func canonStatus(s *types.StatusMeta) string {
	if s == nil {
		return "-"
	}
	return strings.Join([]string{s.ID, b01(s.Running), b01(s.Healthy)}, "|")
}

// canonVal reduces a stored value to the fields the model tracks, by key family.
func canonVal(key, val string) string {
	switch {
	case strings.HasPrefix(key, "/pod/info/"):
		p := &types.Pod{}
		if json.Unmarshal([]byte(val), p) != nil {
			return "!bad:" + val
		}
		return p.Name + "|" + p.Desc
	case strings.HasPrefix(key, "/status:node/"):
		s := &types.NodeStatus{}
		if json.Unmarshal([]byte(val), s) != nil {
			return "!bad:" + val
		}
		return s.Nodename + "|" + s.Podname + "|" + b01(s.Alive)
	case strings.HasPrefix(key, "/status/"):
		s := &types.StatusMeta{}
		if json.Unmarshal([]byte(val), s) != nil {
			return "!bad:" + val
		}
		return canonStatus(s)
	case strings.HasPrefix(key, "/processing/"):
		return val
	case strings.HasPrefix(key, "/workloads/"), strings.HasPrefix(key, "/deploy/"),
		strings.HasPrefix(key, "/node/") && strings.Contains(key, ":workloads/"):
		w := &types.Workload{}
		if json.Unmarshal([]byte(val), w) != nil {
			return "!bad:" + val
		}
		return canonWlRec(w)
	case strings.HasPrefix(key, "/node/") && (strings.HasSuffix(key, ":ca") || strings.HasSuffix(key, ":cert") || strings.HasSuffix(key, ":key")):
		return val
	case strings.HasPrefix(key, "/node/"):
		n := &types.Node{}
		if json.Unmarshal([]byte(val), n) != nil {
			return "!bad:" + val
		}
		return canonNodeRec(n)
	}
	return "!unknown:" + val
}

func errClass(err error) string {
	switch {
	case errors.Is(err, types.ErrKeyExists), errors.Is(err, redisstore.ErrAlreadyExists):
		return "exists"
	case errors.Is(err, types.ErrInvaildCount), errors.Is(err, types.ErrKeyNotExists), errors.Is(err, types.ErrPodNotFound),
		errors.Is(err, redisstore.ErrKeyNotExitsts), errors.Is(err, goredis.Nil), strings.Contains(err.Error(), "redis: nil"):
		return "notfound"
	case errors.Is(err, types.ErrPodHasNodes):
		return "pod-has-nodes"
	case errors.Is(err, types.ErrInvaildNodeStatusTTL):
		return "bad-ttl"
	case errors.Is(err, types.ErrInvaildWorkloadStatus):
		return "bad-status"
	case errors.Is(err, types.ErrInvalidWorkloadName):
		return "bad-name"
	case errors.Is(err, types.ErrInvaildWorkloadMeta):
		return "bad-meta"
	}
	return "other:" + err.Error()
}

// ---------------------------------------------------------------- operations

type wlArg struct {
	ID     string            `json:"id"`
	Name   string            `json:"name"`
	Node   string            `json:"node"`
	Labels map[string]string `json:"labels"`
	Image  string            `json:"image"`
}

type procArg struct {
	App   string `json:"app"`
	Entry string `json:"entry"`
	Node  string `json:"node"`
	Ident string `json:"ident"`
}

type nodeArg struct {
	Name     string            `json:"name"`
	Pod      string            `json:"pod"`
	Endpoint string            `json:"endpoint"`
	Labels   map[string]string `json:"labels"`
	Test     bool              `json:"test"`
	Bypass   bool              `json:"bypass"`
	Ca       string            `json:"ca"`
	Cert     string            `json:"cert"`
	Key      string            `json:"key"`
}

type op struct {
	Op       string            `json:"op"`
	Name     string            `json:"name,omitempty"`
	Desc     string            `json:"desc,omitempty"`
	Pod      string            `json:"pod,omitempty"`
	Node     *nodeArg          `json:"node,omitempty"`
	Nodes    []nodeArg         `json:"nodes,omitempty"`
	Names    []string          `json:"names,omitempty"`
	Labels   map[string]string `json:"labels,omitempty"`
	All      bool              `json:"all,omitempty"`
	TTL      int64             `json:"ttl"`
	Wl       *wlArg            `json:"wl,omitempty"`
	Proc     *procArg          `json:"proc,omitempty"`
	App      string            `json:"app,omitempty"`
	Entry    string            `json:"entry,omitempty"`
	Nodename string            `json:"nodename,omitempty"`
	Limit    int64             `json:"limit"`
	Count    int               `json:"count"`
	Running  bool              `json:"running,omitempty"`
	Healthy  bool              `json:"healthy,omitempty"`
	D        int64             `json:"d"`
	Impl     map[string]any    `json:"impl,omitempty"`
}

type kase struct {
	ID   string `json:"id"`
	Kind string `json:"kind"`
	Ops  []*op  `json:"ops"`
}

func (w *wlArg) workload() *types.Workload {
	return &types.Workload{ID: w.ID, Name: w.Name, Nodename: w.Node, Labels: w.Labels, Image: w.Image}
}

func (p *procArg) processing() *types.Processing {
	if p == nil {
		return nil
	}
	return &types.Processing{Appname: p.App, Entryname: p.Entry, Nodename: p.Node, Ident: p.Ident}
}

func (n *nodeArg) node() *types.Node {
	return &types.Node{NodeMeta: types.NodeMeta{Name: n.Name, Endpoint: n.Endpoint, Podname: n.Pod, Labels: n.Labels,
		Ca: n.Ca, Cert: n.Cert, Key: n.Key}, Test: n.Test, Bypass: n.Bypass}
}

func okv(v any) map[string]any { return map[string]any{"ok": v} }

func canonNodes(ns []*types.Node) []string {
	set := map[string]bool{}
	for _, n := range ns {
		set[canonNodeRec(n)+"|"+b01(n.Available)] = true
	}
	return sortedKeys(set)
}

func canonWls(ws []*types.Workload) []string {
	set := map[string]bool{}
	for _, w := range ws {
		set[canonWlRec(w)+"|"+canonStatus(w.StatusMeta)] = true
	}
	return sortedKeys(set)
}

func sortedKeys(set map[string]bool) []string {
	out := make([]string, 0, len(set))
	for k := range set {
		out = append(out, k)
	}
	sort.Strings(out)
	return out
}

// exec runs one operation against one backend and returns the canonical result.
func exec(ctx context.Context, b *backend, o *op) (res map[string]any) {
	st := b.st
	fail := func(err error) map[string]any { return map[string]any{"err": errClass(err)} }
	switch o.Op {
	case "addPod":
		if _, err := st.AddPod(ctx, o.Name, o.Desc); err != nil {
			return fail(err)
		}
		return okv(nil)
	case "removePod":
		if err := st.RemovePod(ctx, o.Name); err != nil {
			return fail(err)
		}
		return okv(nil)
	case "getPod":
		p, err := st.GetPod(ctx, o.Name)
		if err != nil {
			return fail(err)
		}
		return okv(p.Name + "|" + p.Desc)
	case "getAllPods":
		ps, err := st.GetAllPods(ctx)
		if err != nil {
			return fail(err)
		}
		set := map[string]bool{}
		for _, p := range ps {
			set[p.Name+"|"+p.Desc] = true
		}
		return okv(sortedKeys(set))
	case "addNode":
		n := o.Node
		_, err := st.AddNode(ctx, &types.AddNodeOptions{Nodename: n.Name, Endpoint: n.Endpoint, Podname: n.Pod,
			Ca: n.Ca, Cert: n.Cert, Key: n.Key, Labels: n.Labels, Test: n.Test})
		if err != nil {
			return fail(err)
		}
		return okv(nil)
	case "removeNode":
		if err := st.RemoveNode(ctx, o.Node.node()); err != nil {
			return fail(err)
		}
		return okv(nil)
	case "getNodes":
		ns, err := st.GetNodes(ctx, o.Names)
		if err != nil {
			return fail(err)
		}
		return okv(canonNodes(ns))
	case "getNodesByPod":
		ns, err := st.GetNodesByPod(ctx, &types.NodeFilter{Podname: o.Pod, Labels: o.Labels, All: o.All})
		if err != nil {
			return fail(err)
		}
		return okv(canonNodes(ns))
	case "updateNodes":
		ns := []*types.Node{}
		for i := range o.Nodes {
			ns = append(ns, o.Nodes[i].node())
		}
		if err := st.UpdateNodes(ctx, ns...); err != nil {
			return fail(err)
		}
		return okv(nil)
	case "setNodeStatus":
		if err := st.SetNodeStatus(ctx, o.Node.node(), o.TTL); err != nil {
			return fail(err)
		}
		return okv(nil)
	case "getNodeStatus":
		s, err := st.GetNodeStatus(ctx, o.Name)
		if err != nil {
			return fail(err)
		}
		return okv(s.Nodename + "|" + s.Podname + "|" + b01(s.Alive))
	case "loadNodeCert":
		n := &types.Node{NodeMeta: types.NodeMeta{Name: o.Name}}
		if err := st.LoadNodeCert(ctx, n); err != nil {
			return fail(err)
		}
		return okv(n.Ca + "|" + n.Cert + "|" + n.Key)
	case "addWorkload":
		if err := st.AddWorkload(ctx, o.Wl.workload(), o.Proc.processing()); err != nil {
			return fail(err)
		}
		return okv(nil)
	case "updateWorkload":
		if err := st.UpdateWorkload(ctx, o.Wl.workload()); err != nil {
			return fail(err)
		}
		return okv(nil)
	case "removeWorkload":
		if err := st.RemoveWorkload(ctx, o.Wl.workload()); err != nil {
			return fail(err)
		}
		return okv(nil)
	case "getWorkloads":
		ws, err := st.GetWorkloads(ctx, o.Names)
		if err != nil {
			return fail(err)
		}
		return okv(canonWls(ws))
	case "setWorkloadStatus":
		sm := &types.StatusMeta{ID: o.Name, Appname: o.App, Entrypoint: o.Entry, Nodename: o.Nodename, Running: o.Running, Healthy: o.Healthy}
		if err := st.SetWorkloadStatus(ctx, sm, o.TTL); err != nil {
			return fail(err)
		}
		return okv(nil)
	case "listWorkloads":
		ws, err := st.ListWorkloads(ctx, o.App, o.Entry, o.Nodename, o.Limit, o.Labels)
		if err != nil {
			return fail(err)
		}
		return okv(canonWls(ws))
	case "listNodeWorkloads":
		ws, err := st.ListNodeWorkloads(ctx, o.Nodename, o.Labels)
		if err != nil {
			return fail(err)
		}
		return okv(canonWls(ws))
	case "getDeployStatus":
		m, err := st.GetDeployStatus(ctx, o.App, o.Entry)
		if err != nil {
			return fail(err)
		}
		set := map[string]bool{}
		for k, v := range m {
			set[fmt.Sprintf("%s=%d", k, v)] = true
		}
		return okv(sortedKeys(set))
	case "createProcessing":
		if err := st.CreateProcessing(ctx, o.Proc.processing(), o.Count); err != nil {
			return fail(err)
		}
		return okv(nil)
	case "deleteProcessing":
		if err := st.DeleteProcessing(ctx, o.Proc.processing()); err != nil {
			return fail(err)
		}
		return okv(nil)
	case "tick":
		b.tick(o.D)
		return okv(nil)
	}
	return map[string]any{"err": "unknown-op"}
}

// infraError recognises failures of the test infrastructure (embedded etcd / miniredis under
// machine load), which say nothing about the store code.
func infraError(res map[string]any) bool {
	c, _ := res["err"].(string)
	if !strings.HasPrefix(c, "other:") && !strings.HasPrefix(c, "timeout") {
		return false
	}
	for _, m := range []string{"timed out", "deadline exceeded", "timeout", "unavailable", "connection", "too many requests", "leader changed", "i/o"} {
		if strings.Contains(c, m) {
			return true
		}
	}
	return false
}

// runCase executes the sequence; when the infrastructure fails the whole case is re-executed
// (up to three times) and, if it keeps failing, cut just before the failing operation.
func runCase(ctx context.Context, e *env, k *kase) {
	for attempt := 0; attempt < 4; attempt++ {
		bad := runCaseOnce(ctx, e, k)
		if bad < 0 {
			return
		}
		if attempt == 3 {
			k.Ops = k.Ops[:bad]
			return
		}
		time.Sleep(time.Duration(attempt+1) * 500 * time.Millisecond)
	}
}

// runCaseOnce returns the index of the first operation hit by an infrastructure failure, or -1.
func runCaseOnce(ctx context.Context, e *env, k *kase) int {
	for _, b := range []*backend{e.etcd, e.redis} {
		b.reset()
		b.last = ""
	}
	for i, o := range k.Ops {
		o.Impl = map[string]any{}
		for _, b := range []*backend{e.etcd, e.redis} {
			var res map[string]any
			revBefore := int64(-1)
			if k.Kind == "deploy" && b.revNow != nil {
				revBefore = b.revNow()
			}
			t0 := time.Now()
			kind, msg := hx.Guard(20*time.Second, func() { res = exec(ctx, b, o) })
			if kind != "" {
				res = map[string]any{"err": kind + ":" + msg}
			}
			// an operation that stalled for seconds went through client-side timeouts/retries of the
			// etcd or redis client libraries: not a clean execution of the store code
			if infraError(res) || time.Since(t0) > 2500*time.Millisecond {
				return i
			}
			entry := map[string]any{"r": res}
			d := b.dump()
			if len(d) == 1 && d[0][0] == "!dump-error" {
				return i
			}
			js, _ := json.Marshal(d)
			if string(js) != b.last {
				entry["kv"] = d
				b.last = string(js)
			}
			// every intermediate etcd revision the operation produced (C13: the counts must be within
			// bounds at each of them, i.e. add-workload-and-decrement is ONE transaction)
			if revBefore >= 0 {
				if revAfter := b.revNow(); revAfter > revBefore && revAfter-revBefore < 50 {
					revs := [][][3]any{}
					for rev := revBefore + 1; rev <= revAfter; rev++ {
						revs = append(revs, b.atRev(rev))
					}
					entry["revs"] = revs
				}
			}
			o.Impl[b.name] = entry
		}
	}
	return -1
}

// ---------------------------------------------------------------- generator

var (
	pods    = []string{"p1", "p2", "p3"}
	nodesU  = []string{"n1", "n2", "n3", "n1x"}
	wlsU    = []string{"w1", "w2", "w3", "w4", "w5", "w6"}
	appsU   = []string{"a1", "a1x"}
	entryU  = []string{"e1", "e1x"}
	identsU = []string{"i1", "i2"}
)

type home struct {
	app, entry, node string
}

type gen struct {
	r       *hx.Rng
	home    map[string]home
	npod    map[string]string
	img     int
	c13     bool
	c25     bool
	lastS   []*op // status reports made so far (re-reported unchanged to exercise the keep-alive path)
	pending []*op // scripted follow-up operations
}

func (g *gen) labels() map[string]string {
	switch g.r.Intn(4) {
	case 0:
		return nil
	case 1:
		return map[string]string{"k": "v"}
	case 2:
		return map[string]string{"k": "w"}
	}
	return map[string]string{"k": "v", "z": "1"}
}

func (g *gen) filter() map[string]string {
	switch g.r.Intn(5) {
	case 0:
		return map[string]string{"k": "v"}
	case 1:
		return map[string]string{"z": ""}
	case 2:
		return map[string]string{"k": "v", "z": "1"}
	}
	return nil
}

func (g *gen) wl(id string) *wlArg {
	h := g.home[id]
	if g.r.Chance(12) {
		h.node = hx.Pick(g.r, nodesU...)
	}
	if g.r.Chance(6) {
		h.app = hx.Pick(g.r, appsU...)
	}
	g.img++
	name := h.app + "_" + h.entry + "_x" + id
	if g.r.Chance(2) {
		name = "noparts"
	}
	return &wlArg{ID: id, Name: name, Node: h.node, Labels: g.labels(), Image: fmt.Sprintf("img%d", g.img)}
}

func (g *gen) proc(w *wlArg) *procArg {
	if w != nil && g.r.Chance(85) {
		h := g.home[w.ID]
		return &procArg{App: h.app, Entry: h.entry, Node: w.Node, Ident: hx.Pick(g.r, identsU...)}
	}
	return &procArg{App: hx.Pick(g.r, appsU...), Entry: hx.Pick(g.r, entryU...), Node: hx.Pick(g.r, nodesU...), Ident: hx.Pick(g.r, identsU...)}
}

func (g *gen) nodeArg(name string) *nodeArg {
	pod := g.npod[name]
	if g.r.Chance(10) {
		pod = hx.Pick(g.r, pods...)
	}
	ep := "mock://" + name
	if g.r.Chance(50) {
		ep = "bogus://" + name
	}
	n := &nodeArg{Name: name, Pod: pod, Endpoint: ep, Labels: g.labels(), Test: g.r.Chance(10)}
	if g.r.Chance(35) {
		n.Ca, n.Cert, n.Key = "CA"+name, "CERT"+name, "KEY"+name
		if g.r.Chance(30) {
			n.Cert = ""
		}
	}
	return n
}

// pattern queues a short scripted status scenario (renewals around TTL changes and entity removal)
func (g *gen) pattern() {
	r := g.r
	cp := func(o *op) *op { c := *o; c.Impl = nil; return &c }
	switch r.Intn(6) {
	case 3: // unknown workload: status without ttl (accepted), then the IDENTICAL status with a ttl (must be refused)
		id := hx.Pick(r, wlsU...)
		h := g.home[id]
		st := &op{Op: "setWorkloadStatus", Name: id, App: h.app, Entry: h.entry, Nodename: h.node, Running: r.Chance(50), Healthy: r.Chance(50), TTL: 0}
		st2 := cp(st)
		st2.TTL = int64(hx.Pick(r, 3, 5, 30))
		g.pending = append(g.pending, &op{Op: "removeWorkload", Wl: &wlArg{ID: id, Name: h.app + "_" + h.entry + "_x" + id, Node: h.node}},
			st, st2, &op{Op: "tick", D: int64(hx.Pick(r, 1, 6))})
	case 4: // more adds under a marker than it counts (also markers created with count 0)
		c := r.Range(0, 2)
		pr := &procArg{App: hx.Pick(r, appsU...), Entry: hx.Pick(r, entryU...), Node: hx.Pick(r, "n1", "n1x"), Ident: hx.Pick(r, identsU...)}
		g.pending = append(g.pending, &op{Op: "deleteProcessing", Proc: pr}, &op{Op: "createProcessing", Proc: pr, Count: c})
		perm := append([]string{}, wlsU...)
		hx.Shuffle(r, perm)
		for _, id := range perm[:c+1] {
			g.img++
			w := &wlArg{ID: id, Name: pr.App + "_" + pr.Entry + "_x" + id, Node: pr.Node, Image: fmt.Sprintf("img%d", g.img)}
			g.pending = append(g.pending, &op{Op: "removeWorkload", Wl: w}, &op{Op: "addWorkload", Wl: w, Proc: pr})
		}
		g.pending = append(g.pending, &op{Op: "getDeployStatus", App: pr.App, Entry: pr.Entry}, &op{Op: "getWorkloads", Names: perm[:c+1]})
	case 5: // changed value with the SAME ttl part-way through the lifetime, read between the old and the new deadline
		id := hx.Pick(r, wlsU...)
		h := g.home[id]
		ttl := int64(hx.Pick(r, 5, 6, 10))
		st := &op{Op: "setWorkloadStatus", Name: id, App: h.app, Entry: h.entry, Nodename: h.node, Running: true, Healthy: false, TTL: ttl}
		st2 := cp(st)
		st2.Healthy = true
		g.img++
		g.pending = append(g.pending, &op{Op: "addWorkload", Wl: &wlArg{ID: id, Name: h.app + "_" + h.entry + "_x" + id, Node: h.node, Image: fmt.Sprintf("img%d", g.img)}},
			st, &op{Op: "tick", D: ttl - 2}, st2, &op{Op: "tick", D: 3}, &op{Op: "getWorkloads", Names: []string{id}},
			&op{Op: "tick", D: ttl - 3}, &op{Op: "getWorkloads", Names: []string{id}})
	case 0: // heartbeat (same value, same ttl) after the node was removed
		nm := hx.Pick(r, nodesU...)
		st := &op{Op: "setNodeStatus", Node: &nodeArg{Name: nm, Pod: g.npod[nm]}, TTL: int64(hx.Pick(r, 3, 5))}
		g.pending = append(g.pending, st, &op{Op: "removeNode", Node: &nodeArg{Name: nm, Pod: g.npod[nm]}}, cp(st),
			&op{Op: "getNodeStatus", Name: nm})
	case 1: // same value, then a shorter ttl, then time
		id := hx.Pick(r, wlsU...)
		h := g.home[id]
		st := &op{Op: "setWorkloadStatus", Name: id, App: h.app, Entry: h.entry, Nodename: h.node, Running: r.Chance(50), TTL: int64(hx.Pick(r, 5, 10))}
		st2 := cp(st)
		st2.TTL = int64(hx.Pick(r, 2, 3))
		g.pending = append(g.pending, st, st2, &op{Op: "tick", D: int64(hx.Pick(r, 3, 4))}, &op{Op: "getWorkloads", Names: []string{id}})
	default: // same value, ttl then no ttl, then time
		id := hx.Pick(r, wlsU...)
		h := g.home[id]
		st := &op{Op: "setWorkloadStatus", Name: id, App: h.app, Entry: h.entry, Nodename: h.node, Healthy: r.Chance(50), TTL: int64(hx.Pick(r, 2, 3))}
		st2 := cp(st)
		st2.TTL = 0
		g.pending = append(g.pending, st, st2, &op{Op: "tick", D: 5}, &op{Op: "getWorkloads", Names: []string{id}})
	}
}

func (g *gen) next() *op {
	r := g.r
	if g.c13 {
		return g.nextC13()
	}
	if len(g.pending) > 0 {
		o := g.pending[0]
		g.pending = g.pending[1:]
		return o
	}
	w := r.Intn(100)
	if (g.c25 && r.Chance(6)) || (!g.c25 && r.Chance(3)) {
		g.pattern()
		return g.next()
	}
	if g.c25 {
		// status-heavy mix
		switch {
		case w < 22:
			return g.setWlStatus()
		case w < 40:
			return g.setNodeStatus()
		case w < 55:
			return &op{Op: "tick", D: int64(hx.Pick(r, 1, 1, 2, 3, 5))}
		case w < 62:
			return &op{Op: "getNodeStatus", Name: hx.Pick(r, nodesU...)}
		case w < 70:
			return &op{Op: "getWorkloads", Names: []string{hx.Pick(r, wlsU...)}}
		case w < 76:
			n := g.nodeArg(hx.Pick(r, nodesU...))
			n.Pod = g.npod[n.Name]
			return &op{Op: hx.Pick(r, "removeNode", "addNode"), Node: n}
		case w < 80:
			return &op{Op: hx.Pick(r, "removeWorkload", "addWorkload"), Wl: g.wl(hx.Pick(r, wlsU...))}
		}
		w = r.Intn(100)
	}
	switch {
	case w < 6:
		return &op{Op: "addPod", Name: hx.Pick(r, pods...), Desc: hx.Pick(r, "", "d1", "d2")}
	case w < 9:
		return &op{Op: "removePod", Name: hx.Pick(r, pods...)}
	case w < 11:
		return &op{Op: "getPod", Name: hx.Pick(r, pods...)}
	case w < 13:
		return &op{Op: "getAllPods"}
	case w < 22:
		return &op{Op: "addNode", Node: g.nodeArg(hx.Pick(r, nodesU...))}
	case w < 26:
		n := g.nodeArg(hx.Pick(r, nodesU...))
		return &op{Op: "removeNode", Node: n}
	case w < 30:
		k := r.Range(0, 3)
		names := []string{}
		perm := append([]string{}, nodesU...)
		hx.Shuffle(r, perm)
		names = append(names, perm[:k]...)
		return &op{Op: "getNodes", Names: names}
	case w < 35:
		pod := hx.Pick(r, "", "p1", "p2", "p3")
		return &op{Op: "getNodesByPod", Pod: pod, Labels: g.filter(), All: r.Chance(50)}
	case w < 40:
		k := r.Range(1, 2)
		ns := []nodeArg{}
		perm := append([]string{}, nodesU...)
		hx.Shuffle(r, perm)
		for _, nm := range perm[:k] {
			n := g.nodeArg(nm)
			n.Bypass = r.Chance(30)
			ns = append(ns, *n)
		}
		return &op{Op: "updateNodes", Nodes: ns}
	case w < 45:
		return g.setNodeStatus()
	case w < 47:
		return &op{Op: "getNodeStatus", Name: hx.Pick(r, nodesU...)}
	case w < 49:
		return &op{Op: "loadNodeCert", Name: hx.Pick(r, nodesU...)}
	case w < 60:
		wl := g.wl(hx.Pick(r, wlsU...))
		o := &op{Op: "addWorkload", Wl: wl}
		if r.Chance(40) {
			o.Proc = g.proc(wl)
		}
		return o
	case w < 64:
		return &op{Op: "updateWorkload", Wl: g.wl(hx.Pick(r, wlsU...))}
	case w < 69:
		return &op{Op: "removeWorkload", Wl: g.wl(hx.Pick(r, wlsU...))}
	case w < 73:
		k := r.Range(0, 3)
		perm := append([]string{}, wlsU...)
		hx.Shuffle(r, perm)
		return &op{Op: "getWorkloads", Names: append([]string{}, perm[:k]...)}
	case w < 79:
		return g.setWlStatus()
	case w < 84:
		o := &op{Op: "listWorkloads", App: hx.Pick(r, "", "a1", "a1x"), Entry: hx.Pick(r, "", "e1", "e1x"), Nodename: hx.Pick(r, "", "n1", "n1x")}
		if r.Chance(30) {
			o.Limit = int64(r.Range(1, 3))
		} else {
			o.Labels = g.filter()
		}
		return o
	case w < 87:
		return &op{Op: "listNodeWorkloads", Nodename: hx.Pick(r, nodesU...), Labels: g.filter()}
	case w < 91:
		return &op{Op: "getDeployStatus", App: hx.Pick(r, appsU...), Entry: hx.Pick(r, entryU...)}
	case w < 95:
		return &op{Op: "createProcessing", Proc: g.proc(nil), Count: r.Range(0, 3)}
	case w < 97:
		return &op{Op: "deleteProcessing", Proc: g.proc(nil)}
	}
	return &op{Op: "tick", D: int64(hx.Pick(r, 1, 2, 3, 5))}
}

// again re-issues an earlier status report unchanged (same value, same TTL)
func (g *gen) again() *op {
	if len(g.lastS) == 0 || !g.r.Chance(35) {
		return nil
	}
	o := *g.lastS[g.r.Intn(len(g.lastS))]
	o.Impl = nil
	if o.Op == "setWorkloadStatus" && g.r.Chance(25) { // another value, same ttl
		o.Healthy = !o.Healthy
		return &o
	}
	if g.r.Chance(35) { // same value, another ttl (shorter, longer, none)
		if o.Op == "setNodeStatus" {
			o.TTL = int64(hx.Pick(g.r, 2, 3, 5))
		} else {
			o.TTL = int64(hx.Pick(g.r, 0, 2, 3, 5, 10))
		}
	}
	return &o
}

func (g *gen) setNodeStatus() *op {
	if o := g.again(); o != nil {
		return o
	}
	n := g.nodeArg(hx.Pick(g.r, nodesU...))
	if g.r.Chance(85) {
		n.Pod = g.npod[n.Name]
	}
	o := &op{Op: "setNodeStatus", Node: &nodeArg{Name: n.Name, Pod: n.Pod}, TTL: int64(hx.Pick(g.r, -1, 0, 2, 3, 3, 5))}
	g.lastS = append(g.lastS, o)
	return o
}

func (g *gen) setWlStatus() *op {
	if o := g.again(); o != nil {
		return o
	}
	id := hx.Pick(g.r, wlsU...)
	h := g.home[id]
	if g.r.Chance(8) {
		h.node = hx.Pick(g.r, nodesU...)
	}
	if g.r.Chance(3) {
		h.app = ""
	}
	o := &op{Op: "setWorkloadStatus", Name: id, App: h.app, Entry: h.entry, Nodename: h.node,
		Running: g.r.Chance(60), Healthy: g.r.Chance(50), TTL: int64(hx.Pick(g.r, 0, 0, 2, 3, 3, 5, 10))}
	g.lastS = append(g.lastS, o)
	return o
}

// deployment-shaped traces for C13: markers created with a planned count, workloads added with the
// marker (never more than planned, fresh ids), rollbacks, marker deletion; status read after every step.
type dep struct {
	p       *procArg
	planned int
	added   int
	ids     []string
}

var c13deps []*dep
var c13fresh int
var c13pendingRead *op

func (g *gen) nextC13() *op {
	r := g.r
	if c13pendingRead != nil {
		o := c13pendingRead
		c13pendingRead = nil
		return o
	}
	emit := func(o *op, app, entry string) *op {
		c13pendingRead = &op{Op: "getDeployStatus", App: app, Entry: entry}
		return o
	}
	w := r.Intn(100)
	switch {
	case w < 20 && len(c13deps) < 3:
		p := &procArg{App: hx.Pick(r, appsU...), Entry: hx.Pick(r, "e1", "e1x"), Node: hx.Pick(r, "n1", "n1x"), Ident: fmt.Sprintf("i%d", r.Intn(4))}
		for _, d := range c13deps {
			if *d.p == *p {
				return emit(&op{Op: "createProcessing", Proc: p, Count: r.Range(1, 3)}, p.App, p.Entry) // duplicate: must fail
			}
		}
		c := r.Range(0, 4)
		c13deps = append(c13deps, &dep{p: p, planned: c})
		return emit(&op{Op: "createProcessing", Proc: p, Count: c}, p.App, p.Entry)
	case w < 65 && len(c13deps) > 0:
		d := c13deps[r.Intn(len(c13deps))]
		if d.added >= d.planned {
			break
		}
		c13fresh++
		id := fmt.Sprintf("f%d", c13fresh)
		d.added++
		d.ids = append(d.ids, id)
		g.img++
		wl := &wlArg{ID: id, Name: d.p.App + "_" + d.p.Entry + "_x" + id, Node: d.p.Node, Labels: g.labels(), Image: fmt.Sprintf("img%d", g.img)}
		return emit(&op{Op: "addWorkload", Wl: wl, Proc: d.p}, d.p.App, d.p.Entry)
	case w < 75 && len(c13deps) > 0:
		d := c13deps[r.Intn(len(c13deps))]
		if len(d.ids) == 0 {
			break
		}
		id := d.ids[len(d.ids)-1]
		d.ids = d.ids[:len(d.ids)-1]
		wl := &wlArg{ID: id, Name: d.p.App + "_" + d.p.Entry + "_x" + id, Node: d.p.Node}
		return emit(&op{Op: "removeWorkload", Wl: wl}, d.p.App, d.p.Entry)
	case w < 92 && len(c13deps) > 0:
		i := r.Intn(len(c13deps))
		d := c13deps[i]
		c13deps = append(c13deps[:i], c13deps[i+1:]...)
		return emit(&op{Op: "deleteProcessing", Proc: d.p}, d.p.App, d.p.Entry)
	}
	return &op{Op: "getDeployStatus", App: hx.Pick(r, appsU...), Entry: hx.Pick(r, "e1", "e1x")}
}

func genCase(r *hx.Rng, id string, prop string) *kase {
	g := &gen{r: r, home: map[string]home{}, npod: map[string]string{}, c13: prop == "C13", c25: prop == "C25"}
	for _, w := range wlsU {
		g.home[w] = home{app: hx.Pick(r, appsU...), entry: hx.Pick(r, entryU...), node: hx.Pick(r, "n1", "n1x", "n2")}
	}
	for _, n := range nodesU {
		g.npod[n] = hx.Pick(r, "p1", "p1", "p2")
	}
	k := &kase{ID: id, Kind: "seq"}
	if prop == "C13" {
		k.Kind = "deploy"
	}
	n := r.Range(8, 60)
	if g.c13 {
		c13deps, c13fresh, c13pendingRead = nil, 0, nil
		// a node and a pod so that reads of workloads succeed
		k.Ops = append(k.Ops, &op{Op: "addPod", Name: "p1"},
			&op{Op: "addNode", Node: &nodeArg{Name: "n1", Pod: "p1", Endpoint: "mock://n1"}},
			&op{Op: "addNode", Node: &nodeArg{Name: "n1x", Pod: "p1", Endpoint: "mock://n1x"}})
		// some prior workloads
		for i := 0; i < r.Range(0, 3); i++ {
			g.img++
			id := fmt.Sprintf("old%d", i)
			k.Ops = append(k.Ops, &op{Op: "addWorkload", Wl: &wlArg{ID: id, Name: hx.Pick(r, appsU...) + "_" + hx.Pick(r, "e1", "e1x") + "_x" + id, Node: hx.Pick(r, "n1", "n1x"), Image: "old"}})
		}
	} else if r.Chance(70) {
		// warm start: pods and most nodes exist
		k.Ops = append(k.Ops, &op{Op: "addPod", Name: "p1", Desc: "d"}, &op{Op: "addPod", Name: "p2"})
		for _, nm := range []string{"n1", "n1x", "n2"} {
			if r.Chance(80) {
				na := g.nodeArg(nm)
				na.Pod = g.npod[nm]
				k.Ops = append(k.Ops, &op{Op: "addNode", Node: na})
			}
		}
	}
	if g.c25 {
		for _, id := range wlsU[:4] {
			if r.Chance(75) {
				h := g.home[id]
				g.img++
				k.Ops = append(k.Ops, &op{Op: "addWorkload", Wl: &wlArg{ID: id, Name: h.app + "_" + h.entry + "_x" + id, Node: h.node, Image: fmt.Sprintf("img%d", g.img)}})
			}
		}
		n += len(k.Ops)
	}
	for len(k.Ops) < n {
		k.Ops = append(k.Ops, g.next())
	}
	return k
}

// fixed corpus: past divergences first
func corpus() []*kase {
	w := func(id, node string) *wlArg { return &wlArg{ID: id, Name: "a1_e1_x" + id, Node: node, Image: "c"} }
	wn := func(id, app, entry, node string) *wlArg {
		return &wlArg{ID: id, Name: app + "_" + entry + "_x" + id, Node: node, Image: "c"}
	}
	return []*kase{
		// names that are prefixes of one another: counts and lists must not leak across them
		{ID: "corpus-prefix-names", Kind: "seq", Ops: []*op{
			{Op: "addPod", Name: "p1"},
			{Op: "addNode", Node: &nodeArg{Name: "n1", Pod: "p1", Endpoint: "mock://n1"}},
			{Op: "addNode", Node: &nodeArg{Name: "n1x", Pod: "p1", Endpoint: "mock://n1x"}},
			{Op: "addWorkload", Wl: wn("w1", "a1", "e1", "n1")}, {Op: "addWorkload", Wl: wn("w2", "a1", "e1x", "n1")},
			{Op: "addWorkload", Wl: wn("w3", "a1x", "e1", "n1")}, {Op: "addWorkload", Wl: wn("w4", "a1", "e1", "n1x")},
			{Op: "createProcessing", Proc: &procArg{App: "a1", Entry: "e1x", Node: "n1", Ident: "i1"}, Count: 2},
			{Op: "createProcessing", Proc: &procArg{App: "a1", Entry: "e1", Node: "n1", Ident: "i1"}, Count: 1},
			{Op: "createProcessing", Proc: &procArg{App: "a1", Entry: "e1", Node: "n1", Ident: "i2"}, Count: 3},
			{Op: "getDeployStatus", App: "a1", Entry: "e1"}, {Op: "getDeployStatus", App: "a1", Entry: "e1x"},
			{Op: "getDeployStatus", App: "a1x", Entry: "e1"},
			{Op: "listWorkloads", App: "a1", Entry: "e1", Nodename: "n1"}, {Op: "listWorkloads", App: "a1", Entry: "e1"},
			{Op: "listNodeWorkloads", Nodename: "n1"},
		}},
		// round-3 witnesses: identical status first without then with ttl for an unknown workload; marker
		// driven below zero; changed value on the same ttl part-way through the lease
		{ID: "corpus-r3", Kind: "seq", Ops: []*op{
			{Op: "setWorkloadStatus", Name: "w9", App: "a1", Entry: "e1", Nodename: "n1", TTL: 0, Running: true},
			{Op: "setWorkloadStatus", Name: "w9", App: "a1", Entry: "e1", Nodename: "n1", TTL: 30, Running: true},
			{Op: "tick", D: 31},
			{Op: "createProcessing", Proc: &procArg{App: "a1", Entry: "e1", Node: "n1", Ident: "i1"}, Count: 1},
			{Op: "addWorkload", Wl: w("w1", "n1"), Proc: &procArg{App: "a1", Entry: "e1", Node: "n1", Ident: "i1"}},
			{Op: "addWorkload", Wl: w("w2", "n1"), Proc: &procArg{App: "a1", Entry: "e1", Node: "n1", Ident: "i1"}},
			{Op: "getDeployStatus", App: "a1", Entry: "e1"},
			{Op: "createProcessing", Proc: &procArg{App: "a1", Entry: "e1", Node: "n1", Ident: "i2"}, Count: 0},
			{Op: "addWorkload", Wl: w("w3", "n1"), Proc: &procArg{App: "a1", Entry: "e1", Node: "n1", Ident: "i2"}},
			{Op: "getDeployStatus", App: "a1", Entry: "e1"},
			{Op: "setWorkloadStatus", Name: "w1", App: "a1", Entry: "e1", Nodename: "n1", TTL: 6, Running: true},
			{Op: "tick", D: 4},
			{Op: "setWorkloadStatus", Name: "w1", App: "a1", Entry: "e1", Nodename: "n1", TTL: 6, Running: true, Healthy: true},
			{Op: "tick", D: 4}, {Op: "addPod", Name: "p1"}, {Op: "addNode", Node: &nodeArg{Name: "n1", Pod: "p1", Endpoint: "mock://n1"}},
			{Op: "getWorkloads", Names: []string{"w1"}},
			{Op: "tick", D: 2}, {Op: "getWorkloads", Names: []string{"w1"}},
		}},
		// a node status heartbeat (same value, same ttl) after the node was removed must be rejected;
		// same value with a shorter ttl / without ttl must replace the lifetime
		{ID: "corpus-status-renewal", Kind: "seq", Ops: []*op{
			{Op: "addPod", Name: "p1"}, {Op: "addNode", Node: &nodeArg{Name: "n1", Pod: "p1", Endpoint: "bogus://n1", Ca: "CA", Cert: "CERT", Key: "KEY"}},
			{Op: "setNodeStatus", Node: &nodeArg{Name: "n1", Pod: "p1"}, TTL: 5},
			{Op: "setNodeStatus", Node: &nodeArg{Name: "n1", Pod: "p1"}, TTL: 2}, {Op: "tick", D: 3}, {Op: "getNodeStatus", Name: "n1"},
			{Op: "setNodeStatus", Node: &nodeArg{Name: "n1", Pod: "p1"}, TTL: 5},
			{Op: "removeNode", Node: &nodeArg{Name: "n1", Pod: "p1"}}, {Op: "loadNodeCert", Name: "n1"},
			{Op: "setNodeStatus", Node: &nodeArg{Name: "n1", Pod: "p1"}, TTL: 5},
			{Op: "addNode", Node: &nodeArg{Name: "n1", Pod: "p1", Endpoint: "bogus://n1"}}, {Op: "loadNodeCert", Name: "n1"},
			{Op: "addWorkload", Wl: w("w1", "n1")},
			{Op: "setWorkloadStatus", Name: "w1", App: "a1", Entry: "e1", Nodename: "n1", TTL: 5, Running: true},
			{Op: "setWorkloadStatus", Name: "w1", App: "a1", Entry: "e1", Nodename: "n1", TTL: 0, Running: true},
			{Op: "tick", D: 10}, {Op: "getWorkloads", Names: []string{"w1"}},
			{Op: "setWorkloadStatus", Name: "w1", App: "a1", Entry: "e1", Nodename: "n1", TTL: 10, Running: true},
			{Op: "setWorkloadStatus", Name: "w1", App: "a1", Entry: "e1", Nodename: "n1", TTL: 2, Running: true},
			{Op: "tick", D: 3}, {Op: "getWorkloads", Names: []string{"w1"}},
		}},
		{ID: "corpus-batchcreate", Kind: "seq", Ops: []*op{
			{Op: "addPod", Name: "p1"}, {Op: "addPod", Name: "p2"},
			{Op: "addNode", Node: &nodeArg{Name: "n1", Pod: "p1", Endpoint: "mock://n1"}},
			{Op: "addNode", Node: &nodeArg{Name: "n1", Pod: "p2", Endpoint: "mock://n1", Ca: "CA"}},
			{Op: "addWorkload", Wl: w("w1", "n1")}, {Op: "addWorkload", Wl: w("w1", "n2")},
			{Op: "getNodesByPod", Pod: "p2", All: true}, {Op: "removePod", Name: "p2"},
		}},
		{ID: "corpus-decr", Kind: "seq", Ops: []*op{
			{Op: "addWorkload", Wl: w("w1", "n1"), Proc: &procArg{App: "a1", Entry: "e1", Node: "n1", Ident: "i1"}},
			{Op: "getDeployStatus", App: "a1", Entry: "e1"},
			{Op: "createProcessing", Proc: &procArg{App: "a1", Entry: "e1", Node: "n1", Ident: "i1"}, Count: 2},
			{Op: "addWorkload", Wl: w("w1", "n1"), Proc: &procArg{App: "a1", Entry: "e1", Node: "n1", Ident: "i1"}},
			{Op: "addWorkload", Wl: &wlArg{ID: "w1", Name: "a1_e1_xw1", Node: "n1", Image: "second"}, Proc: &procArg{App: "a1", Entry: "e1", Node: "n1", Ident: "i1"}},
			{Op: "getDeployStatus", App: "a1", Entry: "e1"},
		}},
		{ID: "corpus-status", Kind: "seq", Ops: []*op{
			{Op: "setWorkloadStatus", Name: "w1", App: "a1", Entry: "e1", Nodename: "n1", TTL: 0, Running: true},
			{Op: "setWorkloadStatus", Name: "w2", App: "a1", Entry: "e1", Nodename: "n1", TTL: 3},
			{Op: "setNodeStatus", Node: &nodeArg{Name: "n1", Pod: "p1"}, TTL: 3},
			{Op: "getNodeStatus", Name: "n1"},
			{Op: "removePod", Name: "p3"},
			{Op: "addPod", Name: "p1"}, {Op: "addNode", Node: &nodeArg{Name: "n1", Pod: "p1", Endpoint: "bogus://n1"}},
			{Op: "addWorkload", Wl: w("w1", "n1")},
			{Op: "setNodeStatus", Node: &nodeArg{Name: "n1", Pod: "p1"}, TTL: 3},
			{Op: "setWorkloadStatus", Name: "w1", App: "a1", Entry: "e1", Nodename: "n1", TTL: 3, Running: true},
			{Op: "tick", D: 2},
			{Op: "setWorkloadStatus", Name: "w1", App: "a1", Entry: "e1", Nodename: "n1", TTL: 3, Running: true},
			{Op: "tick", D: 2}, {Op: "getWorkloads", Names: []string{"w1"}}, {Op: "getNodes", Names: []string{"n1"}},
			{Op: "tick", D: 1}, {Op: "getWorkloads", Names: []string{"w1"}},
			{Op: "setWorkloadStatus", Name: "w1", App: "a1", Entry: "e1", Nodename: "n1", TTL: 0, Running: true},
			{Op: "tick", D: 10}, {Op: "getWorkloads", Names: []string{"w1"}},
			{Op: "setNodeStatus", Node: &nodeArg{Name: "n1", Pod: "p1"}, TTL: 5},
			{Op: "setNodeStatus", Node: &nodeArg{Name: "n1", Pod: "p1"}, TTL: -1}, {Op: "getNodeStatus", Name: "n1"},
			{Op: "removeWorkload", Wl: w("w1", "n1")}, {Op: "tick", D: 1},
		}},
	}
}

func TestGen(t *testing.T) {
	ctx := context.Background()
	e := setup(t)
	out := hx.OpenOut()
	defer out.Close()
	prop := os.Getenv("VERIF_PROPERTY")
	if rp := os.Getenv("VERIF_REPLAY"); rp != "" {
		f, err := os.Open(rp)
		if err != nil {
			t.Fatal(err)
		}
		defer f.Close()
		sc := bufio.NewScanner(f)
		sc.Buffer(make([]byte, 1<<20), 1<<28)
		for sc.Scan() {
			k := &kase{}
			if json.Unmarshal(sc.Bytes(), k) != nil || len(k.Ops) == 0 {
				continue
			}
			runCase(ctx, e, k)
			out.Emit(k)
		}
		return
	}
	for _, k := range corpus() {
		if prop == "C13" && k.ID == "corpus-prefix-names" {
			k.Kind = "deploy"
		}
		runCase(ctx, e, k)
		out.Emit(k)
	}
	n := hx.EnvInt("VERIF_CASES", 50)
	seed := hx.Seed()
	for i := 0; i < n; i++ {
		r := hx.NewRng(seed*1000003 + uint64(i))
		k := genCase(r, fmt.Sprintf("s%d-%d", seed, i), prop)
		runCase(ctx, e, k)
		out.Emit(k)
	}
}
