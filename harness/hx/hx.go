// Package hx: shared helpers for the verification harness binaries
// (seeded PRNG, JSONL case writer, panic/timeout capture).
package hx

import (
	"bufio"
	"encoding/json"
	"fmt"
	"os"
	"strconv"
	"time"
)

// Rng is a splitmix64 generator; every random choice of a harness derives from VERIF_SEED.
type Rng struct{ s uint64 }

func NewRng(seed uint64) *Rng { return &Rng{s: seed*0x9E3779B97F4A7C15 + 0x1234567} }

func (r *Rng) U64() uint64 {
	r.s += 0x9E3779B97F4A7C15
	z := r.s
	z = (z ^ (z >> 30)) * 0xBF58476D1CE4E5B9
	z = (z ^ (z >> 27)) * 0x94D049BB133111EB
	return z ^ (z >> 31)
}

// Intn returns a value in [0,n).
func (r *Rng) Intn(n int) int {
	if n <= 0 {
		return 0
	}
	return int(r.U64() % uint64(n))
}

// Range returns a value in [lo,hi].
func (r *Rng) Range(lo, hi int) int { return lo + r.Intn(hi-lo+1) }

// Chance is true with probability pct/100.
func (r *Rng) Chance(pct int) bool { return r.Intn(100) < pct }

// Pick returns one of xs.
func Pick[T any](r *Rng, xs ...T) T { return xs[r.Intn(len(xs))] }

// Shuffle permutes xs in place.
func Shuffle[T any](r *Rng, xs []T) {
	for i := len(xs) - 1; i > 0; i-- {
		j := r.Intn(i + 1)
		xs[i], xs[j] = xs[j], xs[i]
	}
}

func Seed() uint64 {
	v, err := strconv.ParseUint(os.Getenv("VERIF_SEED"), 10, 64)
	if err != nil {
		return 1
	}
	return v
}

// EnvInt reads an integer environment variable with a default.
func EnvInt(name string, def int) int {
	v, err := strconv.Atoi(os.Getenv(name))
	if err != nil {
		return def
	}
	return v
}

func Thorough() bool { return os.Getenv("VERIF_TIER") == "thorough" }

// Out is the JSONL case writer (VERIF_OUT, default stdout).
type Out struct {
	f *os.File
	w *bufio.Writer
	N int
}

func OpenOut() *Out {
	path := os.Getenv("VERIF_OUT")
	f := os.Stdout
	if path != "" {
		var err error
		f, err = os.Create(path)
		if err != nil {
			panic(err)
		}
	}
	return &Out{f: f, w: bufio.NewWriterSize(f, 1<<20)}
}

func (o *Out) Emit(v any) {
	b, err := json.Marshal(v)
	if err != nil {
		panic(err)
	}
	o.w.Write(b)
	o.w.WriteByte('\n')
	o.N++
}

func (o *Out) Close() {
	o.w.Flush()
	if o.f != os.Stdout {
		o.f.Close()
	}
}

// Guard runs f, converting a panic into ("panic", msg) and a deadline overrun into ("timeout", "").
// A timed-out goroutine is leaked on purpose (it cannot be killed); callers keep such cases rare.
func Guard(d time.Duration, f func()) (kind, msg string) {
	done := make(chan [2]string, 1)
	go func() {
		defer func() {
			if r := recover(); r != nil {
				done <- [2]string{"panic", fmt.Sprint(r)}
			}
		}()
		f()
		done <- [2]string{"", ""}
	}()
	select {
	case r := <-done:
		return r[0], r[1]
	case <-time.After(d):
		return "timeout", ""
	}
}
