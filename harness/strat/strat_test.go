// Correspondence harness for C01–C03: calls the real strategy.Deploy on generated
// candidate sets and writes one JSON case (inputs + implementation result) per line.
package strat

import (
	"context"
	"errors"
	"fmt"
	"math"
	"testing"
	"time"

	"verifharness/hx"

	"github.com/projecteru2/core/strategy"
	"github.com/projecteru2/core/types"
)

type info struct {
	N     string `json:"n"`
	U     int64  `json:"u"` // fixed point, unit 2^-20
	R     int64  `json:"r"`
	Cap   int    `json:"cap"`
	Count int    `json:"count"`
}

type kase struct {
	ID       string         `json:"id"`
	Strategy string         `json:"strategy"`
	Need     int            `json:"need"`
	Limit    int            `json:"limit"`
	Total    int            `json:"total"`
	Infos    []info         `json:"infos"`
	Impl     map[string]any `json:"impl"`
}

const fp = 1 << 20

func errClass(err error) string {
	switch {
	case errors.Is(err, types.ErrInsufficientResource):
		return "insufficient"
	case errors.Is(err, types.ErrInsufficientCapacity):
		return "insufficient-capacity"
	case errors.Is(err, types.ErrAlreadyFilled):
		return "already-filled"
	case errors.Is(err, types.ErrInvaildDeployStrategy):
		return "invalid-strategy"
	case errors.Is(err, types.ErrInvaildDeployCount):
		return "invalid-count"
	}
	return "other:" + err.Error()
}

func satTotal(infos []info) int {
	t := 0
	for _, i := range infos {
		if t > math.MaxInt-i.Cap {
			t = math.MaxInt
		} else {
			t += i.Cap
		}
	}
	return t
}

func genInfos(r *hx.Rng) []info {
	var n int
	switch {
	case r.Chance(70):
		n = r.Range(1, 12)
	case r.Chance(10):
		n = 0
	default:
		n = r.Range(13, 40)
	}
	capClass := r.Intn(4) // 0 tiny ties, 1 small, 2 mixed with unlimited, 3 large
	zeroCaps := r.Chance(12) // out-of-domain stream: exhausted nodes (capacity 0) are never offered by the resource manager
	cntMax := hx.Pick(r, 0, 1, 3, 6)
	uClass := r.Intn(4) // 3: finest grain — usages and rates a few units of 2^-20 apart (any tolerance in the comparison shows)
	infos := make([]info, n)
	for i := range infos {
		var c int
		switch capClass {
		case 0:
			c = r.Range(1, 2)
		case 1:
			c = r.Range(1, 8)
		case 2:
			c = hx.Pick(r, 1, 2, 3, 5, 8, math.MaxInt, math.MaxInt, 3000)
		default:
			c = r.Range(1, 100)
		}
		if zeroCaps && r.Chance(35) {
			c = 0
		}
		var u, rt int64
		switch uClass {
		case 0: // heavy ties
			u = int64(r.Intn(3)) * fp / 4
			rt = int64(r.Range(1, 2)) * fp / 8
		case 1:
			u = int64(r.Intn(1024)) * fp / 1024
			rt = int64(r.Range(0, 64)) * fp / 1024
		case 2:
			u = int64(r.Intn(4096)) * fp / 256
			rt = int64(r.Range(1, 1024)) * fp / 1024
		default:
			u = fp/2 + int64(r.Intn(8))
			rt = int64(r.Range(1, 3))
		}
		infos[i] = info{N: fmt.Sprintf("n%02d", i), U: u, R: rt, Cap: c, Count: r.Intn(cntMax + 1)}
	}
	hx.Shuffle(r, infos)
	return infos
}

func genNeedLimit(r *hx.Rng, infos []info) (need, limit int) {
	n := len(infos)
	finite, maxCnt := 0, 0
	for _, i := range infos {
		if i.Cap < 1<<40 {
			finite += i.Cap
		}
		if i.Count > maxCnt {
			maxCnt = i.Count
		}
	}
	switch r.Intn(6) {
	case 0:
		need = r.Range(1, 3)
	case 1:
		need = finite + r.Range(-2, 2)
	case 2:
		need = r.Range(1, finite+2)
	case 3:
		need = maxCnt + r.Range(0, 3)
	case 4:
		need = r.Range(1, 10)
	default:
		need = r.Range(1, 2*n+1)
	}
	if need < 1 {
		need = 1
	}
	if r.Chance(4) { // negative limits are not rejected by request validation: they mean "no limit"
		limit = -r.Range(1, 3)
		return
	}
	switch r.Intn(6) {
	case 0, 1:
		limit = 0
	case 2:
		limit = r.Range(1, 3)
	case 3:
		limit = r.Range(1, n+1)
	case 4:
		limit = maxCnt + r.Range(0, 3)
	default:
		limit = r.Range(1, need+maxCnt+1)
	}
	return
}

var names = []string{strategy.Auto, strategy.Global, strategy.Drained, strategy.Each, strategy.Fill}

func runCase(k *kase) {
	infos := make([]strategy.Info, len(k.Infos))
	for i, x := range k.Infos {
		infos[i] = strategy.Info{Nodename: x.N, Usage: float64(x.U) / fp, Rate: float64(x.R) / fp, Capacity: x.Cap, Count: x.Count}
	}
	var plan map[string]int
	var err error
	kind, msg := hx.Guard(5*time.Second, func() {
		plan, err = strategy.Deploy(context.Background(), k.Strategy, k.Need, k.Limit, infos, k.Total)
	})
	switch {
	case kind == "panic":
		k.Impl = map[string]any{"panic": msg}
	case kind == "timeout":
		k.Impl = map[string]any{"timeout": true}
	case err != nil:
		k.Impl = map[string]any{"err": errClass(err)}
	default:
		if plan == nil {
			plan = map[string]int{}
		}
		k.Impl = map[string]any{"ok": plan}
	}
}

func TestGen(t *testing.T) {
	seed := hx.Seed()
	r := hx.NewRng(seed)
	nsets := hx.EnvInt("VERIF_CASES", 1000)
	out := hx.OpenOut()
	defer out.Close()
	id := 0
	emit := func(s string, need, limit int, infos []info, total int) {
		k := &kase{ID: fmt.Sprintf("s%d-%d", seed, id), Strategy: s, Need: need, Limit: limit, Total: total, Infos: infos}
		id++
		runCase(k)
		out.Emit(k)
	}
	// fixed corpus first: past findings
	d1 := []info{{N: "B", U: fp / 10, R: fp / 100, Cap: 2}, {N: "A", U: 9 * fp / 10, R: fp / 100, Cap: 5}}
	emit(strategy.Drained, 3, 0, d1, 7)
	d2 := []info{{N: "a", Cap: math.MaxInt, Count: 1}, {N: "b", Cap: math.MaxInt, Count: 1}}
	emit(strategy.Fill, 3, 0, d2, math.MaxInt)
	emit(strategy.Each, 1, -1, d1, 7) // negative node limit used to panic in EACH (infos[:limit])
	for c := 0; c < nsets; c++ {
		infos := genInfos(r)
		need, limit := genNeedLimit(r, infos)
		total := satTotal(infos)
		for _, s := range names {
			cp := make([]info, len(infos))
			copy(cp, infos)
			emit(s, need, limit, cp, total)
		}
	}
	if r.Chance(100) { // malformed stream: unknown strategy, non-positive count
		emit("NOPE", 1, 0, d1, 7)
		emit(strategy.Auto, 0, 0, d1, 7)
		emit(strategy.Auto, -1, 0, d1, 7)
	}
}
