//go:build verif

package cluster2

import (
	"context"
	"strings"
	"sync/atomic"
	"testing"

	"go.etcd.io/etcd/api/v3/mvccpb"
	clientv3 "go.etcd.io/etcd/client/v3"

	"github.com/projecteru2/core/store/etcdv3"
	"github.com/projecteru2/core/store/etcdv3/meta"

	"verifharness/ckit"
	"verifharness/hx"
)

// Infrastructure errors of the embedded etcd under machine load ("etcdserver: request timed out",
// a deadline exceeded although the caller's context is alive, "too many requests") are NOT part of any
// fault model: a case during which one occurred is re-run once and, if it happens again, dropped.
var (
	infraErrs    atomic.Int64
	infraDropped atomic.Int64
)

func noteInfra(ctx context.Context, err error) {
	if err == nil || (ctx != nil && ctx.Err() != nil) {
		return // no error, or the caller's own cancellation / deadline (a modelled fault)
	}
	s := err.Error()
	if strings.Contains(s, "request timed out") || strings.Contains(s, "context deadline exceeded") ||
		strings.Contains(s, "too many requests") || strings.Contains(s, "leader changed") || strings.Contains(s, "transport is closing") {
		infraErrs.Add(1)
	}
}

type infraKV struct{ meta.KV }

func (k *infraKV) Get(ctx context.Context, key string, o ...clientv3.OpOption) (*clientv3.GetResponse, error) {
	r, err := k.KV.Get(ctx, key, o...)
	noteInfra(ctx, err)
	return r, err
}
func (k *infraKV) GetOne(ctx context.Context, key string, o ...clientv3.OpOption) (*mvccpb.KeyValue, error) {
	r, err := k.KV.GetOne(ctx, key, o...)
	noteInfra(ctx, err)
	return r, err
}
func (k *infraKV) GetMulti(ctx context.Context, keys []string, o ...clientv3.OpOption) ([]*mvccpb.KeyValue, error) {
	r, err := k.KV.GetMulti(ctx, keys, o...)
	noteInfra(ctx, err)
	return r, err
}
func (k *infraKV) Put(ctx context.Context, key, val string, o ...clientv3.OpOption) (*clientv3.PutResponse, error) {
	r, err := k.KV.Put(ctx, key, val, o...)
	noteInfra(ctx, err)
	return r, err
}
func (k *infraKV) Create(ctx context.Context, key, val string, o ...clientv3.OpOption) (*clientv3.TxnResponse, error) {
	r, err := k.KV.Create(ctx, key, val, o...)
	noteInfra(ctx, err)
	return r, err
}
func (k *infraKV) Update(ctx context.Context, key, val string, o ...clientv3.OpOption) (*clientv3.TxnResponse, error) {
	r, err := k.KV.Update(ctx, key, val, o...)
	noteInfra(ctx, err)
	return r, err
}
func (k *infraKV) Delete(ctx context.Context, key string, o ...clientv3.OpOption) (*clientv3.DeleteResponse, error) {
	r, err := k.KV.Delete(ctx, key, o...)
	noteInfra(ctx, err)
	return r, err
}
func (k *infraKV) BatchCreate(ctx context.Context, d map[string]string, o ...clientv3.OpOption) (*clientv3.TxnResponse, error) {
	r, err := k.KV.BatchCreate(ctx, d, o...)
	noteInfra(ctx, err)
	return r, err
}
func (k *infraKV) BatchUpdate(ctx context.Context, d map[string]string, o ...clientv3.OpOption) (*clientv3.TxnResponse, error) {
	r, err := k.KV.BatchUpdate(ctx, d, o...)
	noteInfra(ctx, err)
	return r, err
}
func (k *infraKV) BatchPut(ctx context.Context, d map[string]string, o ...clientv3.OpOption) (*clientv3.TxnResponse, error) {
	r, err := k.KV.BatchPut(ctx, d, o...)
	noteInfra(ctx, err)
	return r, err
}
func (k *infraKV) BatchDelete(ctx context.Context, keys []string, o ...clientv3.OpOption) (*clientv3.TxnResponse, error) {
	r, err := k.KV.BatchDelete(ctx, keys, o...)
	noteInfra(ctx, err)
	return r, err
}
func (k *infraKV) BatchCreateAndDecr(ctx context.Context, d map[string]string, decr string) error {
	err := k.KV.BatchCreateAndDecr(ctx, d, decr)
	noteInfra(ctx, err)
	return err
}
func (k *infraKV) BindStatus(ctx context.Context, e, s, v string, ttl int64) error {
	err := k.KV.BindStatus(ctx, e, s, v, ttl)
	noteInfra(ctx, err)
	return err
}

// watchInfra wraps the KV of the cluster's raw etcd store (again after every Reopen).
func watchInfra(cl *ckit.Cluster) {
	if m, ok := cl.Store.Store.(*etcdv3.Mercury); ok {
		if _, already := m.KV.(*infraKV); !already {
			m.KV = &infraKV{KV: m.KV}
		}
	}
}

func newCluster(t *testing.T, o ckit.Options) *ckit.Cluster {
	cl := ckit.NewCluster(t, o)
	watchInfra(cl)
	return cl
}

// emitGuarded runs one case; if an infrastructure error occurred while it ran it is re-run once, then dropped.
func emitGuarded(t *testing.T, out *hx.Out, run func() any) bool {
	for try := 0; try < 2; try++ {
		n0 := infraErrs.Load()
		c := run()
		if infraErrs.Load() == n0 {
			if c != nil {
				out.Emit(c)
			}
			return true
		}
		t.Logf("infrastructure error of the embedded etcd during a case (try %d): not reported", try)
	}
	infraDropped.Add(1)
	t.Logf("case dropped after repeated infrastructure errors (%d dropped so far)", infraDropped.Load())
	return false
}
