//go:build verif

package cluster2

import (
	"bufio"
	"context"
	"encoding/json"
	"fmt"
	"os"
	"sort"
	"strings"
	"sync"
	"testing"
	"time"

	"github.com/projecteru2/core/types"

	"verifharness/ckit"
	"verifharness/hx"
)

// ---- C30: run-and-wait with scripted engine outcomes ----

type lambdaShape struct {
	Nodes   int              `json:"nodes"`
	Count   int              `json:"count"`
	Stdin   bool             `json:"stdin"`
	Prior   int              `json:"prior"`
	Scripts map[int]ctScript `json:"scripts"`          // by ERU_WORKLOAD_SEQ
	Cancel  string           `json:"cancel,omitempty"` // count 1 only: the CALLER's context is cancelled when the engine is asked for "logs" / "wait"
}

type createJ struct {
	ID     int      `json:"id"` // seq+1; 0 = creation failed
	Node   string   `json:"node,omitempty"`
	Res    []int64  `json:"res,omitempty"`
	Script ctScript `json:"script"`
}

type msgJ struct {
	ID   int    `json:"id"`
	Kind string `json:"kind"` // data | error | exit
	Code int64  `json:"code"`
}

type lambdaCase struct {
	ID      string      `json:"id"`
	Kind    string      `json:"kind"`
	Shape   lambdaShape `json:"shape"`
	Nodes   []string    `json:"nodes"`
	IDs     []int       `json:"ids"`
	Pre     stJ         `json:"pre"`
	Creates []createJ   `json:"creates"`
	Msgs    []msgJ      `json:"msgs"`
	Closed  bool        `json:"closed"`
	Impl    stJ         `json:"impl"`
	Err     string      `json:"err,omitempty"`
}

func runLambda(t *testing.T, sh lambdaShape, id, tag string) *lambdaCase {
	cl := ckit.NewCluster(t, ckit.Options{})
	defer cl.Close()
	cl.Wipe()
	hub := newScriptHub(cl)
	hub.stdin = sh.Stdin
	pod := "p" + tag
	addPod(cl, pod)
	nodes := []string{}
	for _, n := range nodeNames(sh.Nodes) {
		name := n + tag
		nodes = append(nodes, name)
		hub.addNode(cl, ckit.NodeSpec{Name: name, Pod: pod, CPU: 8, Memory: 16 << 30})
	}
	x := newIDs()
	if sh.Prior > 0 {
		msgs, err := deploy(cl, deployOpts("old", "web", pod, sh.Prior, "AUTO", cpumemReq(0.5, 1<<29, false), nil))
		fatalIf(t, err, "prior deploy")
		for _, m := range msgs {
			fatalIf(t, m.Error, "prior deploy message")
		}
	}
	cl.Quiesce()
	snap := cl.Snapshot()
	for _, w := range snap.Workloads {
		x.get(w.ID)
	}
	for _, c := range snap.Containers { // the prior containers have seq numbers too: keep them apart
		x.get(c.ID)
	}
	c := &lambdaCase{ID: id, Kind: "lambda", Shape: sh, Nodes: nodes, Pre: absState(snap, x, nil), Creates: []createJ{}, Msgs: []msgJ{}}
	hub.mu.Lock()
	hub.scripts = sh.Scripts
	hub.mu.Unlock()
	// remember the record of every started workload (node, resources) at start time
	var mu sync.Mutex
	started := map[string]createJ{}
	hub.onStart = func(wid string) {
		ct, _ := cl.Hub.Get(wid)
		if !ct.Lambda {
			return
		}
		w, err := cl.Store.Store.GetWorkload(cl.Ctx(), wid)
		if err != nil {
			return
		}
		mu.Lock()
		x.set(wid, ct.Seq+1)
		started[wid] = createJ{ID: ct.Seq + 1, Node: w.Nodename, Res: flat(ckit.WorkloadRes(w.Resources)), Script: sh.Scripts[ct.Seq]}
		mu.Unlock()
	}
	opts := deployOpts("lam", "run", pod, sh.Count, "AUTO", cpumemReq(1, 1<<30, true), nil)
	opts.OpenStdin = sh.Stdin
	opts.Entrypoint.Commands = []string{"true"}
	inCh := make(chan []byte)
	close(inCh)
	ctx, cancel := context.WithCancel(cl.Ctx())
	defer cancel()
	if sh.Cancel != "" {
		hub.onCall = func(kind string) {
			if kind == sh.Cancel {
				cancel()
			}
		}
	}
	wids, ch, err := cl.C.RunAndWait(ctx, opts, inCh)
	if err != nil {
		c.Err = "refused"
		c.Closed = true
		c.Impl = c.Pre
		return c
	}
	timeout := time.After(15 * time.Second)
loop:
	for {
		select {
		case m, ok := <-ch:
			if !ok {
				c.Closed = true
				break loop
			}
			mj := msgJ{}
			if m.WorkloadID != "" {
				mu.Lock()
				mj.ID = x.get(m.WorkloadID)
				mu.Unlock()
			}
			switch {
			case m.StdStreamType == types.EruError:
				mj.Kind = "error"
			case strings.HasPrefix(string(m.Data), "[exitcode] "):
				mj.Kind = "exit"
				fmt.Sscanf(strings.TrimPrefix(string(m.Data), "[exitcode] "), "%d", &mj.Code)
			default:
				mj.Kind = "data"
			}
			c.Msgs = append(c.Msgs, mj)
		case <-timeout:
			break loop
		}
	}
	cl.Quiesce()
	mu.Lock()
	nfail := len(wids)
	for _, cj := range started {
		c.Creates = append(c.Creates, cj)
		nfail--
	}
	mu.Unlock()
	for i := 0; i < nfail; i++ {
		c.Creates = append(c.Creates, createJ{})
	}
	sort.Slice(c.Creates, func(i, j int) bool { return c.Creates[i].ID < c.Creates[j].ID })
	final := cl.Snapshot()
	left := walLeft(t, cl, x)
	c.Impl = absState(final, x, left)
	seen := map[int]bool{}
	for _, st := range []stJ{c.Pre, c.Impl} {
		for _, w := range st.Wls {
			seen[w.ID] = true
		}
		for _, ct := range st.Cts {
			seen[ct.ID] = true
		}
	}
	for _, cj := range c.Creates {
		if cj.ID != 0 {
			seen[cj.ID] = true
		}
	}
	for i := range seen {
		c.IDs = append(c.IDs, i)
	}
	sort.Ints(c.IDs)
	return c
}

func genScript(r *hx.Rng, stdin bool) ctScript {
	s := ctScript{Lines: r.Intn(4), Code: int64(hx.Pick(r, 0, 0, 1, 2, 137, 255))}
	switch r.Intn(10) {
	case 0:
		s.LogsFail = true
	case 1:
		s.WaitFail = true
	case 2:
		if stdin {
			s.AttachFail = true
		} else {
			s.LogsFail = true
		}
	case 3:
		s.StartFail = true
	}
	return s
}

func lambdaCorpus() []lambdaShape {
	return []lambdaShape{
		{Nodes: 1, Count: 1, Scripts: map[int]ctScript{0: {Lines: 2, Code: 0}}},
		{Nodes: 1, Count: 1, Stdin: true, Scripts: map[int]ctScript{0: {Lines: 3, Code: 7}}},
		{Nodes: 2, Count: 3, Prior: 1, Scripts: map[int]ctScript{0: {Lines: 1, LogsFail: true}, 1: {Lines: 2, WaitFail: true}, 2: {Lines: 0, Code: 255}}},
		{Nodes: 1, Count: 1, Stdin: true, Scripts: map[int]ctScript{0: {Lines: 1, AttachFail: true}}},
		{Nodes: 1, Count: 2, Scripts: map[int]ctScript{0: {StartFail: true}, 1: {Lines: 1, Code: 1}}},
		// the caller goes away while the workload runs: it must still be removed
		{Nodes: 1, Count: 1, Prior: 1, Cancel: "wait", Scripts: map[int]ctScript{0: {Lines: 2, Code: 3}}},
		{Nodes: 1, Count: 1, Cancel: "logs", Scripts: map[int]ctScript{0: {Lines: 1, Code: 0}}},
	}
}

func genLambda(t *testing.T, out *hx.Out, budget int) {
	r := hx.NewRng(hx.Seed())
	shapes := lambdaCorpus()
	for len(shapes) < budget {
		sh := lambdaShape{Nodes: r.Range(1, 2), Count: r.Range(1, 3), Prior: r.Intn(2), Scripts: map[int]ctScript{}}
		if r.Chance(25) {
			sh.Stdin, sh.Count = true, 1
		}
		for i := 0; i < sh.Count; i++ {
			sh.Scripts[i] = genScript(r, sh.Stdin)
		}
		if sh.Count == 1 && !sh.Scripts[0].StartFail && r.Chance(25) {
			sh.Cancel = hx.Pick(r, "wait", "logs")
		}
		shapes = append(shapes, sh)
	}
	for i, sh := range shapes {
		if i >= budget {
			break
		}
		out.Emit(runLambda(t, sh, fmt.Sprintf("lambda-%d", i), fmt.Sprintf("l%d", i)))
	}
}

func replayLambda(t *testing.T, out *hx.Out, path string) {
	f, err := os.Open(path)
	fatalIf(t, err, "open replay")
	defer f.Close()
	sc := bufio.NewScanner(f)
	sc.Buffer(make([]byte, 1<<20), 1<<26)
	i := 0
	for sc.Scan() {
		var c lambdaCase
		if json.Unmarshal(sc.Bytes(), &c) != nil || c.Kind != "lambda" {
			continue
		}
		out.Emit(runLambda(t, c.Shape, c.ID, fmt.Sprintf("r%d", i)))
		i++
	}
}
