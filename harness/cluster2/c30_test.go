//go:build verif

package cluster2

import (
	"bufio"
	"context"
	"encoding/json"
	"fmt"
	"io"
	"os"
	"sort"
	"strings"
	"sync"
	"testing"
	"time"

	"github.com/projecteru2/core/rpc"
	pb "github.com/projecteru2/core/rpc/gen"
	"github.com/projecteru2/core/types"
	"google.golang.org/grpc"
	"google.golang.org/grpc/codes"
	"google.golang.org/grpc/status"

	"verifharness/ckit"
	"verifharness/hx"
)

// ---- C30: run-and-wait with scripted engine outcomes ----

type lambdaShape struct {
	Nodes      int              `json:"nodes"`
	Count      int              `json:"count"`
	Stdin      bool             `json:"stdin"`
	Prior      int              `json:"prior"`
	Scripts    map[int]ctScript `json:"scripts"`             // by ERU_WORKLOAD_SEQ
	RPC        string           `json:"rpc,omitempty"`       // "" = Calcium.RunAndWait directly; "sync" / "async" = through the gRPC handler rpc.Vibranium.RunAndWait
	SendFail   int              `json:"send_fail,omitempty"` // rpc sync: stream.Send fails from the k-th output message on (k >= 1; 0 = never): the client is gone
	DeadlineMs int              `json:"deadline_ms,omitempty"`
	StdinOpen  bool             `json:"stdin_open,omitempty"`
	Cancel     string           `json:"cancel,omitempty"` // count 1 only: the CALLER's context is cancelled when the engine is asked for "logs" / "wait"
}

type createJ struct {
	ID     int      `json:"id"` // seq+1; 0 = creation failed
	Node   string   `json:"node,omitempty"`
	Res    []int64  `json:"res,omitempty"`
	Script ctScript `json:"script"`
}

type msgJ struct {
	ID   int    `json:"id"`
	Kind string `json:"kind"` // data | error | exit
	Code int64  `json:"code"`
}

type lambdaCase struct {
	ID      string      `json:"id"`
	Kind    string      `json:"kind"`
	Shape   lambdaShape `json:"shape"`
	Nodes   []string    `json:"nodes"`
	IDs     []int       `json:"ids"`
	Pre     stJ         `json:"pre"`
	Creates []createJ   `json:"creates"`
	Msgs    []msgJ      `json:"msgs"`
	Closed  bool        `json:"closed"`
	NoMsgs  bool        `json:"no_msgs,omitempty"` // async rpc mode: the messages are only logged by the handler, not observable
	Impl    stJ         `json:"impl"`
	Err     string      `json:"err,omitempty"`
}

func runLambda(t *testing.T, sh lambdaShape, id, tag string) *lambdaCase {
	cl := newCluster(t, ckit.Options{})
	defer cl.Close()
	cl.Wipe()
	hub := newScriptHub(cl)
	hub.stdin = sh.Stdin
	pod := "p" + tag
	addPod(cl, pod)
	nodes := []string{}
	for _, n := range nodeNames(sh.Nodes) {
		name := n + tag
		nodes = append(nodes, name)
		hub.addNode(cl, ckit.NodeSpec{Name: name, Pod: pod, CPU: 8, Memory: 16 << 30})
	}
	x := newIDs()
	if sh.Prior > 0 {
		msgs, err := deploy(cl, deployOpts("old", "web", pod, sh.Prior, "AUTO", cpumemReq(0.5, 1<<29, false), nil))
		fatalIf(t, err, "prior deploy")
		for _, m := range msgs {
			fatalIf(t, m.Error, "prior deploy message")
		}
	}
	cl.Quiesce()
	snap := cl.Snapshot()
	for _, w := range snap.Workloads {
		x.get(w.ID)
	}
	for _, c := range snap.Containers { // the prior containers have seq numbers too: keep them apart
		x.get(c.ID)
	}
	c := &lambdaCase{ID: id, Kind: "lambda", Shape: sh, Nodes: nodes, Pre: absState(snap, x, nil), Creates: []createJ{}, Msgs: []msgJ{}}
	hub.mu.Lock()
	hub.scripts = sh.Scripts
	hub.mu.Unlock()
	// remember the record of every started workload (node, resources) at start time
	var mu sync.Mutex
	started := map[string]createJ{}
	hub.onStart = func(wid string) {
		ct, _ := cl.Hub.Get(wid)
		if !ct.Lambda {
			return
		}
		w, err := cl.Store.Store.GetWorkload(cl.Ctx(), wid)
		if err != nil {
			return
		}
		mu.Lock()
		x.set(wid, ct.Seq+1)
		started[wid] = createJ{ID: ct.Seq + 1, Node: w.Nodename, Res: flat(ckit.WorkloadRes(w.Resources)), Script: sh.Scripts[ct.Seq]}
		mu.Unlock()
	}
	opts := deployOpts("lam", "run", pod, sh.Count, "AUTO", cpumemReq(1, 1<<30, true), nil)
	opts.OpenStdin = sh.Stdin
	opts.Entrypoint.Commands = []string{"true"}
	inCh := make(chan []byte)
	inOpen := sh.Stdin && sh.StdinOpen
	if !inOpen {
		close(inCh)
	} else {
		defer close(inCh) // the client only lets go of stdin when the call is over
	}
	ctx, cancel := context.WithCancel(cl.Ctx())
	defer cancel()
	if sh.DeadlineMs > 0 {
		ctx, cancel = context.WithTimeout(cl.Ctx(), time.Duration(sh.DeadlineMs)*time.Millisecond)
		defer cancel()
	}
	if sh.Cancel != "" {
		hub.onCall = func(kind string) {
			if kind == sh.Cancel {
				cancel()
			}
		}
	}
	classify := func(wid string, data []byte, isErr bool) {
		mj := msgJ{}
		if wid != "" {
			mu.Lock()
			mj.ID = x.get(wid)
			mu.Unlock()
		}
		switch {
		case isErr:
			mj.Kind = "error"
		case strings.HasPrefix(string(data), "[exitcode] "):
			mj.Kind = "exit"
			fmt.Sscanf(strings.TrimPrefix(string(data), "[exitcode] "), "%d", &mj.Code)
		default:
			mj.Kind = "data"
		}
		c.Msgs = append(c.Msgs, mj)
	}
	var wids []string
	if sh.RPC == "" {
		var ch <-chan *types.AttachWorkloadMessage
		var err error
		wids, ch, err = cl.C.RunAndWait(ctx, opts, inCh)
		if err != nil {
			c.Err = "refused"
			c.Closed = true
			c.Impl = c.Pre
			return c
		}
		timeout := time.After(15 * time.Second)
	loop:
		for {
			select {
			case m, ok := <-ch:
				if !ok {
					c.Closed = true
					break loop
				}
				classify(m.WorkloadID, m.Data, m.StdStreamType == types.EruError)
			case <-timeout:
				break loop
			}
		}
	} else {
		// through the real gRPC handler with a scripted server stream
		raw, _ := json.Marshal(map[string]any{"memory-request": int64(1 << 30), "cpu-request": 1.0, "cpu-bind": true})
		asyncTimeout := int32(0)
		if sh.DeadlineMs > 0 && sh.RPC == "async" {
			asyncTimeout = 1 // seconds: the async request's own time budget
		}
		st := &fakeRunStream{ctx: ctx, failFrom: sh.SendFail, stdinOpen: inOpen, closeIn: make(chan struct{}), first: &pb.RunAndWaitOptions{Async: sh.RPC == "async", AsyncTimeout: asyncTimeout, DeployOptions: &pb.DeployOptions{
			OpenStdin: sh.Stdin,
			Name:      "lam", Entrypoint: &pb.EntrypointOptions{Name: "run", Commands: []string{"true"}}, Podname: pod, Image: "img", Count: int32(sh.Count),
			DeployStrategy: pb.DeployOptions_AUTO, IgnorePull: true, Resources: map[string][]byte{"cpumem": raw}}}}
		v := rpc.New(cl.C, cl.Cfg, make(chan struct{}))
		ret := make(chan error, 1)
		go func() { ret <- v.RunAndWait(st) }()
		returned := false
		select {
		case <-ret:
			returned = true
		case <-time.After(15 * time.Second):
		}
		defer close(st.closeIn)
		if returned { // all tasks of the handler (incl. the async forwarder) finished?
			fin := make(chan struct{})
			go func() { v.Wait(); close(fin) }()
			select {
			case <-fin:
				c.Closed = true
			case <-time.After(15 * time.Second):
			}
		}
		// give the workers a moment: on the unchanged code everything is done when the handler has returned
		deadline := time.Now().Add(3 * time.Second)
		for time.Now().Before(deadline) {
			left := false
			for _, ct := range cl.Hub.Containers("") {
				if ct.Lambda {
					left = true
				}
			}
			if !left {
				break
			}
			time.Sleep(20 * time.Millisecond)
		}
		st.mu.Lock()
		for _, m := range st.got {
			if m.StdStreamType == pb.StdStreamType_TYPEWORKLOADID {
				wids = append(wids, m.WorkloadId)
				continue
			}
			classify(m.WorkloadId, m.Data, m.StdStreamType == pb.StdStreamType_ERUERROR)
		}
		st.mu.Unlock()
		c.NoMsgs = sh.RPC == "async"
	}
	cl.Quiesce()
	mu.Lock()
	nfail := len(wids)
	for _, cj := range started {
		c.Creates = append(c.Creates, cj)
		nfail--
	}
	mu.Unlock()
	for i := 0; i < nfail; i++ {
		c.Creates = append(c.Creates, createJ{})
	}
	sort.Slice(c.Creates, func(i, j int) bool { return c.Creates[i].ID < c.Creates[j].ID })
	final := cl.Snapshot()
	left := walLeft(t, cl, x)
	c.Impl = absState(final, x, left)
	seen := map[int]bool{}
	for _, st := range []stJ{c.Pre, c.Impl} {
		for _, w := range st.Wls {
			seen[w.ID] = true
		}
		for _, ct := range st.Cts {
			seen[ct.ID] = true
		}
	}
	for _, cj := range c.Creates {
		if cj.ID != 0 {
			seen[cj.ID] = true
		}
	}
	for i := range seen {
		c.IDs = append(c.IDs, i)
	}
	sort.Ints(c.IDs)
	return c
}

// fakeRunStream is the server side of a RunAndWait gRPC stream: one request, then Send is scripted
// (it fails from the failFrom-th output message on: the client has gone away).
type fakeRunStream struct {
	grpc.ServerStream
	ctx       context.Context
	first     *pb.RunAndWaitOptions
	failFrom  int
	stdinOpen bool // the client sends nothing more but keeps its side open until closeIn
	closeIn   chan struct{}
	mu        sync.Mutex
	recvd     bool
	nOut      int
	got       []*pb.AttachWorkloadMessage // every message the handler tried to send
}

func (f *fakeRunStream) Context() context.Context { return f.ctx }
func (f *fakeRunStream) Recv() (*pb.RunAndWaitOptions, error) {
	f.mu.Lock()
	defer f.mu.Unlock()
	if !f.recvd {
		f.recvd = true
		return f.first, nil
	}
	if f.stdinOpen {
		f.mu.Unlock()
		<-f.closeIn
		f.mu.Lock()
	}
	return nil, io.EOF
}
func (f *fakeRunStream) Send(m *pb.AttachWorkloadMessage) error {
	f.mu.Lock()
	defer f.mu.Unlock()
	f.got = append(f.got, m)
	if m.StdStreamType == pb.StdStreamType_TYPEWORKLOADID {
		return nil
	}
	f.nOut++
	if f.failFrom > 0 && f.nOut >= f.failFrom {
		return status.Error(codes.Unavailable, "transport is closing")
	}
	return nil
}

func genScript(r *hx.Rng, stdin bool) ctScript {
	s := ctScript{Lines: r.Intn(4), Code: int64(hx.Pick(r, 0, 0, 1, 2, 137, 255))}
	switch r.Intn(10) {
	case 0:
		s.LogsFail = true
	case 1:
		s.WaitFail = true
	case 2:
		if stdin {
			s.AttachFail = true
		} else {
			s.LogsFail = true
		}
	case 3:
		s.StartFail = true
	}
	return s
}

func lambdaCorpus() []lambdaShape {
	return []lambdaShape{
		{Nodes: 1, Count: 1, Scripts: map[int]ctScript{0: {Lines: 2, Code: 0}}},
		{Nodes: 1, Count: 1, Stdin: true, Scripts: map[int]ctScript{0: {Lines: 3, Code: 7}}},
		{Nodes: 2, Count: 3, Prior: 1, Scripts: map[int]ctScript{0: {Lines: 1, LogsFail: true}, 1: {Lines: 2, WaitFail: true}, 2: {Lines: 0, Code: 255}}},
		{Nodes: 1, Count: 1, Stdin: true, Scripts: map[int]ctScript{0: {Lines: 1, AttachFail: true}}},
		{Nodes: 1, Count: 2, Scripts: map[int]ctScript{0: {StartFail: true}, 1: {Lines: 1, Code: 1}}},
		// through the gRPC handler; the client disappears after the workload ids / after the first output message
		{Nodes: 1, Count: 2, RPC: "sync", SendFail: 1, Scripts: map[int]ctScript{0: {Lines: 3, Code: 0}, 1: {Lines: 3, Code: 0}}},
		{Nodes: 2, Count: 3, Prior: 1, RPC: "sync", SendFail: 2, Scripts: map[int]ctScript{0: {Lines: 2, Code: 1}, 1: {Lines: 0, Code: 0}, 2: {Lines: 3, WaitFail: true}}},
		{Nodes: 1, Count: 2, RPC: "sync", Scripts: map[int]ctScript{0: {Lines: 1, Code: 0}, 1: {Lines: 2, Code: 7}}},
		{Nodes: 1, Count: 2, RPC: "async", Scripts: map[int]ctScript{0: {Lines: 2, Code: 0}, 1: {Lines: 1, Code: 3}}},
		// more than a dozen workers at once
		{Nodes: 3, Count: 14, Scripts: map[int]ctScript{0: {Lines: 1, Code: 1}, 3: {Lines: 2, WaitFail: true}, 7: {LogsFail: true}, 13: {Lines: 3, Code: 9}}},
		// the request's DEADLINE passes while the workload is still running (not a cancel)
		{Nodes: 1, Count: 1, Prior: 1, DeadlineMs: 700, Scripts: map[int]ctScript{0: {Lines: 2, Code: 4, WaitDelayMs: 1100}}},
		{Nodes: 1, Count: 1, RPC: "async", DeadlineMs: 1000, Scripts: map[int]ctScript{0: {Lines: 1, Code: 0, WaitDelayMs: 1600}}},
		{Nodes: 1, Count: 1, RPC: "sync", DeadlineMs: 700, Scripts: map[int]ctScript{0: {Lines: 1, Code: 2, WaitDelayMs: 1100}}},
		// stdin: the process exits while the client still has stdin open / after it closed stdin
		{Nodes: 1, Count: 1, Stdin: true, StdinOpen: true, Scripts: map[int]ctScript{0: {Lines: 3, Code: 0}}},
		{Nodes: 1, Count: 1, Stdin: true, StdinOpen: true, RPC: "sync", Scripts: map[int]ctScript{0: {Lines: 2, Code: 5}}},
		// more than 64 KiB of output without a newline (raw byte mode), through the async and the sync handler
		{Nodes: 1, Count: 1, Stdin: true, RPC: "async", Scripts: map[int]ctScript{0: {Lines: 70000, Code: 0}}},
		{Nodes: 1, Count: 1, Stdin: true, RPC: "sync", Scripts: map[int]ctScript{0: {Lines: 70000, Code: 0}}},
		// the caller goes away while the workload runs: it must still be removed
		{Nodes: 1, Count: 1, Prior: 1, Cancel: "wait", Scripts: map[int]ctScript{0: {Lines: 2, Code: 3}}},
		{Nodes: 1, Count: 1, Cancel: "logs", Scripts: map[int]ctScript{0: {Lines: 1, Code: 0}}},
	}
}

func genLambda(t *testing.T, out *hx.Out, budget int) {
	r := hx.NewRng(hx.Seed())
	shapes := lambdaCorpus()
	for len(shapes) < budget {
		sh := lambdaShape{Nodes: r.Range(1, 2), Count: r.Range(1, 3), Prior: r.Intn(2), Scripts: map[int]ctScript{}}
		if r.Chance(25) {
			sh.Stdin, sh.Count = true, 1
			sh.StdinOpen = r.Chance(50)
			if r.Chance(30) {
				sh.RPC = "sync"
			}
		}
		for i := 0; i < sh.Count; i++ {
			sh.Scripts[i] = genScript(r, sh.Stdin)
		}
		if sh.Count == 1 && !sh.Scripts[0].StartFail && sh.RPC == "" && r.Chance(15) {
			sc := sh.Scripts[0]
			sc.WaitDelayMs = 1100
			sh.Scripts[0], sh.DeadlineMs = sc, 700
		} else if sh.Count == 1 && !sh.Scripts[0].StartFail && sh.RPC == "" && r.Chance(25) {
			sh.Cancel = hx.Pick(r, "wait", "logs")
		} else if !sh.Stdin && r.Chance(30) {
			sh.RPC = hx.Pick(r, "sync", "sync", "async")
			if sh.RPC == "sync" && r.Chance(70) {
				sh.SendFail = r.Range(1, 4)
			}
		}
		shapes = append(shapes, sh)
	}
	for i, sh := range shapes {
		if i >= budget {
			break
		}
		i, sh := i, sh
		try := 0
		emitGuarded(t, out, func() any { try++; return runLambda(t, sh, fmt.Sprintf("lambda-%d", i), fmt.Sprintf("l%dt%d", i, try)) })
	}
}

func replayLambda(t *testing.T, out *hx.Out, path string) {
	f, err := os.Open(path)
	fatalIf(t, err, "open replay")
	defer f.Close()
	sc := bufio.NewScanner(f)
	sc.Buffer(make([]byte, 1<<20), 1<<26)
	i := 0
	for sc.Scan() {
		var c lambdaCase
		if json.Unmarshal(sc.Bytes(), &c) != nil || c.Kind != "lambda" {
			continue
		}
		out.Emit(runLambda(t, c.Shape, c.ID, fmt.Sprintf("r%d", i)))
		i++
	}
}
