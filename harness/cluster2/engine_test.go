//go:build verif

package cluster2

import (
	"context"
	"errors"
	"fmt"
	"io"
	"strconv"
	"strings"
	"sync"
	"time"

	"github.com/projecteru2/core/engine"
	enginefactory "github.com/projecteru2/core/engine/factory"
	enginetypes "github.com/projecteru2/core/engine/types"
	"github.com/projecteru2/core/types"

	"verifharness/ckit"
)

// A scripted engine on top of ckit's stateful fake engine (endpoint prefix vfk2://<hub>/<node>):
// logs / attach / wait / start outcomes are scripted per container, keyed by ERU_WORKLOAD_SEQ.

const scriptPrefix = "vfk2://"

type ctScript struct {
	Lines         int   `json:"lines"`
	LogsFail      bool  `json:"logs_fail,omitempty"`
	AttachFail    bool  `json:"attach_fail,omitempty"`
	WaitFail      bool  `json:"wait_fail,omitempty"`
	Code          int64 `json:"code"`
	StartFail     bool  `json:"start_fail,omitempty"`
	WaitDelayMs   int   `json:"wait_delay_ms,omitempty"`   // VirtualizationWait blocks this long: the workload is still running
	CreateDelayMs int   `json:"create_delay_ms,omitempty"` // VirtualizationCreate blocks this long (ignoring its context)
}

type scriptHub struct {
	hub      *ckit.EngineHub
	mu       sync.Mutex
	scripts  map[int]ctScript
	onStart  func(id string)   // called after a successful start (the record exists by then)
	onCreate func(id string)   // called after a successful create
	onCall   func(kind string) // called at the beginning of logs / wait (caller-cancellation hook)
	stdin    bool
}

var (
	shMu    sync.Mutex
	shubs   = map[string]*scriptHub{}
	regOnce sync.Once
	errScr  = errors.New("verif: scripted engine failure")
)

func newScriptHub(cl *ckit.Cluster) *scriptHub {
	sh := &scriptHub{hub: cl.Hub, scripts: map[int]ctScript{}}
	shMu.Lock()
	shubs[cl.Hub.ID] = sh
	shMu.Unlock()
	regOnce.Do(func() {
		enginefactory.VerifRegisterEngine(scriptPrefix, func(_ context.Context, _ types.Config, nodename, endpoint, ca, cert, key string) (engine.API, error) {
			parts := strings.SplitN(strings.TrimPrefix(endpoint, scriptPrefix), "/", 2)
			shMu.Lock()
			sh := shubs[parts[0]]
			shMu.Unlock()
			if sh == nil || len(parts) != 2 {
				return nil, fmt.Errorf("verif: unknown scripted engine endpoint %q", endpoint)
			}
			fe := sh.hub.Engine(parts[1], &enginetypes.Params{Nodename: nodename, Endpoint: endpoint, CA: ca, Cert: cert, Key: key})
			return &scriptEngine{FakeEngine: fe, sh: sh}, nil
		})
	})
	return sh
}

func (sh *scriptHub) endpoint(node string) string { return scriptPrefix + sh.hub.ID + "/" + node }

func (sh *scriptHub) scriptOf(id string) ctScript {
	c, ok := sh.hub.Get(id)
	if !ok {
		return ctScript{}
	}
	sh.mu.Lock()
	defer sh.mu.Unlock()
	return sh.scripts[c.Seq]
}

func (sh *scriptHub) addNode(cl *ckit.Cluster, s ckit.NodeSpec) {
	o := cl.AddNodeOptions(s)
	o.Endpoint = sh.endpoint(s.Name)
	addNodeOpts(cl, o)
}

func scriptSeq(env []string) int {
	for _, e := range env {
		if strings.HasPrefix(e, "ERU_WORKLOAD_SEQ=") {
			n, err := strconv.Atoi(strings.TrimPrefix(e, "ERU_WORKLOAD_SEQ="))
			if err == nil {
				return n
			}
		}
	}
	return -1
}

type scriptEngine struct {
	*ckit.FakeEngine
	sh *scriptHub
}

func (e *scriptEngine) VirtualizationCreate(ctx context.Context, opts *enginetypes.VirtualizationCreateOptions) (*enginetypes.VirtualizationCreated, error) {
	if seq := scriptSeq(opts.Env); seq >= 0 {
		e.sh.mu.Lock()
		d := e.sh.scripts[seq].CreateDelayMs
		e.sh.mu.Unlock()
		if d > 0 {
			time.Sleep(time.Duration(d) * time.Millisecond)
		}
	}
	r, err := e.FakeEngine.VirtualizationCreate(ctx, opts)
	if err == nil && e.sh.onCreate != nil {
		e.sh.onCreate(r.ID)
	}
	return r, err
}

func (e *scriptEngine) VirtualizationStart(ctx context.Context, id string) error {
	if e.sh.scriptOf(id).StartFail {
		return errScr
	}
	err := e.FakeEngine.VirtualizationStart(ctx, id)
	if err == nil && e.sh.onStart != nil {
		e.sh.onStart(id)
	}
	return err
}

func (e *scriptEngine) output(id string) io.ReadCloser {
	sc := e.sh.scriptOf(id)
	unit := "x\n"
	if e.sh.stdin {
		unit = "x"
	}
	return io.NopCloser(strings.NewReader(strings.Repeat(unit, sc.Lines)))
}

func (e *scriptEngine) VirtualizationLogs(ctx context.Context, opts *enginetypes.VirtualizationLogStreamOptions) (io.ReadCloser, io.ReadCloser, error) {
	if e.sh.onCall != nil {
		e.sh.onCall("logs")
	}
	_, se, err := e.FakeEngine.VirtualizationLogs(ctx, opts)
	if err != nil {
		return nil, nil, err
	}
	if e.sh.scriptOf(opts.ID).LogsFail {
		return nil, nil, errScr
	}
	return e.output(opts.ID), se, nil
}

func (e *scriptEngine) VirtualizationAttach(ctx context.Context, id string, a, b bool) (io.ReadCloser, io.ReadCloser, io.WriteCloser, error) {
	_, se, in, err := e.FakeEngine.VirtualizationAttach(ctx, id, a, b)
	if err != nil {
		return nil, nil, nil, err
	}
	if e.sh.scriptOf(id).AttachFail {
		return nil, nil, nil, errScr
	}
	return e.output(id), se, in, nil
}

func (e *scriptEngine) VirtualizationWait(ctx context.Context, id, state string) (*enginetypes.VirtualizationWaitResult, error) {
	if e.sh.onCall != nil {
		e.sh.onCall("wait")
	}
	sc := e.sh.scriptOf(id)
	if sc.WaitDelayMs > 0 {
		time.Sleep(time.Duration(sc.WaitDelayMs) * time.Millisecond)
	}
	r, err := e.FakeEngine.VirtualizationWait(ctx, id, state)
	if err != nil {
		return nil, err
	}
	if sc.WaitFail {
		return nil, errScr
	}
	r.Code = sc.Code
	return r, nil
}
