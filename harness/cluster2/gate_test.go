//go:build verif

package cluster2

import (
	"context"
	"runtime"
	"strings"
	"sync"
	"time"

	"go.etcd.io/etcd/api/v3/mvccpb"
	clientv3 "go.etcd.io/etcd/client/v3"

	enginetypes "github.com/projecteru2/core/engine/types"
	"github.com/projecteru2/core/lock"
	"github.com/projecteru2/core/resource"
	resourcetypes "github.com/projecteru2/core/resource/types"
	"github.com/projecteru2/core/store"
	"github.com/projecteru2/core/store/etcdv3"
	"github.com/projecteru2/core/store/etcdv3/meta"
	"github.com/projecteru2/core/types"

	"verifharness/ckit"
)

// gate: a one-shot parking point for controlled two-operation schedules (C22). Every labelled
// call of the foreground operation passes through hit(); once armed with k, the (k+1)-th
// labelled call blocks until release() — the operation is then "parked before its k-th step".
// Calls of background tasks (remap, metrics) are ignored.
type gate struct {
	mu      sync.Mutex
	armed   bool
	fired   bool
	k       int
	labels  []string // labels of the calls made before the park (and, when never parked, all of them)
	post    []string
	parked  chan struct{}
	unblock chan struct{}
	// second, label-triggered parking point (three-thread scenario): the first call with this label parks
	parkLabel string
	fired2    bool
	parked2   chan struct{}
	unblock2  chan struct{}
}

func (g *gate) armLabel(label string) {
	g.mu.Lock()
	g.parkLabel, g.fired2 = label, false
	g.parked2, g.unblock2 = make(chan struct{}), make(chan struct{})
	g.mu.Unlock()
}

func (g *gate) release2() {
	g.mu.Lock()
	if g.unblock2 != nil {
		select {
		case <-g.unblock2:
		default:
			close(g.unblock2)
		}
	}
	g.mu.Unlock()
}

func (g *gate) arm(k int) {
	g.mu.Lock()
	g.armed, g.fired, g.k = true, false, k
	g.labels, g.post = nil, nil
	g.parked, g.unblock = make(chan struct{}), make(chan struct{})
	g.mu.Unlock()
}

func (g *gate) disarm() {
	g.mu.Lock()
	g.armed = false
	g.mu.Unlock()
}

func (g *gate) release() {
	g.mu.Lock()
	if g.unblock != nil {
		select {
		case <-g.unblock:
		default:
			close(g.unblock)
		}
	}
	g.mu.Unlock()
}

// hitLabel is a parking point that is NOT one of the labelled calls of the model (it is not
// counted): only the label-triggered gate reacts to it.
func (g *gate) hitLabel(label string) {
	g.mu.Lock()
	if !g.armed || g.parkLabel != label || g.fired2 || bgCall() {
		g.mu.Unlock()
		return
	}
	g.fired2 = true
	close(g.parked2)
	ch := g.unblock2
	g.mu.Unlock()
	<-ch
}

func bgCall() bool {
	pcs := make([]uintptr, 64)
	n := runtime.Callers(3, pcs)
	frames := runtime.CallersFrames(pcs[:n])
	for {
		f, more := frames.Next()
		if strings.Contains(f.Function, "RemapResourceAndLog") || strings.Contains(f.Function, "doSendNodeMetrics") ||
			strings.Contains(f.Function, "InitMetrics") || strings.Contains(f.Function, "engine/factory") {
			return true
		}
		if !more {
			return false
		}
	}
}

func (g *gate) hit(label string) {
	g.mu.Lock()
	if !g.armed || bgCall() {
		g.mu.Unlock()
		return
	}
	if g.parkLabel != "" && label == g.parkLabel && !g.fired2 {
		g.fired2 = true
		close(g.parked2)
		ch := g.unblock2
		g.mu.Unlock()
		<-ch
		return
	}
	if g.fired {
		g.post = append(g.post, label)
		g.mu.Unlock()
		return
	}
	if len(g.labels) == g.k {
		g.fired = true
		close(g.parked)
		ch := g.unblock
		g.mu.Unlock()
		<-ch
		g.mu.Lock()
		g.post = append(g.post, label)
		g.mu.Unlock()
		return
	}
	g.labels = append(g.labels, label)
	g.mu.Unlock()
}

// ---- decorators ----

type gStore struct {
	store.Store
	g *gate
}

func (s *gStore) GetNode(ctx context.Context, n string) (*types.Node, error) {
	s.g.hit("getnode")
	return s.Store.GetNode(ctx, n)
}
func (s *gStore) ListNodeWorkloads(ctx context.Context, n string, l map[string]string) ([]*types.Workload, error) {
	s.g.hit("listwl")
	return s.Store.ListNodeWorkloads(ctx, n, l)
}
func (s *gStore) RemoveNode(ctx context.Context, n *types.Node) error {
	s.g.hit("rmnode")
	return s.Store.RemoveNode(ctx, n)
}
func (s *gStore) AddWorkload(ctx context.Context, w *types.Workload, p *types.Processing) error {
	s.g.hit("addwl")
	return s.Store.AddWorkload(ctx, w, p)
}
func (s *gStore) RemoveWorkload(ctx context.Context, w *types.Workload) error {
	s.g.hit("rmwl")
	return s.Store.RemoveWorkload(ctx, w)
}
func (s *gStore) GetWorkloads(ctx context.Context, ids []string) ([]*types.Workload, error) {
	s.g.hit("getwl")
	return s.Store.GetWorkloads(ctx, ids)
}
func (s *gStore) GetWorkload(ctx context.Context, id string) (*types.Workload, error) {
	s.g.hit("getwl")
	return s.Store.GetWorkload(ctx, id)
}
func (s *gStore) AddNode(ctx context.Context, o *types.AddNodeOptions) (*types.Node, error) {
	s.g.hitLabel("addnode-enter") // between the plugin step and the store step of Calcium.AddNode
	return s.Store.AddNode(ctx, o)
}
func (s *gStore) AddPod(ctx context.Context, name, desc string) (*types.Pod, error) {
	s.g.hit("addpod")
	return s.Store.AddPod(ctx, name, desc)
}
func (s *gStore) CreateLock(key string, ttl time.Duration) (lock.DistributedLock, error) {
	s.g.hit("lock")
	return s.Store.CreateLock(key, ttl)
}

type gRmgr struct {
	resource.Manager
	g *gate
}

func (m *gRmgr) AddNode(ctx context.Context, n string, r resourcetypes.Resources, i *enginetypes.Info) (resourcetypes.Resources, error) {
	m.g.hit("resadd")
	return m.Manager.AddNode(ctx, n, r, i)
}
func (m *gRmgr) RemoveNode(ctx context.Context, n string) error {
	m.g.hit("resrm")
	return m.Manager.RemoveNode(ctx, n)
}
func (m *gRmgr) Alloc(ctx context.Context, n string, c int, r resourcetypes.Resources) ([]resourcetypes.Resources, []resourcetypes.Resources, error) {
	m.g.hit("alloc")
	return m.Manager.Alloc(ctx, n, c, r)
}

// gKV sits inside the etcd store: the requests of store.AddNode / store.RemovePod / GetNodesByPod
type gKV struct {
	meta.KV
	g *gate
}

func (k *gKV) GetOne(ctx context.Context, key string, opts ...clientv3.OpOption) (*mvccpb.KeyValue, error) {
	if strings.HasPrefix(key, "/pod/info/") {
		k.g.hit("getpod")
	}
	return k.KV.GetOne(ctx, key, opts...)
}
func (k *gKV) Get(ctx context.Context, key string, opts ...clientv3.OpOption) (*clientv3.GetResponse, error) {
	if strings.HasPrefix(key, "/node/") && strings.HasSuffix(key, ":pod/") || strings.HasPrefix(key, "/node/") && strings.Contains(key, ":pod") {
		k.g.hit("nodesbypod")
	}
	return k.KV.Get(ctx, key, opts...)
}
func (k *gKV) Delete(ctx context.Context, key string, opts ...clientv3.OpOption) (*clientv3.DeleteResponse, error) {
	if strings.HasPrefix(key, "/pod/info/") {
		k.g.hit("delpod")
	}
	return k.KV.Delete(ctx, key, opts...)
}
func (k *gKV) BatchCreate(ctx context.Context, data map[string]string, opts ...clientv3.OpOption) (*clientv3.TxnResponse, error) {
	for key := range data {
		if strings.HasPrefix(key, "/node/") && !strings.Contains(key, ":") {
			k.g.hit("mknode")
			break
		}
	}
	return k.KV.BatchCreate(ctx, data, opts...)
}

// installGate wraps store, resource manager and the store's KV of cl with gate decorators.
func installGate(cl *ckit.Cluster) *gate {
	g := &gate{}
	cl.C.VerifSetStore(&gStore{Store: cl.C.VerifStore(), g: g})
	cl.C.VerifSetRmgr(&gRmgr{Manager: cl.C.VerifRmgr(), g: g})
	if m, ok := cl.Store.Store.(*etcdv3.Mercury); ok {
		m.KV = &gKV{KV: m.KV, g: g}
	} else {
		cl.T.Fatalf("raw store is %T, not *etcdv3.Mercury", cl.Store.Store)
	}
	return g
}
