//go:build verif

// Package cluster2 is the correspondence harness of the cluster2 group: C14 (crash + recovery),
// C30 (run-and-wait), C28 (node down), C22 (referential consistency under controlled
// schedules) and the cluster-level observation stream of C13. It drives a REAL calcium.New
// through verifharness/ckit.
package cluster2

import (
	"context"
	"fmt"
	"sort"
	"strconv"
	"strings"
	"testing"
	"time"

	resourcetypes "github.com/projecteru2/core/resource/types"
	"github.com/projecteru2/core/types"

	"verifharness/ckit"
)

const nCores, nNuma = 16, 4

// flat renders a canonical resource vector as [cpu, mem, core0..core15, numa0..numa3].
func flat(r ckit.Res) []int64 {
	out := make([]int64, 2+nCores+nNuma)
	out[0], out[1] = r.CPU, r.Mem
	for k, v := range r.Cores {
		if i, err := strconv.Atoi(k); err == nil && i >= 0 && i < nCores {
			out[2+i] = v
		}
	}
	for k, v := range r.NUMA {
		if i, err := strconv.Atoi(k); err == nil && i >= 0 && i < nNuma {
			out[2+nCores+i] = v
		}
	}
	return out
}

// ids maps container / workload ids (hex strings) to small stable numbers.
type ids struct {
	m    map[string]int
	next int
}

func newIDs() *ids { return &ids{m: map[string]int{}, next: 1001} }

func (x *ids) set(id string, n int) { x.m[id] = n }
func (x *ids) get(id string) int {
	if n, ok := x.m[id]; ok {
		return n
	}
	x.m[id] = x.next
	x.next++
	return x.m[id]
}
func (x *ids) all() []int {
	out := []int{}
	for _, n := range x.m {
		out = append(out, n)
	}
	sort.Ints(out)
	return out
}

type wlJ struct {
	ID   int     `json:"id"`
	Node string  `json:"node"`
	Res  []int64 `json:"res"`
}
type ctJ struct {
	ID      int    `json:"id"`
	Node    string `json:"node"`
	Running bool   `json:"running"`
}
type mkJ struct {
	Node  string `json:"node"`
	Count int    `json:"count"`
}
type evJ struct {
	E     string   `json:"e"`
	Node  string   `json:"node,omitempty"`
	ID    int      `json:"id,omitempty"`
	Nodes []string `json:"nodes,omitempty"`
}
type stJ struct {
	Usage   map[string][]int64 `json:"usage"`
	Wls     []wlJ              `json:"wls"`
	Cts     []ctJ              `json:"cts"`
	Markers []mkJ              `json:"markers"`
	Wal     []evJ              `json:"wal"`
}

// absState converts a ckit snapshot into the abstract state of the Lean model. The pending
// WAL events are supplied separately (the snapshot's list is only what the current wrapper saw).
func absState(s *ckit.Snapshot, x *ids, wal []evJ) stJ {
	st := stJ{Usage: map[string][]int64{}, Wls: []wlJ{}, Cts: []ctJ{}, Markers: []mkJ{}, Wal: wal}
	if st.Wal == nil {
		st.Wal = []evJ{}
	}
	for _, n := range s.Nodes {
		st.Usage[n.Name] = flat(n.Usage)
	}
	for _, w := range s.Workloads {
		st.Wls = append(st.Wls, wlJ{ID: x.get(w.ID), Node: w.Node, Res: flat(w.Res)})
	}
	for _, c := range s.Containers {
		st.Cts = append(st.Cts, ctJ{ID: x.get(c.ID), Node: c.Node, Running: c.Running})
	}
	for _, m := range s.Markers {
		st.Markers = append(st.Markers, mkJ{Node: m.Node, Count: m.Count})
	}
	return st
}

func cpumemReq(cpu float64, mem int64, bind bool) resourcetypes.Resources {
	return resourcetypes.Resources{"cpumem": {"memory-request": mem, "cpu-request": cpu, "cpu-bind": bind}}
}

func deployOpts(app, entry, pod string, count int, strategy string, res resourcetypes.Resources, nodes []string) *types.DeployOptions {
	nf := &types.NodeFilter{Podname: pod}
	if len(nodes) > 0 {
		nf.Includes = nodes
	}
	return &types.DeployOptions{
		Name: app, Entrypoint: &types.Entrypoint{Name: entry}, Podname: pod, Image: "img", Count: count,
		DeployStrategy: strategy, IgnorePull: true, NodeFilter: nf, Resources: res, NodesLimit: 0,
	}
}

// deploy runs CreateWorkload and drains the channel.
func deploy(cl *ckit.Cluster, opts *types.DeployOptions) ([]*types.CreateWorkloadMessage, error) {
	return deployCtx(cl.Ctx(), cl, opts)
}

func deployCtx(ctx context.Context, cl *ckit.Cluster, opts *types.DeployOptions) ([]*types.CreateWorkloadMessage, error) {
	ch, err := cl.C.CreateWorkload(ctx, opts)
	if err != nil {
		return nil, err
	}
	out := []*types.CreateWorkloadMessage{}
	for m := range ch {
		out = append(out, m)
	}
	return out, nil
}

func nodeNames(n int) []string {
	out := []string{}
	for i := 1; i <= n; i++ {
		out = append(out, fmt.Sprintf("n%d", i))
	}
	return out
}

func argInt(arg, key string) int {
	for _, p := range strings.Split(arg, ",") {
		if strings.HasPrefix(p, key+"=") {
			n, _ := strconv.Atoi(strings.TrimPrefix(p, key+"="))
			return n
		}
	}
	return -1
}

// settle waits until the (crashed) instance has come to rest.
func settle(cl *ckit.Cluster, max time.Duration) bool {
	deadline := time.Now().Add(max)
	stable, lastLen, lastParked := 0, -1, -1
	for time.Now().Before(deadline) {
		l, p, f := cl.Rec.Len(), cl.Rec.Parked(), cl.Rec.InFlight()
		if f == 0 && l == lastLen && p == lastParked {
			stable++
			if stable >= 8 {
				return true
			}
		} else {
			stable = 0
		}
		lastLen, lastParked = l, p
		time.Sleep(time.Millisecond)
	}
	return false
}

func fatalIf(t *testing.T, err error, what string) {
	t.Helper()
	if err != nil {
		t.Fatalf("%s: %v", what, err)
	}
}

func splitN(s, sep string, n int) []string {
	out := strings.SplitN(s, sep, n)
	for len(out) < n {
		out = append(out, "")
	}
	return out
}

// addPod / addNode with retries: the embedded etcd occasionally answers "request timed out"
// when the machine is loaded; setup must not abort a whole run for that.
func addPod(cl *ckit.Cluster, name string) {
	var err error
	for try := 0; try < 5; try++ {
		if _, err = cl.C.AddPod(cl.Ctx(), name, ""); err == nil {
			return
		}
		time.Sleep(200 * time.Millisecond)
		if p, e := cl.C.GetPod(cl.Ctx(), name); e == nil && p != nil {
			return
		}
	}
	cl.T.Fatalf("AddPod %s: %v", name, err)
}

func addNodeOpts(cl *ckit.Cluster, o *types.AddNodeOptions) *types.Node {
	var err error
	var n *types.Node
	for try := 0; try < 5; try++ {
		if n, err = cl.C.AddNode(cl.Ctx(), o); err == nil {
			return n
		}
		time.Sleep(200 * time.Millisecond)
		if n, e := cl.C.GetNode(cl.Ctx(), o.Nodename); e == nil && n != nil {
			return n
		}
	}
	cl.T.Fatalf("AddNode %s: %v", o.Nodename, err)
	return nil
}

func addNode(cl *ckit.Cluster, s ckit.NodeSpec) *types.Node {
	return addNodeOpts(cl, cl.AddNodeOptions(s))
}
