//go:build verif

package cluster2

import (
	"bufio"
	"context"
	"encoding/json"
	"fmt"
	"os"
	"sort"
	"strings"
	"testing"
	"time"

	clientv3 "go.etcd.io/etcd/client/v3"

	"github.com/projecteru2/core/types"

	"verifharness/ckit"
	"verifharness/hx"
)

// ---- C22: two-operation controlled schedules and single faults ----

type opJ struct {
	Op   string `json:"op"` // addPod removePod addNode removeNode create remove
	Pod  string `json:"pod,omitempty"`
	N    string `json:"n,omitempty"`
	W    int    `json:"w,omitempty"`
	Flag string `json:"flag,omitempty"` // addNode: "down" (real node without heartbeat), "bypass", "label"
}

type rstJ struct {
	Pods  []string    `json:"pods"`
	Nodes [][2]string `json:"nodes"`
	Res   []string    `json:"res"`
	Wls   []wlRef     `json:"wls"`
}
type wlRef struct {
	W int    `json:"w"`
	N string `json:"n"`
}

type refCase struct {
	ID       string   `json:"id"`
	Kind     string   `json:"kind"` // sched | fault
	Init     string   `json:"init"` // name of the initial state
	A        opJ      `json:"a"`
	B        *opJ     `json:"b,omitempty"`
	K        int      `json:"k"`                // A is parked before its k-th labelled call
	Cancel   string   `json:"cancel,omitempty"` // fault cases: the CALLER\'s context is cancelled ("cancel") or its deadline expires ("deadline") right before the call at fault_pc
	Ops      []opJ    `json:"ops,omitempty"`
	States   []rstJ   `json:"states,omitempty"`
	OKs      []bool   `json:"oks,omitempty"`
	ListOKs  []bool   `json:"list_oks,omitempty"`
	FaultPC  int      `json:"fault_pc"`  // fault cases: model pc of the failing call (-1 none)
	LabelsA  []string `json:"labels_a"`  // labels of A's calls before the park
	Parked   bool     `json:"parked"`    // A reached the park
	BBlocked bool     `json:"b_blocked"` // B did not finish while A was parked (lock) — A was released first
	Pre      rstJ     `json:"pre"`
	Impl     rstJ     `json:"impl"`
	OKA      bool     `json:"ok_a"`
	OKB      bool     `json:"ok_b"`
	ListOK   bool     `json:"list_ok"`
}

// clean reports whether no infrastructure error of the embedded etcd occurred since the rig was built
func (r *refRig) clean() bool {
	if infraErrs.Load() != r.infra0 {
		infraDropped.Add(1)
		r.t.Logf("case dropped: infrastructure error of the embedded etcd (%d dropped so far)", infraDropped.Load())
		return false
	}
	return true
}

func (r *refRig) emit(out *hx.Out, c *refCase) {
	if r.clean() {
		out.Emit(c)
	}
}

type refRig struct {
	infra0 int64
	t      *testing.T
	cl     *ckit.Cluster
	g      *gate
	tag    string
	wids   map[int]string // model workload number -> real id
	next   int
}

// the tag is a PREFIX so that prefix relations between names (n1 / n10) survive
func (r *refRig) name(s string) string { return r.tag + s }

func newRefRig(t *testing.T, tag string) *refRig {
	cl := newCluster(t, ckit.Options{LockTimeout: 3 * time.Second})
	cl.Wipe()
	r := &refRig{t: t, cl: cl, tag: tag, wids: map[int]string{}, next: 1, infra0: infraErrs.Load()}
	r.g = installGate(cl)
	return r
}

// setup builds one of the named initial states.
func (r *refRig) setup(init string) {
	cl := r.cl
	switch init {
	case "empty":
	case "pod":
		addPod(cl, r.name("p1"))
	case "downnode", "bypassnode", "labelnode+wl":
		addPod(cl, r.name("p1"))
		flag := map[string]string{"downnode": "down", "bypassnode": "bypass", "labelnode+wl": "label"}[init]
		if !r.run(opJ{Op: "addNode", N: "n1", Pod: "p1", Flag: flag}) {
			r.t.Fatalf("setup addNode failed")
		}
		if init == "labelnode+wl" && !r.run(opJ{Op: "create", N: "n1", W: 9}) {
			r.t.Fatalf("setup create failed")
		}
	case "node", "node+wl":
		addPod(cl, r.name("p1"))
		addNode(cl, ckit.NodeSpec{Name: r.name("n1"), Pod: r.name("p1"), CPU: 4, Memory: 8 << 30})
		if init == "node+wl" {
			ok := r.run(opJ{Op: "create", N: "n1", W: 9})
			if !ok {
				r.t.Fatalf("setup create failed")
			}
		}
	}
	cl.Quiesce()
}

// run executes one operation through the cluster API; true = it reported success.
func (r *refRig) run(o opJ) bool { return r.runCtx(r.cl.Ctx(), o) }

func (r *refRig) runCtx(ctx context.Context, o opJ) bool {
	cl := r.cl
	switch o.Op {
	case "addPod":
		_, err := cl.C.AddPod(ctx, r.name(o.Pod), "")
		return err == nil
	case "removePod":
		return cl.C.RemovePod(ctx, r.name(o.Pod)) == nil
	case "addNode":
		ao := cl.AddNodeOptions(ckit.NodeSpec{Name: r.name(o.N), Pod: r.name(o.Pod), CPU: 4, Memory: 8 << 30})
		switch o.Flag {
		case "down":
			ao.Test = false // a real node that never sent a heartbeat: down
		case "label":
			ao.Labels = map[string]string{"zone": "a"}
		}
		_, err := cl.C.AddNode(ctx, ao)
		if err == nil && o.Flag == "bypass" {
			_, err = cl.C.SetNode(ctx, &types.SetNodeOptions{Nodename: r.name(o.N), Bypass: types.TriTrue})
		}
		return err == nil
	case "removeNode":
		return cl.C.RemoveNode(ctx, r.name(o.N)) == nil
	case "create":
		pod := o.Pod
		if pod == "" {
			pod = "p1"
		}
		opts := deployOpts("app", "web", r.name(pod), 1, "AUTO", cpumemReq(0.5, 1<<28, false), []string{r.name(o.N)})
		msgs, err := deploy(cl, opts)
		if err != nil || len(msgs) != 1 || msgs[0].Error != nil {
			return false
		}
		r.wids[o.W] = msgs[0].WorkloadID
		return true
	case "remove":
		id, ok := r.wids[o.W]
		if !ok {
			id = "0000000000000000000000000000000000000000000000000000000000000000"
		}
		ch, err := cl.C.RemoveWorkload(ctx, []string{id}, true)
		if err != nil {
			return false
		}
		good := true
		n := 0
		for m := range ch {
			n++
			good = good && m.Success
		}
		return good && n > 0
	}
	return false
}

func (r *refRig) state() rstJ {
	cl := r.cl
	cl.Quiesce()
	strip := func(s string) string { return strings.TrimPrefix(s, r.tag) }
	snap := cl.Snapshot()
	st := rstJ{Pods: []string{}, Nodes: [][2]string{}, Res: []string{}, Wls: []wlRef{}}
	for _, p := range snap.Pods {
		st.Pods = append(st.Pods, strip(p))
	}
	for _, n := range snap.Nodes {
		st.Nodes = append(st.Nodes, [2]string{strip(n.Name), strip(n.Pod)})
	}
	for _, n := range snap.PluginNodes {
		st.Res = append(st.Res, strip(n))
	}
	// workloads with their node, from the /deploy/<app>/<entry>/<node>/<id> keys (they survive a removed node)
	resp, err := cl.Etcd.Get(context.Background(), "/deploy/", clientv3.WithPrefix(), clientv3.WithKeysOnly())
	fatalIf(r.t, err, "etcd get /deploy")
	rev := map[string]int{}
	for k, v := range r.wids {
		rev[v] = k
	}
	for _, kv := range resp.Kvs {
		parts := strings.Split(strings.TrimPrefix(string(kv.Key), "/deploy/"), "/")
		if len(parts) == 4 {
			w, ok := rev[parts[3]]
			if !ok {
				w = 99
			}
			st.Wls = append(st.Wls, wlRef{W: w, N: strip(parts[2])})
		}
	}
	sort.Strings(st.Pods)
	sort.Strings(st.Res)
	sort.Slice(st.Nodes, func(i, j int) bool { return st.Nodes[i][0] < st.Nodes[j][0] })
	sort.Slice(st.Wls, func(i, j int) bool { return st.Wls[i].W < st.Wls[j].W })
	return st
}

func (r *refRig) listOK() bool {
	_, err := r.cl.C.ListWorkloads(r.cl.Ctx(), &types.ListWorkloadsOptions{Appname: "app", Limit: 0})
	return err == nil
}

// labelsOf runs A alone (gate armed beyond its length) and returns its labelled calls.
func (r *refRig) labelsOf(a opJ) []string {
	r.g.arm(1 << 30)
	r.run(a)
	r.cl.Quiesce()
	r.g.disarm()
	return append([]string{}, r.g.labels...)
}

// sched: A parked before its k-th labelled call, B run to completion, A released.
func (r *refRig) sched(c *refCase) {
	g := r.g
	g.arm(c.K)
	doneA := make(chan bool, 1)
	go func() { doneA <- r.run(c.A) }()
	select {
	case <-g.parked:
		c.Parked = true
	case ok := <-doneA:
		c.OKA = ok
		doneA = nil
	case <-time.After(10 * time.Second):
		r.t.Fatalf("A neither parked nor finished")
	}
	g.mu.Lock()
	c.LabelsA = append([]string{}, g.labels...)
	g.mu.Unlock()
	doneB := make(chan bool, 1)
	go func() { doneB <- r.run(*c.B) }()
	select {
	case ok := <-doneB:
		c.OKB = ok
		g.release()
	case <-time.After(400 * time.Millisecond):
		c.BBlocked = true // B waits for a lock that the parked A holds: let A go on
		g.release()
		c.OKB = <-doneB
	}
	if doneA != nil {
		c.OKA = <-doneA
	}
	g.disarm()
}

var faultAddr = map[string][]struct {
	PC   int
	Kind string
	Ord  int
}{
	"addPod":     {{0, "storeAddPod", 0}},
	"removePod":  {{2, "storeRemovePod", 0}},
	"addNode":    {{0, "pluginAddNode", 0}, {1, "storeAddNode", 0}},
	"removeNode": {{0, "storeGetNode", 0}, {2, "storeListNodeWorkloads", 0}, {3, "storeRemoveNode", 0}, {4, "pluginRemoveNode", 0}},
	"create":     {{0, "storeGetNode", 0}, {2, "pluginAlloc", 0}, {4, "storeGetNode", 1}, {5, "storeAddWorkload", 0}},
	"remove":     {{0, "storeGetWorkloads", 0}, {5, "storeRemoveWorkload", 0}},
}

func (r *refRig) nodeOfAddr(o opJ, kind string) string {
	switch kind {
	case "storeAddPod", "storeRemovePod":
		return ""
	case "storeGetWorkloads":
		return ""
	}
	if o.Op == "remove" {
		return r.name("n1")
	}
	return r.name(o.N)
}

func injected(tr []ckit.Event) bool {
	for _, e := range tr {
		if e.Injected {
			return true
		}
	}
	return false
}

type refPlan struct {
	Init string
	A, B opJ
}

func refPairs() []refPlan {
	p1 := "p1"
	addNode1 := opJ{Op: "addNode", N: "n1", Pod: p1}
	addNode2 := opJ{Op: "addNode", N: "n2", Pod: p1}
	rmPod := opJ{Op: "removePod", Pod: p1}
	addPod := opJ{Op: "addPod", Pod: p1}
	rmNode := opJ{Op: "removeNode", N: "n1"}
	create := opJ{Op: "create", N: "n1", W: 1}
	remove := opJ{Op: "remove", W: 9}
	key := []refPlan{
		{"pod", addNode1, rmPod}, {"pod", rmPod, addNode1},
		{"node", create, rmNode}, {"node", rmNode, create},
		{"node+wl", remove, rmNode}, {"node+wl", rmNode, remove},
		{"pod", addNode1, addNode1}, {"node", rmNode, rmPod}, {"node", rmPod, rmNode},
		{"node", rmNode, rmNode}, {"empty", addPod, addNode1}, {"node", create, rmPod},
	}
	if !hx.Thorough() {
		return key
	}
	ops := map[string][]opJ{
		"pod":     {addPod, rmPod, addNode1, addNode2},
		"node":    {rmPod, addNode1, addNode2, rmNode, create},
		"node+wl": {rmPod, addNode2, rmNode, create, remove},
		"empty":   {addPod, rmPod, addNode1},
	}
	out := key
	for _, init := range []string{"pod", "node", "node+wl", "empty"} {
		for _, a := range ops[init] {
			for _, b := range ops[init] {
				if b.Op == "create" {
					b.W = 2 // distinct workload numbers when both operations create
				}
				out = append(out, refPlan{init, a, b})
			}
		}
	}
	return out
}

func genRef(t *testing.T, out *hx.Out, budget int) {
	n := 0
	emit := func(c *refCase) {
		out.Emit(c)
		n++
	}
	// single faults first (cheap), then the schedules
	fi := 0
	for _, init := range []string{"node", "node+wl", "pod"} {
		for _, a := range []opJ{{Op: "addPod", Pod: "p2"}, {Op: "removePod", Pod: "p1"}, {Op: "addNode", N: "n2", Pod: "p1"}, {Op: "removeNode", N: "n1"}, {Op: "create", N: "n1", W: 1}, {Op: "remove", W: 9}} {
			if init == "pod" && (a.Op == "removeNode" || a.Op == "create" || a.Op == "remove") || init == "node" && a.Op == "remove" || init == "node+wl" && a.Op == "addPod" {
				continue
			}
			for _, fa := range faultAddr[a.Op] {
				if n >= budget/3 {
					break
				}
				rig := newRefRig(t, fmt.Sprintf("f%d", fi))
				fi++
				rig.setup(init)
				c := &refCase{ID: fmt.Sprintf("fault-%d", fi), Kind: "fault", Init: init, A: a, FaultPC: fa.PC, K: -1, Pre: rig.state()}
				addr := ckit.Addr{Kind: fa.Kind, Node: rig.nodeOfAddr(a, fa.Kind), Ord: fa.Ord}
				tr := rig.cl.Traced(ckit.Plan{Fail: []ckit.Addr{addr}}, func() { c.OKA = rig.run(a) })
				if !injected(tr) {
					c.FaultPC = -1 // the addressed call was not made: a fault-free run
				}
				c.Impl = rig.state()
				c.ListOK = rig.listOK()
				if rig.clean() {
					if rig.clean() {
						emit(c)
					}
				}
				rig.cl.Close()
			}
		}
	}
	// every operation alone (no fault) from every initial state, incl. down / bypassed / labelled nodes
	// and a duplicate AddNode: RefInv must hold after every single operation
	for _, init := range []string{"downnode", "bypassnode", "labelnode+wl", "node", "node+wl", "pod", "empty"} {
		for _, a := range []opJ{{Op: "removePod", Pod: "p1"}, {Op: "removeNode", N: "n1"}, {Op: "addNode", N: "n1", Pod: "p1"}, {Op: "addNode", N: "n1", Pod: "p1", Flag: "label"},
			{Op: "create", N: "n1", W: 1}, {Op: "addPod", Pod: "p1"}} {
			rig := newRefRig(t, fmt.Sprintf("o%d", fi))
			fi++
			rig.setup(init)
			c := &refCase{ID: fmt.Sprintf("single-%d", fi), Kind: "fault", Init: init, A: a, FaultPC: -1, K: -1, Pre: rig.state()}
			c.OKA = rig.run(a)
			c.Impl = rig.state()
			c.ListOK = rig.listOK()
			rig.emit(out, c) // not counted against the budget of the schedules
			rig.cl.Close()
		}
	}
	// AddNode whose caller goes away (cancel / deadline expiry) right after the plugin step: the store
	// step fails, the rollback must still remove the plugin record (it runs on a detached context)
	for ci, how := range []string{"cancel", "deadline"} {
		for _, init := range []string{"pod", "node"} {
			rig := newRefRig(t, fmt.Sprintf("x%d%s", ci, init))
			rig.setup(init)
			a := opJ{Op: "addNode", N: "n2", Pod: "p1"}
			c := &refCase{ID: fmt.Sprintf("cancel-%s-%s", how, init), Kind: "fault", Init: init, A: a, FaultPC: 1, K: -1, Cancel: how, Pre: rig.state()}
			ctx, cancel := context.WithCancel(rig.cl.Ctx())
			if how == "deadline" {
				ctx, cancel = context.WithTimeout(rig.cl.Ctx(), 400*time.Millisecond)
			}
			rig.g.arm(1 << 30)
			rig.g.armLabel("addnode-enter") // park between pluginAddNode and store.AddNode
			done := make(chan bool, 1)
			go func() { done <- rig.runCtx(ctx, a) }()
			select {
			case <-rig.g.parked2:
				if how == "cancel" {
					cancel()
				} else {
					<-ctx.Done()
				}
				rig.g.release2()
				c.OKA = <-done
			case ok := <-done:
				c.OKA = ok
				c.FaultPC = -1
			}
			cancel()
			rig.g.disarm()
			c.Impl = rig.state()
			c.ListOK = rig.listOK()
			rig.emit(out, c)
			rig.cl.Close()
		}
	}
	// node names that coincide with pod names, and names that are prefixes of others (the etcd key space
	// /node/<pod>:pod/<node> shares its prefix with /node/<node>:…): fixed histories, RefInv after every operation
	for hi, ops := range [][]opJ{
		{{Op: "addPod", Pod: "p1"}, {Op: "addPod", Pod: "p2"}, {Op: "addNode", N: "p2", Pod: "p1"}, {Op: "addNode", N: "n2", Pod: "p2"},
			{Op: "removeNode", N: "p2"}, {Op: "removePod", Pod: "p2"}, {Op: "removePod", Pod: "p1"}},
		{{Op: "addPod", Pod: "p1"}, {Op: "addNode", N: "n1", Pod: "p1"}, {Op: "addNode", N: "n10", Pod: "p1"}, {Op: "create", N: "n10", Pod: "p1", W: 1},
			{Op: "removeNode", N: "n1"}, {Op: "removeNode", N: "n10"}, {Op: "remove", W: 1}, {Op: "removeNode", N: "n10"}, {Op: "removePod", Pod: "p1"}},
		{{Op: "addPod", Pod: "p1"}, {Op: "addPod", Pod: "p10"}, {Op: "addNode", N: "p10", Pod: "p1"}, {Op: "addNode", N: "p1", Pod: "p10"},
			{Op: "removeNode", N: "p1"}, {Op: "removePod", Pod: "p10"}, {Op: "removeNode", N: "p10"}, {Op: "removePod", Pod: "p1"}},
	} {
		runHist(t, out, ops, fmt.Sprintf("names-%d", hi), fmt.Sprintf("m%d", hi))
	}
	{
		rig := newRefRig(t, "t3")
		rig.setup("node")
		c := &refCase{ID: "three-0", Kind: "three", Init: "node", A: opJ{Op: "addNode", N: "n1", Pod: "p1"}, FaultPC: -1, K: -1, Pre: rig.state()}
		rig.threeThreads(c)
		c.Impl = rig.state()
		c.ListOK = rig.listOK()
		rig.emit(out, c)
		rig.cl.Close()
	}
	genHist(t, out, budget/8+3)
	for pi, pl := range refPairs() {
		if n >= budget {
			break
		}
		rig0 := newRefRig(t, fmt.Sprintf("q%d", pi))
		rig0.setup(pl.Init)
		labels := rig0.labelsOf(pl.A)
		rig0.cl.Close()
		for k := 0; k < len(labels); k++ {
			if n >= budget {
				break
			}
			rig := newRefRig(t, fmt.Sprintf("s%dk%d", pi, k))
			rig.setup(pl.Init)
			b := pl.B
			c := &refCase{ID: fmt.Sprintf("sched-%d-%d", pi, k), Kind: "sched", Init: pl.Init, A: pl.A, B: &b, K: k, FaultPC: -1, Pre: rig.state()}
			rig.sched(c)
			c.Impl = rig.state()
			c.ListOK = rig.listOK()
			if rig.clean() {
				emit(c)
			}
			rig.cl.Close()
		}
	}
}

// threeThreads replays the three-operation schedule of Eru.Props.C22.counterexample_two_removenode_vs_addnode:
// RemoveNode#2 reads the node, RemoveNode#1 runs completely, AddNode re-adds the name and is parked
// before its node creation, RemoveNode#2 (whose node object is stale: withNodesLocked does not re-read
// after locking) goes on and deletes the NEW resource record, AddNode creates the node.
func (r *refRig) threeThreads(c *refCase) {
	g := r.g
	rm := opJ{Op: "removeNode", N: "n1"}
	add := opJ{Op: "addNode", N: "n1", Pod: "p1"}
	g.arm(1) // RemoveNode#2 parks before taking the pod lock
	done2 := make(chan bool, 1)
	go func() { done2 <- r.run(rm) }()
	select {
	case <-g.parked:
	case <-time.After(10 * time.Second):
		r.t.Fatalf("RemoveNode#2 did not park")
	}
	ok1 := r.run(rm)
	g.armLabel("mknode")
	doneA := make(chan bool, 1)
	go func() { doneA <- r.run(add) }()
	select {
	case <-g.parked2:
	case ok := <-doneA:
		doneA <- ok
	case <-time.After(10 * time.Second):
		r.t.Fatalf("AddNode neither parked nor finished")
	}
	g.release()
	ok2 := <-done2
	g.release2()
	okA := <-doneA
	g.disarm()
	c.OKs = []bool{okA, ok1, ok2}
}

// genHist: random sequential histories; the state is snapshotted after EVERY operation.
func genHist(t *testing.T, out *hx.Out, count int) {
	r := hx.NewRng(hx.Seed() + 77)
	for h := 0; h < count; h++ {
		ops := []opJ{}
		nextW := 1
		ws := map[string][]int{}
		for i, n := 0, r.Range(4, 9); i < n; i++ {
			nd := hx.Pick(r, "n1", "n2", "n1", "n2", "p2", "n10")
			pod := map[string]string{"n1": "p1", "n2": "p2", "p2": "p1", "n10": "p1"}[nd]
			switch k := r.Intn(12); {
			case k < 2:
				ops = append(ops, opJ{Op: "addPod", Pod: hx.Pick(r, "p1", "p2")})
			case k < 4:
				ops = append(ops, opJ{Op: "removePod", Pod: hx.Pick(r, "p1", "p2")})
			case k < 7:
				ops = append(ops, opJ{Op: "addNode", N: nd, Pod: pod, Flag: hx.Pick(r, "", "", "down", "bypass", "label")})
			case k < 9:
				ops = append(ops, opJ{Op: "removeNode", N: nd})
			case k < 11:
				ops = append(ops, opJ{Op: "create", N: nd, Pod: pod, W: nextW})
				ws[nd] = append(ws[nd], nextW)
				nextW++
			default:
				if nextW > 1 {
					ops = append(ops, opJ{Op: "remove", W: r.Range(1, nextW-1)})
				}
			}
		}
		runHist(t, out, ops, fmt.Sprintf("hist-%d", h), fmt.Sprintf("h%d", h))
	}
}

func runHist(t *testing.T, out *hx.Out, ops []opJ, id, tag string) {
	rig := newRefRig(t, tag)
	defer rig.cl.Close()
	c := &refCase{ID: id, Kind: "hist", Init: "empty", Ops: ops, FaultPC: -1, K: -1, Pre: rig.state()}
	for _, o := range ops {
		c.OKs = append(c.OKs, rig.run(o))
		c.States = append(c.States, rig.state())
		c.ListOKs = append(c.ListOKs, rig.listOK())
	}
	c.Impl = c.Pre
	if len(c.States) > 0 {
		c.Impl = c.States[len(c.States)-1]
	}
	c.ListOK = true
	rig.emit(out, c)
}

func replayRef(t *testing.T, out *hx.Out, path string) {
	f, err := os.Open(path)
	fatalIf(t, err, "open replay")
	defer f.Close()
	sc := bufio.NewScanner(f)
	sc.Buffer(make([]byte, 1<<20), 1<<26)
	i := 0
	for sc.Scan() {
		var c refCase
		if json.Unmarshal(sc.Bytes(), &c) != nil || (c.Kind != "sched" && c.Kind != "fault" && c.Kind != "hist" && c.Kind != "three") {
			continue
		}
		if c.Kind == "three" {
			rig := newRefRig(t, fmt.Sprintf("r%d", i))
			i++
			rig.setup(c.Init)
			n := &refCase{ID: c.ID, Kind: "three", Init: c.Init, A: c.A, FaultPC: -1, K: -1, Pre: rig.state()}
			rig.threeThreads(n)
			n.Impl = rig.state()
			n.ListOK = rig.listOK()
			out.Emit(n)
			rig.cl.Close()
			continue
		}
		if c.Kind == "hist" {
			runHist(t, out, c.Ops, c.ID, fmt.Sprintf("r%d", i))
			i++
			continue
		}
		rig := newRefRig(t, fmt.Sprintf("r%d", i))
		i++
		rig.setup(c.Init)
		n := &refCase{ID: c.ID, Kind: c.Kind, Init: c.Init, A: c.A, B: c.B, K: c.K, FaultPC: c.FaultPC, Pre: rig.state()}
		if c.Kind == "sched" {
			rig.sched(n)
		} else {
			for _, fa := range faultAddr[c.A.Op] {
				if fa.PC == c.FaultPC {
					addr := ckit.Addr{Kind: fa.Kind, Node: rig.nodeOfAddr(c.A, fa.Kind), Ord: fa.Ord}
					tr := rig.cl.Traced(ckit.Plan{Fail: []ckit.Addr{addr}}, func() { n.OKA = rig.run(c.A) })
					if !injected(tr) {
						n.FaultPC = -1
					}
				}
			}
		}
		n.Impl = rig.state()
		n.ListOK = rig.listOK()
		out.Emit(n)
		rig.cl.Close()
	}
}

func TestExploreLabels(t *testing.T) {
	if os.Getenv("VERIF_EXPLORE") == "" {
		t.Skip()
	}
	for i, pl := range []refPlan{{"empty", opJ{Op: "addPod", Pod: "p1"}, opJ{}}, {"pod", opJ{Op: "removePod", Pod: "p1"}, opJ{}}, {"node", opJ{Op: "removePod", Pod: "p1"}, opJ{}},
		{"pod", opJ{Op: "addNode", N: "n1", Pod: "p1"}, opJ{}}, {"node", opJ{Op: "removeNode", N: "n1"}, opJ{}}, {"node", opJ{Op: "create", N: "n1", W: 1}, opJ{}}, {"node+wl", opJ{Op: "remove", W: 9}, opJ{}}} {
		rig := newRefRig(t, fmt.Sprintf("e%d", i))
		rig.setup(pl.Init)
		fmt.Printf("LABELS %s %s: %v\n", pl.Init, pl.A.Op, rig.labelsOf(pl.A))
		rig.cl.Close()
	}
}
