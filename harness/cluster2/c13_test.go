//go:build verif

package cluster2

import (
	"bufio"
	"context"
	"encoding/json"
	"fmt"
	"os"
	"strconv"
	"strings"
	"sync"
	"testing"
	"time"

	clientv3 "go.etcd.io/etcd/client/v3"

	"github.com/projecteru2/core/store"
	"github.com/projecteru2/core/types"

	"verifharness/ckit"
	"verifharness/hx"
)

// ---- C13 (cluster-level stream): deploy status observed at every intercepted step of a REAL deployment ----

type obsJ struct {
	At         string         `json:"at"`
	Status     map[string]int `json:"status"`      // Store.GetDeployStatus
	Recorded   map[string]int `json:"recorded"`    // /deploy/<app>/<entry>/<node>/* keys
	Markers    map[string]int `json:"markers"`     // sum of /processing/<app>/<entry>/<node>/* values
	MarkerKeys map[string]int `json:"marker_keys"` // number of /processing/<app>/<entry>/<node>/* KEYS (a marker may hold 0)
}

type statusShape struct {
	Nodes      int    `json:"nodes"`
	Count      int    `json:"count"`
	Prior      int    `json:"prior"`
	Strategy   string `json:"strategy"`
	StartFail  []int  `json:"start_fail,omitempty"`  // ERU_WORKLOAD_SEQ whose start fails
	Fault      string `json:"fault,omitempty"`       // ckit address kind|nodeIndex|ord ("" none)
	PriorOn    int    `json:"prior_on,omitempty"`    // >0: the prior deployment goes to node n<k> only (FILL then plans 0 for it)
	TimeoutMs  int    `json:"timeout_ms,omitempty"`  // >0: GlobalTimeout of the cluster; the engine create of seq 0 blocks for 1.3x that long
	DeadlineMs int    `json:"deadline_ms,omitempty"` // >0: the CALLER\'s context has this deadline; the engine create of seq 0 blocks for 1.5x that long (expiry, not cancel)
	CancelAt   string `json:"cancel_at,omitempty"`   // "<intercepted step>|<k>": the CALLER's context is cancelled right after the k-th such step
}

type statusCase struct {
	ID      string         `json:"id"`
	Kind    string         `json:"kind"`
	Shape   statusShape    `json:"shape"`
	Nodes   []string       `json:"nodes"`
	Prior   map[string]int `json:"prior"`
	Planned map[string]int `json:"planned"`
	Obs     []obsJ         `json:"obs"`
	After   obsJ           `json:"after"`
	Errors  int            `json:"errors"`
	Msgs    int            `json:"msgs"`
}

type observer struct {
	mu    sync.Mutex // serialises every store write of the deployment with the observations
	on    bool
	cl    *ckit.Cluster
	app   string
	entry string
	strip func(string) string
	obs   []obsJ
	// caller cancellation
	cancelAt  string
	cancelOrd int
	cancel    context.CancelFunc
	seen      map[string]int
	cancelled bool
}

func (o *observer) read(at string) obsJ {
	ctx := context.Background()
	ob := obsJ{At: at, Status: map[string]int{}, Recorded: map[string]int{}, Markers: map[string]int{}, MarkerKeys: map[string]int{}}
	st, err := o.cl.Store.Store.GetDeployStatus(ctx, o.app, o.entry)
	if err == nil {
		for n, c := range st {
			ob.Status[o.strip(n)] = c
		}
	}
	resp, err := o.cl.Etcd.Get(ctx, "/deploy/"+o.app+"/"+o.entry+"/", clientv3.WithPrefix(), clientv3.WithKeysOnly())
	if err == nil {
		for _, kv := range resp.Kvs {
			parts := strings.Split(string(kv.Key), "/")
			ob.Recorded[o.strip(parts[len(parts)-2])]++
		}
	}
	resp, err = o.cl.Etcd.Get(ctx, "/processing/"+o.app+"/"+o.entry+"/", clientv3.WithPrefix())
	if err == nil {
		for _, kv := range resp.Kvs {
			parts := strings.Split(string(kv.Key), "/")
			c, _ := strconv.Atoi(string(kv.Value))
			ob.Markers[o.strip(parts[len(parts)-2])] += c
			ob.MarkerKeys[o.strip(parts[len(parts)-2])]++
		}
	}
	return ob
}

func sameObs(a, b obsJ) bool {
	x, _ := json.Marshal([]any{a.Status, a.Recorded, a.Markers, a.MarkerKeys})
	y, _ := json.Marshal([]any{b.Status, b.Recorded, b.Markers, b.MarkerKeys})
	return string(x) == string(y)
}

// step runs one intercepted call under the observer's mutex and observes right after it.
func (o *observer) step(at string, f func()) {
	o.mu.Lock()
	defer o.mu.Unlock()
	f()
	if !o.on {
		return
	}
	if o.cancel != nil && at == o.cancelAt {
		if o.seen[at] == o.cancelOrd {
			o.cancel()
			o.cancelled = true
		}
		o.seen[at]++
	}
	ob := o.read(at)
	if n := len(o.obs); n == 0 || !sameObs(o.obs[n-1], ob) {
		o.obs = append(o.obs, ob)
	}
}

type obsStore struct {
	store.Store
	o *observer
}

func (s *obsStore) CreateProcessing(ctx context.Context, p *types.Processing, c int) (err error) {
	s.o.step("storeCreateProcessing", func() { err = s.Store.CreateProcessing(ctx, p, c) })
	return
}
func (s *obsStore) DeleteProcessing(ctx context.Context, p *types.Processing) (err error) {
	s.o.step("storeDeleteProcessing", func() { err = s.Store.DeleteProcessing(ctx, p) })
	return
}
func (s *obsStore) AddWorkload(ctx context.Context, w *types.Workload, p *types.Processing) (err error) {
	s.o.step("storeAddWorkload", func() { err = s.Store.AddWorkload(ctx, w, p) })
	return
}
func (s *obsStore) RemoveWorkload(ctx context.Context, w *types.Workload) (err error) {
	s.o.step("storeRemoveWorkload", func() { err = s.Store.RemoveWorkload(ctx, w) })
	return
}
func (s *obsStore) UpdateWorkload(ctx context.Context, w *types.Workload) (err error) {
	s.o.step("storeUpdateWorkload", func() { err = s.Store.UpdateWorkload(ctx, w) })
	return
}
func (s *obsStore) GetNode(ctx context.Context, n string) (r *types.Node, err error) {
	s.o.step("storeGetNode", func() { r, err = s.Store.GetNode(ctx, n) })
	return
}
func (s *obsStore) GetDeployStatus(ctx context.Context, a, e string) (r map[string]int, err error) {
	s.o.step("storeGetDeployStatus", func() { r, err = s.Store.GetDeployStatus(ctx, a, e) })
	return
}

func runStatus(t *testing.T, sh statusShape, id, tag string) *statusCase {
	copts := ckit.Options{}
	if sh.TimeoutMs > 0 {
		copts.GlobalTimeout = time.Duration(sh.TimeoutMs) * time.Millisecond
	}
	cl := newCluster(t, copts)
	defer cl.Close()
	cl.Wipe()
	hub := newScriptHub(cl)
	pod := "p" + tag
	addPod(cl, pod)
	strip := func(s string) string { return strings.TrimSuffix(s, tag) }
	nodes := []string{}
	for _, n := range nodeNames(sh.Nodes) {
		nodes = append(nodes, n)
		hub.addNode(cl, ckit.NodeSpec{Name: n + tag, Pod: pod, CPU: 8, Memory: 16 << 30})
	}
	o := &observer{cl: cl, app: "app", entry: "web", strip: strip}
	cl.C.VerifSetStore(&obsStore{Store: cl.C.VerifStore(), o: o})
	hub.onStart = func(string) { o.step("engineStart", func() {}) }
	hub.onCreate = func(string) { o.step("engineCreate", func() {}) }
	if sh.Prior > 0 {
		var only []string
		if sh.PriorOn > 0 && sh.PriorOn <= len(nodes) {
			only = []string{nodes[sh.PriorOn-1] + tag}
		}
		msgs, err := deploy(cl, deployOpts("app", "web", pod, sh.Prior, "AUTO", cpumemReq(0.5, 1<<28, false), only))
		fatalIf(t, err, "prior deploy")
		for _, m := range msgs {
			fatalIf(t, m.Error, "prior deploy message")
		}
	}
	cl.Quiesce()
	c := &statusCase{ID: id, Kind: "status", Shape: sh, Nodes: nodes, Planned: map[string]int{}}
	c.Prior = o.read("prior").Status
	hub.mu.Lock()
	for _, s := range sh.StartFail {
		hub.scripts[s] = ctScript{StartFail: true}
	}
	if sh.DeadlineMs > 0 { // the caller's deadline passes while the first instance is being created
		sc := hub.scripts[0]
		sc.CreateDelayMs = sh.DeadlineMs * 15 / 10
		hub.scripts[0] = sc
	}
	if sh.TimeoutMs > 0 { // the first instance's engine create outlasts the deployment's global timeout
		sc := hub.scripts[0]
		sc.CreateDelayMs = sh.TimeoutMs * 13 / 10
		hub.scripts[0] = sc
	}
	hub.mu.Unlock()
	plan := ckit.Plan{}
	if sh.Fault != "" {
		parts := splitN(sh.Fault, "|", 3)
		ni, _ := strconv.Atoi(parts[1])
		ord, _ := strconv.Atoi(parts[2])
		node := ""
		if ni > 0 && ni <= len(nodes) {
			node = nodes[ni-1] + tag
		}
		plan.Fail = []ckit.Addr{{Kind: parts[0], Node: node, Ord: ord}}
	}
	o.mu.Lock()
	o.on = true
	o.obs = []obsJ{o.read("start")}
	o.mu.Unlock()
	count := sh.Count
	ctx, cancel := context.WithCancel(cl.Ctx())
	defer cancel()
	if sh.DeadlineMs > 0 {
		ctx, cancel = context.WithTimeout(cl.Ctx(), time.Duration(sh.DeadlineMs)*time.Millisecond)
		defer cancel()
	}
	if sh.CancelAt != "" {
		parts := splitN(sh.CancelAt, "|", 2)
		o.mu.Lock()
		o.cancelAt, o.cancel, o.seen = parts[0], cancel, map[string]int{}
		o.cancelOrd, _ = strconv.Atoi(parts[1])
		o.mu.Unlock()
	}
	tr := cl.Traced(plan, func() {
		msgs, err := deployCtx(ctx, cl, deployOpts("app", "web", pod, count, sh.Strategy, cpumemReq(0.5, 1<<28, false), nil))
		if err != nil {
			c.Errors = -1
			return
		}
		c.Msgs = len(msgs)
		for _, m := range msgs {
			if m.Error != nil {
				c.Errors++
			}
		}
	})
	o.mu.Lock()
	o.on = false
	c.Obs = o.obs
	o.mu.Unlock()
	for _, e := range tr {
		if e.Kind == "storeCreateProcessing" && !e.Failed {
			c.Planned[strip(e.Node)] += argInt(e.Arg, "count")
		}
	}
	c.After = o.read("after")
	return c
}

func genStatusShape(r *hx.Rng) statusShape {
	sh := statusShape{Nodes: r.Range(1, 3), Count: r.Range(1, 4), Prior: r.Intn(3), Strategy: hx.Pick(r, "AUTO", "AUTO", "FILL", "EACH")}
	if sh.Strategy == "EACH" {
		sh.Count = r.Range(1, 2)
	}
	if sh.Strategy == "FILL" && sh.Count < sh.Prior {
		sh.Count = sh.Prior + 1
	}
	switch r.Intn(8) {
	case 0:
		sh.StartFail = []int{r.Intn(sh.Count)}
	case 1:
		sh.Fault = fmt.Sprintf("%s|%d|0", hx.Pick(r, "storeAddWorkload", "engineCreate", "storeCreateProcessing", "pluginAlloc", "walLog:create-workload", "walLog:create-processing", "engineInspect"), r.Range(1, sh.Nodes))
	case 2:
		sh.StartFail = []int{0, sh.Count - 1}
	case 5:
		if sh.Prior > 0 {
			sh.Strategy, sh.PriorOn = "FILL", r.Range(1, sh.Nodes)
			sh.Count = r.Range(1, sh.Prior)
		}
	case 3, 4:
		sh.CancelAt = fmt.Sprintf("%s|%d", hx.Pick(r, "storeCreateProcessing", "storeAddWorkload", "engineCreate", "engineStart", "storeGetNode"), r.Intn(2))
	}
	return sh
}

func genStatus(t *testing.T, out *hx.Out, budget int) {
	r := hx.NewRng(hx.Seed())
	shapes := []statusShape{
		{Nodes: 2, Count: 3, Prior: 1, Strategy: "AUTO"},
		{Nodes: 2, Count: 3, Prior: 2, Strategy: "AUTO", StartFail: []int{1}},
		{Nodes: 1, Count: 2, Prior: 0, Strategy: "AUTO", Fault: "storeAddWorkload|1|0"},
		{Nodes: 3, Count: 1, Prior: 0, Strategy: "EACH", Fault: "storeCreateProcessing|2|0"},
		// the caller's context is cancelled while the deployment runs (mutant C13/3: markers must still go)
		{Nodes: 2, Count: 3, Prior: 1, Strategy: "AUTO", CancelAt: "storeAddWorkload|0"},
		{Nodes: 2, Count: 4, Prior: 0, Strategy: "AUTO", CancelAt: "storeCreateProcessing|1"},
		{Nodes: 1, Count: 2, Prior: 1, Strategy: "AUTO", CancelAt: "engineCreate|0"},
		{Nodes: 2, Count: 2, Prior: 0, Strategy: "AUTO", CancelAt: "engineStart|1"},
		// FILL over a node that is already full: it stays in the plan with 0 and gets a marker holding 0
		{Nodes: 2, Count: 2, Prior: 2, PriorOn: 1, Strategy: "FILL"},
		{Nodes: 3, Count: 1, Prior: 1, PriorOn: 2, Strategy: "FILL"},
		// the caller's DEADLINE expires in the middle of the deployment (not a cancel): markers must still go
		{Nodes: 2, Count: 3, Prior: 1, Strategy: "AUTO", DeadlineMs: 600},
		// many nodes / many instances (beyond a dozen of each)
		{Nodes: 20, Count: 1, Prior: 0, Strategy: "EACH"},
		{Nodes: 3, Count: 18, Prior: 2, Strategy: "AUTO", StartFail: []int{5, 13}},
		// the deployment runs into its global timeout: the marker cleanup must still work
		{Nodes: 2, Count: 2, Prior: 1, Strategy: "AUTO", TimeoutMs: 1500},
	}
	for len(shapes) < budget {
		shapes = append(shapes, genStatusShape(r))
	}
	for i, sh := range shapes {
		if i >= budget {
			break
		}
		i, sh := i, sh
		try := 0
		emitGuarded(t, out, func() any { try++; return runStatus(t, sh, fmt.Sprintf("status-%d", i), fmt.Sprintf("c%dt%d", i, try)) })
	}
}

func replayStatus(t *testing.T, out *hx.Out, path string) {
	f, err := os.Open(path)
	fatalIf(t, err, "open replay")
	defer f.Close()
	sc := bufio.NewScanner(f)
	sc.Buffer(make([]byte, 1<<20), 1<<26)
	i := 0
	for sc.Scan() {
		var c statusCase
		if json.Unmarshal(sc.Bytes(), &c) != nil || c.Kind != "status" {
			continue
		}
		out.Emit(runStatus(t, c.Shape, c.ID, fmt.Sprintf("r%d", i)))
		i++
	}
}
