//go:build verif

package cluster2

import (
	"os"
	"testing"

	"verifharness/hx"
)

// TestGen is the entry point used by bin/check: VERIF_PROPERTY selects the generator.
func TestGen(t *testing.T) {
	out := hx.OpenOut()
	defer out.Close()
	budget := hx.EnvInt("VERIF_CASES", 60)
	replay := os.Getenv("VERIF_REPLAY")
	switch os.Getenv("VERIF_PROPERTY") {
	case "C14", "":
		if replay != "" {
			replayCrash(t, out, replay)
		} else {
			genCrash(t, out, budget)
		}
	case "C30":
		if replay != "" {
			replayLambda(t, out, replay)
		} else {
			genLambda(t, out, budget)
		}
	case "C28":
		if replay != "" {
			replayNodeDown(t, out, replay)
		} else {
			genNodeDown(t, out, budget)
		}
	case "C22":
		if replay != "" {
			replayRef(t, out, replay)
		} else {
			genRef(t, out, budget)
		}
	case "C13":
		if replay != "" {
			replayStatus(t, out, replay)
		} else {
			genStatus(t, out, budget)
		}
	default:
		t.Fatalf("unknown VERIF_PROPERTY %q", os.Getenv("VERIF_PROPERTY"))
	}
}
