//go:build verif

package cluster2

import (
	"bufio"
	"encoding/json"
	"fmt"
	"os"
	"sort"
	"testing"
	"time"

	"github.com/projecteru2/core/types"
	"github.com/projecteru2/core/wal"
	"github.com/projecteru2/core/wal/kv"

	"verifharness/ckit"
	"verifharness/hx"
)

// ---- C14: crash at every step of a deployment, recovery in a fresh instance ----

type crashShape struct {
	Nodes, Count, Prior int
	Sample              int `json:"sample,omitempty"` // >0: large shape, only a handful of crash points (after the allocation phase, around the first instance)
	Bind                bool
	Strategy            string
}

type stepJ struct {
	K     string    `json:"k"`
	Node  string    `json:"node,omitempty"`
	ID    int       `json:"id,omitempty"`
	Nodes []string  `json:"nodes,omitempty"`
	Count int       `json:"count,omitempty"`
	Rs    [][]int64 `json:"rs,omitempty"`
	Res   []int64   `json:"res,omitempty"`
}

type crashCase struct {
	ID      string     `json:"id"`
	Kind    string     `json:"kind"`
	Shape   crashShape `json:"shape"`
	Tag     string     `json:"tag"` // suffix of the pod / node names of this rig (part of the crash address)
	At      string     `json:"at"`  // crash address (after this call), "" = before the first call
	Nodes   []string   `json:"nodes"`
	IDs     []int      `json:"ids"`
	Pre     stJ        `json:"pre"`
	Trace   []stepJ    `json:"trace"`
	Crashed stJ        `json:"crashed"`
	Impl    stJ        `json:"impl"`
}

// resOfData decodes the canonical Res list that ckit attaches to pluginAlloc events.
func resOfData(d map[string]any) [][]int64 {
	b, _ := json.Marshal(d["resources"])
	var rs []ckit.Res
	_ = json.Unmarshal(b, &rs)
	out := [][]int64{}
	for _, r := range rs {
		out = append(out, flat(r))
	}
	return out
}

// stepsOf translates the executed (not parked) foreground events into model steps. Container ids
// are numbered seq+1 (ERU_WORKLOAD_SEQ of the create call). The resources of a recorded instance
// are read from its record (which instance received which entry of the node's Alloc answer is the
// business of C12); rec maps workload id -> recorded resources.
func stepsOf(evs []ckit.Event, x *ids, allNodes []string, rec map[string][]int64) []stepJ {
	sort.SliceStable(evs, func(i, j int) bool { return evs[i].Seq < evs[j].Seq })
	out := []stepJ{}
	for _, e := range evs {
		if e.BG || e.Parked {
			continue
		}
		switch e.Kind {
		case "walLog:allocate-workload":
			out = append(out, stepJ{K: "logAlloc", Nodes: allNodes})
		case "walCommit:allocate-workload":
			out = append(out, stepJ{K: "commitAlloc", Nodes: allNodes})
		case "pluginAlloc":
			out = append(out, stepJ{K: "pluginAlloc", Node: e.Node, Rs: resOfData(e.Data)})
		case "walLog:create-processing":
			out = append(out, stepJ{K: "logProcessing", Node: e.Node})
		case "walCommit:create-processing":
			out = append(out, stepJ{K: "commitProcessing", Node: e.Node})
		case "storeCreateProcessing":
			out = append(out, stepJ{K: "createProcessing", Node: e.Node, Count: argInt(e.Arg, "count")})
		case "storeDeleteProcessing":
			out = append(out, stepJ{K: "deleteProcessing", Node: e.Node})
		case "engineCreate":
			seq := argInt(e.Arg, "seq")
			x.set(e.WID, seq+1)
			out = append(out, stepJ{K: "engineCreate", Node: e.Node, ID: seq + 1})
		case "walLog:create-workload":
			out = append(out, stepJ{K: "logCreated", Node: e.Node, ID: x.get(e.WID)})
		case "walCommit:create-workload":
			out = append(out, stepJ{K: "commitCreated", Node: e.Node, ID: x.get(e.WID)})
		case "storeAddWorkload":
			out = append(out, stepJ{K: "addWorkload", Node: e.Node, ID: x.get(e.WID), Res: rec[e.WID]})
		case "engineStart":
			out = append(out, stepJ{K: "engineStart", Node: e.Node, ID: x.get(e.WID)})
		default:
			out = append(out, stepJ{K: e.Kind, Node: e.Node})
		}
	}
	return out
}

func pendingOf(evs []ckit.WALEvent, x *ids, allNodes []string) []evJ {
	out := []evJ{}
	for _, e := range evs {
		switch e.Event {
		case "allocate-workload":
			out = append(out, evJ{E: e.Event, Nodes: allNodes})
		case "create-processing":
			out = append(out, evJ{E: e.Event, Node: e.Node})
		case "create-workload":
			out = append(out, evJ{E: e.Event, Node: e.Node, ID: x.get(e.WID)})
		default:
			out = append(out, evJ{E: e.Event, Node: e.Node, ID: x.get(e.WID)})
		}
	}
	return out
}

// walLeft closes the instance's WAL, reads the events still in the WAL FILE, deletes them (so
// that the next case starts clean) and reopens a fresh instance.
func walLeft(t *testing.T, cl *ckit.Cluster, x *ids) []evJ {
	_ = cl.WAL.WAL.Close()
	l := kv.NewLithium()
	fatalIf(t, l.Open(cl.Cfg.WALFile, 0600, 5*time.Second), "open wal file")
	ch, _ := l.Scan([]byte("/events/"))
	keys := [][]byte{}
	out := []evJ{}
	for ent := range ch {
		if ent.Error() != nil {
			continue
		}
		k, v := ent.Pair()
		keys = append(keys, append([]byte{}, k...))
		var ev wal.HydroEvent
		if json.Unmarshal(v, &ev) != nil {
			out = append(out, evJ{E: "undecodable"})
			continue
		}
		switch ev.Type {
		case "allocate-workload":
			nodes := []*types.Node{}
			_ = json.Unmarshal(ev.Item, &nodes)
			names := []string{}
			for _, n := range nodes {
				names = append(names, n.Name)
			}
			sort.Strings(names)
			out = append(out, evJ{E: ev.Type, Nodes: names})
		case "create-processing":
			p := types.Processing{}
			_ = json.Unmarshal(ev.Item, &p)
			out = append(out, evJ{E: ev.Type, Node: p.Nodename})
		case "create-workload":
			w := types.Workload{}
			_ = json.Unmarshal(ev.Item, &w)
			out = append(out, evJ{E: ev.Type, Node: w.Nodename, ID: x.get(w.ID)})
		default:
			out = append(out, evJ{E: ev.Type, ID: x.get(string(ev.Item))})
		}
	}
	for _, k := range keys {
		_ = l.Delete(k)
	}
	_ = l.Close()
	cl.Reopen()
	watchInfra(cl)
	return out
}

type crashRig struct {
	tag   string
	t     *testing.T
	cl    *ckit.Cluster
	shape crashShape
	nodes []string
	cp    *ckit.Checkpoint
	x     *ids
	pre   stJ
	opts  func() *types.DeployOptions
}

func newCrashRig(t *testing.T, sh crashShape, tag string) *crashRig {
	cl := newCluster(t, ckit.Options{})
	cl.Wipe()
	pod := "p" + tag
	addPod(cl, pod)
	r := &crashRig{t: t, cl: cl, shape: sh, x: newIDs(), tag: tag}
	for _, n := range nodeNames(sh.Nodes) {
		name := n + tag
		r.nodes = append(r.nodes, name)
		addNode(cl, ckit.NodeSpec{Name: name, Pod: pod, CPU: 8, Memory: 16 << 30})
	}
	sort.Strings(r.nodes)
	if sh.Prior > 0 {
		msgs, err := deploy(cl, deployOpts("old", "web", pod, sh.Prior, "AUTO", cpumemReq(0.5, 1<<29, false), nil))
		fatalIf(t, err, "prior deploy")
		for _, m := range msgs {
			fatalIf(t, m.Error, "prior deploy message")
		}
	}
	cl.Quiesce()
	r.cp = cl.Checkpoint()
	snap := cl.Snapshot()
	for _, w := range snap.Workloads { // stable numbering of the prior workloads
		r.x.get(w.ID)
	}
	r.pre = absState(snap, r.x, nil)
	r.opts = func() *types.DeployOptions {
		return deployOpts("app", "web", pod, sh.Count, sh.Strategy, cpumemReq(1, 1<<30, sh.Bind), nil)
	}
	return r
}

// addresses of a fault-free run = the crash points ("" = before the first call)
func (r *crashRig) crashPoints() []*ckit.Addr {
	r.cl.Restore(r.cp)
	tr := r.cl.Traced(ckit.Plan{}, func() {
		msgs, err := deploy(r.cl, r.opts())
		fatalIf(r.t, err, "deploy")
		for _, m := range msgs {
			fatalIf(r.t, m.Error, "deploy message")
		}
	})
	sort.SliceStable(tr, func(i, j int) bool { return tr[i].Seq < tr[j].Seq })
	out := []*ckit.Addr{nil}
	for _, e := range tr {
		a := e.Addr
		out = append(out, &a)
	}
	return out
}

func addrStr(a *ckit.Addr) string {
	if a == nil {
		return ""
	}
	return fmt.Sprintf("%s|%s|%d", a.Kind, a.Node, a.Ord)
}

func parseAddr(s string) *ckit.Addr {
	if s == "" {
		return nil
	}
	var a ckit.Addr
	parts := splitN(s, "|", 3)
	a.Kind, a.Node = parts[0], parts[1]
	fmt.Sscanf(parts[2], "%d", &a.Ord)
	return &a
}

// crashAt runs the deployment, freezes the instance after the addressed call, recovers in a
// fresh instance and returns the case (nil if the address was not reached).
func (r *crashRig) crashAt(a *ckit.Addr, first *ckit.Addr, id string) *crashCase {
	cl := r.cl
	cl.Restore(r.cp)
	cl.Quiesce()
	cl.ResetTrace()
	x := &ids{m: map[string]int{}, next: r.x.next}
	for k, v := range r.x.m {
		x.m[k] = v
	}
	if a == nil {
		cl.SetPlan(ckit.Plan{ParkFrom: first})
	} else {
		cl.SetPlan(ckit.Plan{ParkAfter: a})
	}
	done := make(chan struct{})
	go func() {
		defer close(done)
		_, _ = deploy(cl, r.opts())
	}()
	deadline := time.Now().Add(10 * time.Second)
	for !cl.Rec.Crashed() && time.Now().Before(deadline) {
		select {
		case <-done:
			deadline = time.Now()
		default:
			time.Sleep(200 * time.Microsecond)
		}
	}
	if !cl.Rec.Crashed() {
		cl.Quiesce()
		cl.SetPlan(ckit.Plan{})
		return nil
	}
	settle(cl, 5*time.Second)
	evs := cl.Trace()
	crashSnap := cl.Snapshot()
	pend := cl.WAL.Pending()
	rec := map[string][]int64{}
	for _, w := range crashSnap.Workloads {
		rec[w.ID] = flat(w.Res)
	}
	steps := stepsOf(evs, x, r.nodes, rec)
	crashed := absState(crashSnap, x, pendingOf(pend, x, r.nodes))
	cl.Crash()
	cl.Reopen()
	watchInfra(cl)
	cl.C.DisasterRecover(cl.Ctx())
	cl.Quiesce()
	final := cl.Snapshot()
	left := walLeft(r.t, cl, x)
	return &crashCase{ID: id, Kind: "crash", Shape: r.shape, Tag: r.tag, At: addrStr(a), Nodes: r.nodes, IDs: nil,
		Pre: r.pre, Trace: steps, Crashed: crashed, Impl: absState(final, x, left)}
}

func finishIDs(c *crashCase) {
	seen := map[int]bool{}
	add := func(i int) {
		if !seen[i] {
			seen[i] = true
			c.IDs = append(c.IDs, i)
		}
	}
	for _, st := range []stJ{c.Pre, c.Crashed, c.Impl} {
		for _, w := range st.Wls {
			add(w.ID)
		}
		for _, ct := range st.Cts {
			add(ct.ID)
		}
	}
	for _, s := range c.Trace {
		if s.ID != 0 {
			add(s.ID)
		}
	}
	sort.Ints(c.IDs)
}

func crashShapes() []crashShape {
	if !hx.Thorough() {
		return []crashShape{{Nodes: 2, Count: 3, Prior: 1, Bind: true, Strategy: "AUTO"}, {Nodes: 1, Count: 1, Prior: 0, Bind: false, Strategy: "AUTO"},
			// a LARGE pod: the allocate-workload event lists 24 candidate nodes, every one must be repaired
			{Nodes: 24, Count: 1, Prior: 0, Bind: false, Strategy: "EACH", Sample: 4}}
	}
	out := []crashShape{{Nodes: 24, Count: 1, Strategy: "EACH", Sample: 6}, {Nodes: 30, Count: 40, Prior: 3, Strategy: "AUTO", Sample: 6}}
	for n := 1; n <= 3; n++ {
		for c := 1; c <= 3; c++ {
			for _, prior := range []int{0, 2} {
				out = append(out, crashShape{Nodes: n, Count: c, Prior: prior, Bind: (n+c+prior)%2 == 0, Strategy: []string{"AUTO", "FILL", "EACH"}[(n+c)%3]})
			}
		}
	}
	return out
}

func genCrash(t *testing.T, out *hx.Out, budget int) {
	r0 := hx.NewRng(hx.Seed())
	shapes := crashShapes()
	if hx.Thorough() {
		hx.Shuffle(r0, shapes)
	}
	n := 0
	for si, sh := range shapes {
		if n >= budget {
			break
		}
		if sh.Strategy == "EACH" {
			sh.Count = 1 // EACH deploys Count per node
		}
		rig := newCrashRig(t, sh, fmt.Sprintf("s%d", si))
		pts := rig.crashPoints()
		first := pts[1]
		if sh.Sample > 0 {
			pts = samplePoints(pts, sh.Sample)
		}
		for pi, a := range pts {
			if n >= budget {
				break
			}
			emitted := false
			emitGuarded(t, out, func() any {
				c := rig.crashAt(a, first, fmt.Sprintf("crash-%d-%d", si, pi))
				if c == nil {
					return nil
				}
				finishIDs(c)
				emitted = true
				return c
			})
			if emitted {
				n++
			}
		}
		rig.cl.Close()
	}
}

// samplePoints picks a few crash points of a large deployment: after the last marker was created
// (every node allocated, nothing recorded yet), after the first container / first record, and evenly spread ones.
func samplePoints(pts []*ckit.Addr, k int) []*ckit.Addr {
	out := []*ckit.Addr{}
	lastOf := func(kind string) *ckit.Addr {
		var r *ckit.Addr
		for _, a := range pts {
			if a != nil && a.Kind == kind {
				r = a
			}
		}
		return r
	}
	firstOf := func(kind string) *ckit.Addr {
		for _, a := range pts {
			if a != nil && a.Kind == kind {
				return a
			}
		}
		return nil
	}
	for _, a := range []*ckit.Addr{lastOf("storeCreateProcessing"), firstOf("walLog:create-workload"), firstOf("storeAddWorkload"), lastOf("storeAddWorkload")} {
		if a != nil && len(out) < k {
			out = append(out, a)
		}
	}
	for i := 1; len(out) < k && i < k; i++ {
		out = append(out, pts[i*len(pts)/k])
	}
	return out
}

func replayCrash(t *testing.T, out *hx.Out, path string) {
	f, err := os.Open(path)
	fatalIf(t, err, "open replay")
	defer f.Close()
	sc := bufio.NewScanner(f)
	sc.Buffer(make([]byte, 1<<20), 1<<26)
	i := 0
	for sc.Scan() {
		var c crashCase
		if json.Unmarshal(sc.Bytes(), &c) != nil || c.Kind != "crash" {
			continue
		}
		tag := c.Tag
		if tag == "" && len(c.Nodes) > 0 && len(c.Nodes[0]) > 2 {
			tag = c.Nodes[0][2:] // older replay files: node names are n<k><tag>
		}
		if tag == "" {
			tag = fmt.Sprintf("r%d", i)
		}
		rig := newCrashRig(t, c.Shape, tag)
		pts := rig.crashPoints()
		// the map order of nodes may differ between runs: retry a few times to reach the address
		var got *crashCase
		for try := 0; try < 3 && got == nil; try++ {
			got = rig.crashAt(parseAddr(c.At), pts[1], c.ID)
		}
		if got != nil {
			finishIDs(got)
			out.Emit(got)
		}
		rig.cl.Close()
		i++
	}
}
