//go:build verif

package cluster2

import (
	"bufio"
	"context"
	"encoding/json"
	"errors"
	"fmt"
	"os"
	"sync"
	"testing"
	"time"

	"github.com/projecteru2/core/selfmon"
	"github.com/projecteru2/core/store"
	"github.com/projecteru2/core/types"

	"verifharness/ckit"
	"verifharness/hx"
)

// ---- C28: heartbeat lapse with the node status watcher of selfmon ----

type ndNode struct {
	Name string `json:"name"`
	Test bool   `json:"test"`
}

type ndEvt struct {
	E       string `json:"e"` // heartbeat | lapse | create | report | startWatcher | standby | bypass
	N       string `json:"n,omitempty"`
	ID      int    `json:"id,omitempty"`
	How     string `json:"how,omitempty"` // lapse: delete | ttl
	Running bool   `json:"running"`       // report: the status the agent reports
	Healthy bool   `json:"healthy"`
}

type ndCase struct {
	ID     string         `json:"id"`
	Kind   string         `json:"kind"`
	Nodes  []ndNode       `json:"nodes"`
	Script []ndEvt        `json:"script"`
	Impl   map[string]any `json:"impl"`
}

// ndStore decorates the store of the watcher's Calcium: it can break the node-status stream
// (the watch ends, the channel closes), fail one UpdateNodes of a node, and it counts the
// UpdateNodes calls (= end of a SetNode{WorkloadsDown} handler) per node.
type ndStore struct {
	store.Store
	mu       sync.Mutex
	cancels  []context.CancelFunc
	failNext map[string]bool
	updates  map[string]int
}

func (s *ndStore) NodeStatusStream(ctx context.Context) chan *types.NodeStatus {
	ictx, cancel := context.WithCancel(ctx)
	s.mu.Lock()
	s.cancels = append(s.cancels, cancel)
	s.mu.Unlock()
	return s.Store.NodeStatusStream(ictx) // the etcd store closes the channel when its watch context ends
}

// breakStreams ends every open watch: the watcher sees its message channel closed
func (s *ndStore) breakStreams() {
	s.mu.Lock()
	cs := s.cancels
	s.cancels = nil
	s.mu.Unlock()
	for _, c := range cs {
		c()
	}
}

func (s *ndStore) UpdateNodes(ctx context.Context, nodes ...*types.Node) error {
	name := ""
	if len(nodes) > 0 && nodes[0] != nil {
		name = nodes[0].Name
	}
	s.mu.Lock()
	fail := s.failNext[name]
	delete(s.failNext, name)
	s.mu.Unlock()
	var err error
	if fail {
		err = errors.New("verif: injected UpdateNodes failure")
	} else {
		err = s.Store.UpdateNodes(ctx, nodes...)
	}
	s.mu.Lock()
	s.updates[name]++
	s.mu.Unlock()
	return err
}

func (s *ndStore) seen(name string) int {
	s.mu.Lock()
	defer s.mu.Unlock()
	return s.updates[name]
}

func wlStatus(cl *ckit.Cluster, wid string) string {
	st, err := cl.Store.Store.GetWorkloadStatus(cl.Ctx(), wid)
	if err != nil || st == nil {
		return "none"
	}
	b := func(x bool) string {
		if x {
			return "1"
		}
		return "0"
	}
	return b(st.Running) + b(st.Healthy)
}

func runNodeDown(t *testing.T, c *ndCase, tag string) {
	cl := newCluster(t, ckit.Options{})
	defer cl.Close()
	cl.Wipe()
	pod := "p" + tag
	addPod(cl, pod)
	name := func(n string) string { return n + tag }
	nodes := map[string]*types.Node{}
	for _, nd := range c.Nodes {
		o := cl.AddNodeOptions(ckit.NodeSpec{Name: name(nd.Name), Pod: pod, CPU: 8, Memory: 16 << 30})
		o.Test = nd.Test
		nodes[nd.Name] = addNodeOpts(cl, o)
	}
	raw := cl.Store.Store
	dec := &ndStore{Store: cl.C.VerifStore(), failNext: map[string]bool{}, updates: map[string]int{}}
	cl.C.VerifSetStore(dec)
	wcfg := cl.Cfg
	wcfg.ConnectionTimeout = 500 * time.Millisecond // pause of the watcher's run loop between two activations
	base := map[string]int{}                        // UpdateNodes count per node when the current wait started
	wids := map[int]string{}
	onNode := map[string][]int{}
	var cancel context.CancelFunc
	var releaseKey func()
	active := false
	hb := map[string]bool{}
	// the handler (SetNode{WorkloadsDown}) ends with store.UpdateNodes(n): wait for that call and for the reports
	waitDown := func(n string) {
		deadline := time.Now().Add(3 * time.Second)
		for time.Now().Before(deadline) {
			all := dec.seen(name(n)) > base[n] && cl.Rec.InFlight() == 0
			for _, id := range onNode[n] {
				if wlStatus(cl, wids[id]) != "00" {
					all = false
				}
			}
			if all {
				return
			}
			time.Sleep(5 * time.Millisecond)
		}
	}
	for _, e := range c.Script {
		switch e.E {
		case "heartbeat":
			fatalIf(t, raw.SetNodeStatus(cl.Ctx(), nodes[e.N], 300), "heartbeat")
			hb[e.N] = true
		case "failUpdate":
			dec.mu.Lock()
			dec.failNext[name(e.N)] = true // the next store.UpdateNodes of this node fails (single fault)
			dec.mu.Unlock()
		case "breakStream":
			// the node-status stream ends (compaction, connection reset): the watcher must give the key up,
			// come back after ConnectionTimeout and scan again
			dec.breakStreams()
			active = false
		case "lapse":
			had := hb[e.N]
			base[e.N] = dec.seen(name(e.N))
			if e.How == "ttl" {
				fatalIf(t, raw.SetNodeStatus(cl.Ctx(), nodes[e.N], 1), "short heartbeat")
				had = true
				deadline := time.Now().Add(6 * time.Second)
				for time.Now().Before(deadline) {
					if _, err := raw.GetNodeStatus(cl.Ctx(), name(e.N)); err != nil {
						break
					}
					time.Sleep(20 * time.Millisecond)
				}
			} else {
				fatalIf(t, raw.SetNodeStatus(cl.Ctx(), nodes[e.N], -1), "delete status")
			}
			hb[e.N] = false
			if active && had {
				waitDown(e.N)
			}
		case "create":
			msgs, err := deploy(cl, deployOpts("app", "web", pod, 1, "AUTO", cpumemReq(0.5, 1<<28, false), []string{name(e.N)}))
			fatalIf(t, err, "deploy")
			if len(msgs) != 1 || msgs[0].Error != nil {
				t.Fatalf("deploy on %s: %+v", e.N, msgs)
			}
			wids[e.ID] = msgs[0].WorkloadID
			onNode[e.N] = append(onNode[e.N], e.ID)
		case "report":
			fatalIf(t, raw.SetWorkloadStatus(cl.Ctx(), &types.StatusMeta{ID: wids[e.ID], Running: e.Running, Healthy: e.Healthy,
				Appname: "app", Entrypoint: "web", Nodename: name(nodeOf(onNode, e.ID))}, 0), "report")
		case "bypass":
			_, err := cl.C.SetNode(cl.Ctx(), &types.SetNodeOptions{Nodename: name(e.N), Bypass: types.TriTrue})
			fatalIf(t, err, "bypass")
		case "standby":
			// another instance holds /selfmon/active; OUR watcher process starts and stays standby
			var err error
			_, releaseKey, err = raw.StartEphemeral(cl.Ctx(), selfmon.ActiveKey, 60*time.Second)
			fatalIf(t, err, "hold active key")
			var ctx context.Context
			ctx, cancel = context.WithCancel(cl.Ctx())
			go selfmon.RunNodeStatusWatcher(ctx, wcfg, cl.C, t)
			time.Sleep(300 * time.Millisecond) // let it try (and fail) to register, and let any start-up work finish
			cl.Quiesce()
		case "startWatcher":
			for _, nd := range c.Nodes {
				base[nd.Name] = dec.seen(name(nd.Name))
			}
			if e.How == "auto" {
				// re-activation of the SAME watcher after its stream broke: first the key disappears (<= 1.5 s), then it is taken again
				d1 := time.Now().Add(1500 * time.Millisecond)
				for time.Now().Before(d1) {
					if r, err := cl.Etcd.Get(cl.Ctx(), selfmon.ActiveKey); err == nil && len(r.Kvs) == 0 {
						break
					}
					time.Sleep(5 * time.Millisecond)
				}
			} else if releaseKey != nil {
				// failover: the other instance goes away, our standby watcher becomes active (it retries every second)
				releaseKey()
				releaseKey = nil
				time.Sleep(50 * time.Millisecond)
			} else {
				var ctx context.Context
				ctx, cancel = context.WithCancel(cl.Ctx())
				go selfmon.RunNodeStatusWatcher(ctx, wcfg, cl.C, t)
			}
			// wait until the watcher holds the active key, then give init + the watch a moment
			deadline := time.Now().Add(5 * time.Second)
			for time.Now().Before(deadline) {
				if r, err := cl.Etcd.Get(cl.Ctx(), selfmon.ActiveKey); err == nil && len(r.Kvs) > 0 {
					break
				}
				time.Sleep(5 * time.Millisecond)
			}
			time.Sleep(150 * time.Millisecond)
			for _, nd := range c.Nodes {
				if !nd.Test && !hb[nd.Name] {
					waitDown(nd.Name)
				}
			}
			active = true
		}
	}
	time.Sleep(30 * time.Millisecond)
	cl.Quiesce()
	st := map[string]any{}
	for id, w := range wids {
		st[fmt.Sprint(id)] = wlStatus(cl, w)
	}
	c.Impl = map[string]any{"status": st}
	if cancel != nil {
		cancel()
		deadline := time.Now().Add(5 * time.Second)
		for time.Now().Before(deadline) {
			if r, err := cl.Etcd.Get(context.Background(), selfmon.ActiveKey); err == nil && len(r.Kvs) == 0 {
				break
			}
			time.Sleep(10 * time.Millisecond)
		}
	}
}

func nodeOf(onNode map[string][]int, id int) string {
	for n, l := range onNode {
		for _, i := range l {
			if i == id {
				return n
			}
		}
	}
	return ""
}

func genNodeDownScript(r *hx.Rng) ([]ndNode, []ndEvt) {
	nn := r.Range(1, 3)
	nodes := []ndNode{}
	names := []string{}
	for i := 1; i <= nn; i++ {
		nodes = append(nodes, ndNode{Name: fmt.Sprintf("n%d", i), Test: r.Chance(15)})
		names = append(names, nodes[i-1].Name)
	}
	evs := []ndEvt{}
	for _, n := range names { // every agent starts by reporting its node
		if r.Chance(85) {
			evs = append(evs, ndEvt{E: "heartbeat", N: n})
		}
	}
	nextID := 1
	created := []int{}
	for _, n := range names { // a few workloads that their agents report up
		for k := r.Intn(3); k > 0; k-- {
			evs = append(evs, ndEvt{E: "create", N: n, ID: nextID})
			if r.Chance(85) {
				evs = append(evs, ndEvt{E: "report", ID: nextID, Running: r.Chance(75), Healthy: r.Chance(60)})
			}
			created = append(created, nextID)
			nextID++
		}
	}
	startAt := r.Intn(7)
	total := r.Range(4, 9)
	standbyAt := -1
	if r.Chance(30) && startAt > 0 {
		standbyAt = r.Intn(startAt) // failover: our watcher is standby from here until its activation at startAt
	}
	for _, n := range names {
		if r.Chance(25) {
			evs = append(evs, ndEvt{E: "bypass", N: n})
		}
	}
	ttlUsed := false
	broke := false
	for i := 0; i < total; i++ {
		if i == standbyAt {
			evs = append(evs, ndEvt{E: "standby"})
		}
		if i == startAt {
			evs = append(evs, ndEvt{E: "startWatcher"})
		}
		switch k := r.Intn(10); {
		case k < 4:
			evs = append(evs, ndEvt{E: "create", N: hx.Pick(r, names...), ID: nextID})
			created = append(created, nextID)
			nextID++
		case k < 6 && len(created) > 0:
			evs = append(evs, ndEvt{E: "report", ID: hx.Pick(r, created...), Running: r.Chance(75), Healthy: r.Chance(60)})
		case k < 9:
			if i > startAt && r.Chance(20) {
				evs = append(evs, ndEvt{E: "failUpdate", N: hx.Pick(r, names...)})
			}
			if i > startAt && standbyAt < 0 && !broke && r.Chance(15) {
				broke = true
				evs = append(evs, ndEvt{E: "breakStream"}, ndEvt{E: "lapse", N: hx.Pick(r, names...), How: "delete"}, ndEvt{E: "startWatcher", How: "auto"})
				continue
			}
			how := "delete"
			if !ttlUsed && r.Chance(12) {
				how, ttlUsed = "ttl", true
			}
			evs = append(evs, ndEvt{E: "lapse", N: hx.Pick(r, names...), How: how})
		default:
			evs = append(evs, ndEvt{E: "heartbeat", N: hx.Pick(r, names...)})
		}
	}
	if startAt >= total {
		evs = append(evs, ndEvt{E: "startWatcher"})
	}
	return nodes, evs
}

func manyWorkloads(n string, k int) []ndEvt {
	out := []ndEvt{}
	for i := 1; i <= k; i++ {
		out = append(out, ndEvt{E: "create", N: n, ID: i}, ndEvt{E: "report", ID: i, Running: i%3 != 0, Healthy: i%2 == 0})
	}
	return out
}

func nodeDownCorpus() []ndCase {
	n2 := []ndNode{{Name: "n1"}, {Name: "n2"}}
	up := func(id int) ndEvt { return ndEvt{E: "report", ID: id, Running: true, Healthy: true} }
	hb := func(n string) ndEvt { return ndEvt{E: "heartbeat", N: n} }
	lapse := func(n string) ndEvt { return ndEvt{E: "lapse", N: n, How: "delete"} }
	mk := func(n string, id int) ndEvt { return ndEvt{E: "create", N: n, ID: id} }
	start := ndEvt{E: "startWatcher"}
	return []ndCase{
		// SECOND lapse of the same node inside one active-watcher session: lapse (handled), the node heartbeats
		// again and its workloads are reported running again, it lapses again
		{Nodes: []ndNode{{Name: "n1"}}, Script: []ndEvt{hb("n1"), mk("n1", 1), mk("n1", 2), up(1), up(2), start, lapse("n1"), hb("n1"), up(1), up(2), lapse("n1")}},
		// the same with a new workload created on the node between the two lapses
		{Nodes: []ndNode{{Name: "n1"}}, Script: []ndEvt{hb("n1"), mk("n1", 1), up(1), start, lapse("n1"), hb("n1"), up(1), mk("n1", 2), up(2), lapse("n1")}},
		// two nodes lapsing alternately, twice each
		{Nodes: n2, Script: []ndEvt{hb("n1"), hb("n2"), mk("n1", 1), mk("n2", 2), up(1), up(2), start, lapse("n1"), lapse("n2"), hb("n1"), up(1), lapse("n1"), hb("n2"), up(2), lapse("n2")}},
		// second lapse during a hand-over: handled lapse, recovery, the stream breaks, the node lapses in the gap, the watcher comes back
		{Nodes: n2, Script: []ndEvt{hb("n1"), hb("n2"), mk("n1", 1), mk("n2", 2), up(1), up(2), start, lapse("n1"), hb("n1"), up(1),
			{E: "breakStream"}, lapse("n1"), {E: "startWatcher", How: "auto"}}},
		// lapse during a failover (standby → active) of a node that had already lapsed and recovered before
		{Nodes: []ndNode{{Name: "n1"}}, Script: []ndEvt{hb("n1"), mk("n1", 1), up(1), lapse("n1"), hb("n1"), {E: "standby"}, lapse("n1"), start}},
		// a bypassed (non-test) node whose heartbeat lapsed before the watcher became active
		{Nodes: []ndNode{{Name: "n1"}}, Script: []ndEvt{{E: "heartbeat", N: "n1"}, {E: "create", N: "n1", ID: 1}, up(1), {E: "bypass", N: "n1"}, {E: "lapse", N: "n1", How: "delete"}, {E: "startWatcher"}}},
		// workloads whose last report was "running, unhealthy" / "stopped, healthy": all must become 00
		{Nodes: []ndNode{{Name: "n1"}}, Script: []ndEvt{{E: "heartbeat", N: "n1"}, {E: "create", N: "n1", ID: 1}, {E: "create", N: "n1", ID: 2}, {E: "create", N: "n1", ID: 3},
			{E: "report", ID: 1, Running: true, Healthy: false}, {E: "report", ID: 2, Running: false, Healthy: true}, up(3), {E: "startWatcher"}, {E: "lapse", N: "n1", How: "delete"}}},
		// the node-status stream breaks; a heartbeat expires while no watch exists; the watcher comes back and must scan
		{Nodes: n2, Script: []ndEvt{{E: "heartbeat", N: "n1"}, {E: "heartbeat", N: "n2"}, {E: "create", N: "n1", ID: 1}, {E: "create", N: "n2", ID: 2}, up(1), up(2),
			{E: "startWatcher"}, {E: "breakStream"}, {E: "lapse", N: "n1", How: "delete"}, {E: "startWatcher", How: "auto"}}},
		// the store update of the watcher's SetNode fails once: the workloads are still marked down
		{Nodes: []ndNode{{Name: "n1"}}, Script: []ndEvt{{E: "heartbeat", N: "n1"}, {E: "create", N: "n1", ID: 1}, {E: "create", N: "n1", ID: 2}, up(1), up(2),
			{E: "startWatcher"}, {E: "failUpdate", N: "n1"}, {E: "lapse", N: "n1", How: "delete"}}},
		// a node with many workloads (beyond a dozen): every one of them must be marked
		{Nodes: []ndNode{{Name: "n1"}}, Script: append(append([]ndEvt{{E: "heartbeat", N: "n1"}}, manyWorkloads("n1", 17)...), ndEvt{E: "startWatcher"}, ndEvt{E: "lapse", N: "n1", How: "delete"})},
		// failover: the lapse happens while our watcher is standby; its later activation must scan
		{Nodes: n2, Script: []ndEvt{{E: "heartbeat", N: "n1"}, {E: "heartbeat", N: "n2"}, {E: "create", N: "n1", ID: 1}, {E: "create", N: "n2", ID: 2}, up(1), up(2),
			{E: "standby"}, {E: "lapse", N: "n1", How: "delete"}, {E: "startWatcher"}}},
		{Nodes: n2, Script: []ndEvt{{E: "heartbeat", N: "n1"}, {E: "heartbeat", N: "n2"}, {E: "create", N: "n1", ID: 1}, {E: "create", N: "n1", ID: 2}, {E: "create", N: "n2", ID: 3},
			{E: "report", ID: 1, Running: true, Healthy: true}, {E: "report", ID: 2, Running: true, Healthy: true}, {E: "report", ID: 3, Running: true, Healthy: true}, {E: "startWatcher"}, {E: "lapse", N: "n1", How: "delete"}}},
		{Nodes: n2, Script: []ndEvt{{E: "heartbeat", N: "n1"}, {E: "heartbeat", N: "n2"}, {E: "create", N: "n1", ID: 1}, {E: "create", N: "n2", ID: 2},
			{E: "report", ID: 1, Running: true, Healthy: true}, {E: "report", ID: 2, Running: true, Healthy: true}, {E: "lapse", N: "n2", How: "delete"}, {E: "startWatcher"}}},
		{Nodes: []ndNode{{Name: "n1"}}, Script: []ndEvt{{E: "heartbeat", N: "n1"}, {E: "create", N: "n1", ID: 1}, {E: "report", ID: 1, Running: true, Healthy: true}, {E: "startWatcher"}, {E: "lapse", N: "n1", How: "ttl"}}},
		{Nodes: []ndNode{{Name: "n1", Test: true}, {Name: "n2"}}, Script: []ndEvt{{E: "create", N: "n1", ID: 1}, {E: "create", N: "n2", ID: 2}, {E: "report", ID: 1, Running: true, Healthy: true}, {E: "report", ID: 2, Running: true, Healthy: true}, {E: "startWatcher"}}},
	}
}

func genNodeDown(t *testing.T, out *hx.Out, budget int) {
	r := hx.NewRng(hx.Seed())
	cases := nodeDownCorpus()
	for len(cases) < budget {
		nodes, evs := genNodeDownScript(r)
		cases = append(cases, ndCase{Nodes: nodes, Script: evs})
	}
	for i := range cases {
		if i >= budget {
			break
		}
		i := i
		try := 0
		emitGuarded(t, out, func() any {
			try++
			c := cases[i]
			c.ID, c.Kind = fmt.Sprintf("nodedown-%d", i), "nodedown"
			runNodeDown(t, &c, fmt.Sprintf("d%dt%d", i, try))
			return c
		})
	}
}

func replayNodeDown(t *testing.T, out *hx.Out, path string) {
	f, err := os.Open(path)
	fatalIf(t, err, "open replay")
	defer f.Close()
	sc := bufio.NewScanner(f)
	sc.Buffer(make([]byte, 1<<20), 1<<26)
	i := 0
	for sc.Scan() {
		var c ndCase
		if json.Unmarshal(sc.Bytes(), &c) != nil || c.Kind != "nodedown" {
			continue
		}
		runNodeDown(t, &c, fmt.Sprintf("r%d", i))
		out.Emit(c)
		i++
	}
}
