// Correspondence harness for C27: real helium.New instances over the real etcd-backed store
// (ServiceStatusStream on embedded etcd, registrations through Store.RegisterService) with
// scripted subscribers (reading, not reading, cancelling) and Unsubscribe calls.
// A batch of helium instances shares one store and one global registration timeline; every
// instance has its own subscribers.  After every step the harness waits a little more than
// one push interval (1 s, the minimum the code allows) and records what every reading
// subscriber received last and which Unsubscribe calls have returned.
package mischelium

import (
	"bufio"
	"context"
	"encoding/json"
	"fmt"
	"os"
	"sort"
	"sync"
	"testing"
	"time"

	"verifharness/hx"

	"github.com/google/uuid"
	clientv3 "go.etcd.io/etcd/client/v3"

	"github.com/projecteru2/core/discovery/helium"
	enginefactory "github.com/projecteru2/core/engine/factory"
	"github.com/projecteru2/core/store"
	"github.com/projecteru2/core/store/etcdv3"
	"github.com/projecteru2/core/store/etcdv3/embedded"
	"github.com/projecteru2/core/store/etcdv3/meta"
	"github.com/projecteru2/core/types"
)

// txop is one write of a multi-key etcd transaction on /services/ (one watch response with several events)
type txop struct {
	Put string `json:"put,omitempty"`
	Del string `json:"del,omitempty"`
}

type step struct {
	Reg   string `json:"reg,omitempty"`   // global: register this address
	Dereg string `json:"dereg,omitempty"` // global: deregister this address
	Txn   []txop `json:"txn,omitempty"`   // global: one transaction writing several /services/ keys, in this order
	// global, first step only: registrations committed by the start hook while the instances' streams were
	// starting — one right after each stream's snapshot Get returned, one right after each Watch call returned
	Race []string `json:"race,omitempty"`
	Op   string   `json:"op,omitempty"` // sub | cancel | unsub | closewatch | ""
	Sid  int      `json:"sid,omitempty"`
	Mode string   `json:"mode,omitempty"` // reader | slow
	N    int      `json:"n,omitempty"`    // sub: subscribe N subscribers with ids Sid, Sid+1, … (default 1)
	// global: stay this long in the step and count the statuses every reading subscriber receives
	// meanwhile — every turn of the loop (one per push interval at least) must reach every live subscriber
	Hold int `json:"hold_ms,omitempty"`
}

type obs struct {
	Readers map[string][]string        `json:"readers"`          // sid -> last received addresses (sorted); absent = nothing yet
	Unsubs  map[string]map[string]bool `json:"unsubs"`           // sid -> {done, closed}
	Pushes  map[string]int             `json:"pushes,omitempty"` // hold steps: sid -> statuses received during the step
}

type kase struct {
	ID     string `json:"id"`
	Steps  []step `json:"steps"`
	WaitMs int    `json:"wait_ms"`
	Impl   any    `json:"impl,omitempty"`
}

type subscriber struct {
	mu      sync.Mutex
	id      uuid.UUID
	ch      <-chan types.ServiceStatus
	cancel  context.CancelFunc
	mode    string
	stop    chan struct{}
	last    []string
	has     bool
	closed  bool
	unsub   bool
	done    bool
	count   int // statuses received
	mark    int // count at the beginning of the current step
	stopped bool
}

func (s *subscriber) read() {
	for {
		select {
		case st, ok := <-s.ch:
			s.mu.Lock()
			if !ok {
				s.closed = true
				s.mu.Unlock()
				return
			}
			a := append([]string{}, st.Addresses...)
			sort.Strings(a)
			s.last, s.has = a, true
			s.count++
			s.mu.Unlock()
		case <-s.stop:
			return
		}
	}
}

// hookKV is the store's real etcd KV; when armed it commits a registration immediately after a Get on
// /services/ has returned and another one immediately after a Watch on /services/ has returned, i.e.
// at the two interleaving points of ServiceStatusStream's start (a core coming up while another core's
// discovery is starting).
type hookKV struct {
	meta.KV
	mu     sync.Mutex
	armed  bool
	nGet   int
	nWatch int
	commit func(addr string)
}

func raceGetAddr(i int) string   { return fmt.Sprintf("10.0.2.%d:6001", i) }
func raceWatchAddr(i int) string { return fmt.Sprintf("10.0.3.%d:6002", i) }

func (h *hookKV) Get(ctx context.Context, key string, opts ...clientv3.OpOption) (*clientv3.GetResponse, error) {
	resp, err := h.KV.Get(ctx, key, opts...)
	if key == "/services/" {
		h.mu.Lock()
		fire := h.armed
		if fire {
			h.nGet++
		}
		n := h.nGet
		h.mu.Unlock()
		if fire {
			h.commit(raceGetAddr(n))
		}
	}
	return resp, err
}

func (h *hookKV) Watch(ctx context.Context, key string, opts ...clientv3.OpOption) clientv3.WatchChan {
	ch := h.KV.Watch(ctx, key, opts...)
	if key == "/services/" {
		h.mu.Lock()
		fire := h.armed
		if fire {
			h.nWatch++
		}
		n := h.nWatch
		h.mu.Unlock()
		if fire {
			h.commit(raceWatchAddr(n))
		}
	}
	return ch
}

// relayStore is the real store, except that the channel of ServiceStatusStream is relayed through
// a channel the harness can close: this is what helium sees when the etcd watch fails
// (ServiceStatusStream returns on resp.Err() / a closed watch channel and closes its channel).
type relayStore struct {
	store.Store
	mu   sync.Mutex
	kill chan struct{}
}

func (r *relayStore) ServiceStatusStream(ctx context.Context) (chan []string, error) {
	src, err := r.Store.ServiceStatusStream(ctx)
	if err != nil {
		return nil, err
	}
	out := make(chan []string)
	go func() {
		defer close(out)
		for {
			select {
			case v, ok := <-src:
				if !ok {
					return
				}
				select {
				case out <- v:
				case <-r.kill:
					go func() { // keep the real stream from blocking
						for range src {
						}
					}()
					return
				}
			case <-r.kill:
				go func() {
					for range src {
					}
				}()
				return
			}
		}
	}()
	return out, nil
}

type instance struct {
	h     *helium.Helium
	relay *relayStore
	subs  map[int]*subscriber
	dead  bool // the watch has been closed
	hold  int  // hold_ms of the current step
}

func (in *instance) apply(ctx context.Context, st step) {
	switch st.Op {
	case "closewatch":
		in.dead = true
		in.relay.mu.Lock()
		select {
		case <-in.relay.kill:
		default:
			close(in.relay.kill)
		}
		in.relay.mu.Unlock()
	case "sub":
		n := st.N
		if n < 1 {
			n = 1
		}
		for j := 0; j < n; j++ {
			sctx, cancel := context.WithCancel(ctx)
			id, ch := in.h.Subscribe(sctx)
			s := &subscriber{id: id, ch: ch, cancel: cancel, mode: st.Mode, stop: make(chan struct{})}
			in.subs[st.Sid+j] = s
			if st.Mode == "reader" {
				go s.read()
			}
		}
	case "cancel":
		if s := in.subs[st.Sid]; s != nil {
			s.cancel()
			s.mu.Lock()
			if !s.stopped {
				s.stopped = true
				close(s.stop)
			}
			s.mu.Unlock()
		}
	case "unsub":
		if s := in.subs[st.Sid]; s != nil {
			s.mu.Lock()
			s.unsub = true
			s.mu.Unlock()
			go func() {
				in.h.Unsubscribe(s.id)
				s.mu.Lock()
				s.done = true
				s.mu.Unlock()
			}()
		}
	}
}

// judged reports whether the harness expects this instance to converge now: no subscriber on which the
// loop gets stuck (never reading and not cancelled) and the watch has not been closed.
func (in *instance) judged() bool {
	if in.dead {
		return false
	}
	for _, s := range in.subs {
		s.mu.Lock()
		stuck := s.mode == "slow" && !s.stopped
		s.mu.Unlock()
		if stuck {
			return false
		}
	}
	return true
}

// satisfied: every reading subscriber's last status is the registered set and every Unsubscribe has
// returned with its channel closed.
func (in *instance) satisfied(reg []string) bool {
	o := in.observe()
	for sid, s := range in.subs {
		s.mu.Lock()
		live := s.mode == "reader" && !s.stopped && !s.unsub
		s.mu.Unlock()
		if live {
			last, ok := o.Readers[fmt.Sprint(sid)]
			if !ok || !sameStrings(last, reg) {
				return false
			}
			if in.hold > 0 && o.Pushes[fmt.Sprint(sid)] < minPushes(in.hold) {
				return false
			}
		}
	}
	for _, u := range o.Unsubs {
		if !u["done"] || !u["closed"] {
			return false
		}
	}
	return true
}

// minPushes: during hold_ms at least hold/interval ticks fire; one may be lost at the window's edges
func minPushes(holdMs int) int { return holdMs/1000 - 1 }

func sameStrings(a, b []string) bool {
	if len(a) != len(b) {
		return false
	}
	for i := range a {
		if a[i] != b[i] {
			return false
		}
	}
	return true
}

func (in *instance) observe() obs {
	o := obs{Readers: map[string][]string{}, Unsubs: map[string]map[string]bool{}}
	if in.hold > 0 {
		o.Pushes = map[string]int{}
	}
	for sid, s := range in.subs {
		s.mu.Lock()
		key := fmt.Sprint(sid)
		if in.hold > 0 && s.mode == "reader" && !s.stopped && !s.unsub {
			o.Pushes[key] = s.count - s.mark
		}
		if s.mode == "reader" && !s.stopped && !s.unsub && s.has {
			o.Readers[key] = s.last
		}
		if s.unsub {
			closed := s.closed
			if s.done && !closed && (s.mode != "reader" || s.stopped) {
				select {
				case _, ok := <-s.ch:
					closed = !ok
				default:
				}
			}
			o.Unsubs[key] = map[string]bool{"done": s.done, "closed": closed}
		}
		s.mu.Unlock()
	}
	return o
}

// runBatch executes the cases of one batch (same length, same global reg/dereg timeline) concurrently.
// runBatch executes the cases of one batch concurrently and returns the indexes of the cases in which an
// instance the harness expected to converge did not do so before the deadline.
func runBatch(t *testing.T, m *etcdv3.Mercury, cli *clientv3.Client, hook *hookKV, ks []*kase) []int {
	ctx, cancel := context.WithCancel(context.Background())
	defer cancel()
	ins := make([]*instance, len(ks))
	txnKeys := map[string]bool{}
	if len(ks[0].Steps[0].Race) > 0 {
		hook.mu.Lock()
		hook.armed, hook.nGet, hook.nWatch = true, 0, 0
		hook.commit = func(addr string) {
			if _, err := cli.Put(context.Background(), "/services/"+addr, ""); err != nil {
				t.Logf("race put: %v", err)
			}
		}
		hook.mu.Unlock()
		for _, a := range ks[0].Steps[0].Race {
			txnKeys[a] = true
		}
	}
	for i := range ks {
		rs := &relayStore{Store: m, kill: make(chan struct{})}
		ins[i] = &instance{h: helium.New(ctx, types.GRPCConfig{ServiceDiscoveryPushInterval: time.Second}, rs), relay: rs, subs: map[int]*subscriber{}}
	}
	unreg := map[string]func(){}
	defer func() {
		for _, f := range unreg {
			f()
		}
		for k := range txnKeys {
			cli.Delete(context.Background(), "/services/"+k) //nolint
		}
		time.Sleep(100 * time.Millisecond)
	}()
	results := make([][]obs, len(ks))
	failed := make([]bool, len(ks))
	reg := map[string]bool{}
	for _, a := range ks[0].Steps[0].Race {
		reg[a] = true
	}
	nsteps := len(ks[0].Steps)
	wait := time.Duration(ks[0].WaitMs) * time.Millisecond
	deadline := time.Duration(hx.EnvInt("VERIF_HELIUM_DEADLINE_MS", 6000)) * time.Millisecond
	time.Sleep(300 * time.Millisecond) // let every stream deliver its initial snapshot
	hook.mu.Lock()
	hook.armed = false
	hook.mu.Unlock()
	if race := ks[0].Steps[0].Race; len(race) > 0 {
		// a replay runs one instance per batch: commit the registrations its hooks did not produce, so
		// that the registered set is the recorded one
		for _, a := range race {
			if resp, err := cli.Get(ctx, "/services/"+a); err == nil && resp.Count == 0 {
				cli.Put(ctx, "/services/"+a, "") //nolint
			}
		}
	}
	for si := 0; si < nsteps; si++ {
		g := ks[0].Steps[si]
		if g.Reg != "" {
			reg[g.Reg] = true
			if _, f, err := m.RegisterService(ctx, g.Reg, 30*time.Second); err == nil {
				unreg[g.Reg] = f
			} else {
				t.Logf("register %s: %v", g.Reg, err)
			}
		}
		if g.Dereg != "" {
			delete(reg, g.Dereg)
			if f := unreg[g.Dereg]; f != nil {
				f()
				delete(unreg, g.Dereg)
			}
		}
		if len(g.Txn) > 0 {
			ops := []clientv3.Op{}
			for _, o := range g.Txn {
				if o.Put != "" {
					ops = append(ops, clientv3.OpPut("/services/"+o.Put, ""))
					txnKeys[o.Put] = true
					reg[o.Put] = true
				} else {
					ops = append(ops, clientv3.OpDelete("/services/"+o.Del))
					delete(reg, o.Del)
				}
			}
			if _, err := cli.Txn(ctx).Then(ops...).Commit(); err != nil {
				t.Logf("txn: %v", err)
			}
		}
		for i, k := range ks {
			ins[i].apply(ctx, k.Steps[si])
			ins[i].hold = g.Hold
			for _, sb := range ins[i].subs {
				sb.mu.Lock()
				sb.mark = sb.count
				sb.mu.Unlock()
			}
		}
		hold := time.Duration(g.Hold) * time.Millisecond
		// No fixed sleep and no judgement from one sample: poll until every instance that is expected to
		// converge has done so (every reading subscriber's last status = the registered set, every
		// Unsubscribe returned and its channel closed) or a deadline of several push intervals passes.
		// Instances that are expected NOT to converge (stuck subscriber, closed watch) are observed after
		// at least `wait` (a little more than one interval).
		want := []string{}
		for a := range reg {
			want = append(want, a)
		}
		sort.Strings(want)
		start := time.Now()
		for {
			time.Sleep(50 * time.Millisecond)
			el := time.Since(start)
			all, unjudged := true, false
			for i := range ks {
				if !ins[i].judged() {
					unjudged = true
				} else if !ins[i].satisfied(want) {
					all = false
				}
			}
			if hold > 0 {
				if el >= hold {
					break
				}
				continue
			}
			if el >= deadline || (all && el >= 300*time.Millisecond && (!unjudged || el >= wait)) {
				break
			}
		}
		for i := range ks {
			if ins[i].judged() && !ins[i].satisfied(want) {
				failed[i] = true
			}
			results[i] = append(results[i], ins[i].observe())
		}
	}
	bad := []int{}
	for i, k := range ks {
		if failed[i] {
			bad = append(bad, i)
		}
		k.Impl = map[string]any{"obs": results[i]}
		// release everything this instance may still be blocked on
		for _, s := range ins[i].subs {
			s.cancel()
		}
	}
	return bad
}

var addrs = []string{"10.0.0.1:5001", "10.0.0.2:5001", "10.0.0.3:5001"}

// addresses written directly by multi-key transactions (no lease, no heartbeat)
var txAddrs = []string{"10.0.1.1:5001", "10.0.1.2:5002", "10.0.1.3:5003", "10.0.1.4:5004"}

// global registration timeline of a batch
// genTimeline: every timeline starts by populating the registered set, contains one phase in which
// the set is EMPTY (the last registration disappears while subscribers are reading) and re-populates
// it afterwards; the remaining steps are free.
func genTimeline(r *hx.Rng, n int) []step {
	reg := map[string]bool{}
	tx := map[string]bool{}
	tl := make([]step, n)
	viaTxn := r.Chance(65)
	empty := r.Range(1, n-2) // step at which the set becomes empty; step empty+1 re-populates
	for i := range tl {
		switch {
		case i == 0 && viaTxn:
			tl[i].Txn = []txop{{Put: txAddrs[0]}, {Put: txAddrs[1]}}
			tx[txAddrs[0]], tx[txAddrs[1]] = true, true
			continue
		case i == 0:
			tl[i].Reg = addrs[0]
			reg[addrs[0]] = true
			continue
		case i < empty && !viaTxn: // keep a single registration so that one deregistration empties the set
			continue
		case i == empty && len(reg) == 0:
			ops := []txop{}
			for _, a := range txAddrs {
				if tx[a] {
					ops = append(ops, txop{Del: a})
					delete(tx, a)
				}
			}
			if len(ops) == 1 {
				ops = append(ops, txop{Del: txAddrs[3]})
			}
			tl[i].Txn = ops
			continue
		case i == empty:
			for a := range reg { // exactly one entry
				tl[i].Dereg = a
			}
			reg = map[string]bool{}
			continue
		case i == empty+1 && viaTxn:
			tl[i].Txn = []txop{{Put: txAddrs[2]}, {Put: txAddrs[0]}}
			tx[txAddrs[2]], tx[txAddrs[0]] = true, true
			continue
		case i == empty+1:
			tl[i].Reg = addrs[1]
			reg[addrs[1]] = true
			continue
		case i < empty && len(reg) > 0: // txn timelines never register through RegisterService before the empty phase
			continue
		}
		if r.Chance(45) || (viaTxn && i < empty) {
			// one transaction with 2-4 writes on distinct keys; the last one is often a no-op (re-put of a
			// present address, delete of an absent one) after an earlier write that changes the set
			perm := append([]string{}, txAddrs...)
			hx.Shuffle(r, perm)
			k := r.Range(2, 4)
			ops := []txop{}
			for j := 0; j < k; j++ {
				a := perm[j]
				last := j == k-1
				switch {
				case last && r.Chance(60):
					if tx[a] {
						ops = append(ops, txop{Put: a})
					} else {
						ops = append(ops, txop{Del: a})
					}
				case tx[a] && r.Chance(50):
					ops = append(ops, txop{Del: a})
					delete(tx, a)
				default:
					ops = append(ops, txop{Put: a})
					tx[a] = true
				}
			}
			tl[i].Txn = ops
			continue
		}
		if r.Chance(70) {
			a := hx.Pick(r, addrs...)
			if reg[a] {
				tl[i].Dereg = a
				delete(reg, a)
			} else {
				tl[i].Reg = a
				reg[a] = true
			}
		}
	}
	return tl
}

// per-instance subscriber script on top of the timeline
func genScript(r *hx.Rng, tl []step, slowPct int) []step {
	st := append([]step{}, tl...)
	type info struct {
		mode      string
		cancelled bool
		unsub     bool
	}
	subs := map[int]*info{}
	next := 1
	withSlow := r.Chance(slowPct)
	closeAt := -1
	if r.Chance(12) && len(st) > 2 {
		closeAt = r.Range(1, len(st)-2)
	}
	for i := range st {
		if i == closeAt {
			st[i].Op = "closewatch"
			continue
		}
		var live []int
		for id, s := range subs {
			if !s.unsub {
				live = append(live, id)
			}
		}
		sort.Ints(live)
		switch {
		case i == 0 || (len(live) < 3 && r.Chance(35)):
			mode := "reader"
			if withSlow && i > 0 && r.Chance(50) {
				mode = "slow"
			}
			st[i].Op, st[i].Sid, st[i].Mode = "sub", next, mode
			subs[next] = &info{mode: mode}
			next++
		case len(live) > 0 && r.Chance(30):
			id := live[r.Intn(len(live))]
			if !subs[id].cancelled {
				st[i].Op, st[i].Sid = "cancel", id
				subs[id].cancelled = true
			}
		case len(live) > 0 && r.Chance(40):
			id := live[r.Intn(len(live))]
			// the calcium usage pattern is cancel-then-unsubscribe; also try unsubscribe without cancel
			st[i].Op, st[i].Sid = "unsub", id
			subs[id].unsub = true
		}
	}
	return st
}

func corpusBatch() []*kase {
	a, b := addrs[0], addrs[1]
	tl := []step{{Reg: a}, {Reg: b}, {}, {Dereg: a}, {}}
	mk := func(id string, ops ...step) *kase {
		st := append([]step{}, tl...)
		for i := range ops {
			st[i].Op, st[i].Sid, st[i].Mode = ops[i].Op, ops[i].Sid, ops[i].Mode
		}
		return &kase{ID: id, Steps: st}
	}
	return []*kase{
		mk("c-two-readers", step{Op: "sub", Sid: 1, Mode: "reader"}, step{Op: "sub", Sid: 2, Mode: "reader"}, step{}, step{}, step{Op: "unsub", Sid: 1}),
		mk("c-cancel-then-unsub", step{Op: "sub", Sid: 1, Mode: "reader"}, step{Op: "sub", Sid: 2, Mode: "reader"}, step{Op: "cancel", Sid: 2}, step{Op: "unsub", Sid: 2}, step{}),
		mk("c-slow-blocks-others", step{Op: "sub", Sid: 1, Mode: "reader"}, step{Op: "sub", Sid: 2, Mode: "slow"}, step{}, step{Op: "unsub", Sid: 1}, step{}),
		mk("c-slow-self-unsub", step{Op: "sub", Sid: 1, Mode: "slow"}, step{}, step{Op: "unsub", Sid: 1}, step{}, step{}),
		mk("c-watch-closed", step{Op: "sub", Sid: 1, Mode: "reader"}, step{Op: "closewatch"}, step{Op: "sub", Sid: 2, Mode: "reader"}, step{Op: "cancel", Sid: 1}, step{Op: "unsub", Sid: 1}),
		mk("c-two-readers-b", step{Op: "sub", Sid: 1, Mode: "reader"}, step{Op: "sub", Sid: 2, Mode: "reader"}, step{}, step{}, step{}),
		mk("c-slow-cancelled-recovers", step{Op: "sub", Sid: 1, Mode: "reader"}, step{Op: "sub", Sid: 2, Mode: "slow"}, step{Op: "cancel", Sid: 2}, step{Op: "unsub", Sid: 2}, step{}),
	}
}

// fixed batch: the registered set becomes empty while subscribers are reading, then is re-populated
func corpusEmptyBatch() []*kase {
	a, b := addrs[0], addrs[1]
	tl := []step{{Reg: a}, {Reg: b}, {Dereg: a}, {Dereg: b}, {Reg: a}}
	mk := func(id string, ops ...step) *kase {
		st := append([]step{}, tl...)
		for i := range ops {
			st[i].Op, st[i].Sid, st[i].Mode = ops[i].Op, ops[i].Sid, ops[i].Mode
		}
		return &kase{ID: id, Steps: st}
	}
	return []*kase{
		mk("c-empty-set-reader", step{Op: "sub", Sid: 1, Mode: "reader"}),
		mk("c-empty-set-late-reader", step{}, step{Op: "sub", Sid: 1, Mode: "reader"}, step{}, step{Op: "sub", Sid: 2, Mode: "reader"}),
		mk("c-empty-set-sub-while-empty", step{}, step{}, step{}, step{Op: "sub", Sid: 1, Mode: "reader"}, step{}),
	}
}

// fixed batch: while a cancelled (not yet unsubscribed) subscriber sits in the map, every turn of the loop
// must still reach every live subscriber: five readers are held for 4.2 s and each must receive at least
// 3 statuses (one per push interval).
func corpusRepushBatch() []*kase {
	a, b := addrs[0], addrs[1]
	tl := []step{{Reg: a}, {Reg: b}, {Hold: 4200}, {}}
	mk := func(id string, ops ...step) *kase {
		st := append([]step{}, tl...)
		for i := range ops {
			st[i].Op, st[i].Sid, st[i].Mode, st[i].N = ops[i].Op, ops[i].Sid, ops[i].Mode, ops[i].N
		}
		return &kase{ID: id, Steps: st}
	}
	return []*kase{
		mk("c-repush-with-cancelled", step{Op: "sub", Sid: 1, Mode: "reader", N: 3}, step{Op: "sub", Sid: 4, Mode: "reader", N: 3}, step{Op: "cancel", Sid: 2}, step{Op: "unsub", Sid: 2}),
		mk("c-repush-two-cancelled", step{Op: "sub", Sid: 1, Mode: "reader", N: 6}, step{Op: "cancel", Sid: 3}, step{Op: "cancel", Sid: 5}, step{Op: "unsub", Sid: 3}),
		mk("c-repush-plain", step{Op: "sub", Sid: 1, Mode: "reader", N: 4}, step{}, step{}, step{Op: "unsub", Sid: 1}),
	}
}

// second fixed batch: transactions whose last write is a no-op after a changing write
func corpusTxnBatch() []*kase {
	a, b, c := txAddrs[0], txAddrs[1], txAddrs[2]
	tl := []step{{Txn: []txop{{Put: a}, {Put: b}}}, {Txn: []txop{{Put: c}, {Put: a}}}, {Txn: []txop{{Del: b}, {Put: c}}}, {Txn: []txop{{Del: a}, {Del: c}, {Put: b}}}}
	mk := func(id string, ops ...step) *kase {
		st := append([]step{}, tl...)
		for i := range ops {
			st[i].Op, st[i].Sid, st[i].Mode = ops[i].Op, ops[i].Sid, ops[i].Mode
		}
		return &kase{ID: id, Steps: st}
	}
	return []*kase{
		mk("c-txn-noop-last", step{Op: "sub", Sid: 1, Mode: "reader"}, step{}, step{Op: "sub", Sid: 2, Mode: "reader"}, step{}),
		mk("c-txn-noop-last-late-sub", step{}, step{Op: "sub", Sid: 1, Mode: "reader"}, step{}, step{Op: "unsub", Sid: 1}),
	}
}

// fixed batch: transactions that change the membership of the endpoint set but not its size (one core's key
// deleted and another's created in the same revision), and a full rotation back to an earlier set
func corpusSwapBatch() []*kase {
	a, b, c := txAddrs[0], txAddrs[1], txAddrs[2]
	tl := []step{{Txn: []txop{{Put: a}, {Put: b}}}, {Txn: []txop{{Del: a}, {Put: c}}}, {Txn: []txop{{Del: b}, {Put: a}}}, {Txn: []txop{{Put: b}, {Del: c}}}}
	mk := func(id string, ops ...step) *kase {
		st := append([]step{}, tl...)
		for i := range ops {
			st[i].Op, st[i].Sid, st[i].Mode = ops[i].Op, ops[i].Sid, ops[i].Mode
		}
		return &kase{ID: id, Steps: st}
	}
	return []*kase{
		mk("c-txn-swap", step{Op: "sub", Sid: 1, Mode: "reader"}, step{}, step{Op: "sub", Sid: 2, Mode: "reader"}, step{}),
		mk("c-txn-swap-late-sub", step{}, step{Op: "sub", Sid: 1, Mode: "reader"}, step{}, step{Op: "unsub", Sid: 1}),
	}
}

// fixed batch: registrations are committed at the two interleaving points of every stream's start
// (right after its snapshot Get returned, right after its Watch call returned); every subscriber must
// have all of them within one push interval, and keep them.
func corpusStartRaceBatch() []*kase {
	const k = 3
	race := []string{}
	for i := 1; i <= k; i++ {
		race = append(race, raceGetAddr(i), raceWatchAddr(i))
	}
	ks := []*kase{}
	for i := 0; i < k; i++ {
		ks = append(ks, &kase{ID: fmt.Sprintf("c-start-race-%d", i), Steps: []step{
			{Race: race, Op: "sub", Sid: 1, Mode: "reader"}, {}, {Txn: []txop{{Put: txAddrs[0]}, {Put: txAddrs[1]}}}}})
	}
	return ks
}

func TestGen(t *testing.T) {
	cfg := types.Config{}
	cfg.LockTimeout = 10 * time.Second
	cfg.GlobalTimeout = 30 * time.Second
	cfg.Etcd = types.EtcdConfig{Machines: []string{"127.0.0.1:2379"}, Prefix: "/eru-verif", LockPrefix: "/eru-verif-lock"}
	cfg.MaxConcurrency = 10000
	ctx := context.Background()
	enginefactory.InitEngineCache(ctx, cfg, nil)
	m, err := etcdv3.New(cfg, t)
	if err != nil {
		t.Fatal(err)
	}
	out := hx.OpenOut()
	defer out.Close()
	waitMs := hx.EnvInt("VERIF_HELIUM_WAIT_MS", 1600)
	cli := embedded.NewCluster(t, cfg.Etcd.Prefix).RandClient() // the same (namespaced) client the store uses
	hook := &hookKV{KV: m.KV}
	m.KV = hook
	emit := func(ks []*kase) {
		for _, k := range ks {
			k.WaitMs = waitMs
		}
		bad := runBatch(t, m, cli, hook, ks)
		// Before anything is reported as not converged the same timeline is re-run with fresh helium
		// instances, up to 3 times; only a case that fails every time is judged. A case that passes on a
		// re-run is classed `timing-off` (its passing observations are kept, it is not judged); when more
		// than maxRetry cases of a batch fail, the others are classed `unconfirmed`.
		const maxRetry = 4
		if len(bad) > maxRetry {
			for _, i := range bad[maxRetry:] {
				ks[i].Impl.(map[string]any)["unconfirmed"] = true
			}
			bad = bad[:maxRetry]
		}
		for attempt := 1; attempt <= 3 && len(bad) > 0; attempt++ {
			rerun := make([]*kase, len(bad))
			for j, i := range bad {
				c := *ks[i]
				c.Impl = nil
				rerun[j] = &c
			}
			still := runBatch(t, m, cli, hook, rerun)
			stillSet := map[int]bool{}
			for _, j := range still {
				stillSet[j] = true
			}
			next := []int{}
			for j, i := range bad {
				ks[i].Impl = rerun[j].Impl
				if stillSet[j] {
					next = append(next, i)
				} else {
					ks[i].Impl.(map[string]any)["timing_off"] = attempt
				}
			}
			bad = next
		}
		for _, k := range ks {
			out.Emit(k)
		}
	}
	if rp := os.Getenv("VERIF_REPLAY"); rp != "" {
		f, err := os.Open(rp)
		if err != nil {
			t.Fatal(err)
		}
		defer f.Close()
		sc := bufio.NewScanner(f)
		sc.Buffer(make([]byte, 1<<20), 1<<26)
		for sc.Scan() {
			k := &kase{}
			if json.Unmarshal(sc.Bytes(), k) != nil {
				continue
			}
			k.Impl = nil
			emit([]*kase{k}) // one case per batch: its own timeline
		}
		return
	}
	r := hx.NewRng(hx.Seed())
	n := hx.EnvInt("VERIF_CASES", 30)
	emit(corpusBatch())
	emit(corpusTxnBatch())
	emit(corpusSwapBatch())
	emit(corpusEmptyBatch())
	emit(corpusStartRaceBatch())
	emit(corpusRepushBatch())
	batch := hx.EnvInt("VERIF_HELIUM_BATCH", 24)
	for bi := 0; out.N < n; bi++ {
		nsteps := r.Range(4, 6)
		tl := genTimeline(r, nsteps)
		sz := batch
		if n-out.N < sz {
			sz = n - out.N
		}
		ks := make([]*kase, sz)
		for i := range ks {
			ks[i] = &kase{ID: fmt.Sprintf("b%d-%d", bi, i), Steps: genScript(r, tl, 30)}
		}
		emit(ks)
	}
}
