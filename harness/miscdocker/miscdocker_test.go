// Correspondence harness for C31: calls the real makeResourceSetting (hook) and the real
// docker Engine.VirtualizationCreate / VirtualizationUpdateResource over the repo's mocked
// Docker API client, capturing the container.Resources handed to the Docker API.
package miscdocker

import (
	"bufio"
	"context"
	"encoding/json"
	"errors"
	"fmt"
	"math"
	"os"
	"sort"
	"strconv"
	"strings"
	"testing"
	"time"

	"verifharness/hx"

	dockertypes "github.com/docker/docker/api/types"
	"github.com/docker/docker/api/types/container"
	"github.com/docker/docker/api/types/network"
	dockerapi "github.com/docker/docker/client"
	v1 "github.com/opencontainers/image-spec/specs-go/v1"

	"github.com/projecteru2/core/engine/docker"
	enginetypes "github.com/projecteru2/core/engine/types"
	resourcetypes "github.com/projecteru2/core/resource/types"
	coretypes "github.com/projecteru2/core/types"
)

type kase struct {
	ID        string           `json:"id"`
	Op        string           `json:"op"`       // setting | create | update
	CPUBits   string           `json:"cpu_bits"` // IEEE-754 bits of the cpu parameter, decimal
	CPUTxt    string           `json:"cpu_txt"`  // human readable only
	Memory    int64            `json:"memory"`
	CPUMap    map[string]int64 `json:"cpu_map"`
	NUMA      string           `json:"numa"`
	Remap     bool             `json:"remap"`
	NCPU      int              `json:"ncpu"`
	ShareBase int              `json:"share_base"`
	Impl      map[string]any   `json:"impl,omitempty"`
}

// fakeDocker implements the four Docker API calls on the create/update path (the repo's
// mockery mock no longer matches the vendored client interface); any other call panics
// on the nil embedded interface and is reported as a crash.
type fakeDocker struct {
	dockerapi.APIClient
	ncpu int
	got  *container.Resources
}

func (f *fakeDocker) DaemonHost() string { return "tcp://127.0.0.1:2376" }
func (f *fakeDocker) Info(context.Context) (dockertypes.Info, error) {
	return dockertypes.Info{NCPU: f.ncpu}, nil
}
func (f *fakeDocker) ContainerCreate(_ context.Context, _ *container.Config, hc *container.HostConfig, _ *network.NetworkingConfig, _ *v1.Platform, _ string) (container.CreateResponse, error) {
	r := hc.Resources
	f.got = &r
	return container.CreateResponse{ID: "cid"}, nil
}
func (f *fakeDocker) ContainerUpdate(_ context.Context, _ string, uc container.UpdateConfig) (container.ContainerUpdateOKBody, error) {
	r := uc.Resources
	f.got = &r
	return container.ContainerUpdateOKBody{}, nil
}

func resToImpl(r container.Resources) map[string]any {
	ids := []string{}
	if r.CpusetCpus != "" {
		ids = strings.Split(r.CpusetCpus, ",")
	}
	sort.Strings(ids)
	return map[string]any{
		"quota": r.CPUQuota, "period": r.CPUPeriod, "shares": r.CPUShares,
		"cpuset": ids, "mems": r.CpusetMems,
		"memory": strconv.FormatInt(r.Memory, 10), "swap": strconv.FormatInt(r.MemorySwap, 10),
		"reservation": strconv.FormatInt(r.MemoryReservation, 10),
	}
}

func errClass(err error) string {
	switch {
	case errors.Is(err, coretypes.ErrInvaildMemory):
		return "invalid-memory"
	case errors.Is(err, coretypes.ErrInvalidEngineArgs):
		return "invalid-args"
	case errors.Is(err, coretypes.ErrInvalidVolumeBind):
		return "invalid-volume"
	}
	return "other:" + err.Error()
}

func run(k *kase) {
	bits, _ := strconv.ParseUint(k.CPUBits, 10, 64)
	cpu := math.Float64frombits(bits)
	var cm map[string]int64
	if len(k.CPUMap) > 0 {
		cm = map[string]int64{}
		for c, v := range k.CPUMap {
			cm[c] = v
		}
	}
	kind, msg := hx.Guard(10*time.Second, func() {
		switch k.Op {
		case "setting":
			k.Impl = resToImpl(docker.VerifMakeResourceSetting(cpu, k.Memory, cm, k.NUMA, nil, k.Remap))
		case "create", "update":
			cli := &fakeDocker{ncpu: k.NCPU}
			cfg := coretypes.Config{}
			cfg.Scheduler.ShareBase = k.ShareBase
			e := docker.VerifNewEngine(cli, cfg)
			raw := resourcetypes.RawParams{"cpu": cpu, "memory": k.Memory, "numa_node": k.NUMA, "remap": k.Remap}
			if cm != nil {
				raw["cpu_map"] = cm
			}
			params := resourcetypes.Resources{"cpumem": raw}
			var err error
			if k.Op == "create" {
				_, err = e.VirtualizationCreate(context.Background(), &enginetypes.VirtualizationCreateOptions{
					EngineParams: params, Name: "a_b_c", Image: "img", Networks: map[string]string{"host": ""},
				})
			} else {
				err = e.VirtualizationUpdateResource(context.Background(), "cid", params)
			}
			switch {
			case err != nil:
				k.Impl = map[string]any{"err": errClass(err)}
			case cli.got == nil:
				k.Impl = map[string]any{"err": "no-docker-call"}
			default:
				k.Impl = resToImpl(*cli.got)
			}
		}
	})
	if kind != "" {
		k.Impl = map[string]any{kind: msg}
	}
}

var cpuCorpus = []float64{1e13, 9.3e13, 1e15, 0.29, 0.57, 0.58, 1.13, 1.15, 2.01, 4.35, 8.2, 16.4, 1.1, 0.07, 0.14, 0.55, 1, 2, 0.5, 0, -1, 1.005, 0.001, 0.00001, 100.29, 1e-9}

func genCPU(r *hx.Rng) float64 {
	switch r.Intn(10) {
	case 0:
		return hx.Pick(r, cpuCorpus...)
	case 1, 2, 3: // two decimals
		return float64(r.Range(1, 6400)) / 100
	case 4: // three decimals
		return float64(r.Range(1, 64000)) / 1000
	case 5:
		return float64(r.Range(1, 64))
	case 6:
		return 0
	case 7: // sums of decimals as the plugin computes them
		return float64(r.Range(1, 99))/100 + float64(r.Range(0, 32))
	case 8: // arbitrary doubles in range
		return math.Float64frombits(math.Float64bits(float64(r.Range(1, 1000))/float64(r.Range(1, 1000))) + uint64(r.Intn(3)))
	default:
		return float64(r.Range(1, 640000)) / 10000
	}
}

func genCase(r *hx.Rng, i int) *kase {
	k := &kase{ID: fmt.Sprintf("g%d", i), Op: hx.Pick(r, "setting", "create", "update", "update"), NCPU: r.Range(1, 12), ShareBase: hx.Pick(r, 100, 100, 10, 1000)}
	cpu := genCPU(r)
	if r.Chance(2) {
		cpu = hx.Pick(r, -1.0, -0.5, -2)
	}
	k.CPUBits = strconv.FormatUint(math.Float64bits(cpu), 10)
	k.CPUTxt = strconv.FormatFloat(cpu, 'g', -1, 64)
	switch r.Intn(8) {
	case 0:
		k.Memory = 0
	case 1:
		k.Memory = int64(r.Range(1, 8<<20)) // around the 4MiB / 8MiB thresholds
	case 2:
		k.Memory = hx.Pick(r, int64(4<<20), 4<<20-1, 8<<20, 8<<20-1, 8<<20+1, -1, math.MaxInt64)
	default:
		k.Memory = int64(r.Range(1, 4096)) << 20
	}
	if r.Chance(55) { // bound / remapped: a cpu map
		n := r.Range(1, 6)
		k.CPUMap = map[string]int64{}
		for len(k.CPUMap) < n {
			k.CPUMap[strconv.Itoa(r.Intn(64))] = int64(hx.Pick(r, k.ShareBase, r.Range(1, k.ShareBase)))
		}
		if r.Chance(40) {
			k.NUMA = strconv.Itoa(r.Intn(2))
		}
		k.Remap = r.Chance(25)
	} else if r.Chance(5) {
		k.Remap = true
	}
	if k.Op == "create" {
		k.Remap = false // the create path ignores the flag; keep the input canonical
	}
	return k
}

func corpus() []*kase {
	mk := func(id, op string, cpu float64, mem int64, cm map[string]int64, numa string, remap bool) *kase {
		return &kase{ID: id, Op: op, CPUBits: strconv.FormatUint(math.Float64bits(cpu), 10), CPUTxt: strconv.FormatFloat(cpu, 'g', -1, 64),
			Memory: mem, CPUMap: cm, NUMA: numa, Remap: remap, NCPU: 4, ShareBase: 100}
	}
	return []*kase{
		mk("c-quota-029", "setting", 0.29, 512<<20, nil, "", false),
		mk("c-quota-029-create", "create", 0.29, 512<<20, nil, "", false),
		mk("c-update-unbound-half", "update", 0.5, 512<<20, nil, "", false),
		mk("c-update-unbound-two", "update", 2, 512<<20, nil, "", false),
		mk("c-update-unlimited", "update", 0, 0, nil, "", false),
		mk("c-bound-frac", "create", 1.5, 1<<30, map[string]int64{"0": 100, "3": 50}, "1", false),
		mk("c-bound-update", "update", 1.5, 1<<30, map[string]int64{"0": 100, "3": 50}, "1", false),
		mk("c-remap", "update", 0.5, 1<<30, map[string]int64{"2": 100, "5": 100}, "", true),
		mk("c-mem-small", "create", 1, 1<<20, nil, "", false),
	}
}

func TestGen(t *testing.T) {
	out := hx.OpenOut()
	defer out.Close()
	if rp := os.Getenv("VERIF_REPLAY"); rp != "" {
		f, err := os.Open(rp)
		if err != nil {
			t.Fatal(err)
		}
		defer f.Close()
		sc := bufio.NewScanner(f)
		sc.Buffer(make([]byte, 1<<20), 1<<26)
		for sc.Scan() {
			k := &kase{}
			if json.Unmarshal(sc.Bytes(), k) != nil {
				continue
			}
			k.Impl = nil
			run(k)
			out.Emit(k)
		}
		return
	}
	r := hx.NewRng(hx.Seed())
	n := hx.EnvInt("VERIF_CASES", 500)
	for _, k := range corpus() {
		run(k)
		out.Emit(k)
	}
	for i := 0; out.N < n; i++ {
		k := genCase(r, i)
		run(k)
		out.Emit(k)
	}
}
