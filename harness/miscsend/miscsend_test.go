// Correspondence harness for C29: the real chunking function (hook) and the real
// Calcium.SendLargeFile pipeline over the real etcd-backed store (locks, workload metadata)
// with a scripted engine per target (reads to EOF / stops after k bytes, success / error)
// and missing / duplicated targets.  The chunk stream is produced exactly as rpc.Send does
// (toSendLargeFileChunks, one SendLargeFile call per file).
package miscsend

import (
	"bufio"
	"context"
	"encoding/hex"
	"encoding/json"
	"errors"
	"fmt"
	"io"
	"os"
	"path/filepath"
	"sort"
	"strings"
	"sync"
	"testing"
	"time"

	"verifharness/hx"

	"github.com/projecteru2/core/cluster/calcium"
	"github.com/projecteru2/core/engine"
	enginefactory "github.com/projecteru2/core/engine/factory"
	"github.com/projecteru2/core/rpc"
	"github.com/projecteru2/core/store"
	"github.com/projecteru2/core/types"
)

type beh struct {
	Missing bool `json:"missing"`
	Limit   int  `json:"limit"` // -1 = read to EOF
	Fail    bool `json:"fail"`
}

// fileSpec is one file of a streaming SendLargeFile call with its own target list
type fileSpec struct {
	Len  int      `json:"len"`
	A    int      `json:"a"`
	B    int      `json:"b"`
	Dst  string   `json:"dst"`
	Mode int64    `json:"mode"`
	UID  int      `json:"uid"`
	GID  int      `json:"gid"`
	IDs  []string `json:"ids"`
}

func (f fileSpec) content() []byte {
	c := make([]byte, f.Len)
	for i := range c {
		c[i] = byte(f.A*i + f.B)
	}
	return c
}

type kase struct {
	ID    string         `json:"id"`
	Op    string         `json:"op"`              // chunks | send | stream
	Files []fileSpec     `json:"files,omitempty"` // stream: several files, one after the other, on ONE SendLargeFile stream
	Len   int            `json:"len"`
	A     int            `json:"a"` // content[i] = (a*i + b) mod 256
	B     int            `json:"b"`
	Chunk int            `json:"chunk"` // types.SendLargeFileChunkSize as compiled
	IDs   []string       `json:"ids"`
	Behs  map[string]beh `json:"behs,omitempty"`
	Dst   string         `json:"dst"`
	Mode  int64          `json:"mode"`
	UID   int            `json:"uid"`
	GID   int            `json:"gid"`
	Impl  map[string]any `json:"impl,omitempty"`
}

func content(k *kase) []byte {
	c := make([]byte, k.Len)
	for i := range c {
		c[i] = byte(k.A*i + k.B)
	}
	return c
}

var errScripted = errors.New("scripted engine failure")

// scripted engine: only VirtualizationCopyChunkTo is implemented
type scriptEngine struct {
	engine.API
	mu   sync.Mutex
	behs map[string]beh
	got  map[string][]byte
	args map[string][]any
	n    map[string]int
}

func (e *scriptEngine) VirtualizationCopyChunkTo(_ context.Context, ID, target string, size int64, rd io.Reader, uid, gid int, mode int64) error {
	b := e.behs[ID]
	e.mu.Lock()
	e.n[ID]++
	e.args[ID] = []any{target, size, uid, gid, mode}
	e.n[ID+"|"+target]++
	e.args[ID+"|"+target] = []any{target, size, uid, gid, mode}
	e.mu.Unlock()
	var got []byte
	buf := make([]byte, 2048)
	for b.Limit < 0 || len(got) < b.Limit {
		want := len(buf)
		if b.Limit >= 0 && b.Limit-len(got) < want {
			want = b.Limit - len(got)
		}
		n, err := rd.Read(buf[:want])
		got = append(got, buf[:n]...)
		if err != nil {
			break
		}
	}
	e.mu.Lock()
	e.got[ID] = got
	e.got[ID+"|"+target] = got
	e.mu.Unlock()
	if b.Fail {
		return errScripted
	}
	return nil
}

type wrapStore struct {
	store.Store
	eng engine.API
}

func (w *wrapStore) GetWorkloads(ctx context.Context, ids []string) ([]*types.Workload, error) {
	ws, err := w.Store.GetWorkloads(ctx, ids)
	for _, x := range ws {
		x.Engine = w.eng
	}
	return ws, err
}

// hangs counts calls that did not finish before the deadline; their goroutines (and workload
// locks) are leaked, so the run stops early after a few of them: the violation is established.
var hangs int

var (
	cal  *calcium.Calcium
	base store.Store
)

var present = []string{"w0", "w1", "w2", "w3", "w4", "w5"}

func setup(t *testing.T) {
	dir, err := os.MkdirTemp("", "verif-miscsend")
	if err != nil {
		t.Fatal(err)
	}
	t.Cleanup(func() { os.RemoveAll(dir) })
	cfg := types.Config{}
	cfg.LockTimeout = 10 * time.Second
	cfg.GlobalTimeout = 30 * time.Second
	cfg.Etcd = types.EtcdConfig{Machines: []string{"127.0.0.1:2379"}, Prefix: "/eru-verif", LockPrefix: "/eru-verif-lock"}
	cfg.MaxConcurrency = 10000
	cfg.WALFile = filepath.Join(dir, "wal")
	cfg.Scheduler = types.SchedulerConfig{MaxShare: -1, ShareBase: 100}
	cfg.HAKeepaliveInterval = 16 * time.Second
	cfg.GRPCConfig.ServiceDiscoveryPushInterval = 15 * time.Second
	ctx := context.Background()
	enginefactory.InitEngineCache(ctx, cfg, nil)
	cal, err = calcium.New(ctx, cfg, t)
	if err != nil {
		t.Fatal(err)
	}
	base = cal.VerifStore()
	if _, err := base.AddPod(ctx, "pod", ""); err != nil {
		t.Fatal(err)
	}
	if _, err := base.AddNode(ctx, &types.AddNodeOptions{Nodename: "n1", Endpoint: "mock://n1", Podname: "pod", Test: true}); err != nil {
		t.Fatal(err)
	}
	for _, id := range present {
		if err := base.AddWorkload(ctx, &types.Workload{ID: id, Name: "app_e_" + id, Nodename: "n1", Podname: "pod"}, nil); err != nil {
			t.Fatal(err)
		}
	}
}

func errClass(err error) string {
	switch {
	case err == nil:
		return ""
	case errors.Is(err, errScripted):
		return "engine"
	default:
		return "target" // lock / lookup failure (missing workload)
	}
}

func runSend(k *kase) {
	eng := &scriptEngine{behs: k.Behs, got: map[string][]byte{}, args: map[string][]any{}, n: map[string]int{}}
	cal.VerifSetStore(&wrapStore{Store: base, eng: eng})
	defer cal.VerifSetStore(base)
	c := content(k)
	file := types.LinuxFile{Filename: k.Dst, Content: c, UID: k.UID, GID: k.GID, Mode: k.Mode}
	type res struct {
		ID   string `json:"id"`
		Path string `json:"path"`
		Err  string `json:"err"`
	}
	results := []res{}
	finished := make(chan struct{})
	go func() {
		// exactly what rpc.Send does for one file
		dc := make(chan *types.SendLargeFileOptions)
		ch := cal.SendLargeFile(context.Background(), dc)
		go func() {
			defer close(dc)
			for _, chunk := range rpc.VerifToSendLargeFileChunks(file, k.IDs) {
				dc <- chunk
			}
		}()
		for m := range ch {
			results = append(results, res{ID: m.ID, Path: m.Path, Err: errClass(m.Error)})
		}
		close(finished)
	}()
	deadline := time.Duration(hx.EnvInt("VERIF_SEND_DEADLINE_MS", 20000)) * time.Millisecond
	select {
	case <-finished:
	case <-time.After(deadline):
		k.Impl = map[string]any{"finished": false}
		hangs++
		return
	}
	sort.Slice(results, func(i, j int) bool {
		if results[i].ID != results[j].ID {
			return results[i].ID < results[j].ID
		}
		return results[i].Err < results[j].Err
	})
	eng.mu.Lock()
	defer eng.mu.Unlock()
	targets := map[string]any{}
	for id, got := range eng.got {
		ok := len(got) <= len(c) && string(got) == string(c[:len(got)])
		targets[id] = map[string]any{"got_len": len(got), "prefix_ok": ok, "calls": eng.n[id], "args": eng.args[id]}
	}
	k.Impl = map[string]any{"finished": true, "results": results, "targets": targets}
}

// runStream feeds several files, one after the other, into ONE SendLargeFile call (what a client of the
// streaming SendLargeFile RPC can do): every file has its own target list.
func runStream(k *kase) {
	eng := &scriptEngine{behs: k.Behs, got: map[string][]byte{}, args: map[string][]any{}, n: map[string]int{}}
	cal.VerifSetStore(&wrapStore{Store: base, eng: eng})
	defer cal.VerifSetStore(base)
	type res struct {
		ID   string `json:"id"`
		Path string `json:"path"`
		Err  string `json:"err"`
	}
	results := []res{}
	finished := make(chan struct{})
	go func() {
		dc := make(chan *types.SendLargeFileOptions)
		ch := cal.SendLargeFile(context.Background(), dc)
		go func() {
			defer close(dc)
			for _, f := range k.Files {
				file := types.LinuxFile{Filename: f.Dst, Content: f.content(), UID: f.UID, GID: f.GID, Mode: f.Mode}
				for _, chunk := range rpc.VerifToSendLargeFileChunks(file, f.IDs) {
					dc <- chunk
				}
			}
		}()
		for m := range ch {
			results = append(results, res{ID: m.ID, Path: m.Path, Err: errClass(m.Error)})
		}
		close(finished)
	}()
	deadline := time.Duration(hx.EnvInt("VERIF_SEND_DEADLINE_MS", 20000)) * time.Millisecond
	select {
	case <-finished:
	case <-time.After(deadline):
		k.Impl = map[string]any{"finished": false}
		hangs++
		return
	}
	sort.Slice(results, func(i, j int) bool {
		if results[i].ID != results[j].ID {
			return results[i].ID < results[j].ID
		}
		if results[i].Path != results[j].Path {
			return results[i].Path < results[j].Path
		}
		return results[i].Err < results[j].Err
	})
	eng.mu.Lock()
	defer eng.mu.Unlock()
	contents := map[string][]byte{}
	for _, f := range k.Files {
		if _, ok := contents[f.Dst]; !ok {
			contents[f.Dst] = f.content()
		}
	}
	targets := map[string]any{}
	for key, got := range eng.got {
		i := strings.Index(key, "|")
		if i < 0 {
			continue
		}
		c := contents[key[i+1:]]
		ok := len(got) <= len(c) && string(got) == string(c[:len(got)])
		targets[key] = map[string]any{"got_len": len(got), "prefix_ok": ok, "calls": eng.n[key], "args": eng.args[key]}
	}
	k.Impl = map[string]any{"finished": true, "results": results, "targets": targets}
}

// envFailure: some existing (not scripted as missing) target was answered with a lock/lookup error
func envFailure(k *kase) bool {
	b, _ := json.Marshal(k.Impl["results"])
	var rs []struct {
		ID  string `json:"id"`
		Err string `json:"err"`
	}
	if json.Unmarshal(b, &rs) != nil {
		return false
	}
	for _, r := range rs {
		if r.Err == "target" && !k.Behs[r.ID].Missing {
			return true
		}
	}
	return false
}

func run(k *kase) {
	k.Chunk = types.SendLargeFileChunkSize
	kind, msg := hx.Guard(60*time.Second, func() {
		switch k.Op {
		case "chunks":
			file := types.LinuxFile{Filename: k.Dst, Content: content(k), UID: k.UID, GID: k.GID, Mode: k.Mode}
			out := []any{}
			for _, m := range rpc.VerifToSendLargeFileChunks(file, k.IDs) {
				out = append(out, map[string]any{"hex": hex.EncodeToString(m.Chunk), "ids": m.IDs, "dst": m.Dst, "size": m.Size, "mode": m.Mode, "uid": m.UID, "gid": m.GID})
			}
			k.Impl = map[string]any{"chunks": out}
		case "send", "stream":
			// A lock or lookup failure on a workload that EXISTS is an environment failure (etcd lock timeout
			// under machine load), not a behaviour of the pipeline: re-run the case, up to 3 times; a case
			// that only then passes is classed `timing-off` and not judged.
			for attempt := 0; ; attempt++ {
				if k.Op == "send" {
					runSend(k)
				} else {
					runStream(k)
				}
				if !envFailure(k) || attempt == 3 {
					if attempt > 0 && !envFailure(k) {
						k.Impl["timing_off"] = attempt
					}
					break
				}
			}
		}
	})
	if kind != "" {
		k.Impl = map[string]any{kind: msg}
	}
}

func genLen(r *hx.Rng, big bool) int {
	cs := types.SendLargeFileChunkSize
	switch r.Intn(10) {
	case 0:
		return 0
	case 1:
		return 1
	case 2:
		return hx.Pick(r, cs-1, cs, cs+1)
	case 3:
		return hx.Pick(r, 2*cs-1, 2*cs, 2*cs+1, 3*cs)
	case 4:
		return hx.Pick(r, 10*cs, 11*cs, 11*cs+1, 12*cs, 12*cs+1, 13*cs)
	case 5:
		if big {
			return hx.Pick(r, 20*cs+7, 40*cs, 64*cs)
		}
		return r.Range(0, 3*cs)
	default:
		return r.Range(0, 14*cs)
	}
}

// genStream: 2-3 files on one stream with disjoint, overlapping or equal target lists (duplicates included)
func genStream(r *hx.Rng, i int) *kase {
	k := &kase{ID: fmt.Sprintf("m%d", i), Op: "stream", Behs: map[string]beh{}}
	nf := r.Range(2, 3)
	pool := append([]string{}, present...)
	hx.Shuffle(r, pool)
	pool = append(pool[:4], "missing0")
	shape := r.Intn(3) // 0 disjoint, 1 overlapping, 2 random
	next := 0
	for j := 0; j < nf; j++ {
		f := fileSpec{Len: genLen(r, false), A: r.Range(1, 255), B: r.Intn(256), Dst: fmt.Sprintf("/tmp/f%d", j),
			Mode: int64(hx.Pick(r, 0644, 0600, 0755)), UID: r.Intn(2000), GID: r.Intn(2000)}
		n := r.Range(1, 2)
		for t := 0; t < n; t++ {
			var id string
			switch shape {
			case 0:
				id = pool[next%len(pool)]
				next++
			case 1:
				if j > 0 && t == 0 {
					id = k.Files[j-1].IDs[0]
				} else {
					id = pool[next%len(pool)]
					next++
				}
			default:
				id = hx.Pick(r, pool...)
			}
			f.IDs = append(f.IDs, id)
			if r.Chance(20) {
				f.IDs = append(f.IDs, id)
			}
			if _, ok := k.Behs[id]; !ok {
				b := beh{Limit: -1}
				if id == "missing0" {
					b.Missing = true
				} else if r.Chance(20) {
					b.Limit, b.Fail = r.Range(0, f.Len+1), r.Chance(70)
				}
				k.Behs[id] = b
			}
		}
		k.Files = append(k.Files, f)
	}
	return k
}

func genCase(r *hx.Rng, i int) *kase {
	if r.Chance(20) {
		return genStream(r, i)
	}
	k := &kase{ID: fmt.Sprintf("g%d", i), A: r.Range(1, 255), B: r.Intn(256), Dst: hx.Pick(r, "/tmp/f", "/etc/app.conf", "rel/x"),
		Mode: int64(hx.Pick(r, 0644, 0600, 0755, 0)), UID: r.Intn(2000), GID: r.Intn(2000)}
	if r.Chance(35) {
		k.Op = "chunks"
		k.Len = genLen(r, false)
		k.IDs = []string{"w0", "w1"}[:r.Range(0, 2)]
		return k
	}
	k.Op = "send"
	k.Len = genLen(r, true)
	k.Behs = map[string]beh{}
	n := r.Range(1, 4)
	for j := 0; j < n; j++ {
		var id string
		b := beh{Limit: -1}
		switch r.Intn(8) {
		case 0: // missing target
			id = fmt.Sprintf("missing%d", r.Intn(2))
			b.Missing = true
		default:
			id = hx.Pick(r, present...)
			switch r.Intn(6) {
			case 0: // immediate engine error
				b.Limit, b.Fail = 0, true
			case 1: // error after a partial read
				b.Limit, b.Fail = r.Range(1, k.Len+1), true
			case 2: // engine returns early without error
				b.Limit = hx.Pick(r, 0, 1, r.Range(0, k.Len+1))
			case 3: // reads everything, then fails
				b.Fail = true
			}
		}
		if _, dup := k.Behs[id]; !dup {
			k.Behs[id] = b
		}
		k.IDs = append(k.IDs, id)
		if r.Chance(15) { // duplicated id
			k.IDs = append(k.IDs, id)
		}
	}
	return k
}

func corpus() []*kase {
	cs := types.SendLargeFileChunkSize
	m := func(id, op string, l int, ids []string, behs map[string]beh) *kase {
		return &kase{ID: id, Op: op, Len: l, A: 7, B: 3, IDs: ids, Behs: behs, Dst: "/tmp/f", Mode: 0644, UID: 1000, GID: 1000}
	}
	all := beh{Limit: -1}
	return []*kase{
		m("c-chunks-empty", "chunks", 0, []string{"w0"}, nil),
		m("c-chunks-exact", "chunks", 2*cs, []string{"w0"}, nil),
		m("c-send-empty", "send", 0, []string{"w0"}, map[string]beh{"w0": all}),
		m("c-send-dup", "send", 3*cs+5, []string{"w0", "w0"}, map[string]beh{"w0": all}),
		m("c-send-missing-big", "send", 13*cs, []string{"w0", "missing0"}, map[string]beh{"w0": all, "missing0": {Missing: true, Limit: -1}}),
		m("c-send-engine-reject-big", "send", 13*cs, []string{"w0", "w1"}, map[string]beh{"w0": all, "w1": {Limit: 0, Fail: true}}),
		m("c-send-engine-abort-big", "send", 20*cs, []string{"w1"}, map[string]beh{"w1": {Limit: 3000, Fail: true}}),
		{ID: "c-stream-disjoint", Op: "stream", Behs: map[string]beh{"w1": all, "w2": all}, Files: []fileSpec{
			{Len: 3*cs + 5, A: 7, B: 3, Dst: "/tmp/a", Mode: 0644, UID: 1, GID: 1, IDs: []string{"w1", "w1"}},
			{Len: 100, A: 5, B: 9, Dst: "/tmp/b", Mode: 0600, UID: 2, GID: 2, IDs: []string{"w2"}}}},
		{ID: "c-stream-same-target", Op: "stream", Behs: map[string]beh{"w1": all}, Files: []fileSpec{
			{Len: cs + 1, A: 7, B: 3, Dst: "/tmp/a", Mode: 0644, UID: 1, GID: 1, IDs: []string{"w1"}},
			{Len: 100, A: 5, B: 9, Dst: "/tmp/b", Mode: 0600, UID: 2, GID: 2, IDs: []string{"w1"}}}},
		{ID: "c-stream-overlap-big", Op: "stream", Behs: map[string]beh{"w1": all, "w2": all, "w3": {Limit: 0, Fail: true}}, Files: []fileSpec{
			{Len: 13 * cs, A: 7, B: 3, Dst: "/tmp/a", Mode: 0644, UID: 1, GID: 1, IDs: []string{"w1", "w3"}},
			{Len: 13 * cs, A: 5, B: 9, Dst: "/tmp/b", Mode: 0600, UID: 2, GID: 2, IDs: []string{"w1", "w2"}}}},
		m("c-send-early-ok-big", "send", 20*cs, []string{"w1"}, map[string]beh{"w1": {Limit: 0}}),
	}
}

func TestGen(t *testing.T) {
	setup(t)
	out := hx.OpenOut()
	defer out.Close()
	if rp := os.Getenv("VERIF_REPLAY"); rp != "" {
		f, err := os.Open(rp)
		if err != nil {
			t.Fatal(err)
		}
		defer f.Close()
		sc := bufio.NewScanner(f)
		sc.Buffer(make([]byte, 1<<20), 1<<26)
		for sc.Scan() {
			k := &kase{}
			if json.Unmarshal(sc.Bytes(), k) != nil {
				continue
			}
			k.Impl = nil
			run(k)
			out.Emit(k)
		}
		return
	}
	r := hx.NewRng(hx.Seed())
	n := hx.EnvInt("VERIF_CASES", 200)
	for _, k := range corpus() {
		run(k)
		out.Emit(k)
	}
	for i := 0; out.N < n && hangs < 3; i++ {
		k := genCase(r, i)
		run(k)
		out.Emit(k)
	}
}
