// Correspondence harness for C04/C05/C06/C33 (group "sched"): runs the real
// schedule.GetCPUPlans and the cpumem plugin's CalculateDeploy / SetNodeResourceUsage /
// CalculateRealloc (embedded etcd) on generated node states and requests and writes one JSON
// case (inputs + canonicalised implementation result) per line.  CPU amounts are integers in
// 1/1000 core; no float is ever printed.
package sched

import (
	"bufio"
	"context"
	"encoding/json"
	"errors"
	"fmt"
	"math"
	"os"
	"sort"
	"strconv"
	"testing"
	"time"

	"verifharness/hx"

	"github.com/mitchellh/mapstructure"

	"github.com/projecteru2/core/resource/plugins/cpumem"
	"github.com/projecteru2/core/resource/plugins/cpumem/schedule"
	cmtypes "github.com/projecteru2/core/resource/plugins/cpumem/types"
	plugintypes "github.com/projecteru2/core/resource/plugins/types"
	coretypes "github.com/projecteru2/core/types"
)

type node struct {
	Cap        map[string]int    `json:"cap"`
	Use        map[string]int    `json:"use"`
	Mem        int64             `json:"mem"`
	MemUse     int64             `json:"memUse"`
	NUMA       map[string]string `json:"numa"`
	NUMAMem    map[string]int64  `json:"numaMem"`
	NUMAMemUse map[string]int64  `json:"numaMemUse"`
}

type request struct {
	Bind   bool  `json:"bind"`
	Keep   bool  `json:"keep"`
	CPU    int64 `json:"cpu"` // thousandths of a core
	CPULim int64 `json:"cpuLim"`
	Mem    int64 `json:"mem"`
	MemLim int64 `json:"memLim"`
}

type workload struct {
	CPU     int64            `json:"cpu"`
	CPULim  int64            `json:"cpuLim"`
	Mem     int64            `json:"mem"`
	MemLim  int64            `json:"memLim"`
	Map     map[string]int   `json:"map"`
	NUMA    string           `json:"numa"`
	NUMAMem map[string]int64 `json:"numaMem"`
}

type kase struct {
	ID       string         `json:"id"`
	Op       string         `json:"op"` // plans | deploy | realloc | capacity | remap
	Base     int            `json:"base"`
	MaxShare int            `json:"maxShare"`
	Node     node           `json:"node"`
	Req      request        `json:"req"`
	Count    int            `json:"count"`
	Origin   *workload      `json:"origin,omitempty"`
	Wls      map[string]*workload `json:"wls,omitempty"` // remap: workloads on the node
	Impl     map[string]any `json:"impl"`
}

func milli(f float64) int64 { return int64(math.Round(f * 1000)) }
func cores(m int64) float64 { return float64(m) / 1000 }

func errClass(err error) string {
	switch {
	case errors.Is(err, coretypes.ErrInsufficientCapacity):
		return "insufficient-capacity"
	case errors.Is(err, coretypes.ErrInsufficientResource):
		return "insufficient"
	case errors.Is(err, cmtypes.ErrInvalidCapacity), errors.Is(err, cmtypes.ErrInvalidCPUMap),
		errors.Is(err, cmtypes.ErrInvalidNUMACPU), errors.Is(err, cmtypes.ErrInvalidNUMAMemory),
		errors.Is(err, cmtypes.ErrInvalidMemory), errors.Is(err, cmtypes.ErrInvalidCPU):
		return "invalid"
	}
	return "other"
}

func cpCPU(m map[string]int) cmtypes.CPUMap {
	r := cmtypes.CPUMap{}
	for k, v := range m {
		r[k] = v
	}
	return r
}
func cpMem(m map[string]int64) cmtypes.NUMAMemory {
	r := cmtypes.NUMAMemory{}
	for k, v := range m {
		r[k] = v
	}
	return r
}
func cpNUMA(m map[string]string) cmtypes.NUMA {
	r := cmtypes.NUMA{}
	for k, v := range m {
		r[k] = v
	}
	return r
}

func (n *node) info() *cmtypes.NodeResourceInfo {
	tot := 0.0
	for _, v := range n.Use {
		tot += float64(v)
	}
	return &cmtypes.NodeResourceInfo{
		Capacity: &cmtypes.NodeResource{CPU: float64(len(n.Cap)), CPUMap: cpCPU(n.Cap), Memory: n.Mem, NUMAMemory: cpMem(n.NUMAMem), NUMA: cpNUMA(n.NUMA)},
		Usage:    &cmtypes.NodeResource{CPU: 0, CPUMap: cpCPU(n.Use), Memory: n.MemUse, NUMAMemory: cpMem(n.NUMAMemUse), NUMA: cpNUMA(n.NUMA)},
	}
}

func rawRes(r *cmtypes.NodeResource) plugintypes.NodeResource {
	return plugintypes.NodeResource{"cpu": r.CPU, "cpu_map": r.CPUMap, "memory": r.Memory, "numa_memory": r.NUMAMemory, "numa": r.NUMA}
}

func wlOut(w *cmtypes.WorkloadResource) workload {
	o := workload{CPU: milli(w.CPURequest), CPULim: milli(w.CPULimit), Mem: w.MemoryRequest, MemLim: w.MemoryLimit,
		Map: map[string]int{}, NUMA: w.NUMANode, NUMAMem: map[string]int64{}}
	for k, v := range w.CPUMap {
		o.Map[k] = v
	}
	for k, v := range w.NUMAMemory {
		o.NUMAMem[k] = v
	}
	return o
}

type engine struct {
	CPU   int64          `json:"cpu"`
	Mem   int64          `json:"mem"`
	Map   map[string]int `json:"map"`
	NUMA  string         `json:"numa"`
	Remap bool           `json:"remap"`
}

func epOut(raw plugintypes.EngineParams) (engine, error) {
	e := &cmtypes.EngineParams{}
	if err := mapstructure.Decode(raw, e); err != nil {
		return engine{}, err
	}
	o := engine{CPU: milli(e.CPU), Mem: e.Memory, Map: map[string]int{}, NUMA: e.NUMANode, Remap: e.Remap}
	for k, v := range e.CPUMap {
		o.Map[k] = v
	}
	return o, nil
}

func (w *workload) raw() plugintypes.WorkloadResource {
	return plugintypes.WorkloadResource{"cpu_request": cores(w.CPU), "cpu_limit": cores(w.CPULim), "memory_request": w.Mem,
		"memory_limit": w.MemLim, "cpu_map": cpCPU(w.Map), "numa_memory": cpMem(w.NUMAMem), "numa_node": w.NUMA}
}

var plugins = map[[2]int]*cpumem.Plugin{}

func plugin(t *testing.T, base, maxShare int) *cpumem.Plugin {
	key := [2]int{base, maxShare}
	if p, ok := plugins[key]; ok {
		return p
	}
	cfg := coretypes.Config{Etcd: coretypes.EtcdConfig{Prefix: "/cpumem"},
		Scheduler: coretypes.SchedulerConfig{MaxShare: maxShare, ShareBase: base}}
	p, err := cpumem.NewPlugin(context.Background(), cfg, t)
	if err != nil {
		t.Fatal(err)
	}
	plugins[key] = p
	return p
}

const deadline = 2 * time.Second

// runCase runs the case under a 2 s deadline; a timeout is confirmed by re-running the case alone
// with a longer deadline (embedded etcd or the Go runtime can stall when the machine is loaded).
// nodeName is the plugin node every op works on. A timed-out attempt keeps running in its leaked goroutine
// and may still write to the store (commit of a deployment / re-allocation): after a timeout all later
// attempts and cases move to a fresh node name so that the leaked call cannot interfere with them.
var (
	nodeName = "n"
	nodeGen  = 0
)

func freshNode() {
	nodeGen++
	nodeName = fmt.Sprintf("n%d", nodeGen)
}

func runCase(t *testing.T, k *kase) {
	runOnce(t, k, deadline)
	if _, ok := k.Impl["timeout"]; ok {
		freshNode()
		runOnce(t, k, 5*deadline)
		if _, ok := k.Impl["timeout"]; ok {
			freshNode()
		}
	}
	// an error that is none of the plugin's own (store/etcd trouble on a loaded machine) is an
	// environment failure, not behaviour of the code under test: retry, then mark the case
	for try := 0; try < 3 && envFailed(k.Impl); try++ {
		time.Sleep(200 * time.Millisecond)
		freshNode()
		runOnce(t, k, 5*deadline)
	}
	if envFailed(k.Impl) {
		k.Impl = map[string]any{"enverr": true}
	}
}

func envFailed(impl map[string]any) bool {
	return impl["seterr"] == "other" || impl["err"] == "other" || impl["commit"] == "other"
}

// genRemapWorkloads: a few workloads (bound and unbound, different limits) for CalculateRemap
func genRemapWorkloads(r *hx.Rng, n *node, base int) map[string]*workload {
	ws := map[string]*workload{}
	for i, cnt := 0, r.Range(1, 4); i < cnt; i++ {
		cpu := int64(r.Range(1, 8)) * 250
		w := &workload{CPU: cpu, CPULim: cpu + int64(r.Range(0, 4))*250, Mem: int64(r.Range(1, 50)), Map: map[string]int{}, NUMAMem: map[string]int64{}}
		w.MemLim = w.Mem + int64(r.Range(0, 20))
		if r.Chance(30) {
			w.Map[cpuID(r.Intn(len(n.Cap)))] = base
		}
		if len(n.NUMAMem) > 0 && r.Chance(30) {
			w.NUMA = "n0"
		}
		ws["w"+strconv.Itoa(i)] = w
	}
	return ws
}

func runOnce(t *testing.T, k *kase, deadline time.Duration) {
	ctx := context.Background()
	node := nodeName // fixed for this attempt (the leaked goroutine of a timed-out attempt keeps its own)
	var res map[string]any
	var p *cpumem.Plugin
	if k.Op != "plans" {
		p = plugin(t, k.Base, k.MaxShare)
	}
	kind, msg := hx.Guard(deadline, func() {
		switch k.Op {
		case "plans":
			var origin cmtypes.CPUMap
			if k.Origin != nil {
				origin = cpCPU(k.Origin.Map)
			}
			req := &cmtypes.WorkloadResourceRequest{CPUBind: true, CPURequest: cores(k.Req.CPU), CPULimit: cores(k.Req.CPU), MemRequest: k.Req.Mem, MemLimit: k.Req.Mem}
			plans := schedule.GetCPUPlans(k.Node.info(), origin, k.Base, k.MaxShare, req)
			out := []map[string]any{}
			for _, pl := range plans {
				out = append(out, map[string]any{"numa": pl.NUMANode, "map": map[string]int(pl.CPUMap)})
			}
			res = map[string]any{"plans": out}
		case "deploy", "realloc", "capacity", "remap":
			info := k.Node.info()
			if _, err := p.SetNodeResourceInfo(ctx, node, rawRes(info.Capacity), rawRes(info.Usage)); err != nil {
				res = map[string]any{"seterr": errClass(err)}
				return
			}
			rq := plugintypes.WorkloadResourceRequest{"cpu-bind": k.Req.Bind, "keep-cpu-bind": k.Req.Keep, "cpu-request": cores(k.Req.CPU),
				"cpu-limit": cores(k.Req.CPULim), "memory-request": k.Req.Mem, "memory-limit": k.Req.MemLim}
			if k.Op == "remap" {
				in := map[string]plugintypes.WorkloadResource{}
				for id, w := range k.Wls {
					in[id] = w.raw()
				}
				resp, err := p.CalculateRemap(ctx, node, in)
				if err != nil {
					res = map[string]any{"err": errClass(err)}
					return
				}
				eps := map[string]engine{}
				for id, raw := range resp.EngineParamsMap {
					e, err := epOut(raw)
					if err != nil {
						res = map[string]any{"err": "other"}
						return
					}
					eps[id] = e
				}
				res = map[string]any{"epm": eps}
				return
			}
			if k.Op == "capacity" {
				resp, err := p.GetNodesDeployCapacity(ctx, []string{node}, rq)
				if err != nil {
					res = map[string]any{"err": errClass(err)}
					return
				}
				c := 0 // nodes with capacity <= 0 are left out of the map
				if e, ok := resp.NodeDeployCapacityMap[node]; ok && e != nil {
					c = e.Capacity
				}
				res = map[string]any{"cap": c, "total": resp.Total}
				return
			}
			if k.Op == "deploy" {
				resp, err := p.CalculateDeploy(ctx, node, k.Count, rq)
				if err != nil {
					res = map[string]any{"err": errClass(err)}
					return
				}
				ws := []workload{}
				for _, raw := range resp.WorkloadsResource {
					w := &cmtypes.WorkloadResource{}
					if err := w.Parse(raw); err != nil {
						res = map[string]any{"err": "other"}
						return
					}
					ws = append(ws, wlOut(w))
				}
				eps := []engine{}
				for _, raw := range resp.EnginesParams {
					e, err := epOut(raw)
					if err != nil {
						res = map[string]any{"err": "other"}
						return
					}
					eps = append(eps, e)
				}
				commit := "ok"
				if _, err := p.SetNodeResourceUsage(ctx, node, nil, nil, resp.WorkloadsResource, true, true); err != nil {
					commit = errClass(err)
				}
				res = map[string]any{"ws": ws, "eps": eps, "commit": commit}
			} else {
				resp, err := p.CalculateRealloc(ctx, node, k.Origin.raw(), rq)
				if err != nil {
					res = map[string]any{"err": errClass(err)}
					return
				}
				w := &cmtypes.WorkloadResource{}
				if err := w.Parse(resp.WorkloadResource); err != nil {
					res = map[string]any{"err": "other"}
					return
				}
				d := &cmtypes.WorkloadResource{}
				if err := d.Parse(resp.DeltaResource); err != nil {
					res = map[string]any{"err": "other"}
					return
				}
				e, err := epOut(resp.EngineParams)
				if err != nil {
					res = map[string]any{"err": "other"}
					return
				}
				// commit the delta the way the cluster does (usage += delta), observing the plugin's own Validate
				commit := "ok"
				if _, err := p.SetNodeResourceUsage(ctx, node, nil, nil, []plugintypes.WorkloadResource{resp.DeltaResource}, true, true); err != nil {
					commit = errClass(err)
				}
				res = map[string]any{"w": wlOut(w), "d": wlOut(d), "ep": e, "commit": commit}
			}
		}
	})
	switch kind {
	case "panic":
		k.Impl = map[string]any{"panic": msg}
	case "timeout":
		k.Impl = map[string]any{"timeout": true}
	default:
		k.Impl = res
	}
}

// ---------- generators ----------

func cpuID(i int) string { return strconv.Itoa(i) }

func genNode(r *hx.Rng, base int, wholeCore bool) node {
	var nc int
	switch {
	case r.Chance(55):
		nc = r.Range(1, 6)
	case r.Chance(70):
		nc = r.Range(7, 12)
	default:
		nc = r.Range(13, 16)
	}
	n := node{Cap: map[string]int{}, Use: map[string]int{}, NUMA: map[string]string{}, NUMAMem: map[string]int64{}, NUMAMemUse: map[string]int64{}}
	capClass := r.Intn(4) // 0 base, 1 2*base, 2 mixed multiples, 3 non-multiples
	if wholeCore {
		capClass = 0
	}
	useClass := hx.Pick(r, 0, 0, 1, 1, 2, 2, 3, 4) // 0 idle, 1 whole-core usage, 2 fragments, 3 random, 4 nearly full
	for i := 0; i < nc; i++ {
		c := base
		switch capClass {
		case 1:
			c = 2 * base
		case 2:
			c = base * r.Range(1, 3)
		case 3:
			c = hx.Pick(r, base, base+base/2, 2*base, r.Range(1, 3*base), base/2+1)
		}
		u := 0
		switch useClass {
		case 1:
			u = base * r.Range(0, c/base)
		case 2:
			u = hx.Pick(r, 0, 0, base/2, base*3/10, base/10, c)
		case 3:
			u = r.Range(0, c)
		case 4:
			u = hx.Pick(r, c, c, c-base/2, c-1, 0)
		}
		if u > c {
			u = c
		}
		if u < 0 {
			u = 0
		}
		n.Cap[cpuID(i)] = c
		n.Use[cpuID(i)] = u
	}
	// memory: unit-free small numbers; usage from bound and unbound workloads
	n.Mem = int64(hx.Pick(r, 100, 1000, 64, 4096))
	switch hx.Pick(r, 0, 0, 1, 1, 1, 2, 3) {
	case 0:
		n.MemUse = 0
	case 1:
		n.MemUse = n.Mem * int64(r.Range(0, 100)) / 100
	case 2:
		n.MemUse = n.Mem * 9 / 10
	default:
		n.MemUse = n.Mem - int64(r.Range(0, 30))
	}
	if n.MemUse < 0 {
		n.MemUse = 0
	}
	nn := hx.Pick(r, 0, 0, 2, 2, 4)
	if nn > 0 {
		interleave := r.Chance(50)
		for i := 0; i < nc; i++ {
			id := i % nn
			if !interleave {
				id = i * nn / nc
			}
			n.NUMA[cpuID(i)] = "n" + strconv.Itoa(id)
		}
		for j := 0; j < nn; j++ {
			id := "n" + strconv.Itoa(j)
			m := n.Mem / int64(nn)
			if r.Chance(20) {
				m = n.Mem
			}
			n.NUMAMem[id] = m
			switch hx.Pick(r, 0, 0, 1, 1, 2) {
			case 0:
				n.NUMAMemUse[id] = 0
			case 1:
				n.NUMAMemUse[id] = m * int64(r.Range(0, 100)) / 100
			default:
				n.NUMAMemUse[id] = m
			}
		}
	}
	// key sets of the NUMA table (cpu -> NUMA id) and the NUMA memory table that differ
	if nn > 0 && r.Chance(25) {
		switch r.Intn(5) {
		case 0, 1: // stale NUMA entries: cores that are not in the cpu map, on a NUMA id without memory entry (Validate accepts)
			for j := 0; j < r.Range(1, 2); j++ {
				n.NUMA[cpuID(nc+j)] = "n9"
			}
		case 2: // a memory entry for a NUMA id no core maps to (Validate accepts)
			n.NUMAMem["n8"] = n.Mem / 4
			n.NUMAMemUse["n8"] = 0
		case 3: // a NUMA id used by cores of the cpu map without memory entry (Validate rejects; GetCPUPlans accepts)
			delete(n.NUMAMem, "n0")
			delete(n.NUMAMemUse, "n0")
		default: // a core of the cpu map without NUMA entry (Validate rejects; GetCPUPlans accepts)
			delete(n.NUMA, cpuID(r.Intn(nc)))
		}
	}
	return n
}

func genCPU(r *hx.Rng, base int) int64 {
	step := int64(1000 / base) // thousandths per piece (base 10,100,1000 divide 1000)
	switch r.Intn(8) {
	case 0: // whole cores
		return int64(r.Range(1, 3)) * 1000
	case 1: // pure fragment, expressible
		return int64(r.Range(1, base-1)) * step
	case 2: // mixed, expressible
		return int64(r.Range(1, 3))*1000 + int64(r.Range(1, base-1))*step
	case 3: // the classic truncation victims
		return hx.Pick[int64](r, 290, 570, 1150, 580, 1130, 2300, 4350)
	case 4: // below one piece / not expressible at this base
		return hx.Pick[int64](r, 1, 2, 5, 9, 4, 15, 95, 105, 1005, 995, 1999)
	case 5: // arbitrary thousandths
		return int64(r.Range(1, 5000))
	case 6:
		return int64(hx.Pick(r, 1, 1, 2, 2, 3, 4, 8, 16)) * 1000
	default:
		return int64(r.Range(1, 2*base)) * step
	}
}

func genMem(r *hx.Rng, n *node) int64 {
	free := n.Mem - n.MemUse
	switch hx.Pick(r, 0, 0, 1, 1, 1, 2, 2, 3, 4) {
	case 0:
		return 0
	case 1:
		return int64(r.Range(1, 20))
	case 2: // binding
		if free > 3 {
			return free/int64(r.Range(1, 4)) + int64(r.Range(0, 1))
		}
		return 1
	case 3:
		return n.Mem / 4
	default:
		return int64(r.Range(1, int(n.Mem)))
	}
}

// overuseMemory makes the node's memory usage exceed its capacity by 0..3 requests (such a state
// passes Validate, which never looks at node memory, and arises after lowering a node's memory
// capacity); with numa=true also the NUMA nodes' usage (rejected by Validate, accepted by GetCPUPlans).
func overuseMemory(r *hx.Rng, n *node, mem int64, numa bool) {
	if mem <= 0 {
		mem = 1
	}
	n.MemUse = n.Mem + mem*int64(r.Range(0, 3)) + int64(r.Intn(int(mem)))
	if r.Chance(20) {
		n.MemUse = n.Mem + mem*int64(r.Range(1, 3)) // exactly k requests over
	}
	if numa {
		for id, c := range n.NUMAMem {
			if r.Chance(60) {
				n.NUMAMemUse[id] = c + mem*int64(r.Range(0, 3)) + int64(r.Intn(int(mem)))
			}
		}
	}
}

func genMaxShare(r *hx.Rng) int {
	return hx.Pick(r, -1, -1, -1, 1, 1, 2, 3, 5)
}

// place a bound workload of `cpu` thousandths on free resources of n (mutates usage); nil if it does not fit
func placeWorkload(r *hx.Rng, n *node, base int, cpu, mem int64) *workload {
	pieces := int(math.Round(cores(cpu) * float64(base))) // the scheduler's own conversion (after D3)
	if pieces <= 0 {
		return nil
	}
	full, frag := pieces/base, pieces%base
	ids := make([]string, 0, len(n.Cap))
	for id := range n.Cap {
		ids = append(ids, id)
	}
	sort.Strings(ids)
	hx.Shuffle(r, ids)
	m := map[string]int{}
	for _, id := range ids {
		if full > 0 && n.Cap[id]-n.Use[id] >= base {
			m[id] = base
			full--
		}
	}
	if full > 0 {
		return nil
	}
	if frag > 0 {
		ok := false
		for _, id := range ids {
			if _, used := m[id]; !used && n.Cap[id]-n.Use[id] >= frag {
				m[id] = frag
				ok = true
				break
			}
		}
		if !ok {
			return nil
		}
	}
	if n.Mem-n.MemUse < mem {
		return nil
	}
	w := &workload{CPU: cpu, CPULim: cpu, Mem: mem, MemLim: mem, Map: m, NUMAMem: map[string]int64{}}
	// NUMA-local if all cores share a node and it has memory
	if len(n.NUMA) > 0 {
		nodeID, same := "", true
		for id := range m {
			if nodeID == "" {
				nodeID = n.NUMA[id]
			} else if nodeID != n.NUMA[id] {
				same = false
			}
		}
		if same && nodeID != "" && n.NUMAMem[nodeID]-n.NUMAMemUse[nodeID] >= mem && r.Chance(85) {
			w.NUMA = nodeID
			w.NUMAMem[nodeID] = mem
			n.NUMAMemUse[nodeID] += mem
		}
	}
	for id, v := range m {
		n.Use[id] += v
	}
	n.MemUse += mem
	return w
}

func corpus() []*kase {
	mk := func(op string, base, ms int, n node, rq request, count int, o *workload) *kase {
		if n.NUMA == nil {
			n.NUMA = map[string]string{}
		}
		if n.NUMAMem == nil {
			n.NUMAMem = map[string]int64{}
		}
		if n.NUMAMemUse == nil {
			n.NUMAMemUse = map[string]int64{}
		}
		if n.Use == nil {
			n.Use = map[string]int{}
			for k := range n.Cap {
				n.Use[k] = 0
			}
		}
		return &kase{Op: op, Base: base, MaxShare: ms, Node: n, Req: rq, Count: count, Origin: o}
	}
	two := map[string]int{"0": 100, "1": 100}
	return []*kase{
		// D3: 0.29 cores at share base 100 must be 29 pieces
		mk("plans", 100, -1, node{Cap: two, Mem: 1000}, request{Bind: true, CPU: 290}, 1, nil),
		mk("deploy", 100, -1, node{Cap: two, Mem: 1000}, request{Bind: true, CPU: 1150, CPULim: 1150, Mem: 10, MemLim: 10}, 1, nil),
		// D4: request below one piece
		mk("plans", 100, -1, node{Cap: two, Mem: 1000}, request{Bind: true, CPU: 1}, 1, nil),
		mk("plans", 100, -1, node{Cap: two, Mem: 1000}, request{Bind: true, CPU: 1}, 1, &workload{Map: map[string]int{"0": 100}}),
		// D5: more fragment cores than max-share
		mk("plans", 100, 1, node{Cap: two, Use: map[string]int{"0": 50, "1": 50}, Mem: 1000}, request{Bind: true, CPU: 300}, 1, nil),
		// D6: NUMA groups ignore node memory
		mk("plans", 100, -1, node{Cap: map[string]int{"0": 100, "1": 100, "2": 100, "3": 100}, Mem: 100, MemUse: 90,
			NUMA: map[string]string{"0": "n0", "1": "n0", "2": "n1", "3": "n1"}, NUMAMem: map[string]int64{"n0": 50, "n1": 50},
			NUMAMemUse: map[string]int64{"n0": 0, "n1": 0}}, request{Bind: true, CPU: 1000, Mem: 20}, 1, nil),
		// memory usage above capacity (passes Validate; e.g. after the node's memory was lowered):
		// capacity 4096, used 6144, request 1.5 cpu / 1024 mem -> cpuPlans[:-2] without the clamp
		mk("plans", 100, -1, node{Cap: two, Mem: 4096, MemUse: 6144}, request{Bind: true, CPU: 1500, Mem: 1024}, 1, nil),
		mk("deploy", 100, -1, node{Cap: two, Mem: 4096, MemUse: 6144}, request{Bind: true, CPU: 1500, CPULim: 1500, Mem: 1024, MemLim: 1024}, 1, nil),
		mk("capacity", 100, -1, node{Cap: two, Mem: 4096, MemUse: 6144}, request{Bind: true, CPU: 1500, CPULim: 1500, Mem: 1024, MemLim: 1024}, 1, nil),
		mk("capacity", 100, -1, node{Cap: two, Mem: 4096, MemUse: 0}, request{Bind: true, CPU: 1, CPULim: 1}, 1, nil),
		mk("plans", 100, -1, node{Cap: map[string]int{"0": 100, "1": 100, "2": 100, "3": 100}, Mem: 4096, MemUse: 1024,
			NUMA: map[string]string{"0": "n0", "1": "n0", "2": "n1", "3": "n1"}, NUMAMem: map[string]int64{"n0": 2048, "n1": 2048},
			NUMAMemUse: map[string]int64{"n0": 5000, "n1": 0}}, request{Bind: true, CPU: 1000, Mem: 1024}, 1, nil),
		mk("realloc", 100, -1, node{Cap: two, Use: map[string]int{"0": 100, "1": 0}, Mem: 4096, MemUse: 8192},
			request{Keep: true, Mem: 1024, MemLim: 1024}, 1, &workload{CPU: 1000, CPULim: 1000, Mem: 1024, MemLim: 1024, Map: map[string]int{"0": 100}, NUMAMem: map[string]int64{}}),
		// realloc with limit delta > request delta: the request is raised to the limit by Validate and the
		// raised value must be the one recorded (bound 1.0/1.0 on core 0, keep-bind, request +0, limit +1)
		mk("realloc", 100, -1, node{Cap: two, Use: map[string]int{"0": 100, "1": 0}, Mem: 1000, MemUse: 10},
			request{Keep: true, CPU: 0, CPULim: 1000}, 1, &workload{CPU: 1000, CPULim: 1000, Mem: 10, MemLim: 10, Map: map[string]int{"0": 100}, NUMAMem: map[string]int64{}}),
		// both flags (keep-cpu-bind and cpu-bind) are still a keep-bind request: the workload on core 2 must
		// not move to the free core 0
		mk("realloc", 100, -1, node{Cap: map[string]int{"0": 100, "1": 100, "2": 100}, Use: map[string]int{"0": 0, "1": 0, "2": 100}, Mem: 1000, MemUse: 10},
			request{Keep: true, Bind: true}, 1, &workload{CPU: 1000, CPULim: 1000, Mem: 10, MemLim: 10, Map: map[string]int{"2": 100}, NUMAMem: map[string]int64{}}),
		// NUMA table with a stale entry (core 2 is not in the cpu map) on a NUMA id that has no memory entry:
		// Validate accepts the node; every bound path must still work
		mk("plans", 100, -1, node{Cap: two, Mem: 1000, NUMA: map[string]string{"0": "n0", "1": "n0", "2": "n1"},
			NUMAMem: map[string]int64{"n0": 500}, NUMAMemUse: map[string]int64{"n0": 0}}, request{Bind: true, CPU: 1000, Mem: 10}, 1, nil),
		mk("deploy", 100, -1, node{Cap: two, Mem: 1000, NUMA: map[string]string{"0": "n0", "1": "n0", "2": "n1"},
			NUMAMem: map[string]int64{"n0": 500}, NUMAMemUse: map[string]int64{"n0": 0}}, request{Bind: true, CPU: 1000, CPULim: 1000, Mem: 10, MemLim: 10}, 1, nil),
		mk("capacity", 100, -1, node{Cap: two, Mem: 1000, NUMA: map[string]string{"0": "n0", "1": "n0", "2": "n1"},
			NUMAMem: map[string]int64{"n0": 500}, NUMAMemUse: map[string]int64{"n0": 0}}, request{Bind: true, CPU: 1000, CPULim: 1000, Mem: 10, MemLim: 10}, 1, nil),
		mk("realloc", 100, -1, node{Cap: two, Use: map[string]int{"0": 100, "1": 0}, Mem: 1000, MemUse: 10, NUMA: map[string]string{"0": "n0", "1": "n0", "2": "n1"},
			NUMAMem: map[string]int64{"n0": 500}, NUMAMemUse: map[string]int64{"n0": 10}}, request{Keep: true}, 1,
			&workload{CPU: 1000, CPULim: 1000, Mem: 10, MemLim: 10, Map: map[string]int{"0": 100}, NUMA: "n0", NUMAMem: map[string]int64{"n0": 10}}),
		// realloc with memory above the NUMA node's free memory that fits the node: two bound 1-core/1024 workloads on
		// NUMA node n0 (2048), the first asks +1024 under keep-cpu-bind -> it must not stay on n0 with 2048 booked
		mk("realloc", 100, -1, node{Cap: map[string]int{"0": 100, "1": 100, "2": 100, "3": 100}, Use: map[string]int{"0": 100, "1": 100, "2": 0, "3": 0}, Mem: 8192, MemUse: 2048,
			NUMA: map[string]string{"0": "n0", "1": "n0", "2": "n1", "3": "n1"}, NUMAMem: map[string]int64{"n0": 2048, "n1": 2048},
			NUMAMemUse: map[string]int64{"n0": 2048, "n1": 0}}, request{Keep: true, Mem: 1024, MemLim: 1024}, 1,
			&workload{CPU: 1000, CPULim: 1000, Mem: 1024, MemLim: 1024, Map: map[string]int{"0": 100}, NUMA: "n0", NUMAMem: map[string]int64{"n0": 1024}}),
		// realloc pushing the limits below the unchanged requests: cpu 2/2, mem 1024/1024, cpu-limit -1, memory-limit -512:
		// Validate raises the limits back; the engine must get the recorded limits (2 cpu / 1024)
		mk("realloc", 100, -1, node{Cap: map[string]int{"0": 100, "1": 100, "2": 100}, Use: map[string]int{"0": 100, "1": 100, "2": 0}, Mem: 8192, MemUse: 1024},
			request{Keep: true, CPULim: -1000, MemLim: -512}, 1,
			&workload{CPU: 2000, CPULim: 2000, Mem: 1024, MemLim: 1024, Map: map[string]int{"0": 100, "1": 100}, NUMAMem: map[string]int64{}}),
		// D23: fractional workload moved by keep-bind realloc
		mk("realloc", 100, -1, node{Cap: two, Use: map[string]int{"0": 100, "1": 50}, Mem: 1000, MemUse: 10},
			request{Keep: true}, 1, &workload{CPU: 1500, CPULim: 1500, Mem: 10, MemLim: 10, Map: map[string]int{"0": 100, "1": 50}, NUMAMem: map[string]int64{}}),
	}
}

func TestGen(t *testing.T) {
	seed := hx.Seed()
	r := hx.NewRng(seed)
	ncases := hx.EnvInt("VERIF_CASES", 1000)
	prop := os.Getenv("VERIF_PROPERTY")
	out := hx.OpenOut()
	defer out.Close()
	id := 0
	timeouts := 0
	emit := func(k *kase) {
		if timeouts >= 3 {
			return // a timed-out call keeps running (and allocating) in its leaked goroutine: stop early
		}
		k.ID = fmt.Sprintf("%s-s%d-%d", k.Op, seed, id)
		id++
		k.Impl = nil
		runCase(t, k)
		if _, ok := k.Impl["timeout"]; ok {
			timeouts++
		}
		out.Emit(k)
	}
	if rp := os.Getenv("VERIF_REPLAY"); rp != "" {
		f, err := os.Open(rp)
		if err != nil {
			t.Fatal(err)
		}
		defer f.Close()
		sc := bufio.NewScanner(f)
		sc.Buffer(make([]byte, 1<<20), 1<<26)
		for sc.Scan() {
			k := &kase{}
			if json.Unmarshal(sc.Bytes(), k) == nil && k.Op != "" {
				emit(k)
			}
		}
		return
	}
	for _, k := range corpus() {
		emit(k)
	}
	if prop == "C05" { // exhaustive expressible requests k/B, k ≤ 20·B (B=10,100), sampled for 1000
		for _, base := range []int{10, 100, 1000} {
			step := 1
			if base == 1000 && !hx.Thorough() {
				step = 7
			}
			n := node{Cap: map[string]int{}, Use: map[string]int{}, Mem: 1000, NUMA: map[string]string{}, NUMAMem: map[string]int64{}, NUMAMemUse: map[string]int64{}}
			for i := 0; i < 21; i++ {
				n.Cap[cpuID(i)] = base
				n.Use[cpuID(i)] = 0
			}
			lim := 20 * base
			if !hx.Thorough() && base == 1000 {
				lim = 3 * base
			}
			for k := 1; k <= lim; k += step {
				emit(&kase{Op: "plans", Base: base, MaxShare: -1, Node: n, Req: request{Bind: true, CPU: int64(k) * int64(1000/base)}, Count: 1})
			}
		}
	}
	for c := 0; c < ncases; c++ {
		base := hx.Pick(r, 10, 100, 100, 1000)
		op := "plans"
		switch prop {
		case "C33":
			op = hx.Pick(r, "realloc", "realloc", "realloc", "plans")
		case "C04":
			op = hx.Pick(r, "plans", "deploy", "deploy", "realloc")
		case "C05":
			op = hx.Pick(r, "plans", "deploy", "realloc")
		case "C06":
			op = hx.Pick(r, "plans", "plans", "deploy", "realloc", "capacity")
		case "C31":
			op = hx.Pick(r, "deploy", "realloc", "realloc", "remap")
		default:
			op = hx.Pick(r, "plans", "deploy", "realloc")
		}
		ms := genMaxShare(r)
		switch op {
		case "plans":
			n := genNode(r, base, false)
			k := &kase{Op: op, Base: base, MaxShare: ms, Node: n, Req: request{Bind: true, CPU: genCPU(r, base), Mem: genMem(r, &n)}, Count: 1}
			if r.Chance(8) {
				if k.Req.Mem == 0 {
					k.Req.Mem = int64(r.Range(1, 40))
				}
				overuseMemory(r, &k.Node, k.Req.Mem, r.Chance(30))
			}
			if prop == "C33" || r.Chance(25) { // affinity: a workload living on the node, given back first
				w := placeWorkload(r, &n, base, k.Req.CPU, 0)
				if w != nil {
					for id, v := range w.Map { // GetCPUPlans sees the node with the workload's cores returned
						n.Use[id] -= v
					}
					k.Origin = w
				} else if r.Chance(50) { // arbitrary origin map
					k.Origin = &workload{Map: map[string]int{cpuID(r.Intn(len(n.Cap))): hx.Pick(r, base, base/2, 2*base)}}
				}
			}
			emit(k)
		case "remap":
			n := genNode(r, base, false)
			emit(&kase{Op: op, Base: base, MaxShare: ms, Node: n, Count: 1, Wls: genRemapWorkloads(r, &n, base)})
		case "deploy", "capacity":
			n := genNode(r, base, false)
			cpu := genCPU(r, base)
			rq := request{Bind: r.Chance(85), CPU: cpu, CPULim: cpu, Mem: genMem(r, &n)}
			rq.MemLim = rq.Mem
			if r.Chance(10) {
				rq.CPULim = cpu + int64(r.Range(0, 500))
			}
			if r.Chance(5) {
				rq.CPU = 0
			}
			if r.Chance(8) {
				if rq.Mem == 0 {
					rq.Mem = int64(r.Range(1, 40))
					rq.MemLim = rq.Mem
				}
				overuseMemory(r, &n, rq.Mem, r.Chance(15))
			}
			emit(&kase{Op: op, Base: base, MaxShare: ms, Node: n, Req: rq, Count: hx.Pick(r, 1, 1, 1, 2, 2, 3, r.Range(1, 8))})
		case "realloc":
			whole := r.Chance(80)
			n := genNode(r, base, whole)
			var cpu int64
			cpuDelta := prop != "C33" && r.Chance(45)
			if prop == "C31" {
				cpuDelta = r.Chance(70)
			} // request/limit deltas (exact in float: multiples of 0.5 core)
			if cpuDelta {
				cpu = int64(r.Range(1, 6)) * 500
			} else if r.Chance(60) {
				cpu = int64(r.Range(1, 3)) * 1000
			} else {
				cpu = genCPU(r, base)
			}
			mem := int64(r.Range(0, 20))
			w := placeWorkload(r, &n, base, cpu, mem)
			if w == nil {
				c-- // rejection sampling keeps the case count
				if r.Chance(2) {
					c++
				}
				continue
			}
			delta := hx.Pick[int64](r, 0, 0, 0, int64(r.Range(1, 10)), -int64(r.Range(0, int(mem))), n.Mem)
			if w.NUMA != "" && r.Chance(35) { // memory-only delta above the NUMA node's free memory that still fits the node
				freeN := n.NUMAMem[w.NUMA] - n.NUMAMemUse[w.NUMA]
				if d := freeN + int64(r.Range(1, 5)); d > 0 && d <= n.Mem-n.MemUse {
					delta = d
				}
			}
			if r.Chance(6) {
				overuseMemory(r, &n, mem+1, false)
			}
			rq := request{Keep: true, Mem: delta, MemLim: delta}
			if r.Chance(15) { // memory limit delta that differs from the request delta, also pushing the limit below the request
				rq.Mem = hx.Pick[int64](r, 0, 0, delta)
				rq.MemLim = hx.Pick[int64](r, -int64(r.Range(1, int(mem)+1)), rq.Mem+int64(r.Range(1, 10)), -mem)
			}
			if cpuDelta {
				half := func(lo, hi int) int64 { return int64(r.Range(lo, hi)) * 500 }
				switch r.Intn(6) {
				case 0: // limit delta > request delta (request raised to the limit when bound)
					rq.CPU, rq.CPULim = 0, half(1, 4)
				case 1:
					rq.CPU = half(0, 3)
					rq.CPULim = rq.CPU + half(1, 3)
				case 2: // limit delta < request delta
					rq.CPU = half(1, 4)
					rq.CPULim = rq.CPU - half(1, 3)
				case 3: // negative deltas; limit pushed below the unchanged request (Validate raises it back)
					if r.Chance(50) {
						rq.CPU, rq.CPULim = 0, -half(1, 2)
					} else {
						rq.CPU, rq.CPULim = -half(0, 3), -half(0, 3)
					}
				case 4: // equal deltas
					rq.CPU = half(-2, 4)
					rq.CPULim = rq.CPU
				default:
					rq.CPU, rq.CPULim = half(-3, 4), half(-3, 4)
				}
				switch r.Intn(5) {
				case 0: // explicit bind instead of keep-bind
					rq.Keep, rq.Bind = false, true
				case 1: // unbind
					rq.Keep, rq.Bind = false, false
				}
			}
			if !cpuDelta { // flag combinations on an unchanged request: both flags still mean "keep the binding"
				switch r.Intn(10) {
				case 0, 1, 2: // keep-cpu-bind and cpu-bind together
					rq.Keep, rq.Bind = true, true
				case 3: // cpu-bind only on an already bound workload (affinity map is still passed)
					rq.Keep, rq.Bind = false, true
				case 4: // neither flag: the workload is unbound
					rq.Keep, rq.Bind = false, false
				}
			} else if rq.Keep && r.Chance(40) {
				rq.Bind = true
			}
			emit(&kase{Op: op, Base: base, MaxShare: ms, Node: n, Req: rq, Count: 1, Origin: w})
		}
	}
	// malformed stream: invalid node, max-share 0, zero/negative request, unbound
	bad := genNode(r, 100, false)
	bad.Use["0"] = bad.Cap["0"] + 1
	emit(&kase{Op: "deploy", Base: 100, MaxShare: -1, Node: bad, Req: request{Bind: true, CPU: 1000, CPULim: 1000}, Count: 1})
	okn := genNode(r, 100, false)
	emit(&kase{Op: "deploy", Base: 100, MaxShare: -1, Node: okn, Req: request{Bind: true, CPU: 0}, Count: 1})
	emit(&kase{Op: "deploy", Base: 100, MaxShare: -1, Node: okn, Req: request{Bind: true, CPU: -1000, CPULim: -1000}, Count: 1})
	emit(&kase{Op: "deploy", Base: 100, MaxShare: -1, Node: okn, Req: request{Bind: false, CPU: 500, CPULim: 500, Mem: -5, MemLim: -5}, Count: 1})
	emit(&kase{Op: "plans", Base: 100, MaxShare: 0, Node: okn, Req: request{Bind: true, CPU: 300}, Count: 1})
}
