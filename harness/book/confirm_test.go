package book

import (
	"fmt"
	"math"
	"testing"

	plugintypes "github.com/projecteru2/core/resource/plugins/types"
	resourcetypes "github.com/projecteru2/core/resource/types"
)

func TestConfirm(t *testing.T) {
	f := newFixture(t)
	// D9
	s1 := &scripted{name: "s1"}
	s1.set(map[string]*plugintypes.NodeDeployCapacity{"a": {Capacity: 3, Usage: 0.5, Rate: 0.25, Weight: 2}})
	m := scriptedOnly(f.cfg, s1)
	r, total, err := m.GetNodesDeployCapacity(f.ctx, []string{"a"}, resourcetypes.Resources{})
	fmt.Println("D9 single plugin weight 2 usage .5:", r["a"].Usage, r["a"].Rate, total, err)
	// D8
	neg := 0
	for i := 0; i < 20; i++ {
		s1.set(map[string]*plugintypes.NodeDeployCapacity{"a": {Capacity: math.MaxInt, Weight: 1}, "b": {Capacity: 5, Weight: 1}})
		_, total, _ = m.GetNodesDeployCapacity(f.ctx, []string{"a", "b"}, resourcetypes.Resources{})
		if total < 0 {
			neg++
		}
	}
	fmt.Println("D8 negative totals:", neg, "of 20")
	// D7
	_, err = f.cm.SetNodeResourceInfo(f.ctx, "numa1", plugintypes.NodeResource{
		"cpu": 4.0, "cpu_map": map[string]int{"0": 100, "1": 100, "2": 100, "3": 100}, "memory": int64(4000),
		"numa_memory": map[string]int64{"0": 2000, "1": 2000}, "numa": map[string]string{"0": "0", "1": "0", "2": "1", "3": "1"}}, nil)
	fmt.Println("set", err)
	wl, _, err := f.mgr.Alloc(f.ctx, "numa1", 1, resourcetypes.Resources{"cpumem": {"cpu-bind": true, "cpu-request": 1.0, "memory-request": int64(100)}})
	fmt.Println("alloc", wl, err)
	_, delta, nw, err := f.mgr.Realloc(f.ctx, "numa1", wl[0], resourcetypes.Resources{"cpumem": {"keep-cpu-bind": true, "memory-request": int64(50)}})
	fmt.Println("realloc delta", delta, "new", nw, err)
	_, u, diffs, _ := f.mgr.GetNodeResourceInfo(f.ctx, "numa1", nil, false)
	fmt.Println("usage", u, diffs)
}
