package book

import "math"

// Fixed corpus: the witnesses of the defects found earlier (D7, D8, D9), always run first.

func ip(v int) *int { return &v }

func flatNode(cores int, mem int64) nodeRes {
	c := nodeRes{CPU: int64(cores) * nano, CM: map[string]int{}, Mem: mem, NM: map[string]int64{}}
	for i := 0; i < cores; i++ {
		c.CM[coreName(i)] = share
	}
	return c
}

func numaNode4() nodeRes {
	c := flatNode(4, 4000)
	c.NUMA = map[string]string{"0": "0", "1": "0", "2": "1", "3": "1"}
	c.NM = map[string]int64{"0": 2000, "1": 2000}
	return c
}

func emptyUsage() nodeRes { return nodeRes{CM: map[string]int{}, NM: map[string]int64{}} }

// D8: an unlimited node and a finite node -> the total must stay at MaxInt64
func corpusC07() []*case07 {
	return []*case07{
		{Prop: "C07", Req: reqJ{CR: nano / 2}, Ks: []int{1}, Nodes: []node07{
			{Name: "n0", Cap: flatNode(2, 1000), Usage: emptyUsage(), Extra: []*int{ip(math.MaxInt)}},
			{Name: "n1", Cap: flatNode(2, 1000), Usage: emptyUsage(), Extra: []*int{ip(5)}},
			{Name: "n2", Cap: flatNode(2, 1000), Usage: emptyUsage(), Extra: []*int{ip(7)}}}},
		// a node list naming nodes twice (and a zero-capacity node twice): the total counts every offered node once
		{Prop: "C07", Req: reqJ{MR: 250}, Ks: []int{1}, Mentions: []int{1, 0, 1, 2, 2, 0}, Nodes: []node07{
			{Name: "n0", Cap: flatNode(2, 1000), Usage: emptyUsage(), Extra: []*int{}},
			{Name: "n1", Cap: flatNode(2, 300), Usage: emptyUsage(), Extra: []*int{}},
			{Name: "n2", Cap: flatNode(2, 100), Usage: emptyUsage(), Extra: []*int{}}}},
		{Prop: "C07", Req: reqJ{MR: 100}, Nodes: []node07{
			{Name: "n0", Cap: flatNode(2, 1000), Usage: emptyUsage(), Extra: []*int{}}}},
	}
}

// D7: realloc of a NUMA-bound workload (the delta must carry the NUMA memory), then its rollback
func corpusC08() []*case08 {
	zero, one := 0, 1
	_ = zero
	return []*case08{
		{Prop: "C08", Cap: numaNode4(), Ops: []op08{
			{Op: "alloc", K: 1, Req: &reqJ{Bind: true, CR: nano, MR: 100}},
			{Op: "realloc", I: 0, Req: &reqJ{Keep: true, MR: 50}},
			{Op: "rbrealloc", Restores: &one},
			{Op: "realloc", I: 0, Req: &reqJ{Keep: true, MR: 50, CR: nano}},
			{Op: "drop", Idx: []int{0}}}},
		// another plugin fails in the commit: cobalt rolls cpumem back with the Before it reported
		// (escaped mutant: Before aliased the updated usage)
		{Prop: "C08", Cap: numaNode4(), Order: 1, Ops: []op08{
			{Op: "alloc", K: 2, Req: &reqJ{Bind: true, CR: nano, MR: 100}},
			{Op: "alloc", K: 1, Req: &reqJ{CR: nano / 2, MR: 300}, Fail: true},
			{Op: "drop", Idx: []int{0}, Fail: true},
			{Op: "realloc", I: 1, Req: &reqJ{Keep: true, MR: 50}, Fail: true},
			{Op: "realloc", I: 1, Req: &reqJ{Keep: true, MR: 50}},
			{Op: "rbrealloc", Fail: true},
			{Op: "drop", Idx: []int{1}, Direct: true},
			{Op: "drop", Idx: []int{0}}}},
		// rollback of a release: the released resources are re-added with Incr
		{Prop: "C08", Cap: flatNode(2, 1000), Ops: []op08{
			{Op: "alloc", K: 1, Req: &reqJ{Bind: true, CR: nano, MR: 100}},
			{Op: "alloc", K: 1, Req: &reqJ{CR: nano / 2, MR: 300}},
			{Op: "drop", Idx: []int{1}},
			{Op: "readd", W: &wres{CR: nano / 2, MR: 300, CM: map[string]int{}, NM: map[string]int64{}}, Restores: ip(2)},
			{Op: "drop", Idx: []int{0, 1}}}},
	}
}

// D9: the first answer must be weighted like the others
func corpusC09() []*case09 {
	return []*case09{
		{Prop: "C09", Answers: []ans09{{Name: "p0", Nodes: map[string]cap09{"n0": {Cap: 3, U: 512, R: 256, W: 8}}}}},
		{Prop: "C09", Answers: []ans09{
			{Name: "p0", Nodes: map[string]cap09{"n0": {Cap: 3, U: 512, R: 256, W: 8}, "n1": {Cap: math.MaxInt, U: 100, R: 0, W: 8}}},
			{Name: "p1", Nodes: map[string]cap09{"n0": {Cap: 2, U: 1024, R: 512, W: 4}, "n1": {Cap: 5, U: 7, R: 9, W: 4}}}}},
		// a zero-weight plugin's capacity binds whatever the order (escaped mutant: zero-weight later answers skipped)
		{Prop: "C09", Answers: []ans09{
			{Name: "p0", Nodes: map[string]cap09{"n1": {Cap: 2, U: 512, R: 256, W: 0}}},
			{Name: "p1", Nodes: map[string]cap09{"n1": {Cap: 10, U: 100, R: 50, W: 4}}}}},
		// the caller gives up between the fast and the slow answer: error or the full merge, never a partial one
		{Prop: "C09", Sched: &sched09{DelayMS: []int{0, 14}, CancelMS: 4}, Answers: []ans09{
			{Name: "p0", Nodes: map[string]cap09{"n1": {Cap: 5, U: 512, R: 256, W: 4}, "n2": {Cap: 5, U: 512, R: 256, W: 4}}},
			{Name: "p1", Nodes: map[string]cap09{"n1": {Cap: 2, U: 100, R: 50, W: 4}}}}},
		{Prop: "C09", Sched: &sched09{DelayMS: []int{14, 0}, CancelMS: 4, Deadline: true}, Answers: []ans09{
			{Name: "p0", Nodes: map[string]cap09{"n1": {Cap: 2, U: 100, R: 50, W: 4}}},
			{Name: "p1", Nodes: map[string]cap09{"n1": {Cap: 5, U: 512, R: 256, W: 4}, "n2": {Cap: 5, U: 512, R: 256, W: 4}}}}},
		{Prop: "C09", Answers: []ans09{
			{Name: "p0", Nodes: map[string]cap09{"n0": {Cap: 7, U: 0, R: 0, W: 4}, "n1": {Cap: 9, U: 1, R: 1, W: 4}}},
			{Name: "p1", Nodes: map[string]cap09{"n0": {Cap: 3, U: 2048, R: 1024, W: 0}}},
			{Name: "p2", Nodes: map[string]cap09{"n0": {Cap: 5, U: 10, R: 10, W: 0}, "n1": {Cap: 1, U: 10, R: 10, W: 0}}}}},
	}
}
