// Scripted resource plugin and shared set-up for the "book" harness (C07, C08, C09, C15, C32).
package book

import (
	"context"
	"errors"
	"math"
	"os"
	"sync"
	"testing"
	"time"

	"github.com/projecteru2/core/resource/cobalt"
	"github.com/projecteru2/core/resource/plugins"
	"github.com/projecteru2/core/resource/plugins/cpumem"
	cmtypes "github.com/projecteru2/core/resource/plugins/cpumem/types"
	plugintypes "github.com/projecteru2/core/resource/plugins/types"
	coretypes "github.com/projecteru2/core/types"
)

// scripted is a plugin whose deploy capacities are scripted per node; it accepts an
// allocation of k instances on a node iff k <= its scripted capacity for that node.
// All other calls succeed with empty answers (it keeps no usage).
type scripted struct {
	plugins.Plugin // nil: any unscripted call panics (caught by hx.Guard)
	name           string
	mu             sync.Mutex
	caps           map[string]*plugintypes.NodeDeployCapacity
	nilMap         bool // answer with a nil capacity map (as a JSON plugin answering `null` would)
	failSet        bool // SetNodeResourceUsage fails (another plugin failing in cobalt's commit)
	delay          time.Duration  // GetNodesDeployCapacity answers only after this delay (a slow plugin; it does not watch ctx)
	counting       bool           // keeps a per-node usage counter (number of live workloads it was told about)
	count          map[string]int // node -> counter
}

var errScripted = errors.New("scripted plugin failure")

func (s *scripted) setFail(v bool) {
	s.mu.Lock()
	defer s.mu.Unlock()
	s.failSet = v
}

func (s *scripted) setCap(node string, c *plugintypes.NodeDeployCapacity) {
	s.mu.Lock()
	defer s.mu.Unlock()
	if s.caps == nil {
		s.caps = map[string]*plugintypes.NodeDeployCapacity{}
	}
	if c == nil {
		delete(s.caps, node)
	} else {
		s.caps[node] = c
	}
}

// CalculateRemap answers for every workload (also the bound ones) with its own parameter.
func (s *scripted) CalculateRemap(_ context.Context, _ string, ws map[string]plugintypes.WorkloadResource) (*plugintypes.CalculateRemapResponse, error) {
	resp := &plugintypes.CalculateRemapResponse{EngineParamsMap: map[string]plugintypes.EngineParams{}}
	for id := range ws {
		resp.EngineParamsMap[id] = plugintypes.EngineParams{"x0-flag": true}
	}
	return resp, nil
}

func (s *scripted) CalculateRealloc(context.Context, string, plugintypes.WorkloadResource, plugintypes.WorkloadResourceRequest) (*plugintypes.CalculateReallocResponse, error) {
	if s.counting { // the workload stays one workload: delta 0
		return &plugintypes.CalculateReallocResponse{DeltaResource: plugintypes.WorkloadResource{"n": 0}, WorkloadResource: plugintypes.WorkloadResource{"n": 1}}, nil
	}
	return &plugintypes.CalculateReallocResponse{}, nil
}

func toInt(v any) int {
	switch x := v.(type) {
	case int:
		return x
	case int64:
		return int(x)
	case float64:
		return int(x)
	}
	return 0
}

func (s *scripted) getCount(node string) int {
	s.mu.Lock()
	defer s.mu.Unlock()
	return s.count[node]
}

func (s *scripted) setCount(node string, v int, del bool) {
	s.mu.Lock()
	defer s.mu.Unlock()
	if s.count == nil {
		s.count = map[string]int{}
	}
	if del {
		delete(s.count, node)
	} else {
		s.count[node] = v
	}
}

func (s *scripted) Name() string { return s.name }

func (s *scripted) set(caps map[string]*plugintypes.NodeDeployCapacity) {
	s.mu.Lock()
	defer s.mu.Unlock()
	s.caps = caps
}

func (s *scripted) GetNodesDeployCapacity(_ context.Context, nodenames []string, _ plugintypes.WorkloadResourceRequest) (*plugintypes.GetNodesDeployCapacityResponse, error) {
	if s.delay > 0 {
		time.Sleep(s.delay)
	}
	s.mu.Lock()
	defer s.mu.Unlock()
	if s.nilMap {
		return &plugintypes.GetNodesDeployCapacityResponse{}, nil
	}
	out := map[string]*plugintypes.NodeDeployCapacity{}
	total := 0
	for _, n := range nodenames {
		if c, ok := s.caps[n]; ok {
			cp := *c
			out[n] = &cp
			if total > math.MaxInt-c.Capacity {
				total = math.MaxInt
			} else {
				total += c.Capacity
			}
		}
	}
	return &plugintypes.GetNodesDeployCapacityResponse{NodeDeployCapacityMap: out, Total: total}, nil
}

func (s *scripted) CalculateDeploy(_ context.Context, nodename string, deployCount int, _ plugintypes.WorkloadResourceRequest) (*plugintypes.CalculateDeployResponse, error) {
	s.mu.Lock()
	defer s.mu.Unlock()
	c, ok := s.caps[nodename]
	if !ok || deployCount > c.Capacity {
		return nil, coretypes.ErrInsufficientCapacity
	}
	resp := &plugintypes.CalculateDeployResponse{}
	for i := 0; i < deployCount; i++ {
		resp.EnginesParams = append(resp.EnginesParams, plugintypes.EngineParams{})
		w := plugintypes.WorkloadResource{}
		if s.counting {
			w["n"] = 1
		}
		resp.WorkloadsResource = append(resp.WorkloadsResource, w)
	}
	return resp, nil
}

func (s *scripted) SetNodeResourceUsage(_ context.Context, node string, resource plugintypes.NodeResource, _ plugintypes.NodeResourceRequest, ws []plugintypes.WorkloadResource, delta bool, incr bool) (*plugintypes.SetNodeResourceUsageResponse, error) {
	s.mu.Lock()
	defer s.mu.Unlock()
	if s.failSet {
		return nil, errScripted
	}
	if !s.counting {
		return &plugintypes.SetNodeResourceUsageResponse{}, nil
	}
	if s.count == nil {
		s.count = map[string]int{}
	}
	before := s.count[node]
	switch {
	case !delta && resource != nil: // absolute rewrite (cobalt's rollback)
		s.count[node] = toInt(resource["n"])
	default:
		d := 0
		for _, w := range ws {
			d += toInt(w["n"])
		}
		if !incr {
			d = -d
		}
		s.count[node] += d
	}
	return &plugintypes.SetNodeResourceUsageResponse{
		Before: plugintypes.NodeResource{"n": before}, After: plugintypes.NodeResource{"n": s.count[node]}}, nil
}

// ---------------------------------------------------------------------------- fixture

type fixture struct {
	ctx  context.Context
	cm   *cpumem.Plugin
	mgr  *cobalt.Manager // cpumem only
	x0   *scripted       // second plugin of mgr2: accepts everything, fails its SetNodeResourceUsage on demand
	mgr2 *cobalt.Manager // cpumem + x0
	y0   *scripted       // counting plugin: its usage is the number of live workloads it was told about; never fails
	mgrs []*cobalt.Manager // cpumem, x0, y0 in four configured orders (cobalt's call walks the plugins in this order)
	cfg  coretypes.Config
}

func newFixture(t *testing.T) *fixture {
	ctx := context.Background()
	cfg := coretypes.Config{
		Etcd:          coretypes.EtcdConfig{Prefix: "/book"},
		Scheduler:     coretypes.SchedulerConfig{MaxShare: -1, ShareBase: 100},
		GlobalTimeout: 30 * time.Second,
	}
	cm, err := cpumem.NewPlugin(ctx, cfg, t)
	if err != nil {
		t.Fatal(err)
	}
	mgr, _ := cobalt.New(cfg)
	mgr.AddPlugins(cm)
	f := &fixture{ctx: ctx, cm: cm, mgr: mgr, cfg: cfg, x0: &scripted{name: "x0"}}
	f.mgr2 = f.managerWith(f.x0)
	f.y0 = &scripted{name: "y0", counting: true}
	for _, order := range [][]plugins.Plugin{{cm, f.x0, f.y0}, {f.x0, cm, f.y0}, {f.y0, f.x0, cm}, {f.x0, f.y0, cm}} {
		m, _ := cobalt.New(cfg)
		m.AddPlugins(order...)
		f.mgrs = append(f.mgrs, m)
	}
	return f
}

// manager over the shared cpumem plugin plus scripted plugins
func (f *fixture) managerWith(extra ...plugins.Plugin) *cobalt.Manager {
	m, _ := cobalt.New(f.cfg)
	m.AddPlugins(f.cm)
	m.AddPlugins(extra...)
	return m
}

func scriptedOnly(cfg coretypes.Config, ps ...*scripted) *cobalt.Manager {
	m, _ := cobalt.New(cfg)
	for _, p := range ps {
		m.AddPlugins(p)
	}
	return m
}

func errClass(err error) string {
	switch {
	case err == nil:
		return ""
	case errors.Is(err, errScripted):
		return "scripted-failure"
	case errors.Is(err, coretypes.ErrInsufficientCapacity):
		return "insufficient-capacity"
	case errors.Is(err, coretypes.ErrInsufficientResource):
		return "insufficient"
	case errors.Is(err, cmtypes.ErrInvalidCPUMap):
		return "invalid-cpumap"
	case errors.Is(err, cmtypes.ErrInvalidNUMAMemory):
		return "invalid-numa-memory"
	case errors.Is(err, cmtypes.ErrInvalidNUMACPU):
		return "invalid-numa-cpu"
	case errors.Is(err, cmtypes.ErrInvalidCPU):
		return "invalid-cpu"
	case errors.Is(err, cmtypes.ErrInvalidMemory):
		return "invalid-memory"
	case errors.Is(err, cmtypes.ErrInvalidCapacity):
		return "invalid-capacity"
	case errors.Is(err, coretypes.ErrInvaildCount):
		return "invalid-count"
	}
	return "other"
}

// transient reports whether err is an unclassified (infrastructure) error: embedded etcd under
// load occasionally times out; such calls are retried so that they are not mistaken for a refusal.
func transient(err error) bool { return err != nil && errClass(err) == "other" }

// retry runs f up to 4 times while it fails with a transient error.
func retry(f func() error) error {
	var err error
	n := 4
	if os.Getenv("VERIF_NORETRY") != "" {
		n = 1
	}
	for i := 0; i < n; i++ {
		if err = f(); !transient(err) {
			return err
		}
		time.Sleep(time.Duration(50*(i+1)) * time.Millisecond)
	}
	return err
}
