// Correspondence harness for C07, C08, C09, C15, C32: drives the real cpumem plugin (over
// embedded etcd) and the real cobalt.Manager (plus scripted plugins) on generated node
// states, requests and operation histories; writes one JSON case (inputs + implementation
// results) per line for the Lean oracle `oracle_book`.
package book

import (
	"bufio"
	"context"
	"encoding/json"
	"fmt"
	"math"
	"os"
	"sort"
	"testing"
	"time"

	"verifharness/hx"

	"github.com/mitchellh/mapstructure"
	cmtypes "github.com/projecteru2/core/resource/plugins/cpumem/types"
	plugintypes "github.com/projecteru2/core/resource/plugins/types"
	resourcetypes "github.com/projecteru2/core/resource/types"
	coretypes "github.com/projecteru2/core/types"
)

const nano = 1e9
const share = 100

// ---------------------------------------------------------------------------- JSON shapes

type nodeRes struct {
	CPU  int64             `json:"cpu"` // nano-cores
	CM   map[string]int    `json:"cm"`
	Mem  int64             `json:"mem"`
	NM   map[string]int64  `json:"nm"`
	NUMA map[string]string `json:"numa,omitempty"`
}

type wres struct {
	CR int64            `json:"cr"`
	CL int64            `json:"cl"`
	MR int64            `json:"mr"`
	ML int64            `json:"ml"`
	CM map[string]int   `json:"cm"`
	NM map[string]int64 `json:"nm"`
	NN string           `json:"nn"`
}

type reqJ struct {
	Bind bool  `json:"bind"`
	Keep bool  `json:"keep"`
	CR   int64 `json:"cr"`
	CL   int64 `json:"cl"`
	MR   int64 `json:"mr"`
	ML   int64 `json:"ml"`
}

func toNano(f float64) int64 { return int64(math.Round(f * nano)) }

func (n nodeRes) raw() resourcetypes.RawParams {
	r := resourcetypes.RawParams{"cpu": float64(n.CPU) / nano, "cpu_map": n.CM, "memory": n.Mem, "numa_memory": n.NM}
	if n.NUMA != nil {
		r["numa"] = n.NUMA
	}
	return r
}

func nodeResOf(raw resourcetypes.RawParams) nodeRes {
	x := &cmtypes.NodeResource{}
	if err := x.Parse(raw); err != nil {
		panic(err)
	}
	n := nodeRes{CPU: toNano(x.CPU), CM: map[string]int{}, Mem: x.Memory, NM: map[string]int64{}}
	for k, v := range x.CPUMap {
		n.CM[k] = v
	}
	for k, v := range x.NUMAMemory {
		n.NM[k] = v
	}
	return n
}

func (w wres) raw() resourcetypes.RawParams {
	return resourcetypes.RawParams{"cpu_request": float64(w.CR) / nano, "cpu_limit": float64(w.CL) / nano,
		"memory_request": w.MR, "memory_limit": w.ML, "cpu_map": w.CM, "numa_memory": w.NM, "numa_node": w.NN}
}

func wresOf(raw resourcetypes.RawParams) wres {
	x := &cmtypes.WorkloadResource{}
	if err := x.Parse(raw); err != nil {
		panic(err)
	}
	w := wres{CR: toNano(x.CPURequest), CL: toNano(x.CPULimit), MR: x.MemoryRequest, ML: x.MemoryLimit,
		CM: map[string]int{}, NM: map[string]int64{}, NN: x.NUMANode}
	for k, v := range x.CPUMap {
		w.CM[k] = v
	}
	for k, v := range x.NUMAMemory {
		w.NM[k] = v
	}
	return w
}

func (q reqJ) raw() resourcetypes.RawParams {
	return resourcetypes.RawParams{"cpu-bind": q.Bind, "keep-cpu-bind": q.Keep, "cpu-request": float64(q.CR) / nano,
		"cpu-limit": float64(q.CL) / nano, "memory-request": q.MR, "memory-limit": q.ML}
}

// extensional equality of usages (zero entries = absent entries)
func usageEq(a, b nodeRes) bool {
	if a.CPU != b.CPU || a.Mem != b.Mem {
		return false
	}
	for k, v := range a.CM {
		if b.CM[k] != v {
			return false
		}
	}
	for k, v := range b.CM {
		if a.CM[k] != v {
			return false
		}
	}
	for k, v := range a.NM {
		if b.NM[k] != v {
			return false
		}
	}
	for k, v := range b.NM {
		if a.NM[k] != v {
			return false
		}
	}
	return true
}

// ---------------------------------------------------------------------------- generators

func coreName(i int) string { return fmt.Sprint(i) }

func genCapacity(r *hx.Rng, numa bool) nodeRes {
	nc := r.Range(1, 6)
	if numa && nc < 2 {
		nc = 2
	}
	c := nodeRes{CM: map[string]int{}, NM: map[string]int64{}}
	odd := r.Chance(15)
	for i := 0; i < nc; i++ {
		p := share
		if odd {
			p = hx.Pick(r, 50, 100, 150, 200)
		}
		c.CM[coreName(i)] = p
	}
	c.CPU = int64(nc) * nano
	c.Mem = hx.Pick(r, int64(1000), 4096, 10000, 1<<30, 64<<30)
	if numa {
		c.NUMA = map[string]string{}
		for i := 0; i < nc; i++ {
			c.NUMA[coreName(i)] = fmt.Sprint(i * 2 / nc)
		}
		c.NM["0"] = c.Mem / 2
		c.NM["1"] = c.Mem - c.Mem/2
		if r.Chance(20) {
			c.NM["0"] = c.Mem / 4
		}
	}
	return c
}

// workloads that are consistent with the capacity (bound ones take pieces from cores)
func genWorkloads(r *hx.Rng, c nodeRes, n int) []wres {
	free := map[string]int{}
	for k, v := range c.CM {
		free[k] = v
	}
	nfree := map[string]int64{}
	for k, v := range c.NM {
		nfree[k] = v
	}
	ws := []wres{}
	unit := c.Mem / 16
	if unit == 0 {
		unit = 1
	}
	for i := 0; i < n; i++ {
		w := wres{CM: map[string]int{}, NM: map[string]int64{}}
		w.MR = unit * int64(r.Range(0, 5))
		if r.Chance(50) {
			w.ML = w.MR
		}
		if r.Chance(55) { // bound
			cores := []string{}
			for k := range c.CM {
				if free[k] > 0 {
					cores = append(cores, k)
				}
			}
			sort.Strings(cores)
			hx.Shuffle(r, cores)
			take := r.Range(1, 2)
			pieces := 0
			node := ""
			same := true
			for j := 0; j < take && j < len(cores); j++ {
				p := hx.Pick(r, 100, 100, 50, 30, 70)
				if p > free[cores[j]] {
					p = free[cores[j]]
				}
				w.CM[cores[j]] = p
				free[cores[j]] -= p
				pieces += p
				if c.NUMA != nil {
					if j > 0 && c.NUMA[cores[j]] != node {
						same = false
					}
					node = c.NUMA[cores[j]]
				}
			}
			w.CR = int64(pieces) * nano / share
			w.CL = w.CR
			if c.NUMA != nil && same && node != "" && w.MR <= nfree[node] && len(w.CM) > 0 {
				w.NN = node
				w.NM[node] = w.MR
				nfree[node] -= w.MR
			}
		} else {
			w.CR = hx.Pick(r, int64(0), nano/2, nano, nano/4, 3*nano/2)
			w.CL = hx.Pick(r, w.CR, 0, w.CR+nano/2)
		}
		ws = append(ws, w)
	}
	return ws
}

func sumUsage(ws []wres) nodeRes {
	u := nodeRes{CM: map[string]int{}, NM: map[string]int64{}}
	for _, w := range ws {
		u.CPU += w.CR
		u.Mem += w.MR
		for k, v := range w.CM {
			u.CM[k] += v
		}
		for k, v := range w.NM {
			u.NM[k] += v
		}
	}
	return u
}

func genReq(r *hx.Rng, c nodeRes, freeMem int64) reqJ {
	q := reqJ{}
	q.Bind = r.Chance(35)
	switch r.Intn(6) {
	case 0:
		q.CR = 0
	case 1:
		q.CR = nano / 2
	case 2:
		q.CR = nano
	case 3:
		q.CR = int64(r.Range(1, 2500)) * (nano / 1000) // decimal request with 3 decimals
	case 4:
		q.CR = int64(len(c.CM))*nano + int64(r.Range(-1, 1))*nano/2 // around the number of cores
	default:
		q.CR = hx.Pick(r, int64(nano/4), 3*nano/2, 2*nano)
	}
	if r.Chance(30) {
		q.CL = q.CR + hx.Pick(r, int64(0), nano/2, -nano/4)
	}
	switch r.Intn(6) {
	case 0:
		q.MR = 0 // unlimited
	case 1, 2:
		if freeMem > 0 {
			q.MR = freeMem / int64(r.Range(1, 7)) // capacity exactly 1..7 (or a bit more)
		} else {
			q.MR = 10
		}
	case 3:
		q.MR = freeMem/int64(r.Range(1, 4)) + int64(r.Range(-1, 1))
	case 4:
		q.MR = hx.Pick(r, int64(1), 100, 1<<20)
	default:
		q.MR = c.Mem / 16
	}
	if q.MR < 0 {
		q.MR = 1
	}
	if r.Chance(30) {
		q.ML = q.MR + hx.Pick(r, int64(0), 10, -1)
	}
	if r.Chance(3) { // malformed stream
		switch r.Intn(4) {
		case 0:
			q.MR = -5
		case 1:
			q.CR = -nano
		case 2:
			q.Bind, q.CR, q.CL = true, 0, 0
		default:
			q.ML = -1
		}
	}
	return q
}

// ---------------------------------------------------------------------------- C07

type node07 struct {
	Name  string  `json:"name"`
	Cap   nodeRes `json:"cap"`
	Usage nodeRes `json:"usage"`
	Extra []*int  `json:"extra"`
}

type try07 struct {
	K        int     `json:"k"`
	OK       bool    `json:"ok"`
	Err      string  `json:"err"`
	WS       []wres  `json:"ws"`
	U1       nodeRes `json:"u1"`
	PCap2    int     `json:"pcap2"`
	Restored bool    `json:"restored"`
	Msg      string  `json:"msg,omitempty"` // text of an unclassified error (diagnosis only)
	Direct   bool    `json:"direct,omitempty"` // plugin.CalculateDeploy only (no commit)
}

type impl07 struct {
	Err    string         `json:"err"`
	SetErr string         `json:"seterr,omitempty"`
	Caps   map[string]int `json:"caps"`
	Total  int            `json:"total"`
	PCaps  map[string]int `json:"pcaps"`
	PTotal int            `json:"ptotal"`
	Tries  []try07        `json:"tries"`
}

type case07 struct {
	ID    string   `json:"id"`
	Prop  string   `json:"prop"`
	Nodes []node07 `json:"nodes"`
	Req   reqJ     `json:"req"`
	Ks    []int    `json:"ks"` // explicit counts; empty = around the reported capacity
	// Mentions: the node list handed to GetNodesDeployCapacity (indices into Nodes, a node may be
	// named several times); empty = every node once
	Mentions []int `json:"mentions,omitempty"`
	Impl  *impl07  `json:"impl"`
}

func genC07(r *hx.Rng, id string) *case07 {
	c := &case07{ID: id, Prop: "C07"}
	nn := hx.Pick(r, 1, 1, 2, 3, 4)
	nextra := 0
	if r.Chance(40) {
		nextra = r.Range(1, 2)
	}
	var free0 int64
	for i := 0; i < nn; i++ {
		cp := genCapacity(r, r.Chance(40))
		ws := genWorkloads(r, cp, r.Range(0, 4))
		u := sumUsage(ws)
		if r.Chance(8) {
			u.Mem = cp.Mem + int64(r.Range(1, 1000)) // negative free memory (never validated)
		}
		n := node07{Name: fmt.Sprintf("n%d", i), Cap: cp, Usage: u, Extra: []*int{}}
		for e := 0; e < nextra; e++ {
			if r.Chance(20) {
				n.Extra = append(n.Extra, nil)
			} else {
				v := hx.Pick(r, 1, 2, 3, 5, 8, math.MaxInt, math.MaxInt)
				n.Extra = append(n.Extra, &v)
			}
		}
		if i == 0 {
			free0 = cp.Mem - u.Mem
		}
		c.Nodes = append(c.Nodes, n)
	}
	if r.Chance(25) { // node lists naming a node more than once (also zero-capacity ones)
		for i := range c.Nodes {
			for k := hx.Pick(r, 1, 1, 2, 3); k > 0; k-- {
				c.Mentions = append(c.Mentions, i)
			}
		}
		hx.Shuffle(r, c.Mentions)
	}
	c.Req = genReq(r, c.Nodes[0].Cap, free0)
	if r.Chance(12) { // unlimited and finite nodes mixed (the total must saturate, in any iteration order)
		c.Req = reqJ{CR: hx.Pick(r, int64(0), nano/2)}
		for i := range c.Nodes {
			v := hx.Pick(r, math.MaxInt, math.MaxInt, 1, 5, 1000, math.MaxInt-1, math.MaxInt/2+1)
			c.Nodes[i].Extra = []*int{&v}
		}
	}
	if r.Chance(4) {
		c.Ks = []int{hx.Pick(r, 0, -1, 1)}
	}
	return c
}

func (f *fixture) pluginCaps(names []string, q reqJ) (map[string]int, int, error) {
	var resp *plugintypes.GetNodesDeployCapacityResponse
	err := retry(func() (e error) { resp, e = f.cm.GetNodesDeployCapacity(f.ctx, names, q.raw()); return })
	if err != nil {
		return nil, 0, err
	}
	out := map[string]int{}
	for k, v := range resp.NodeDeployCapacityMap {
		out[k] = v.Capacity
	}
	return out, resp.Total, nil
}

func (f *fixture) usage(name string) nodeRes {
	var resp *plugintypes.GetNodeResourceInfoResponse
	err := retry(func() (e error) { resp, e = f.cm.GetNodeResourceInfo(f.ctx, name, nil); return })
	if err != nil {
		panic(err)
	}
	return nodeResOf(resp.Usage)
}

func (f *fixture) runC07(c *case07) {
	im := &impl07{Caps: map[string]int{}, PCaps: map[string]int{}, Tries: []try07{}}
	c.Impl = im
	names := []string{}
	nextra := len(c.Nodes[0].Extra)
	extras := make([]*scripted, nextra)
	for e := range extras {
		extras[e] = &scripted{name: fmt.Sprintf("x%d", e), caps: map[string]*plugintypes.NodeDeployCapacity{}}
	}
	real := func(short string) string { return c.ID + "-" + short }
	short := func(name string) string { return name[len(c.ID)+1:] }
	for _, n := range c.Nodes {
		names = append(names, real(n.Name))
		if err := retry(func() error { _, e := f.cm.SetNodeResourceInfo(f.ctx, real(n.Name), n.Cap.raw(), n.Usage.raw()); return e }); err != nil {
			im.SetErr = errClass(err)
			return
		}
		for e, v := range n.Extra {
			if v != nil && e < nextra {
				extras[e].caps[real(n.Name)] = &plugintypes.NodeDeployCapacity{Capacity: *v, Weight: 1}
			}
		}
	}
	mgr := f.mgr
	if nextra > 0 {
		mgr = scriptedOnly(f.cfg)
		mgr.AddPlugins(f.cm)
		for _, e := range extras {
			mgr.AddPlugins(e)
		}
	}
	if len(c.Mentions) > 0 {
		asked := []string{}
		for _, i := range c.Mentions {
			if i >= 0 && i < len(c.Nodes) {
				asked = append(asked, real(c.Nodes[i].Name))
			}
		}
		defer func(all []string) { // clean every node up, whatever was asked for
			for _, n := range all {
				f.cm.RemoveNode(f.ctx, n) //nolint
			}
		}(names)
		names = asked
	}
	opts := resourcetypes.Resources{"cpumem": c.Req.raw()}
	var caps map[string]*plugintypes.NodeDeployCapacity
	var total int
	err := retry(func() (e error) { caps, total, e = mgr.GetNodesDeployCapacity(f.ctx, names, opts); return })
	if err != nil {
		im.Err = errClass(err)
		return
	}
	for k, v := range caps {
		im.Caps[short(k)] = v.Capacity
	}
	im.Total = total
	pcs, ptotal, _ := f.pluginCaps(names, c.Req)
	for k, v := range pcs {
		im.PCaps[short(k)] = v
	}
	im.PTotal = ptotal
	n0 := c.Nodes[0]
	name0 := real(n0.Name)
	ks := c.Ks
	if len(ks) == 0 {
		c0 := im.Caps[n0.Name] // short name
		ks = []int{c0, c0 + 1}
		if c0 > 1 {
			ks = append(ks, c0-1, 1)
		}
		if c0 == math.MaxInt {
			ks = []int{1, 3, 1000}
		}
		if c0 > 64 && c0 < math.MaxInt { // keep the allocated lists small
			ks = []int{1, 2}
			if c0 < 3000 {
				ks = append(ks, c0, c0+1)
			}
		}
	}
	direct := 0
	if c0 := im.Caps[n0.Name]; len(c.Ks) == 0 && c0 >= 3000 && c0 < math.MaxInt && nextra == 0 {
		direct = c0 + 1 // Manager.Alloc would first make() that many maps: ask the plugin directly
	}
	u0 := f.usage(name0)
	for i, k := range ks {
		if i > 0 {
			if err := retry(func() error { _, e := f.cm.SetNodeResourceInfo(f.ctx, name0, n0.Cap.raw(), n0.Usage.raw()); return e }); err != nil {
				panic(err)
			}
		}
		t := try07{K: k, WS: []wres{}}
		var ws []resourcetypes.Resources
		var err error
		kind, _ := hx.Guard(60*time.Second, func() {
			err = retry(func() (e error) { ws, _, e = mgr.Alloc(f.ctx, name0, k, opts); return })
		})
		switch {
		case kind != "":
			t.Err = kind
		case err != nil:
			t.Err = errClass(err)
			if t.Err == "other" {
				t.Msg = fmt.Sprintf("%.300s", err.Error())
			}
		default:
			t.OK = true
			for _, w := range ws {
				t.WS = append(t.WS, wresOf(w["cpumem"]))
			}
			t.U1 = f.usage(name0)
			pc, _, _ := f.pluginCaps([]string{name0}, c.Req)
			t.PCap2 = pc[name0]
			if err := retry(func() error { return mgr.RollbackAlloc(f.ctx, name0, ws) }); err == nil {
				t.Restored = usageEq(f.usage(name0), u0)
			}
		}
		im.Tries = append(im.Tries, t)
	}
	if direct > 0 {
		if err := retry(func() error { _, e := f.cm.SetNodeResourceInfo(f.ctx, name0, n0.Cap.raw(), n0.Usage.raw()); return e }); err != nil {
			panic(err)
		}
		t := try07{K: direct, Direct: true, WS: []wres{}}
		var err error
		kind, _ := hx.Guard(20*time.Second, func() { _, err = f.cm.CalculateDeploy(f.ctx, name0, direct, c.Req.raw()) })
		if kind != "" {
			t.Err = kind
		} else if err != nil {
			t.Err = errClass(err)
		} else {
			t.OK = true // never expected: the case would have produced `direct` workloads
		}
		im.Tries = append(im.Tries, t)
	}
	for _, n := range names {
		f.cm.RemoveNode(f.ctx, n) //nolint
	}
}

// ---------------------------------------------------------------------------- C08

type op08 struct {
	Op       string `json:"op"` // alloc | drop | readd | realloc | rbrealloc
	W        *wres  `json:"w,omitempty"` // readd: the released workload whose resources are re-added (rollback of a release)
	K        int    `json:"k,omitempty"`
	Req      *reqJ  `json:"req,omitempty"`
	Idx      []int  `json:"idx,omitempty"`
	I        int    `json:"i"`
	Restores *int   `json:"restores,omitempty"` // usage after this op must equal usage before op #restores
	Fail     bool   `json:"fail,omitempty"`     // the second plugin fails its SetNodeResourceUsage in this op's commit
	Direct   bool   `json:"direct,omitempty"`   // drop only: call the plugin's SetNodeResourceUsage directly (reports before/after)
}

type res08 struct {
	OK     bool    `json:"ok"`
	Err    string  `json:"err"`
	WS     []wres  `json:"ws,omitempty"`
	New    *wres   `json:"new,omitempty"`
	Delta  *wres   `json:"delta,omitempty"`
	Usage  nodeRes `json:"usage"`
	Diffs  int     `json:"diffs"`
	NPlans int     `json:"nplans"`
	Before *nodeRes `json:"before,omitempty"` // Before/After reported by the cpumem plugin, where observable
	After  *nodeRes `json:"after,omitempty"`
	YCount int      `json:"ycount"` // usage of the counting plugin y0 (= number of live workloads it knows)
}

type case08 struct {
	ID     string  `json:"id"`
	Prop   string  `json:"prop"`
	Cap    nodeRes `json:"cap"`
	Ops    []op08  `json:"ops"`
	Order  int     `json:"order"` // configured plugin order: 0 cpumem,x0,y0  1 x0,cpumem,y0  2 y0,x0,cpumem  3 x0,y0,cpumem
	SetErr string  `json:"seterr"`
	Impl   []res08 `json:"impl"`
}

type live08 struct {
	raw resourcetypes.Resources
	w   wres
}

// workloads removed by the most recent successful release (for `readd`)
var lastDropped []wres

// the next operation of a generated history, given the current live set
func genOp08(r *hx.Rng, c nodeRes, live []live08, hist []op08, lastOK bool) op08 {
	op := genOp08base(r, c, live, hist, lastOK)
	if r.Chance(12) { // another plugin fails in this operation's commit
		op.Fail = true
	} else if op.Op == "drop" && r.Chance(40) {
		op.Direct = true
	}
	return op
}

func genOp08base(r *hx.Rng, c nodeRes, live []live08, hist []op08, lastOK bool) op08 {
	n := len(live)
	last := ""
	if len(hist) > 0 {
		last = hist[len(hist)-1].Op
	}
	if last == "realloc" && lastOK && r.Chance(35) {
		j := len(hist) - 1
		return op08{Op: "rbrealloc", Restores: &j}
	}
	if last == "drop" && lastOK && len(lastDropped) > 0 && r.Chance(35) { // rollback of the release (calcium remove/dissociate)
		w := lastDropped[r.Intn(len(lastDropped))]
		op := op08{Op: "readd", W: &w}
		if len(lastDropped) == 1 {
			j := len(hist) - 1
			op.Restores = &j
		}
		return op
	}
	if last == "alloc" && lastOK && r.Chance(20) { // roll the whole allocation back
		k := hist[len(hist)-1].K
		idx := []int{}
		for i := n - k; i < n; i++ {
			idx = append(idx, i)
		}
		j := len(hist) - 1
		return op08{Op: "drop", Idx: idx, Restores: &j}
	}
	x := r.Intn(100)
	switch {
	case n == 0 || x < 35:
		q := reqJ{Bind: r.Chance(55)}
		q.CR = hx.Pick(r, int64(nano/2), nano, nano/4, 3*nano/2, 2*nano, int64(r.Range(1, 1500))*(nano/1000))
		if !q.Bind && r.Chance(30) {
			q.CR = 0
		}
		if r.Chance(40) {
			q.CL = q.CR
		}
		q.MR = c.Mem / 32 * int64(r.Range(0, 4))
		if r.Chance(30) {
			q.ML = q.MR
		}
		return op08{Op: "alloc", K: r.Range(1, 3), Req: &q}
	case x < 55:
		idx := []int{r.Intn(n)}
		if r.Chance(30) {
			idx = append(idx, r.Intn(n))
		}
		return op08{Op: "drop", Idx: idx}
	case x < 60:
		return op08{Op: "rbrealloc"} // nothing to undo unless the previous op was a realloc
	default:
		i := r.Intn(n)
		w := live[i].w
		q := reqJ{}
		unit := c.Mem / 32
		eighth := int64(nano / 8)
		switch r.Intn(7) {
		case 0: // grow
			q.Keep, q.MR, q.CR = true, unit*int64(r.Range(0, 3)), eighth*int64(r.Range(0, 8))
		case 1: // shrink
			q.Keep, q.MR, q.CR = true, -unit*int64(r.Range(0, 2)), -eighth*int64(r.Range(0, 6))
		case 2: // bind
			q.Bind = true
			if w.CR == 0 {
				q.CR = nano
			}
		case 3: // unbind
			q.Bind = false
		case 4: // keep-bind, memory only
			q.Keep, q.MR = true, unit*int64(r.Range(-2, 3))
		case 5: // keep-bind, cpu only
			q.Keep, q.CR = true, eighth*int64(r.Range(-8, 8))
		default:
			q.Keep = r.Chance(50)
			q.Bind = r.Chance(50)
			q.MR, q.CR = unit*int64(r.Range(-1, 2)), eighth*int64(r.Range(-4, 4))
		}
		if r.Chance(25) {
			q.CL, q.ML = q.CR, q.MR
		}
		return op08{Op: "realloc", I: i, Req: &q}
	}
}

func (f *fixture) runC08(c *case08, next func(live []live08, hist []op08, lastOK bool) (op08, bool)) {
	name := c.ID
	c.Impl = []res08{}
	c.Ops = []op08{}
	if err := retry(func() error { _, e := f.cm.SetNodeResourceInfo(f.ctx, name, c.Cap.raw(), nil); return e }); err != nil {
		c.SetErr = errClass(err)
		return
	}
	defer f.cm.RemoveNode(f.ctx, name) //nolint
	mgr := f.mgrs[c.Order%len(f.mgrs)]
	for _, p := range []*scripted{f.x0, f.y0} {
		p.setCap(name, &plugintypes.NodeDeployCapacity{Capacity: math.MaxInt, Weight: 1})
		defer p.setCap(name, nil)
	}
	f.y0.setCount(name, 0, false)
	defer f.y0.setCount(name, 0, true)
	defer f.x0.setFail(false)
	live := []live08{}
	var undo *struct {
		idx    int
		origin live08
		delta  resourcetypes.Resources
	}
	lastOK := false
	for {
		op, more := next(live, c.Ops, lastOK)
		if !more {
			break
		}
		res := res08{}
		var err error
		kind := ""
		f.x0.setFail(op.Fail)
		switch op.Op {
		case "alloc":
			if op.Req.Bind {
				pc, _, _ := f.pluginCaps([]string{name}, *op.Req)
				res.NPlans = pc[name]
			}
			var ws []resourcetypes.Resources
			kind, _ = hx.Guard(20*time.Second, func() {
				err = retry(func() (e error) {
					ws, _, e = mgr.Alloc(f.ctx, name, op.K, resourcetypes.Resources{"cpumem": op.Req.raw()})
					return
				})
			})
			if kind == "" && err == nil {
				for _, w := range ws {
					lw := live08{raw: w, w: wresOf(w["cpumem"])}
					live = append(live, lw)
					res.WS = append(res.WS, lw.w)
				}
			}
			undo = nil
		case "drop":
			pick := []resourcetypes.Resources{}
			keep := []live08{}
			for i, l := range live {
				in := false
				for _, x := range op.Idx {
					in = in || x == i
				}
				if in {
					pick = append(pick, l.raw)
				} else {
					keep = append(keep, l)
				}
			}
			kind, _ = hx.Guard(60*time.Second, func() {
				err = retry(func() error {
					if op.Direct && !op.Fail { // the plugin itself: it reports Before/After
						raws := []plugintypes.WorkloadResource{}
						for _, p := range pick {
							raws = append(raws, p["cpumem"])
						}
						resp, e := f.cm.SetNodeResourceUsage(f.ctx, name, nil, nil, raws, true, false)
						if e == nil {
							yraws := []plugintypes.WorkloadResource{}
							for _, p := range pick {
								yraws = append(yraws, p["y0"])
							}
							f.y0.SetNodeResourceUsage(f.ctx, name, nil, nil, yraws, true, false) //nolint
							b, a := nodeResOf(resp.Before), nodeResOf(resp.After)
							res.Before, res.After = &b, &a
						}
						return e
					}
					// what RollbackAlloc does; cobalt hands back cpumem's Before/After when another plugin failed
					before, after, e := mgr.SetNodeResourceUsage(f.ctx, name, nil, nil, pick, true, false)
					if e != nil && before["cpumem"] != nil && after["cpumem"] != nil {
						b, a := nodeResOf(before["cpumem"]), nodeResOf(after["cpumem"])
						res.Before, res.After = &b, &a
					}
					return e
				})
			})
			if kind == "" && err == nil {
				live = keep
				lastDropped = lastDropped[:0]
				for _, p := range pick {
					lastDropped = append(lastDropped, wresOf(p["cpumem"]))
				}
			}
			undo = nil
		case "readd":
			raw := resourcetypes.Resources{"cpumem": op.W.raw(), "y0": resourcetypes.RawParams{"n": 1}}
			kind, _ = hx.Guard(60*time.Second, func() {
				err = retry(func() error {
					_, _, e := mgr.SetNodeResourceUsage(f.ctx, name, nil, nil, []resourcetypes.Resources{raw}, true, true)
					return e
				})
			})
			if kind == "" && err == nil {
				live = append(live, live08{raw: raw, w: *op.W})
			}
			undo = nil
		case "realloc":
			if op.I >= len(live) {
				err = coretypes.ErrInvaildCount
				undo = nil
				break
			}
			var delta, nw resourcetypes.Resources
			kind, _ = hx.Guard(20*time.Second, func() {
				err = retry(func() (e error) {
					_, delta, nw, e = mgr.Realloc(f.ctx, name, live[op.I].raw, resourcetypes.Resources{"cpumem": op.Req.raw()})
					return
				})
			})
			undo = nil
			if kind == "" && err == nil {
				nwj, dj := wresOf(nw["cpumem"]), wresOf(delta["cpumem"])
				res.New, res.Delta = &nwj, &dj
				undo = &struct {
					idx    int
					origin live08
					delta  resourcetypes.Resources
				}{op.I, live[op.I], delta}
				live[op.I] = live08{raw: nw, w: nwj}
			}
		default: // rbrealloc
			if undo == nil {
				err = coretypes.ErrInvaildCount
				break
			}
			u := undo
			undo = nil
			kind, _ = hx.Guard(60*time.Second, func() { err = retry(func() error { return mgr.RollbackRealloc(f.ctx, name, u.delta) }) })
			if kind == "" && err == nil {
				live[u.idx] = u.origin
			}
		}
		switch {
		case kind != "":
			res.Err = kind
		case err != nil:
			res.Err = errClass(err)
		default:
			res.OK = true
		}
		lastOK = res.OK
		raws := []plugintypes.WorkloadResource{}
		for _, l := range live {
			raws = append(raws, l.raw["cpumem"])
		}
		var info *plugintypes.GetNodeResourceInfoResponse
		ierr := retry(func() (e error) { info, e = f.cm.GetNodeResourceInfo(f.ctx, name, raws); return })
		if ierr != nil {
			panic(ierr)
		}
		res.Usage = nodeResOf(info.Usage)
		res.Diffs = len(info.Diffs)
		res.YCount = f.y0.getCount(name)
		c.Ops = append(c.Ops, op)
		c.Impl = append(c.Impl, res)
	}
}

// ---------------------------------------------------------------------------- C09

type cap09 struct {
	Cap int   `json:"cap"`
	U   int64 `json:"u"` // usage, unit 1/1024
	R   int64 `json:"r"` // rate, unit 1/1024
	W   int64 `json:"w"` // weight, unit 1/4
}

type ans09 struct {
	Name  string           `json:"name"`
	Nodes map[string]cap09 `json:"nodes"`
	Nil   bool             `json:"nil,omitempty"` // the plugin answers with a nil map
}

type out09 struct {
	Cap int   `json:"cap"`
	U   int64 `json:"u"` // scaled 1e12
	R   int64 `json:"r"`
	W   int64 `json:"w"`
}

type run09 struct {
	Nodes map[string]out09 `json:"nodes"`
	Total int              `json:"total"`
	Order []int            `json:"order,omitempty"`
	Err   string           `json:"err,omitempty"`
}

type impl09 struct {
	Runs   []run09 `json:"runs"`
	Folds  []run09 `json:"folds"`
	Cancel []run09 `json:"cancel,omitempty"` // runs whose caller context was cancelled / expired between two answers
}

// sched09: a schedule of the plugins' answers and of the caller giving up
type sched09 struct {
	DelayMS  []int `json:"delay_ms"`  // per plugin: when it answers
	CancelMS int   `json:"cancel_ms"` // when the caller's context ends
	Deadline bool  `json:"deadline"`  // context deadline instead of an explicit cancel
}

type case09 struct {
	ID      string   `json:"id"`
	Prop    string   `json:"prop"`
	Answers []ans09  `json:"answers"`
	Sched   *sched09 `json:"sched,omitempty"`
	Impl    *impl09  `json:"impl"`
}

func genC09(r *hx.Rng, id string) *case09 {
	c := &case09{ID: id, Prop: "C09"}
	np := hx.Pick(r, 1, 2, 2, 3, 3, 4)
	nn := r.Range(1, 5)
	perEntryW := r.Chance(30)
	// zero weights: some (never all) plugins answer with weight 0 (their capacity still binds and
	// they still restrict the offered nodes); plugin `pos` keeps a positive weight so that the
	// weight sum of every offered node is positive
	zeroW := np > 1 && r.Chance(25)
	pos := r.Intn(np)
	if zeroW {
		perEntryW = false
	}
	for p := 0; p < np; p++ {
		a := ans09{Name: fmt.Sprintf("p%d", p), Nodes: map[string]cap09{}}
		w := hx.Pick(r, int64(1), 2, 4, 4, 8, 400, 3, 5)
		if zeroW && p != pos && r.Chance(60) {
			w = 0
		}
		skip := hx.Pick(r, 0, 0, 20, 50)
		for n := 0; n < nn; n++ {
			if r.Chance(skip) {
				continue
			}
			e := cap09{Cap: hx.Pick(r, 1, 2, 3, 5, 100, math.MaxInt, r.Range(1, 9)), U: int64(r.Intn(2049)), R: int64(r.Intn(1025)), W: w}
			if perEntryW {
				e.W = hx.Pick(r, int64(1), 2, 4, 8, 400, 3)
			}
			a.Nodes[fmt.Sprintf("n%d", n)] = e
		}
		if r.Chance(4) {
			a.Nodes, a.Nil = map[string]cap09{}, true
		}
		c.Answers = append(c.Answers, a)
	}
	if np > 1 && r.Chance(30) { // the caller gives up between two answers
		sc := &sched09{CancelMS: 4, Deadline: r.Chance(50)}
		slow := r.Intn(np)
		for p := 0; p < np; p++ {
			d := 0
			if p == slow || r.Chance(25) {
				d = 14
			}
			sc.DelayMS = append(sc.DelayMS, d)
		}
		c.Sched = sc
	}
	return c
}

func scale12(f float64) int64 { return int64(math.Round(f * 1e12)) }

func out09Of(m map[string]*plugintypes.NodeDeployCapacity) map[string]out09 {
	o := map[string]out09{}
	for k, v := range m {
		o[k] = out09{Cap: v.Capacity, U: scale12(v.Usage), R: scale12(v.Rate), W: scale12(v.Weight)}
	}
	return o
}

func (a ans09) capMap() map[string]*plugintypes.NodeDeployCapacity {
	m := map[string]*plugintypes.NodeDeployCapacity{}
	for k, v := range a.Nodes {
		m[k] = &plugintypes.NodeDeployCapacity{Capacity: v.Cap, Usage: float64(v.U) / 1024, Rate: float64(v.R) / 1024, Weight: float64(v.W) / 4}
	}
	return m
}

func perms(n int) [][]int {
	if n == 1 {
		return [][]int{{0}}
	}
	out := [][]int{}
	for _, p := range perms(n - 1) {
		for i := 0; i <= len(p); i++ {
			q := append(append(append([]int{}, p[:i]...), n-1), p[i:]...)
			out = append(out, q)
		}
	}
	return out
}

func (f *fixture) runC09(c *case09) {
	im := &impl09{Runs: []run09{}, Folds: []run09{}}
	c.Impl = im
	ps := []*scripted{}
	names := map[string]bool{}
	for _, a := range c.Answers {
		ps = append(ps, &scripted{name: a.Name, caps: a.capMap(), nilMap: a.Nil})
		for n := range a.Nodes {
			names[n] = true
		}
	}
	nodenames := []string{}
	for n := range names {
		nodenames = append(nodenames, n)
	}
	sort.Strings(nodenames)
	mgr := scriptedOnly(f.cfg, ps...)
	seen := map[string]bool{}
	for i := 0; i < 8; i++ {
		m, total, err := mgr.GetNodesDeployCapacity(f.ctx, nodenames, resourcetypes.Resources{})
		if err != nil {
			panic(err)
		}
		run := run09{Nodes: out09Of(m), Total: total}
		b, _ := json.Marshal(run)
		if !seen[string(b)] {
			seen[string(b)] = true
			im.Runs = append(im.Runs, run)
		}
	}
	if c.Sched != nil {
		for i, p := range ps {
			if i < len(c.Sched.DelayMS) {
				p.delay = time.Duration(c.Sched.DelayMS[i]) * time.Millisecond
			}
		}
		var ctx context.Context
		var cancel context.CancelFunc
		if c.Sched.Deadline {
			ctx, cancel = context.WithTimeout(f.ctx, time.Duration(c.Sched.CancelMS)*time.Millisecond)
		} else {
			ctx, cancel = context.WithCancel(f.ctx)
			go func() { time.Sleep(time.Duration(c.Sched.CancelMS) * time.Millisecond); cancel() }()
		}
		m, total, err := mgr.GetNodesDeployCapacity(ctx, nodenames, resourcetypes.Resources{})
		cancel()
		run := run09{Nodes: out09Of(m), Total: total}
		if err != nil {
			run = run09{Nodes: map[string]out09{}, Err: "error"}
		}
		im.Cancel = append(im.Cancel, run)
		time.Sleep(15 * time.Millisecond) // let a slow plugin abandoned by the call finish
		for _, p := range ps {
			p.delay = 0
		}
	}
	// explicit orders through the hook (mergeCapacity only; raw weighted sums)
	ps2 := perms(len(c.Answers))
	if len(ps2) > 6 {
		ps2 = ps2[:6]
	}
	for _, order := range ps2 {
		var acc map[string]*plugintypes.NodeDeployCapacity
		for _, i := range order {
			a := c.Answers[i]
			m2 := a.capMap()
			if a.Nil {
				m2 = nil
			}
			acc = mgr.VerifMergeCapacity(acc, m2)
		}
		im.Folds = append(im.Folds, run09{Nodes: out09Of(acc), Order: order})
	}
}

// ---------------------------------------------------------------------------- C15 / C32

type fix15 struct {
	Usage nodeRes `json:"usage"`
	Diffs int     `json:"diffs"`
}

type impl15 struct {
	SetErr string `json:"seterr"`
	Fix    fix15  `json:"fix"`
	After  fix15  `json:"after"`
}

type case15 struct {
	ID    string  `json:"id"`
	Prop  string  `json:"prop"`
	Cap   nodeRes `json:"cap"`
	Usage nodeRes `json:"usage"`
	WS    []wres  `json:"ws"`
	NoKey []int   `json:"nokey,omitempty"` // workloads recorded without a "cpumem" entry (their WS entry is the zero resource)
	Impl  *impl15 `json:"impl"`
}

// usage drifted away from the workloads' sum but still storable (Validate accepts it)
func drift(r *hx.Rng, c nodeRes, u nodeRes) nodeRes {
	d := nodeRes{CPU: u.CPU, Mem: u.Mem, CM: map[string]int{}, NM: map[string]int64{}}
	for k, v := range u.CM {
		d.CM[k] = v
	}
	for k, v := range u.NM {
		d.NM[k] = v
	}
	for n := r.Range(1, 3); n > 0; n-- {
		switch r.Intn(7) {
		case 6: // NUMA usage under an id that the capacity does not know (never validated)
			d.NM[hx.Pick(r, "0", "1", "7")] += int64(r.Range(1, 500))
		case 0:
			d.CPU += int64(r.Range(-3, 3)) * nano / 2
		case 1:
			d.Mem += int64(r.Range(-500, 500))
		case 2: // per-core extra / missing / corrupted
			k := coreName(r.Intn(len(c.CM)))
			d.CM[k] = r.Range(0, c.CM[k])
		case 3:
			k := coreName(r.Intn(len(c.CM)))
			delete(d.CM, k)
		case 4:
			if len(c.NM) > 0 {
				k := hx.Pick(r, "0", "1")
				d.NM[k] = int64(r.Range(0, int(c.NM[k]%100000)))
			} else {
				d.Mem = 0
			}
		default:
			d.CM = map[string]int{}
			d.CPU = 0
		}
	}
	return d
}

func genC15(r *hx.Rng, id string) *case15 {
	c := &case15{ID: id, Prop: "C15"}
	c.Cap = genCapacity(r, r.Chance(45))
	c.WS = genWorkloads(r, c.Cap, r.Range(0, 6))
	c.Usage = sumUsage(c.WS)
	if r.Chance(85) {
		c.Usage = drift(r, c.Cap, c.Usage)
	}
	if r.Chance(6) && len(c.WS) > 0 { // a workload recorded with NUMA memory under an id unknown to the capacity
		c.WS[r.Intn(len(c.WS))].NM["9"] += int64(r.Range(1, 100))
	}
	if r.Chance(8) && len(c.WS) > 0 { // workloads that do not fit the capacity
		w := &c.WS[r.Intn(len(c.WS))]
		switch r.Intn(3) {
		case 0:
			w.CM[coreName(r.Intn(len(c.Cap.CM)))] += 250
		case 1:
			w.CM["77"] = 10
		default:
			if len(c.Cap.NM) > 0 {
				w.NM["0"] += c.Cap.Mem * 2
			} else {
				w.CM[coreName(0)] += 300
			}
		}
	}
	if r.Chance(10) { // a recorded workload without any cpumem resources (cobalt hands the plugin nil params)
		c.WS = append(c.WS, wres{CM: map[string]int{}, NM: map[string]int64{}})
		c.NoKey = append(c.NoKey, len(c.WS)-1)
	}
	return c
}

func workloadsOf(ws []wres, nokey ...int) []*coretypes.Workload {
	out := []*coretypes.Workload{}
	for i, w := range ws {
		res := resourcetypes.Resources{"cpumem": w.raw()}
		for _, k := range nokey {
			if k == i {
				res = resourcetypes.Resources{}
			}
		}
		out = append(out, &coretypes.Workload{ID: fmt.Sprintf("w%02d", i), Resources: res})
	}
	return out
}

func (f *fixture) runC15(c *case15) {
	im := &impl15{}
	c.Impl = im
	if err := retry(func() error { _, e := f.cm.SetNodeResourceInfo(f.ctx, c.ID, c.Cap.raw(), c.Usage.raw()); return e }); err != nil {
		im.SetErr = errClass(err)
		return
	}
	defer f.cm.RemoveNode(f.ctx, c.ID) //nolint
	wl := workloadsOf(c.WS, c.NoKey...)
	var u resourcetypes.Resources
	var diffs []string
	err := retry(func() (e error) { _, u, diffs, e = f.mgr.GetNodeResourceInfo(f.ctx, c.ID, wl, true); return })
	if err != nil {
		panic(err)
	}
	im.Fix = fix15{Usage: nodeResOf(u["cpumem"]), Diffs: len(diffs)}
	err = retry(func() (e error) { _, u, diffs, e = f.mgr.GetNodeResourceInfo(f.ctx, c.ID, wl, false); return })
	if err != nil {
		panic(err)
	}
	im.After = fix15{Usage: nodeResOf(u["cpumem"]), Diffs: len(diffs)}
}

type eng32 struct {
	CPU   int64          `json:"cpu"`
	CM    map[string]int `json:"cm"`
	NN    string         `json:"nn"`
	Mem   int64          `json:"mem"`
	Remap bool           `json:"remap"`
}

type impl32 struct {
	SetErr string           `json:"seterr"`
	Err    string           `json:"err"`
	Out    map[string]eng32 `json:"out"`
	Bound  map[string]eng32 `json:"bound,omitempty"` // cluster stream: engine params held by bound workloads
	Extra  []string         `json:"extra,omitempty"` // ids answered only by the second plugin
	Tried  []string         `json:"tried,omitempty"` // gone workloads for which a failed engine update was recorded
}

type case32 struct {
	ID    string          `json:"id"`
	Prop  string          `json:"prop"`
	Cap   nodeRes         `json:"cap"`
	Usage nodeRes         `json:"usage"`
	Share int             `json:"share"`
	WS    map[string]wres `json:"ws"`
	Multi bool            `json:"multi,omitempty"`   // Manager.Remap over two plugins (cpumem + scripted)
	Cluster string        `json:"cluster,omitempty"` // cluster-level stream: the calcium operation that preceded
	Gone  []string        `json:"gone,omitempty"`    // cluster stream: workloads whose container vanished (their engine update fails)
	Impl  *impl32         `json:"impl"`
}

func genC32(r *hx.Rng, id string) *case32 {
	c := &case32{ID: id, Prop: "C32", Share: share, WS: map[string]wres{}, Multi: r.Chance(40)}
	c.Cap = genCapacity(r, r.Chance(40))
	ws := genWorkloads(r, c.Cap, hx.Pick(r, 0, 1, 2, 4, 6, 8))
	c.Usage = sumUsage(ws)
	if r.Chance(15) {
		c.Usage = drift(r, c.Cap, c.Usage)
	}
	if r.Chance(12) { // every core (almost) fully used
		for k, v := range c.Cap.CM {
			c.Usage.CM[k] = v - hx.Pick(r, 0, 0, 10, 99)
		}
	}
	for i := range ws { // unbound workloads with clearly different limits (remap must hand each its own)
		if len(ws[i].CM) == 0 {
			ws[i].CL = hx.Pick(r, int64(0), nano/2, nano, 3*nano)
			ws[i].ML = hx.Pick(r, int64(0), 256<<20, 4<<30, ws[i].MR)
		}
	}
	for i, w := range ws {
		if r.Chance(10) && len(w.CM) > 0 { // bound with an explicit zero entry
			for k := range w.CM {
				w.CM[k] = 0
			}
		}
		c.WS[fmt.Sprintf("w%02d", i)] = w
	}
	return c
}

func (f *fixture) runC32(c *case32) {
	im := &impl32{Out: map[string]eng32{}}
	c.Impl = im
	if err := retry(func() error { _, e := f.cm.SetNodeResourceInfo(f.ctx, c.ID, c.Cap.raw(), c.Usage.raw()); return e }); err != nil {
		im.SetErr = errClass(err)
		return
	}
	defer f.cm.RemoveNode(f.ctx, c.ID) //nolint
	wl := []*coretypes.Workload{}
	for id, w := range c.WS {
		wl = append(wl, &coretypes.Workload{ID: id, Resources: resourcetypes.Resources{"cpumem": w.raw()}})
	}
	sort.Slice(wl, func(i, j int) bool { return wl[i].ID < wl[j].ID })
	var out map[string]resourcetypes.Resources
	mgr := f.mgr
	if c.Multi {
		mgr = f.mgr2
	}
	err := retry(func() (e error) { out, e = mgr.Remap(f.ctx, c.ID, wl); return })
	if err != nil {
		im.Err = errClass(err)
		return
	}
	for id, res := range out {
		if _, ok := res["cpumem"]; !ok { // answered by the other plugin only
			im.Extra = append(im.Extra, id)
			continue
		}
		e := &cmtypes.EngineParams{}
		if err := mapstructure.Decode(res["cpumem"], e); err != nil {
			panic(err)
		}
		x := eng32{CPU: toNano(e.CPU), CM: map[string]int{}, NN: e.NUMANode, Mem: e.Memory, Remap: e.Remap}
		for k, v := range e.CPUMap {
			x.CM[k] = v
		}
		im.Out[id] = x
	}
	sort.Strings(im.Extra)
}

// ---------------------------------------------------------------------------- driver

func replayLines(path string) [][]byte {
	fh, err := os.Open(path)
	if err != nil {
		panic(err)
	}
	defer fh.Close()
	sc := bufio.NewScanner(fh)
	sc.Buffer(make([]byte, 1<<20), 1<<26)
	out := [][]byte{}
	for sc.Scan() {
		if len(sc.Bytes()) > 0 {
			out = append(out, append([]byte{}, sc.Bytes()...))
		}
	}
	return out
}

func TestGen(t *testing.T) {
	seed := hx.Seed()
	r := hx.NewRng(seed)
	n := hx.EnvInt("VERIF_CASES", 200)
	prop := os.Getenv("VERIF_PROPERTY")
	if prop == "" {
		prop = "C08"
	}
	f := newFixture(t)
	out := hx.OpenOut()
	defer out.Close()
	seq := 0
	nextID := func() string { seq++; return fmt.Sprintf("%s-s%d-%d", prop, seed, seq) }

	if rp := os.Getenv("VERIF_REPLAY"); rp != "" {
		for _, line := range replayLines(rp) {
			switch prop {
			case "C07":
				c := &case07{}
				must(json.Unmarshal(line, c))
				c.ID = nextID() + "r"
				f.runC07(c)
				out.Emit(c)
			case "C08":
				c := &case08{}
				must(json.Unmarshal(line, c))
				c.ID = nextID() + "r"
				ops := c.Ops
				f.runC08(c, func(_ []live08, hist []op08, _ bool) (op08, bool) {
					if len(hist) >= len(ops) {
						return op08{}, false
					}
					return ops[len(hist)], true
				})
				out.Emit(c)
			case "C09":
				c := &case09{}
				must(json.Unmarshal(line, c))
				f.runC09(c)
				out.Emit(c)
			case "C15":
				c := &case15{}
				must(json.Unmarshal(line, c))
				c.ID = nextID() + "r"
				f.runC15(c)
				out.Emit(c)
			case "C32":
				c := &case32{}
				must(json.Unmarshal(line, c))
				if c.Cluster != "" { // a cluster-level case: re-run the whole (seeded) cluster stream
					runCluster32(t, hx.NewRng(seed^0xC32), out, nextID, 3+n/60)
					continue
				}
				c.ID = nextID() + "r"
				f.runC32(c)
				out.Emit(c)
			}
		}
		return
	}

	switch prop {
	case "C07":
		for _, c := range corpusC07() {
			c.ID = nextID()
			f.runC07(c)
			out.Emit(c)
		}
		for i := 0; i < n; i++ {
			c := genC07(r, nextID())
			f.runC07(c)
			out.Emit(c)
		}
	case "C08":
		for _, c := range corpusC08() {
			c.ID = nextID()
			ops := c.Ops
			f.runC08(c, func(_ []live08, hist []op08, _ bool) (op08, bool) {
				if len(hist) >= len(ops) {
					return op08{}, false
				}
				return ops[len(hist)], true
			})
			out.Emit(c)
		}
		for i := 0; i < n; i++ {
			c := &case08{ID: nextID(), Prop: "C08", Cap: genCapacity(r, r.Chance(50)), Order: r.Intn(4)}
			if r.Chance(40) { // roomy node so that long histories stay feasible
				c.Cap.Mem = 64 << 30
				if len(c.Cap.NM) > 0 {
					c.Cap.NM["0"], c.Cap.NM["1"] = 32<<30, 32<<30
				}
			}
			length := hx.Pick(r, r.Range(1, 4), r.Range(5, 12), r.Range(13, 30))
			f.runC08(c, func(live []live08, hist []op08, lastOK bool) (op08, bool) {
				if len(hist) >= length {
					return op08{}, false
				}
				return genOp08(r, c.Cap, live, hist, lastOK), true
			})
			out.Emit(c)
		}
	case "C09":
		for _, c := range corpusC09() {
			c.ID = nextID()
			f.runC09(c)
			out.Emit(c)
		}
		for i := 0; i < n; i++ {
			c := genC09(r, nextID())
			f.runC09(c)
			out.Emit(c)
		}
	case "C15":
		for i := 0; i < n; i++ {
			c := genC15(r, nextID())
			f.runC15(c)
			out.Emit(c)
		}
	case "C32":
		for i := 0; i < n; i++ {
			c := genC32(r, nextID())
			f.runC32(c)
			out.Emit(c)
		}
		// cluster-level stream (real Calcium, fake engine); its own generator so that a replay can re-run it
		runCluster32(t, hx.NewRng(seed^0xC32), out, nextID, 3+n/60)
	default:
		t.Fatalf("unknown VERIF_PROPERTY %q", prop)
	}
}

func must(err error) {
	if err != nil {
		panic(err)
	}
}
