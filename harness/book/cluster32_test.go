//go:build verif

// Cluster-level stream for C32: a real Calcium (ckit: real store, cobalt, cpumem, WAL; fake
// engine) runs create / remove / realloc sequences; after every operation (and the background
// remap it triggers) every workload's engine parameters are read back from the fake engine:
// unbound workloads must carry exactly the free shared cores, bound ones their own cores.
package book

import (
	"fmt"
	"sort"
	"testing"
	"time"

	"verifharness/ckit"
	"verifharness/hx"

	"github.com/mitchellh/mapstructure"
	cmtypes "github.com/projecteru2/core/resource/plugins/cpumem/types"
	resourcetypes "github.com/projecteru2/core/resource/types"
	coretypes "github.com/projecteru2/core/types"
)

func engOf(raw resourcetypes.RawParams) eng32 {
	e := &cmtypes.EngineParams{}
	if err := mapstructure.Decode(raw, e); err != nil {
		panic(err)
	}
	x := eng32{CPU: toNano(e.CPU), CM: map[string]int{}, NN: e.NUMANode, Mem: e.Memory, Remap: e.Remap}
	for k, v := range e.CPUMap {
		x.CM[k] = v
	}
	return x
}

func runCluster32(t *testing.T, r *hx.Rng, out *hx.Out, nextID func() string, nseq int) {
	cl := ckit.NewCluster(t, ckit.Options{})
	cl.AddPod("p32")
	for seq := 0; seq < nseq; seq++ {
		node := fmt.Sprintf("cn%d-%d", hx.Seed(), seq)
		spec := ckit.NodeSpec{Name: node, Pod: "p32", CPU: r.Range(2, 4), Memory: 8 << 30}
		if spec.CPU == 4 && r.Chance(40) {
			spec.NUMACPU = []string{"0,1", "2,3"}
			spec.NUMAMemory = []string{"4294967296", "4294967296"}
		}
		slow := seq%3 == 2 // scripted engine updates (delay, ctx-honouring, one failing at once)
		if slow {
			opts := cl.AddNodeOptions(spec)
			opts.Endpoint = cl.Hub.SlowEndpoint(node)
			if _, err := cl.C.AddNode(cl.Ctx(), opts); err != nil {
				t.Fatalf("AddNode %s: %v", node, err)
			}
		} else {
			cl.AddNode(spec)
		}
		live := func() []*coretypes.Workload {
			ws, err := cl.Store.Store.ListNodeWorkloads(cl.Ctx(), node, nil)
			if err != nil {
				panic(err)
			}
			sort.Slice(ws, func(i, j int) bool { return ws[i].ID < ws[j].ID })
			return ws
		}
		gone := map[string]bool{} // real ids of workloads whose container was deleted behind calcium's back
		emit := func(what string) {
			cl.Quiesce()
			c := &case32{ID: nextID(), Prop: "C32", Share: share, WS: map[string]wres{}, Cluster: what,
				Impl: &impl32{Out: map[string]eng32{}, Bound: map[string]eng32{}}}
			failedUpdate := map[string]bool{}
			for _, ev := range cl.Trace() {
				if ev.Kind == "engineUpdate" && ev.Failed {
					failedUpdate[ev.WID] = true
				}
			}
			capR, useR, _, err := cl.Rmgr.Manager.GetNodeResourceInfo(cl.Ctx(), node, nil, false)
			if err != nil {
				panic(err)
			}
			c.Cap, c.Usage = nodeResOf(capR["cpumem"]), nodeResOf(useR["cpumem"])
			for i, w := range live() {
				id := fmt.Sprintf("w%02d", i) // ordinal instead of the random workload id
				wr := wresOf(w.Resources["cpumem"])
				c.WS[id] = wr
				if gone[w.ID] {
					c.Gone = append(c.Gone, id)
					if failedUpdate[w.ID] {
						c.Impl.Tried = append(c.Impl.Tried, id)
					}
				}
				ct, ok := cl.Hub.Get(w.ID)
				if !ok || gone[w.ID] {
					continue
				}
				e := engOf(ct.EngineParams["cpumem"])
				if len(wr.CM) == 0 {
					c.Impl.Out[id] = e
				} else {
					c.Impl.Bound[id] = e
				}
			}
			out.Emit(c)
		}
		if seq%3 != 0 { // engine error during remap: one unbound workload's container vanished / its update fails at once
			mk := func(count int, req resourcetypes.RawParams) {
				ch, err := cl.C.CreateWorkload(cl.Ctx(), &coretypes.DeployOptions{
					Name: "app", Entrypoint: &coretypes.Entrypoint{Name: "web"}, Podname: "p32", Image: "img", Count: count,
					DeployStrategy: "AUTO", IgnorePull: true, NodeFilter: &coretypes.NodeFilter{Podname: "p32", Includes: []string{node}},
					Resources: resourcetypes.Resources{"cpumem": req}})
				if err == nil {
					for range ch {
					}
				}
			}
			for k := r.Range(3, 5); k > 0; k-- { // unbound workloads with different limits
				mk(1, resourcetypes.RawParams{"memory-request": int64(1 << 26), "cpu-request": 0.5,
					"cpu-limit": hx.Pick(r, 0.0, 1.0, 3.0), "memory-limit": hx.Pick(r, int64(0), 256<<20, 4<<30)})
			}
			emit("create")
			ws := live()
			if len(ws) >= 3 {
				victim := ws[r.Intn(len(ws))].ID
				cl.Quiesce()
				if slow {
					// every engine update now takes a while and watches its context; the victim's fails at once:
					// the others are still pending when the error is seen
					cl.Hub.UpdateControl().Set(60*time.Millisecond, victim)
					defer cl.Hub.UpdateControl().Set(0)
				} else {
					cl.Hub.Delete(victim)
				}
				gone[victim] = true
				cl.ResetTrace()
				// a binding change: the free shared cores shrink, every other unbound workload must be re-pinned
				mk(1, resourcetypes.RawParams{"memory-request": int64(1 << 26), "cpu-request": 1.0, "cpu-bind": true})
				emit("engine-error")
				cl.ResetTrace()
				mk(1, resourcetypes.RawParams{"memory-request": int64(1 << 26), "cpu-request": 1.0, "cpu-bind": true})
				emit("engine-error")
			}
			cl.Hub.UpdateControl().Set(0)
			continue
		}
		nops := r.Range(3, 7)
		for o := 0; o < nops; o++ {
			ws := live()
			x := r.Intn(100)
			switch {
			case len(ws) == 0 || x < 45:
				bind := r.Chance(50)
				req := resourcetypes.RawParams{"memory-request": int64(1 << 26), "cpu-bind": bind,
					"cpu-request": hx.Pick(r, 1.0, 0.5, 1.5, 0.3)}
				if !bind && r.Chance(40) {
					req["cpu-request"] = 0.0
				}
				if !bind {
					req["cpu-limit"] = hx.Pick(r, 0.0, 2.0, 3.0)
					req["memory-limit"] = hx.Pick(r, int64(0), 256<<20, 4<<30)
				}
				ch, err := cl.C.CreateWorkload(cl.Ctx(), &coretypes.DeployOptions{
					Name: "app", Entrypoint: &coretypes.Entrypoint{Name: "web"}, Podname: "p32", Image: "img", Count: r.Range(1, 2),
					DeployStrategy: "AUTO", IgnorePull: true, NodeFilter: &coretypes.NodeFilter{Podname: "p32", Includes: []string{node}},
					Resources: resourcetypes.Resources{"cpumem": req}})
				if err == nil {
					for range ch {
					}
				}
				emit("create")
			case x < 70:
				ch, err := cl.C.RemoveWorkload(cl.Ctx(), []string{ws[r.Intn(len(ws))].ID}, true)
				if err == nil {
					for range ch {
					}
				}
				emit("remove")
			default:
				w := ws[r.Intn(len(ws))]
				bound := len(wresOf(w.Resources["cpumem"]).CM) > 0
				req := resourcetypes.RawParams{}
				switch r.Intn(3) {
				case 0: // change the binding
					req["cpu-bind"] = !bound
					if !bound && wresOf(w.Resources["cpumem"]).CR == 0 {
						req["cpu-request"] = 1.0
					}
				case 1:
					req["keep-cpu-bind"] = true
					req["cpu-request"] = hx.Pick(r, 0.5, 1.0, -0.5)
				default:
					req["keep-cpu-bind"] = true
					req["memory-request"] = int64(1 << 20)
				}
				_ = cl.C.ReallocResource(cl.Ctx(), &coretypes.ReallocOptions{ID: w.ID, Resources: resourcetypes.Resources{"cpumem": req}})
				emit("realloc")
			}
		}
	}
}
