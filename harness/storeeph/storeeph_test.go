// Correspondence harness for C26 (ephemeral registrations): schedules of register /
// deregister / lapse / wait-one-heartbeat-interval for up to three registrants on one key, run
// against the real meta.ETCD.StartEphemeral (embedded etcd; a lapse is injected by revoking the
// lease attached to the key) and the real redis.Rediaron.StartEphemeral (one miniredis per case;
// a lapse is injected by FastForward beyond every TTL).  Registrants are "fast" (heartbeat every
// interval/3, they tick during a wait) or "slow" (they never tick during a case).
package storeeph

import (
	"bufio"
	"context"
	"encoding/json"
	"errors"
	"fmt"
	"os"
	"strings"
	"sync"
	"testing"
	"time"

	"verifharness/hx"

	"github.com/alicebob/miniredis/v2"
	goredis "github.com/go-redis/redis/v8"
	"github.com/projecteru2/core/store/etcdv3/embedded"
	"github.com/projecteru2/core/store/etcdv3/meta"
	redisstore "github.com/projecteru2/core/store/redis"
	"github.com/projecteru2/core/types"
	clientv3 "go.etcd.io/etcd/client/v3"
)

const nRegs = 3

type event struct {
	Ev  string `json:"ev"`
	P   int    `json:"p"`
	Q   int    `json:"q,omitempty"` // second registrant of a "race"
	Cls string `json:"cls,omitempty"`
}

// ---- gate: holds concurrent registrations at their write (etcd Put / Txn.Commit) until both arrived,
// so that a check-then-write registration is exposed; an atomic create-if-absent is unaffected.
type raceKey struct{}

type barrier struct {
	mu      sync.Mutex
	n, seen int
	ch      chan struct{}
}

func newBarrier(n int) *barrier { return &barrier{n: n, ch: make(chan struct{})} }

func (b *barrier) wait() {
	b.mu.Lock()
	b.seen++
	if b.seen == b.n {
		close(b.ch)
	}
	b.mu.Unlock()
	select {
	case <-b.ch:
	case <-time.After(700 * time.Millisecond):
	}
}

func gate(ctx context.Context) {
	if b, ok := ctx.Value(raceKey{}).(*barrier); ok {
		b.wait()
	}
}

type gateKV struct{ clientv3.KV }

func (g *gateKV) Put(ctx context.Context, key, val string, opts ...clientv3.OpOption) (*clientv3.PutResponse, error) {
	gate(ctx)
	return g.KV.Put(ctx, key, val, opts...)
}

func (g *gateKV) Txn(ctx context.Context) clientv3.Txn { return &gateTxn{Txn: g.KV.Txn(ctx), ctx: ctx} }

type gateTxn struct {
	clientv3.Txn
	ctx context.Context
}

func (t *gateTxn) If(cs ...clientv3.Cmp) clientv3.Txn   { t.Txn = t.Txn.If(cs...); return t }
func (t *gateTxn) Then(ops ...clientv3.Op) clientv3.Txn { t.Txn = t.Txn.Then(ops...); return t }
func (t *gateTxn) Else(ops ...clientv3.Op) clientv3.Txn { t.Txn = t.Txn.Else(ops...); return t }
func (t *gateTxn) Commit() (*clientv3.TxnResponse, error) {
	gate(t.ctx)
	return t.Txn.Commit()
}

type obs struct {
	R        string `json:"r"`
	Key      bool   `json:"key"`
	TTL      string `json:"ttl"`
	Notified []bool `json:"notified"`
}

type kase struct {
	ID     string           `json:"id"`
	Kind   string           `json:"kind"`
	Events []event          `json:"events"`
	Impl   map[string][]obs `json:"impl,omitempty"`
}

type starter func(ctx context.Context, path string, hb time.Duration) (<-chan struct{}, func(), error)

type backend struct {
	start      starter
	fast, slow time.Duration
	wait       time.Duration
	lapse      func()
	look       func() (bool, string)
	// pollNotify: under machine load a keep-alive tick can be late; a wait is extended (bounded) until
	// the registrants whose lease the harness revoked have been notified
	pollNotify bool
}

func runSchedule(ctx context.Context, b *backend, path string, evs []event) []obs {
	expiry := make([]<-chan struct{}, nRegs)
	stop := make([]func(), nRegs)
	out := []obs{}
	creator, creatorFast := -1, false
	lapsedFast := map[int]bool{}
	closed := func(p int) bool {
		select {
		case <-expiry[p]:
			return true
		default:
			return false
		}
	}
	for _, e := range evs {
		o := obs{R: "-"}
		switch e.Ev {
		case "reg":
			hb := b.fast
			if e.Cls == "slow" {
				hb = b.slow
			}
			ex, st, err := b.start(ctx, path, hb)
			switch {
			case err == nil:
				expiry[e.P], stop[e.P] = ex, st
				o.R = "ok"
				creator, creatorFast = e.P, e.Cls != "slow"
				delete(lapsedFast, e.P)
			case errors.Is(err, types.ErrKeyExists):
				o.R = "exists"
			default:
				o.R = "other:" + err.Error()
			}
		case "race":
			// two registrations at the same time; at most one may succeed
			hb := b.fast
			if e.Cls == "slow" {
				hb = b.slow
			}
			rctx := context.WithValue(ctx, raceKey{}, newBarrier(2))
			type rr struct {
				ex  <-chan struct{}
				st  func()
				err error
			}
			res := make([]rr, 2)
			var wg sync.WaitGroup
			for i := range res {
				i := i
				wg.Add(1)
				go func() {
					defer wg.Done()
					res[i].ex, res[i].st, res[i].err = b.start(rctx, path, hb)
				}()
			}
			wg.Wait()
			ids := []int{e.P, e.Q}
			won := []int{}
			other := ""
			for i, r := range res {
				switch {
				case r.err == nil:
					expiry[ids[i]], stop[ids[i]] = r.ex, r.st
					won = append(won, ids[i])
					creator, creatorFast = ids[i], e.Cls != "slow"
					delete(lapsedFast, ids[i])
				case !errors.Is(r.err, types.ErrKeyExists):
					other = "other:" + r.err.Error()
				}
			}
			switch {
			case other != "":
				o.R = other
			case len(won) == 2:
				o.R = "win:both"
			case len(won) == 1:
				o.R = fmt.Sprintf("win:%d", won[0])
			default:
				o.R = "win:none"
			}
		case "dereg":
			if stop[e.P] != nil {
				stop[e.P]()
			}
			expiry[e.P], stop[e.P] = nil, nil
			delete(lapsedFast, e.P)
			if creator == e.P {
				creator = -1
			}
		case "lapse":
			if present, _ := b.look(); present && creator >= 0 && creatorFast {
				lapsedFast[creator] = true
			}
			creator = -1
			b.lapse()
		case "wait":
			time.Sleep(b.wait)
			if b.pollNotify {
				for end := time.Now().Add(4 * time.Second); time.Now().Before(end); {
					pending := false
					for p := range lapsedFast {
						if expiry[p] != nil && !closed(p) {
							pending = true
						}
					}
					if !pending {
						break
					}
					time.Sleep(100 * time.Millisecond)
				}
			}
		}
		o.Key, o.TTL = b.look()
		o.Notified = make([]bool, nRegs)
		for p := 0; p < nRegs; p++ {
			if expiry[p] != nil {
				select {
				case <-expiry[p]:
					o.Notified[p] = true
				default:
				}
			}
		}
		out = append(out, o)
	}
	for p := 0; p < nRegs; p++ {
		if stop[p] != nil {
			stop[p]()
		}
	}
	return out
}

type env struct {
	etcd *meta.ETCD
	cli  *clientv3.Client
}

func (e *env) runCase(ctx context.Context, k *kase) {
	k.Impl = map[string][]obs{}
	path := "/eph/" + k.ID
	eb := &backend{start: e.etcd.StartEphemeral, fast: 3 * time.Second, slow: 90 * time.Second, wait: 1300 * time.Millisecond, pollNotify: true}
	eb.lapse = func() {
		resp, err := e.cli.Get(ctx, path)
		if err == nil && len(resp.Kvs) == 1 && resp.Kvs[0].Lease != 0 {
			_, _ = e.cli.Revoke(ctx, clientv3.LeaseID(resp.Kvs[0].Lease))
		}
	}
	eb.look = func() (bool, string) {
		resp, err := e.cli.Get(ctx, path)
		if err != nil || len(resp.Kvs) != 1 {
			return false, "-"
		}
		ttl, err := e.cli.TimeToLive(ctx, clientv3.LeaseID(resp.Kvs[0].Lease))
		if err != nil {
			return true, "?"
		}
		if ttl.GrantedTTL < 30 {
			return true, "short"
		}
		return true, "long"
	}
	k.Impl["etcd"] = runSchedule(ctx, eb, path, k.Events)
	_, _ = e.cli.Delete(ctx, path)

	mr, err := miniredis.Run()
	if err != nil {
		panic(err)
	}
	defer mr.Close()
	cfg := types.Config{MaxConcurrency: 64}
	cfg.Redis = types.RedisConfig{Addr: mr.Addr()}
	// no automatic command retries by go-redis (a re-sent SETNX whose first reply was late would
	// report "exists" to the registrant that in fact created the key)
	rcli := goredis.NewClient(&goredis.Options{Addr: mr.Addr(), MaxRetries: -1, ReadTimeout: 10 * time.Second,
		WriteTimeout: 10 * time.Second, PoolTimeout: 15 * time.Second})
	r, err := redisstore.VerifNewWithClient(rcli, cfg)
	if err != nil {
		panic(err)
	}
	defer r.TerminateEmbededStorage()
	rb := &backend{start: r.StartEphemeral, fast: 150 * time.Millisecond, slow: 90 * time.Second, wait: 220 * time.Millisecond}
	rb.lapse = func() { mr.FastForward(200 * time.Second) }
	rb.look = func() (bool, string) {
		if !mr.Exists(path) {
			return false, "-"
		}
		if mr.TTL(path) < 30*time.Second {
			return true, "short"
		}
		return true, "long"
	}
	k.Impl["redis"] = runSchedule(ctx, rb, path, k.Events)
}

func genCase(r *hx.Rng, id string) *kase {
	k := &kase{ID: id, Kind: "eph"}
	regd := make([]bool, nRegs)
	n := r.Range(3, 9)
	waits := 0
	for len(k.Events) < n {
		w := r.Intn(100)
		switch {
		case w < 36:
			p := r.Intn(nRegs)
			if regd[p] {
				continue
			}
			cls := "fast"
			if r.Chance(30) {
				cls = "slow"
			}
			regd[p] = true
			k.Events = append(k.Events, event{Ev: "reg", P: p, Cls: cls})
		case w < 46:
			p, q := r.Intn(nRegs), r.Intn(nRegs)
			if p == q || regd[p] || regd[q] {
				continue
			}
			// the model learns the winner from the observation; both count as registered for the
			// generator (deregistering the loser is a no-op)
			regd[p], regd[q] = true, true
			k.Events = append(k.Events, event{Ev: "race", P: p, Q: q, Cls: "fast"})
		case w < 58:
			p := r.Intn(nRegs)
			if !regd[p] {
				continue
			}
			regd[p] = false
			k.Events = append(k.Events, event{Ev: "dereg", P: p})
		case w < 80:
			k.Events = append(k.Events, event{Ev: "lapse"})
		default:
			if waits >= 2 {
				continue
			}
			waits++
			k.Events = append(k.Events, event{Ev: "wait"})
		}
	}
	k.Events = append(k.Events, event{Ev: "wait"})
	return k
}

func corpus() []*kase {
	return []*kase{
		// D19: lapse, another registrant takes over, the first one refreshes and deletes the other's key
		{ID: "corpus-takeover", Kind: "eph", Events: []event{{Ev: "reg", P: 0, Cls: "fast"}, {Ev: "lapse"}, {Ev: "reg", P: 1, Cls: "slow"}, {Ev: "wait"}, {Ev: "dereg", P: 0}, {Ev: "wait"}}},
		{ID: "corpus-race", Kind: "eph", Events: []event{{Ev: "race", P: 0, Q: 1, Cls: "fast"}, {Ev: "wait"}, {Ev: "dereg", P: 0}, {Ev: "dereg", P: 1}, {Ev: "wait"}}},
		{ID: "corpus-race-after-lapse", Kind: "eph", Events: []event{{Ev: "reg", P: 0, Cls: "fast"}, {Ev: "lapse"}, {Ev: "race", P: 1, Q: 2, Cls: "fast"}, {Ev: "wait"}}},
		{ID: "corpus-race-taken", Kind: "eph", Events: []event{{Ev: "reg", P: 2, Cls: "slow"}, {Ev: "race", P: 0, Q: 1, Cls: "fast"}, {Ev: "wait"}}},
		{ID: "corpus-lapse-alone", Kind: "eph", Events: []event{{Ev: "reg", P: 0, Cls: "fast"}, {Ev: "lapse"}, {Ev: "wait"}}},
		{ID: "corpus-two-fast", Kind: "eph", Events: []event{{Ev: "reg", P: 0, Cls: "fast"}, {Ev: "lapse"}, {Ev: "reg", P: 1, Cls: "fast"}, {Ev: "wait"}}},
		{ID: "corpus-handover", Kind: "eph", Events: []event{{Ev: "reg", P: 0, Cls: "fast"}, {Ev: "reg", P: 1, Cls: "fast"}, {Ev: "wait"}, {Ev: "dereg", P: 0}, {Ev: "reg", P: 1, Cls: "fast"}, {Ev: "wait"}}},
		{ID: "corpus-slow-lapse", Kind: "eph", Events: []event{{Ev: "reg", P: 2, Cls: "slow"}, {Ev: "lapse"}, {Ev: "reg", P: 0, Cls: "fast"}, {Ev: "wait"}, {Ev: "dereg", P: 2}, {Ev: "wait"}}},
	}
}

func TestGen(t *testing.T) {
	ctx := context.Background()
	cfg := types.EtcdConfig{Machines: []string{"127.0.0.1:2379"}, Prefix: "/verifeph", LockPrefix: "/verifeph-lock"}
	et, err := meta.NewETCD(cfg, t)
	if err != nil {
		t.Fatal(err)
	}
	e := &env{etcd: et, cli: embedded.NewCluster(t, cfg.Prefix).RandClient()}
	e.cli.KV = &gateKV{KV: e.cli.KV}
	out := hx.OpenOut()
	defer out.Close()

	cases := []*kase{}
	if rp := os.Getenv("VERIF_REPLAY"); rp != "" {
		f, err := os.Open(rp)
		if err != nil {
			t.Fatal(err)
		}
		defer f.Close()
		sc := bufio.NewScanner(f)
		sc.Buffer(make([]byte, 1<<20), 1<<26)
		for sc.Scan() {
			k := &kase{}
			if json.Unmarshal(sc.Bytes(), k) == nil && len(k.Events) > 0 {
				k.Impl = nil
				cases = append(cases, k)
			}
		}
	} else {
		cases = append(cases, corpus()...)
		n := hx.EnvInt("VERIF_CASES", 40)
		seed := hx.Seed()
		for i := 0; i < n; i++ {
			cases = append(cases, genCase(hx.NewRng(seed*7919+uint64(i)), fmt.Sprintf("s%d-%d", seed, i)))
		}
	}
	par := hx.EnvInt("VERIF_PAR", 24)
	sem := make(chan struct{}, par)
	var wg sync.WaitGroup
	for _, k := range cases {
		k := k
		wg.Add(1)
		sem <- struct{}{}
		go func() {
			defer wg.Done()
			defer func() { <-sem }()
			// infrastructure failures (embedded etcd timing out under machine load) say nothing about
			// the code: re-run the case, drop it if it keeps failing
			for attempt := 0; attempt < 3; attempt++ {
				kind, msg := hx.Guard(120*time.Second, func() { e.runCase(ctx, k) })
				infra := kind != ""
				for _, os := range k.Impl {
					for _, o := range os {
						if strings.HasPrefix(o.R, "other:") {
							infra = true
						}
					}
				}
				if !infra {
					return
				}
				_ = msg
				k.ID = fmt.Sprintf("%s-r%d", strings.SplitN(k.ID, "-r", 2)[0], attempt+1)
			}
			k.Events, k.Impl = nil, nil
		}()
	}
	wg.Wait()
	for _, k := range cases {
		if len(k.Events) > 0 {
			out.Emit(k)
		}
	}
}
