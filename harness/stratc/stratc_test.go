//go:build verif

// Cluster-level stream for C01–C03: the strategy input is assembled by the real
// Calcium.doGetDeployStrategy (capacities from the real resource manager, counts from the real deploy
// status incl. in-progress markers) inside a real CreateWorkload over embedded etcd (ckit).  The harness
// reads the same capacities and counts through the raw collaborators right before the call and records
// how many instances each node actually received; the oracle evaluates the C01/C02/C03 specification on
// that (candidate order is Go map order, so plans are compared through the spec, not for equality).
package stratc

import (
	"errors"
	"fmt"
	"math"
	"sort"
	"strings"
	"testing"

	"verifharness/ckit"
	"verifharness/hx"

	resourcetypes "github.com/projecteru2/core/resource/types"
	"github.com/projecteru2/core/strategy"
	"github.com/projecteru2/core/types"
)

type info struct {
	N     string `json:"n"`
	U     int64  `json:"u"`
	R     int64  `json:"r"`
	Cap   int    `json:"cap"`
	Count int    `json:"count"`
}

type kase struct {
	ID        string         `json:"id"`
	Strategy  string         `json:"strategy"`
	Need      int            `json:"need"`
	Limit     int            `json:"limit"`
	Total     int            `json:"total"`
	Infos     []info         `json:"infos"`
	Unordered bool           `json:"unordered"`
	Impl      map[string]any `json:"impl"`
}

const fp = 1 << 20

func errClass(err error) string {
	switch {
	case errors.Is(err, types.ErrInsufficientResource):
		return "insufficient"
	case errors.Is(err, types.ErrInsufficientCapacity):
		return "insufficient-capacity"
	case errors.Is(err, types.ErrAlreadyFilled):
		return "already-filled"
	case errors.Is(err, types.ErrInvaildDeployStrategy):
		return "invalid-strategy"
	case errors.Is(err, types.ErrInvaildDeployCount):
		return "invalid-count"
	}
	return "other:" + err.Error()
}

func request(mem int64) resourcetypes.Resources {
	return resourcetypes.Resources{"cpumem": resourcetypes.RawParams{"memory-request": mem}}
}

func TestGen(t *testing.T) {
	seed := hx.Seed()
	r := hx.NewRng(seed)
	nworlds := hx.EnvInt("VERIF_CASES", 6)
	out := hx.OpenOut()
	defer out.Close()
	id := 0
	envErrors := 0
	const unit = int64(64 << 20)
	for w := 0; w < nworlds; w++ {
		cl := ckit.NewCluster(t, ckit.Options{})
		cl.Wipe()
		pod := fmt.Sprintf("p%d", w)
		cl.AddPod(pod)
		nn := r.Range(2, 6)
		names := []string{}
		for i := 0; i < nn; i++ {
			name := fmt.Sprintf("w%dn%d", w, i)
			names = append(names, name)
			mem := int64(r.Range(2, 9)) * unit
			if r.Chance(30) {
				mem = int64(r.Range(1, 2)) * unit
			}
			cl.AddNode(ckit.NodeSpec{Name: name, Pod: pod, CPU: 4, Memory: mem})
		}
		app := fmt.Sprintf("app%d", w)
		steps := r.Range(6, 10)
		for s := 0; s < steps; s++ {
			strat := hx.Pick(r, strategy.Auto, strategy.Auto, strategy.Global, strategy.Drained, strategy.Each, strategy.Fill)
			memReq := hx.Pick(r, int64(0), unit, unit, 2*unit)
			need := r.Range(1, 6)
			limit := hx.Pick(r, 0, 0, 1, 2, 3, nn)
			if memReq == 0 {
				need = r.Range(1, 3) // unlimited capacity: keep the cluster small
			}
			req := request(memReq)
			caps, total, err := cl.Rmgr.Manager.GetNodesDeployCapacity(cl.Ctx(), names, req)
			if err != nil {
				t.Fatal(err)
			}
			status, err := cl.Store.Store.GetDeployStatus(cl.Ctx(), app, "web")
			if err != nil {
				t.Fatal(err)
			}
			infos := []info{}
			for n, c := range caps {
				infos = append(infos, info{N: n, U: int64(math.Round(c.Usage * fp)), R: int64(math.Round(c.Rate * fp)), Cap: c.Capacity, Count: status[n]})
			}
			sort.Slice(infos, func(i, j int) bool { return infos[i].N < infos[j].N })
			k := &kase{ID: fmt.Sprintf("c%d-%d", seed, id), Strategy: strat, Need: need, Limit: limit, Total: total, Infos: infos, Unordered: true}
			id++
			plan := map[string]int{}
			var firstErr error
			ch, err := cl.C.CreateWorkload(cl.Ctx(), &types.DeployOptions{
				Name: app, Entrypoint: &types.Entrypoint{Name: "web"}, Podname: pod, Image: "img",
				Count: need, DeployStrategy: strat, NodesLimit: limit, IgnorePull: true,
				NodeFilter: &types.NodeFilter{Podname: pod}, Resources: req,
			})
			if err != nil {
				firstErr = err
			} else {
				for m := range ch {
					if m.Error != nil {
						if firstErr == nil {
							firstErr = m.Error
						}
						continue
					}
					plan[m.Nodename]++
				}
			}
			cl.Quiesce()
			// infrastructure errors of the embedded etcd under load (request timed out, context deadline …) say
			// nothing about the strategy: drop the case (counted) and rebuild the world state from scratch next step
			if firstErr != nil && strings.HasPrefix(errClass(firstErr), "other:") {
				envErrors++
				if envErrors > 20 {
					t.Fatalf("too many infrastructure errors: %v", firstErr)
				}
				continue
			}
			if firstErr != nil && len(plan) == 0 {
				k.Impl = map[string]any{"err": errClass(firstErr)}
			} else if firstErr != nil {
				k.Impl = map[string]any{"err": "partial:" + errClass(firstErr)}
			} else {
				if strat == strategy.Fill { // FILL records zero entries for nodes already at the level: not observable here
					k.Impl = map[string]any{"ok": plan, "nozero": true}
				} else {
					k.Impl = map[string]any{"ok": plan}
				}
			}
			out.Emit(k)
		}
		cl.Close()
	}
}
